(* Layout/LineBreakProofs.v -- C11: the greedy breaker of Layout/LineBreak.v meets the
   specification of Layout/LineBreakSpec.v for all inputs, and is the only division
   that does. *)
From Verif Require Import Layout.LineBreak Layout.LineBreakSpec.
From Coq Require Import List ZArith QArith Qminmax Qabs Bool Lia Lqa.
Import ListNotations.
Open Scope Z_scope.

(* ------------------------------------------------------------------ segmentation *)
Section Seg.
Variable cut : list item -> list item -> bool.

Lemma seg_concat : forall l pre cur, concat (seg cut pre cur l) = rev cur ++ l.
Proof.
  induction l as [|x r IH]; intros pre cur; simpl.
  - destruct cur; simpl; [reflexivity|]. now rewrite !app_nil_r.
  - destruct cur as [|c0 c].
    + rewrite IH. reflexivity.
    + destruct (cut pre (x :: r)); simpl.
      * rewrite IH. reflexivity.
      * rewrite IH. simpl. now rewrite <- app_assoc.
Qed.

Lemma seg_nonempty : forall l pre cur, Forall (fun u => u <> []) (seg cut pre cur l).
Proof.
  induction l as [|x r IH]; intros pre cur; simpl.
  - destruct cur as [|c0 c]; constructor; [|constructor].
    simpl. intros H. apply app_eq_nil in H. destruct H; discriminate.
  - destruct cur as [|c0 c]; [apply IH|].
    destruct (cut pre (x :: r)); [|apply IH].
    constructor; [|apply IH].
    simpl. intros H. apply app_eq_nil in H. destruct H; discriminate.
Qed.

(* every boundary between two consecutive pieces is a cut position *)
Lemma seg_boundary : forall l pre cur pre0 a b,
  pre = cur ++ pre0 -> seg cut pre cur l = a ++ b -> a <> [] -> b <> [] ->
  cut (rev (concat a) ++ pre0) (concat b) = true.
Proof.
  induction l as [|x r IH]; intros pre cur pre0 a b Hpre Hseg Ha Hb.
  - exfalso. apply (f_equal (@length _)) in Hseg. rewrite app_length in Hseg.
    destruct a; [congruence|]. destruct b; [congruence|].
    destruct cur; simpl in Hseg; lia.
  - cbn [seg] in Hseg. destruct cur as [|c0 c].
    + simpl in Hpre. subst pre.
      apply (IH (x :: pre0) [x] pre0 a b); auto.
    + remember (c0 :: c) as cur eqn:Ecur.
      assert (Hseg' : (if cut pre (x :: r) then rev cur :: seg cut (x :: pre) [x] r
                       else seg cut (x :: pre) (x :: cur) r) = a ++ b).
      { subst cur. exact Hseg. }
      clear Hseg. destruct (cut pre (x :: r)) eqn:Hc.
      * destruct a as [|a1 a']; [congruence|].
        rewrite <- app_comm_cons in Hseg'. injection Hseg' as Ha1 Hrest.
        destruct a' as [|a2 a''].
        -- rewrite app_nil_l in Hrest. subst b a1. rewrite seg_concat.
           cbn [concat rev app]. rewrite app_nil_r, rev_involutive. rewrite <- Hpre. exact Hc.
        -- assert (E : cut (rev (concat (a2 :: a'')) ++ pre) (concat b) = true).
           { apply (IH (x :: pre) [x] pre (a2 :: a'') b); auto. discriminate. }
           subst a1. cbn [concat]. cbn [concat] in E. rewrite rev_app_distr, rev_involutive.
           rewrite <- app_assoc. rewrite <- Hpre. exact E.
      * apply (IH (x :: pre) (x :: cur) pre0 a b); auto.
        rewrite Hpre. reflexivity.
Qed.

Lemma seg_head : forall l pre cur, cur <> [] ->
  exists t rest, seg cut pre cur l = (rev cur ++ t) :: rest.
Proof.
  induction l as [|x r IH]; intros pre cur Hc.
  - cbn [seg]. destruct cur; [congruence|]. exists [], []. now rewrite app_nil_r.
  - cbn [seg]. destruct cur as [|c0 c]; [congruence|].
    destruct (cut pre (x :: r)).
    + exists [], (seg cut (x :: pre) [x] r). now rewrite app_nil_r.
    + destruct (IH (x :: pre) (x :: c0 :: c)) as [t [rest E]]; [discriminate|].
      exists (x :: t), rest. rewrite E. cbn [rev]. now rewrite <- app_assoc.
Qed.

(* ... and there is no cut position strictly inside a piece: the pieces are exactly what
   lies between consecutive cut positions *)
Lemma seg_inside : forall l pre cur pre0 a u b x y,
  pre = cur ++ pre0 -> seg cut pre cur l = a ++ u :: b -> u = x ++ y -> y <> [] ->
  (a = [] -> exists x', x = rev cur ++ x' /\ (cur = [] -> x' <> [])) ->
  (a <> [] -> x <> []) ->
  cut (rev x ++ rev (concat a) ++ pre0) (y ++ concat b) = false.
Proof.
  induction l as [|z r IH]; intros pre cur pre0 a u b x y Hpre Hseg Hu Hy Ha0 Ha1.
  - exfalso. cbn [seg] in Hseg. destruct cur as [|c0 c].
    + destruct a; discriminate.
    + destruct a as [|a1 a'].
      * cbn [app] in Hseg. injection Hseg as Hu' Hb.
        destruct (Ha0 eq_refl) as [x' [Hx _]]. rewrite Hu, Hx in Hu'.
        apply (f_equal (@length _)) in Hu'. cbn [rev] in Hu'.
        rewrite !app_length in Hu'.
        destruct y; [congruence|]. simpl in Hu'. lia.
      * cbn [app] in Hseg. injection Hseg as _ H. destruct a'; discriminate.
  - cbn [seg] in Hseg. destruct cur as [|c0 c].
    + (* a piece is being started with z *)
      cbn [app] in Hpre. subst pre.
      assert (Hz : a = [] -> exists x'', x = z :: x'').
      { intros Ea. subst a. destruct (Ha0 eq_refl) as [x' [Hx Hx']]. cbn [rev app] in Hx. subst x'.
        destruct (seg_head r (z :: pre0) [z]) as [t [rest E]]; [discriminate|].
        rewrite E in Hseg. cbn [app] in Hseg. injection Hseg as Hu' _.
        rewrite Hu in Hu'. destruct x as [|x1 x'']; [now specialize (Hx' eq_refl)|].
        cbn [rev app] in Hu'. injection Hu' as Hx1 _. subst x1. eauto. }
      apply (IH (z :: pre0) [z] pre0 a u b x y); auto.
      intros Ea. destruct (Hz Ea) as [x'' Hx]. exists x''. split; [exact Hx|discriminate].
    + remember (c0 :: c) as cur eqn:Ecur.
      assert (Hcne : cur <> []) by (subst cur; discriminate).
      assert (Hseg' : (if cut pre (z :: r) then rev cur :: seg cut (z :: pre) [z] r
                       else seg cut (z :: pre) (z :: cur) r) = a ++ u :: b).
      { subst cur. exact Hseg. }
      clear Hseg. destruct (cut pre (z :: r)) eqn:Hc.
      * destruct a as [|a1 a'].
        -- exfalso. cbn [app] in Hseg'. injection Hseg' as Hu' _.
           destruct (Ha0 eq_refl) as [x' [Hx _]]. rewrite Hu, Hx in Hu'.
           apply (f_equal (@length _)) in Hu'. rewrite !app_length in Hu'.
           destruct y; [congruence|]. simpl in Hu'. lia.
        -- cbn [app] in Hseg'. injection Hseg' as Ha1' Hrest. subst a1.
           assert (Hxne : x <> []) by (apply Ha1; discriminate).
           assert (E : cut (rev x ++ rev (concat a') ++ pre) (y ++ concat b) = false).
           { apply (IH (z :: pre) [z] pre a' u b x y); auto.
             intros Ea. subst a'.
             destruct (seg_head r (z :: pre) [z]) as [t [rest E]]; [discriminate|].
             rewrite E in Hrest. cbn [app] in Hrest. injection Hrest as Hu' _.
             rewrite Hu in Hu'. destruct x as [|x1 x'']; [congruence|].
             cbn [rev app] in Hu'. injection Hu' as Hx1 _. subst x1.
             exists x''. split; [reflexivity|discriminate]. }
           cbn [concat]. rewrite rev_app_distr, rev_involutive, <- !app_assoc.
           rewrite <- Hpre. exact E.
      * destruct a as [|a1 a'].
        2:{ apply (IH (z :: pre) (z :: cur) pre0 (a1 :: a') u b x y); auto.
            - rewrite Hpre. reflexivity.
            - intros; discriminate. }
        -- destruct (Ha0 eq_refl) as [x' [Hx _]].
           destruct (seg_head r (z :: pre) (z :: cur)) as [t [rest E]]; [discriminate|].
           rewrite E in Hseg'. cbn [app] in Hseg'. injection Hseg' as Hu' Hb.
           pose proof Hu' as Hu0.
           rewrite Hu, Hx in Hu'. cbn [rev] in Hu'. rewrite <- !app_assoc in Hu'.
           apply app_inv_head in Hu'. cbn [app] in Hu'.
           destruct x' as [|x1 x''].
           ++ (* exactly the position that was examined and found not to be a cut *)
              cbn [app] in Hu'. subst x. rewrite app_nil_r, rev_involutive.
              cbn [concat rev app]. rewrite <- Hpre.
              assert (Ey : y ++ concat b = z :: r).
              { pose proof (seg_concat r (z :: pre) (z :: cur)) as Hcat.
                rewrite E in Hcat. cbn [concat] in Hcat.
                rewrite <- app_assoc in Hcat. apply app_inv_head in Hcat.
                rewrite <- Hu', <- Hb. cbn [app]. now rewrite Hcat. }
              rewrite Ey. exact Hc.
           ++ cbn [app] in Hu'. injection Hu' as Hx1 Ht. subst x1.
              apply (IH (z :: pre) (z :: cur) pre0 [] u b x y); auto.
              ** rewrite Hpre. reflexivity.
              ** rewrite E. cbn [app]. f_equal; [exact Hu0|exact Hb].
              ** intros _. exists x''. split; [|intros; discriminate].
                 rewrite Hx. cbn [rev]. now rewrite <- app_assoc.
Qed.

End Seg.

Lemma units_concat : forall items, concat (units items) = items.
Proof. intros. unfold units. now rewrite seg_concat. Qed.

Lemma units_nonempty : forall items, Forall (fun u => u <> []) (units items).
Proof. intros. apply seg_nonempty. Qed.

Lemma units_boundary : forall items a b, units items = a ++ b -> a <> [] -> b <> [] ->
  cut_b (rev (concat a)) (concat b) = true.
Proof.
  intros items a b H Ha Hb.
  pose proof (seg_boundary cut_b items [] [] [] a b eq_refl H Ha Hb) as E.
  now rewrite app_nil_r in E.
Qed.

Lemma units_inside : forall items a u b x y,
  units items = a ++ u :: b -> u = x ++ y -> x <> [] -> y <> [] ->
  cut_b (rev x ++ rev (concat a)) (y ++ concat b) = false.
Proof.
  intros items a u b x y H Hu Hx Hy.
  pose proof (seg_inside cut_b items [] [] [] a u b x y eq_refl H Hu Hy) as E.
  rewrite app_nil_r in E. apply E.
  - intros _. exists x. split; [reflexivity|]. intros _. exact Hx.
  - intros _. exact Hx.
Qed.

(* ------------------------------------------------------------------ widths *)
Lemma wstep_mono : forall s i, 0 <= iw i -> 0 <= pend s ->
  acc s <= acc (wstep s i) /\ 0 <= pend (wstep s i).
Proof.
  intros s i Hi Hp. destruct i; simpl in *; try (split; lia).
  destruct (collapses m && negb (solid s)); [split; lia|].
  destruct (hangs m); simpl; split; lia.
Qed.

Lemma fold_mono : forall l s, Forall (fun i => 0 <= iw i) l -> 0 <= pend s ->
  acc s <= acc (fold_left wstep l s) /\ 0 <= pend (fold_left wstep l s).
Proof.
  induction l as [|i r IH]; intros s Hl Hp; simpl; [split; lia|].
  inversion Hl as [|? ? Hi Hr]; subst.
  destruct (wstep_mono s i Hi Hp) as [H1 H2].
  destruct (IH (wstep s i) Hr H2) as [H3 H4]. split; lia.
Qed.

Lemma lw_app_mono : forall a b, wf (a ++ b) -> lw a <= lw (a ++ b).
Proof.
  intros a b H. unfold lw, lw_from. rewrite fold_left_app.
  apply Forall_app in H. destruct H as [Ha Hb].
  destruct (fold_mono a (mkW 0 0 false) Ha) as [_ Hp]; [simpl; lia|].
  destruct (fold_mono b _ Hb Hp) as [H _]. exact H.
Qed.

(* ------------------------------------------------------------------ greedy filling *)
Lemma concat_snoc {A} (c : list (list A)) u : concat (c ++ [u]) = concat c ++ u.
Proof. rewrite concat_app. simpl. now rewrite app_nil_r. Qed.

Lemma fill_eq : forall avail av cur u r,
  fill avail av cur (u :: r) =
  if is_nil cur || (lw (concat cur ++ u) <=? av)
  then (if ends_hard u then (cur ++ [u]) :: fill avail avail [] r
        else fill avail av (cur ++ [u]) r)
  else cur :: (if ends_hard u then [u] :: fill avail avail [] r
               else fill avail avail [u] r).
Proof. reflexivity. Qed.

Lemma fill_nil : forall avail av cur,
  fill avail av cur [] = match cur with [] => [] | _ => [cur] end.
Proof. reflexivity. Qed.

Opaque fill.

Lemma fill_concat : forall us avail av cur, concat (fill avail av cur us) = cur ++ us.
Proof.
  induction us as [|u r IH]; intros avail av cur.
  - rewrite fill_nil. destruct cur; simpl; [reflexivity|]. now rewrite !app_nil_r.
  - rewrite fill_eq.
    destruct (is_nil cur || (lw (concat cur ++ u) <=? av)); destruct (ends_hard u); simpl;
      rewrite ?IH; simpl; rewrite <- ?app_assoc; reflexivity.
Qed.

Lemma fill_nonempty : forall us avail av cur, Forall (fun g => g <> []) (fill avail av cur us).
Proof.
  induction us as [|u r IH]; intros avail av cur.
  - rewrite fill_nil. destruct cur; [constructor|constructor; [discriminate|constructor]].
  - rewrite fill_eq. destruct cur as [|c0 c]; cbn [is_nil orb app].
    + destruct (ends_hard u); [constructor; [discriminate|apply IH]|apply IH].
    + destruct (lw (concat (c0 :: c) ++ u) <=? av); destruct (ends_hard u);
        repeat (constructor; try discriminate); apply IH.
Qed.

(* a line being filled shows up as the beginning of the first line produced *)
Lemma fill_head : forall us avail av cur, cur <> [] ->
  exists t rest, fill avail av cur us = (cur ++ t) :: rest.
Proof.
  induction us as [|u r IH]; intros avail av cur Hc.
  - rewrite fill_nil. destruct cur; [congruence|]. exists [], []. now rewrite app_nil_r.
  - rewrite fill_eq. destruct cur as [|c0 c]; [congruence|]. cbn [is_nil orb].
    destruct (lw (concat (c0 :: c) ++ u) <=? av).
    + destruct (ends_hard u).
      * eexists [u], _. reflexivity.
      * destruct (IH avail av ((c0 :: c) ++ [u])) as [t [rest E]].
        { destruct c; discriminate. }
        exists (u :: t), rest. rewrite E. now rewrite <- app_assoc.
    + exists [], (if ends_hard u then [u] :: fill avail avail [] r else fill avail avail [u] r).
      now rewrite app_nil_r.
Qed.

Lemma fill_fits : forall us avail av cur, (cur = [] \/ line_ok av cur) ->
  Fits avail av (fill avail av cur us).
Proof.
  induction us as [|u r IH]; intros avail av cur Hc.
  - rewrite fill_nil. destruct cur; simpl; [exact I|].
    destruct Hc as [Hc|Hc]; [discriminate|]. split; [exact Hc|exact I].
  - rewrite fill_eq.
    assert (Hone : forall a, line_ok a [u]) by (intros; right; reflexivity).
    destruct (is_nil cur || (lw (concat cur ++ u) <=? av)) eqn:Hcond.
    + assert (Hok : line_ok av (cur ++ [u])).
      { destruct cur as [|c0 c]; [right; reflexivity|].
        cbn [is_nil orb] in Hcond. apply Z.leb_le in Hcond. left.
        rewrite concat_snoc. exact Hcond. }
      destruct (ends_hard u).
      * simpl. split; [exact Hok|]. apply IH. now left.
      * apply IH. now right.
    + assert (Hcur : line_ok av cur).
      { destruct Hc as [Hc|Hc]; [subst; discriminate|exact Hc]. }
      simpl. split; [exact Hcur|].
      destruct (ends_hard u).
      * simpl. split; [apply Hone|]. apply IH. now left.
      * apply IH. right. apply Hone.
Qed.

Lemma ends_hard_line_snoc : forall c u, ends_hard_line (c ++ [u]) = ends_hard_line c || ends_hard u.
Proof. intros. unfold ends_hard_line. rewrite existsb_app. simpl. now rewrite orb_false_r. Qed.

Lemma fill_maximal : forall us avail av cur,
  Maximal avail av (fill avail av cur us).
Proof.
  induction us as [|u r IH]; intros avail av cur.
  - rewrite fill_nil. destruct cur; simpl; auto.
  - rewrite fill_eq.
    destruct (is_nil cur || (lw (concat cur ++ u) <=? av)) eqn:Hcond.
    + destruct (ends_hard u) eqn:Hh; [|apply IH].
      simpl. split; [|apply IH].
      destruct (fill avail avail [] r) as [|[|u' g'] rest]; auto.
      left. rewrite ends_hard_line_snoc, Hh. apply orb_true_r.
    + apply orb_false_iff in Hcond. destruct Hcond as [_ Hlt]. apply Z.leb_gt in Hlt.
      destruct (ends_hard u) eqn:Hh.
      * simpl. split; [right; exact Hlt|]. split; [|apply IH].
        destruct (fill avail avail [] r) as [|[|u' g'] rest]; auto.
        left. simpl. now rewrite Hh.
      * cbn [Maximal]. split; [|apply IH].
        destruct (fill_head r avail avail [u]) as [t [rest E]]; [discriminate|].
        rewrite E. simpl. right. exact Hlt.
Qed.

Lemma removelast_snoc {A} (c : list A) u : removelast (c ++ [u]) = c.
Proof. apply removelast_last. Qed.

Lemma fill_forced : forall us avail av cur,
  Forall (fun u => ends_hard u = false) cur ->
  Forced (fill avail av cur us).
Proof.
  unfold Forced.
  induction us as [|u r IH]; intros avail av cur Hc.
  - rewrite fill_nil. destruct cur as [|c0 c]; constructor; [|constructor].
    destruct (exists_last (l := c0 :: c)) as [c' [x E]]; [discriminate|].
    rewrite E in *. rewrite removelast_snoc. apply Forall_app in Hc. tauto.
  - rewrite fill_eq.
    assert (Hcur : Forall (fun u0 => ends_hard u0 = false) (removelast cur)).
    { destruct cur as [|c0 c]; [constructor|].
      destruct (exists_last (l := c0 :: c)) as [c' [x E]]; [discriminate|].
      rewrite E in *. rewrite removelast_snoc. apply Forall_app in Hc. tauto. }
    destruct (is_nil cur || (lw (concat cur ++ u) <=? av)).
    + destruct (ends_hard u) eqn:Hh.
      * constructor; [now rewrite removelast_snoc|]. apply IH. constructor.
      * apply IH. apply Forall_app. split; [exact Hc|]. constructor; [exact Hh|constructor].
    + constructor; [exact Hcur|].
      destruct (ends_hard u) eqn:Hh.
      * constructor; [constructor|]. apply IH. constructor.
      * apply IH. constructor; [exact Hh|constructor].
Qed.

(* ------------------------------------------------------------------ uniqueness *)
Lemma concat_nil_nonempty {A} : forall ls : list (list A),
  Forall (fun g => g <> []) ls -> concat ls = [] -> ls = [].
Proof.
  intros ls H E. destruct ls as [|g r]; [reflexivity|].
  inversion H; subst. simpl in E. apply app_eq_nil in E. destruct E. congruence.
Qed.

Lemma forced_last : forall (c : list lunit) u t,
  Forall (fun x => ends_hard x = false) (removelast (c ++ u :: t)) -> ends_hard u = true -> t = [].
Proof.
  intros c u t H Hh. destruct t as [|t0 t']; [reflexivity|]. exfalso.
  destruct (exists_last (l := t0 :: t')) as [t'' [x E]]; [discriminate|].
  rewrite E in H.
  replace (c ++ u :: t'' ++ [x]) with ((c ++ u :: t'') ++ [x]) in H
    by (rewrite <- app_assoc; reflexivity).
  rewrite removelast_last in H. apply Forall_app in H. destruct H as [_ H].
  inversion H; subst. congruence.
Qed.

Lemma fill_unique : forall us avail av cur ls,
  wf (concat (cur ++ us)) ->
  Forall (fun u => ends_hard u = false) cur ->
  concat ls = cur ++ us -> Forall (fun g => g <> []) ls ->
  (cur <> [] -> exists t r, ls = (cur ++ t) :: r) ->
  Fits avail av ls -> Maximal avail av ls -> Forced ls ->
  ls = fill avail av cur us.
Proof.
  induction us as [|u r0 IH]; intros avail av cur ls Hwf Hcur Hcat Hne Hhead Hfit Hmax Hforced.
  - rewrite fill_nil. rewrite app_nil_r in Hcat. destruct cur as [|c0 c].
    + apply concat_nil_nonempty; assumption.
    + destruct Hhead as [t [r E]]; [discriminate|]. subst ls.
      cbn [concat] in Hcat. rewrite <- app_assoc in Hcat.
      rewrite <- (app_nil_r (c0 :: c)) in Hcat at 2. apply app_inv_head in Hcat.
      apply app_eq_nil in Hcat. destruct Hcat as [Ht Hr]. subst t.
      inversion Hne; subst. rewrite (concat_nil_nonempty r); auto. now rewrite app_nil_r.
  - (* the case of an empty line being started, for any division of u :: r0 *)
    assert (Hstart : forall av' ls', wf (concat (u :: r0)) ->
              concat ls' = u :: r0 -> Forall (fun g => g <> []) ls' ->
              Fits avail av' ls' -> Maximal avail av' ls' -> Forced ls' ->
              ls' = if ends_hard u then [u] :: fill avail avail [] r0
                    else fill avail av' [u] r0).
    { intros av' ls' Hwf' Hcat' Hne' Hfit' Hmax' Hforced'.
      destruct ls' as [|g1 rest]; [discriminate|].
      apply Forall_cons_iff in Hne'. destruct Hne' as [Hg1 Hrest].
      destruct g1 as [|x g1']; [congruence|].
      cbn [concat app] in Hcat'. injection Hcat' as Hx Hcat2. subst x.
      apply Forall_cons_iff in Hforced'. destruct Hforced' as [Hf1 Hfr].
      destruct (ends_hard u) eqn:Hh.
      - assert (g1' = []) by (apply (forced_last [] u g1'); assumption). subst g1'.
        f_equal. simpl in Hcat2.
        destruct Hfit' as [_ Hfit']. destruct Hmax' as [_ Hmax'].
        apply (IH avail avail [] rest);
          [ simpl; simpl in Hwf'; apply Forall_app in Hwf'; tauto
          | constructor | exact Hcat2 | exact Hrest | intros H; congruence
          | exact Hfit' | exact Hmax' | exact Hfr ].
      - apply (IH avail av' [u] (( u :: g1') :: rest));
          [ exact Hwf'
          | constructor; [exact Hh|constructor]
          | simpl; now rewrite Hcat2
          | apply Forall_cons; assumption
          | intros _; exists g1', rest; reflexivity
          | exact Hfit' | exact Hmax'
          | apply Forall_cons; assumption ]. }
    rewrite fill_eq. destruct cur as [|c0 c].
    + cbn [is_nil orb app]. apply Hstart; auto.
    + destruct Hhead as [t [rest E]]; [discriminate|]. subst ls.
      remember (c0 :: c) as cur eqn:Ecur.
      assert (Hnil : is_nil cur = false) by (subst cur; reflexivity).
      rewrite Hnil. cbn [orb].
      cbn [concat] in Hcat. rewrite <- app_assoc in Hcat. apply app_inv_head in Hcat.
      assert (Hwf2 : wf (concat cur ++ concat (u :: r0))).
      { rewrite <- concat_app. exact Hwf. }
      destruct t as [|x t'].
      * (* the division breaks here: by maximality u does not fit *)
        rewrite app_nil_r in *. simpl in Hcat.
        destruct rest as [|g2 rest']; [discriminate|].
        inversion Hne as [|? ? _ Hne2]; subst.
        inversion Hne2 as [|? ? Hg2 _]; subst.
        destruct g2 as [|x g2']; [congruence|].
        assert (x = u) by (cbn [concat app] in Hcat; congruence). subst x.
        cbn [Maximal] in Hmax. destruct Hmax as [Hm Hmax].
        assert (Hnh : ends_hard_line (c0 :: c) = false).
        { unfold ends_hard_line. apply not_true_is_false. intros H.
          apply existsb_exists in H. destruct H as [y [Hy1 Hy2]].
          rewrite Forall_forall in Hcur. rewrite (Hcur y Hy1) in Hy2. discriminate. }
        destruct Hm as [Hm|Hm]; [congruence|].
        apply Z.leb_gt in Hm. rewrite Hm. f_equal.
        destruct Hfit as [_ Hfit]. inversion Hforced; subst.
        apply Hstart; auto.
        apply Forall_app in Hwf2. tauto.
      * (* the division goes on with u: it fits, by monotonicity of the width *)
        assert (x = u) by (cbn [concat app] in Hcat; congruence). subst x.
        cbn [concat app] in Hcat. injection Hcat as Hcat.
        destruct Hfit as [Hok Hfit]. destruct Hok as [Hok|Hok].
        2:{ rewrite app_length in Hok. subst cur. simpl in Hok. lia. }
        assert (Hle : lw (concat cur ++ u) <= av).
        { eapply Z.le_trans; [|exact Hok].
          rewrite concat_app. cbn [concat]. rewrite app_assoc.
          apply lw_app_mono.
          unfold wf in *. rewrite <- Hcat in Hwf.
          rewrite !concat_app in Hwf. cbn [concat] in Hwf. rewrite concat_app in Hwf.
          apply Forall_app in Hwf. destruct Hwf as [Hw1 Hw2].
          apply Forall_app in Hw2. destruct Hw2 as [Hw2 Hw3].
          apply Forall_app in Hw3. destruct Hw3 as [Hw3 _].
          apply Forall_app. split; [apply Forall_app; split; assumption|exact Hw3]. }
        apply Z.leb_le in Hle. rewrite Hle.
        apply Forall_cons_iff in Hforced. destruct Hforced as [Hf1 Hfr].
        apply Forall_cons_iff in Hne. destruct Hne as [Hne1 Hne2].
        destruct (ends_hard u) eqn:Hh.
        -- assert (t' = []).
           { subst cur. apply (forced_last (c0 :: c) u t'); assumption. }
           subst t'.
           f_equal. simpl in Hcat. destruct Hmax as [_ Hmax].
           apply (IH avail avail [] rest);
             [ simpl; apply Forall_app in Hwf2; destruct Hwf2 as [_ Hw];
               cbn [concat] in Hw; apply Forall_app in Hw; tauto
             | constructor | exact Hcat | exact Hne2 | intros H; congruence
             | exact Hfit | exact Hmax | exact Hfr ].
        -- apply (IH avail av (cur ++ [u]) ((cur ++ u :: t') :: rest));
             [ rewrite <- app_assoc; exact Hwf
             | apply Forall_app; split; [exact Hcur|]; constructor; [exact Hh|constructor]
             | cbn [concat]; rewrite <- !app_assoc; cbn [app]; now rewrite Hcat
             | apply Forall_cons; assumption
             | intros _; exists t', rest; now rewrite <- app_assoc
             | split; [left; exact Hok|exact Hfit]
             | exact Hmax
             | apply Forall_cons; assumption ].
Qed.

(* ------------------------------------------------------------------ break_lines *)
Theorem break_partition : forall avail indent items,
  Partition (units items) (break_lines avail indent items).
Proof.
  intros. unfold break_lines. split; [apply fill_concat|apply fill_nonempty].
Qed.

Theorem lines_fit : forall avail indent items,
  Fits avail (avail - indent) (break_lines avail indent items).
Proof. intros. apply fill_fits. now left. Qed.

Theorem greedy_maximal : forall avail indent items,
  Maximal avail (avail - indent) (break_lines avail indent items).
Proof. intros. apply fill_maximal. Qed.

Theorem forced_respected : forall avail indent items,
  Forced (break_lines avail indent items).
Proof. intros. apply fill_forced. constructor. Qed.

Theorem break_unique : forall avail indent items ls,
  wf items -> Partition (units items) ls ->
  Fits avail (avail - indent) ls -> Maximal avail (avail - indent) ls -> Forced ls ->
  ls = break_lines avail indent items.
Proof.
  intros avail indent items ls Hwf [Hcat Hne] Hfit Hmax Hf.
  unfold break_lines. apply fill_unique; auto.
  - simpl. now rewrite units_concat.
  - intros H; congruence.
Qed.

Lemma concat_map_concat {A} : forall ls : list (list (list A)),
  concat (map (@concat A) ls) = concat (concat ls).
Proof.
  induction ls as [|g r IH]; simpl; [reflexivity|]. now rewrite concat_app, IH.
Qed.

Theorem concat_lines : forall avail indent items,
  concat (flat (break_lines avail indent items)) = items.
Proof.
  intros. unfold flat. rewrite concat_map_concat.
  destruct (break_partition avail indent items) as [H _]. rewrite H. apply units_concat.
Qed.

(* every boundary between two lines is a cut position of the item list: a soft wrap
   opportunity or the position right after a forced break *)
Theorem no_forbidden_break : forall avail indent items a b,
  break_lines avail indent items = a ++ b -> a <> [] -> b <> [] ->
  cut_b (rev (concat (concat a))) (concat (concat b)) = true.
Proof.
  intros avail indent items a b E Ha Hb.
  destruct (break_partition avail indent items) as [Hcat Hne].
  rewrite E in Hcat, Hne. rewrite concat_app in Hcat. apply Forall_app in Hne.
  destruct Hne as [Hna Hnb].
  apply (units_boundary items (concat a) (concat b)); [now symmetry| |].
  - destruct a as [|g a']; [congruence|]. inversion Hna; subst.
    destruct g; [congruence|]. discriminate.
  - destruct b as [|g b']; [congruence|]. inversion Hnb; subst.
    destruct g; [congruence|]. discriminate.
Qed.

(* what a cut position is *)
Lemma cut_not_after_open : forall p pre suf, is_open p = true -> cut_b (p :: pre) suf = false.
Proof.
  intros p pre suf Hp. unfold cut_b, allowed_b, forced_b.
  destruct p; try discriminate. simpl.
  destruct suf; simpl; [reflexivity|]. now rewrite andb_false_r.
Qed.

Lemma cut_not_before_close : forall pre s suf, is_close s = true -> cut_b pre (s :: suf) = false.
Proof.
  intros pre s suf Hs. unfold cut_b, allowed_b, forced_b. rewrite Hs. simpl.
  destruct pre; [reflexivity|]. now rewrite andb_false_r.
Qed.

Lemma after_hard_content : forall pre, after_hard pre = true -> content pre = Some Hard.
Proof.
  induction pre as [|i r IH]; simpl; [discriminate|].
  destruct i; try discriminate; auto.
Qed.

(* no break after a space whose white-space forbids wrapping (nowrap, pre), before a word *)
Lemma no_break_in_nowrap : forall pre suf m w x,
  content pre = Some (Space m w) -> content suf = Some (Word x) -> wraps m = false ->
  cut_b pre suf = false.
Proof.
  intros pre suf m w x Hp Hs Hm. unfold cut_b. apply orb_false_iff. split.
  - unfold allowed_b. destruct pre as [|p pre']; [reflexivity|]. destruct suf as [|s suf']; [reflexivity|].
    rewrite Hp, Hs, Hm. simpl. now rewrite andb_false_r.
  - unfold forced_b. destruct suf as [|s suf']; [reflexivity|].
    destruct (after_hard pre) eqn:E; [|now rewrite andb_false_r].
    apply after_hard_content in E. congruence.
Qed.

(* no break between two words that are only separated by inline-box boundaries *)
Lemma no_break_between_words : forall pre suf x y,
  content pre = Some (Word x) -> content suf = Some (Word y) -> cut_b pre suf = false.
Proof.
  intros pre suf x y Hp Hs. unfold cut_b. apply orb_false_iff. split.
  - unfold allowed_b. destruct pre as [|p pre']; [reflexivity|]. destruct suf as [|s suf']; [reflexivity|].
    rewrite Hp, Hs. now rewrite andb_false_r.
  - unfold forced_b. destruct suf as [|s suf']; [reflexivity|].
    destruct (after_hard pre) eqn:E; [|now rewrite andb_false_r].
    apply after_hard_content in E. congruence.
Qed.

(* a cut is a soft wrap opportunity at a wrappable space or around an atomic inline, or
   follows a forced break *)
Lemma cut_inv : forall pre suf, cut_b pre suf = true ->
  (exists m w, content pre = Some (Space m w) /\ solid_before pre = true /\
     ((exists x, content suf = Some (Word x)) /\ wraps m = true \/
      (exists m' x h, content suf = Some (Atomic m' x h) /\ (wraps m || wraps m') = true))) \/
  (exists m x h, content pre = Some (Atomic m x h) /\ wraps m = true /\
     ((exists y, content suf = Some (Word y)) \/ exists m' y h', content suf = Some (Atomic m' y h') /\ wraps m' = true)) \/
  (exists x m y h, content pre = Some (Word x) /\ content suf = Some (Atomic m y h) /\ wraps m = true) \/
  content pre = Some Hard.
Proof.
  intros pre suf H. unfold cut_b in H. apply orb_true_iff in H. destruct H as [H|H].
  - unfold allowed_b in H. destruct pre as [|p pre']; [discriminate|].
    destruct suf as [|s suf']; [discriminate|].
    apply andb_true_iff in H. destruct H as [_ H].
    destruct (content (p :: pre')) as [[x|m w|e|e|m x h| |]|] eqn:Ep; try discriminate;
    destruct (content (s :: suf')) as [[y|m' w'|e'|e'|m' y h'| |]|] eqn:Es; try discriminate.
    + right. right. left. exists x, m', y, h'. auto.
    + left. exists m, w. apply andb_true_iff in H. destruct H as [H1 H2].
      repeat split; auto. left. split; eauto.
    + left. exists m, w. apply andb_true_iff in H. destruct H as [H1 H2].
      repeat split; auto. right. exists m', y, h'. auto.
    + right. left. exists m, x, h. repeat split; auto. left. eauto.
    + right. left. apply andb_true_iff in H. destruct H as [H1 H2].
      exists m, x, h. repeat split; auto. right. exists m', y, h'. auto.
  - unfold forced_b in H. destruct suf as [|s suf']; [discriminate|].
    apply andb_true_iff in H. destruct H as [_ H].
    right. right. right. now apply after_hard_content.
Qed.

(* ------------------------------------------------------------------ trimming *)
Lemma drops_spaces_refl : forall l, drops_spaces l l.
Proof. induction l; constructor; auto. Qed.

Lemma drops_spaces_app : forall l1 t1 l2 t2,
  drops_spaces l1 t1 -> drops_spaces l2 t2 -> drops_spaces (l1 ++ l2) (t1 ++ t2).
Proof. intros l1 t1 l2 t2 H1 H2. induction H1; simpl; auto; constructor; auto. Qed.

Lemma drops_spaces_rev : forall l t, drops_spaces l t -> drops_spaces (rev l) (rev t).
Proof.
  intros l t H. induction H; simpl.
  - constructor.
  - apply drops_spaces_app; [assumption|apply drops_spaces_refl].
  - rewrite <- (app_nil_r (rev t)). apply drops_spaces_app; [assumption|].
    constructor; [assumption|constructor].
Qed.

Lemma drops_spaces_trans : forall a b c, drops_spaces a b -> drops_spaces b c -> drops_spaces a c.
Proof.
  intros a b c H. revert c. induction H; intros c Hc.
  - exact Hc.
  - inversion Hc; subst; constructor; auto.
  - constructor; auto.
Qed.

Lemma drop_lead_drops : forall l, drops_spaces l (drop_lead l).
Proof.
  induction l as [|i r IH]; simpl; [constructor|].
  destruct (stops_trim i) eqn:E; [apply drops_spaces_refl|].
  destruct i; try (constructor; assumption).
  apply ds_drop; [|assumption]. simpl in E. now destruct (collapses m).
Qed.

(* "leading/trailing collapsible spaces": trimming a line only removes collapsible spaces *)
Theorem trim_drops_spaces : forall l, drops_spaces l (trim_line l).
Proof.
  intros l. unfold trim_line.
  apply drops_spaces_trans with (drop_lead l); [apply drop_lead_drops|].
  rewrite <- (rev_involutive (drop_lead l)) at 1.
  apply drops_spaces_rev. apply drop_lead_drops.
Qed.

(* ... and they "take no room": the removed leading spaces do not count in the occupied width *)
Lemma lw_drop_lead : forall l s, solid s = false -> lw_from s (drop_lead l) = lw_from s l.
Proof.
  induction l as [|i r IH]; intros s Hs; simpl; [reflexivity|].
  destruct (stops_trim i) eqn:E; [reflexivity|].
  destruct i; simpl in E; try discriminate; unfold lw_from in *; simpl.
  - destruct (collapses m) eqn:Em; [|discriminate]. rewrite Hs. simpl. apply IH. exact Hs.
  - apply IH. exact Hs.
  - apply IH. exact Hs.
  - apply IH. exact Hs.
  - apply IH. exact Hs.
Qed.

Lemma wstep_space_acc : forall s m w, collapses m = true -> acc (wstep s (Space m w)) = acc s.
Proof.
  intros s m w Hm. simpl. rewrite Hm. cbn [andb]. unfold hangs. rewrite Hm. cbn [orb].
  destruct (negb (solid s)); reflexivity.
Qed.

Lemma lw_drop_trail : forall r s, lw_from s (rev (drop_lead r)) = lw_from s (rev r).
Proof.
  unfold lw_from.
  induction r as [|i r' IH]; intros s; [reflexivity|].
  cbn [drop_lead]. destruct (stops_trim i) eqn:E; [reflexivity|].
  destruct i; cbn [stops_trim] in E; try discriminate; cbn [rev];
    rewrite ?fold_left_app; cbn [fold_left].
  - rewrite wstep_space_acc; [apply IH|]. now destruct (collapses m).
  - cbn [wstep acc]. now rewrite IH.
  - cbn [wstep acc]. now rewrite IH.
  - cbn [wstep]. apply IH.
  - cbn [wstep]. apply IH.
Qed.

(* "leading/trailing collapsible spaces take no room" *)
Theorem trim_takes_no_room : forall l, lw (trim_line l) = lw l.
Proof.
  intros l. unfold trim_line, lw. rewrite lw_drop_trail, rev_involutive.
  apply lw_drop_lead. reflexivity.
Qed.

(* ------------------------------------------------------------------ vertical *)
Local Open Scope Q_scope.

Theorem lines_stack : forall c first y ls, Stacked y (stack c first y ls).
Proof.
  intros c first y ls. revert first y.
  induction ls as [|l r IH]; intros first y; cbn [stack]; [exact I|].
  destruct (phantom l); [apply IH|].
  cbn [Stacked oy oh]. split; [reflexivity|apply IH].
Qed.

Theorem layout_stacked : forall c items, Stacked (y0 c) (layout c items).
Proof. intros. apply lines_stack. Qed.

Lemma strut_height : forall c, strut_bottom c - strut_top c == zq (lh c).
Proof. intros. unfold strut_bottom. ring. Qed.

Definition is_atomic (i : item) := match i with Atomic _ _ _ => true | _ => false end.

Lemma line_extent_contains : forall (l : list item) (tb : Q * Q),
  let r := fold_left (fun tb i => match i with
                                  | Atomic _ _ h => (Qmin (fst tb) (- zq h), Qmax (snd tb) 0)
                                  | _ => tb end) l tb in
  fst r <= fst tb /\ snd tb <= snd r.
Proof.
  intros l. induction l as [|i r IH]; intros tb; simpl; [split; apply Qle_refl|].
  destruct i; try apply IH.
  specialize (IH (Qmin (fst tb) (- zq h), Qmax (snd tb) 0)). simpl in IH.
  destruct IH as [H1 H2]. split.
  - eapply Qle_trans; [exact H1|apply Q.le_min_l].
  - eapply Qle_trans; [apply Q.le_max_l|exact H2].
Qed.

(* each line is at least as tall as line-height ... *)
Theorem line_height_ge_lh : forall c l, zq (lh c) <= line_height c l.
Proof.
  intros c l. unfold line_height, line_extent.
  destruct (line_extent_contains l (strut_top c, strut_bottom c)) as [H1 H2]. simpl in H1, H2.
  rewrite <- (strut_height c).
  apply Qplus_le_compat; [exact H2|]. now apply Qopp_le_compat.
Qed.

(* ... exactly line-height when it holds no atomic inline ... *)
Theorem line_height_no_atomic : forall c l, forallb (fun i => negb (is_atomic i)) l = true ->
  line_height c l == zq (lh c).
Proof.
  intros c l H. unfold line_height, line_extent.
  assert (E : forall tb, fold_left (fun tb i => match i with
                                  | Atomic _ _ h => (Qmin (fst tb) (- zq h), Qmax (snd tb) 0)
                                  | _ => tb end) l tb = tb).
  { induction l as [|i r IH]; intros tb; simpl; [reflexivity|].
    simpl in H. apply andb_true_iff in H. destruct H as [Hi Hr].
    destruct i; try (apply IH; exact Hr). discriminate. }
  rewrite E. simpl. apply strut_height.
Qed.

(* ... and tall enough for every atomic inline it holds, which sits on the baseline *)
Theorem line_extent_atomic : forall c l m w h, In (Atomic m w h) l ->
  fst (line_extent c l) <= - zq h /\ 0 <= snd (line_extent c l).
Proof.
  intros c l m w h. unfold line_extent. generalize (strut_top c, strut_bottom c).
  induction l as [|i r IH]; intros tb Hin; [destruct Hin|].
  destruct Hin as [Hi|Hin].
  - subst i. simpl.
    destruct (line_extent_contains r (Qmin (fst tb) (- zq h), Qmax (snd tb) 0)) as [H1 H2].
    simpl in H1, H2. split.
    + eapply Qle_trans; [exact H1|apply Q.le_min_r].
    + eapply Qle_trans; [apply Q.le_max_r|exact H2].
  - simpl. destruct i; try (apply IH; exact Hin).
Qed.

Theorem line_height_ge_atomic : forall c l m w h, In (Atomic m w h) l ->
  zq h <= line_height c l.
Proof.
  intros c l m w h Hin. unfold line_height.
  destruct (line_extent_atomic c l m w h Hin) as [H1 H2].
  setoid_replace (zq h) with (0 - - zq h) by ring.
  apply Qplus_le_compat; [exact H2|]. now apply Qopp_le_compat.
Qed.

(* the height of a line depends on its atomic inlines only (in their order): this is what
   lets the check evaluate the height of a line of the IMPLEMENTATION from the atomic boxes
   it placed on it, whatever the rest of its partition (Check.C11.vert_ok) *)
Theorem line_height_atomics : forall c l, line_height c l = line_height c (filter is_atomic l).
Proof.
  intros c l. unfold line_height, line_extent.
  assert (E : forall tb,
    fold_left (fun tb i => match i with
                           | Atomic _ _ h => (Qmin (fst tb) (- zq h), Qmax (snd tb) 0)
                           | _ => tb end) l tb =
    fold_left (fun tb i => match i with
                           | Atomic _ _ h => (Qmin (fst tb) (- zq h), Qmax (snd tb) 0)
                           | _ => tb end) (filter is_atomic l) tb).
  { induction l as [|i r IH]; intros tb; [reflexivity|].
    destruct i; simpl; apply IH. }
  rewrite E. reflexivity.
Qed.

(* ... and a placed line shows exactly one atomic box per atomic inline, in order: trimming
   removes spaces only, `walk` emits one FA per Atomic *)
Definition is_fa (f : frag) : bool := match f with FA _ _ => true | FT _ _ => false end.

Lemma drop_lead_atomics : forall l, filter is_atomic (drop_lead l) = filter is_atomic l.
Proof.
  induction l as [|i r IH]; [reflexivity|].
  simpl. destruct (stops_trim i) eqn:Es; [reflexivity|].
  destruct i; simpl in *; try discriminate; try exact IH.
Qed.

Lemma filter_rev : forall (A : Type) (f : A -> bool) (l : list A), filter f (rev l) = rev (filter f l).
Proof.
  intros A f l. induction l as [|a r IH]; [reflexivity|].
  simpl. rewrite filter_app, IH. simpl. destruct (f a); simpl; [reflexivity|apply app_nil_r].
Qed.

Lemma trim_line_atomics : forall l, filter is_atomic (trim_line l) = filter is_atomic l.
Proof.
  intros l. unfold trim_line.
  rewrite filter_rev, drop_lead_atomics, filter_rev, rev_involutive. apply drop_lead_atomics.
Qed.

Lemma walk_atomics : forall emv extra l x run,
  length (filter is_fa (walk emv extra x run l)) = length (filter is_atomic l).
Proof.
  intros emv extra l. induction l as [|i r IH]; intros x run.
  - simpl. destruct run as [[s w]|]; reflexivity.
  - destruct i; cbn [walk filter is_atomic];
      try (rewrite filter_app, app_length, IH; destruct run as [[s w0]|]; reflexivity);
      try apply IH.
    rewrite filter_app, app_length. cbn [filter is_fa length]. rewrite IH.
    destruct run as [[s w0]|]; reflexivity.
Qed.

Theorem place_atomics : forall c first last l,
  length (filter is_fa (place c first last l)) = length (filter is_atomic l).
Proof.
  intros c first last l. unfold place.
  destruct (align_params c (if first then indent c else 0%Z) last (trim_line l)) as [off extra].
  rewrite walk_atomics. now rewrite trim_line_atomics.
Qed.

(* ------------------------------------------------------------------ text-align, text-indent *)
Lemma zq_minus : forall a b : Z, zq (a - b) == zq a - zq b.
Proof. intros. unfold zq, Z.sub. rewrite inject_Z_plus, inject_Z_opp. reflexivity. Qed.

Theorem align_spec : forall c ind last v,
  let W := (ind + sumw v)%Z in
  let p := align_params c ind last v in
  let off := fst p in let extra := snd p in
  ((avail c <= W)%Z -> off == 0 /\ extra == 0) /\
  ((W < avail c)%Z ->
     match al c with
     | AStart => off == 0 /\ extra == 0
     | AEnd => zq W + off == zq (avail c) /\ extra == 0
     | ACenter => off == zq (avail c) - (zq W + off) /\ extra == 0
     | AJustify =>
         off == 0 /\
         (last = true \/ pcoll c = false \/ (nspaces (em c) v <= 0)%Z -> extra == 0) /\
         (last = false -> pcoll c = true -> (0 < nspaces (em c) v)%Z ->
          zq W + zq (nspaces (em c) v) * extra == zq (avail c))
     end).
Proof.
  intros c ind last v W p off extra. subst p off extra W. unfold align_params.
  split.
  - intros H. apply Z.leb_le in H. rewrite H. simpl. split; reflexivity.
  - intros H. assert (E : (avail c <=? ind + sumw v)%Z = false) by (apply Z.leb_gt; exact H).
    rewrite E. destruct (al c); simpl.
    + split; reflexivity.
    + split; [|reflexivity]. unfold zq. rewrite <- inject_Z_plus. f_equiv. lia.
    + split; [|reflexivity]. rewrite zq_minus. field.
    + destruct last; simpl.
      * split; [reflexivity|]. split; [reflexivity|]. intros; discriminate.
      * destruct (pcoll c); simpl.
        -- destruct (nspaces (em c) v <=? 0)%Z eqn:En; simpl.
           ++ split; [reflexivity|]. split; [reflexivity|].
              intros _ _ Hn. apply Z.leb_le in En. lia.
           ++ apply Z.leb_gt in En. split; [reflexivity|]. split.
              ** intros [Hf|[Hf|Hf]]; try discriminate. lia.
              ** intros _ _ _. rewrite zq_minus. field.
                 intros Hz. unfold zq, inject_Z, Qeq in Hz. simpl in Hz. lia.
        -- split; [reflexivity|]. split; [reflexivity|]. intros _ Hf; discriminate.
Qed.

(* text-indent shifts the first line only: lines after the first do not depend on it *)
Definition set_indent (c : cfg) (i : Z) : cfg :=
  mkCfg (avail c) i (em c) (lh c) (al c) (pcoll c) (x0 c) (y0 c).

Theorem indent_first_only : forall c i y ls,
  stack (set_indent c i) false y ls = stack c false y ls.
Proof.
  intros c i y ls. revert y. induction ls as [|l r IH]; intros y; cbn [stack]; [reflexivity|].
  destruct (phantom l); [apply IH|].
  rewrite IH. reflexivity.
Qed.

(* ... and the first line starts text-indent after the start edge *)
Theorem indent_first_line : forall c last l,
  place c true last l =
  (let v := trim_line l in
   let '(off, extra) := align_params c (indent c) last v in
   walk (em c) extra (x0 c + zq (indent c) + off) None v).
Proof. reflexivity. Qed.

(* ------------------------------------------------------------------ item-level reading *)
(* A division of the ITEM list into lines whose boundaries are all cut positions is a
   grouping of the units: this is what lets break_unique speak about any division that
   never breaks at a forbidden position. *)
Local Open Scope Z_scope.

Lemma concat_split {A} : forall (us : list (list A)) p s,
  concat us = p ++ s ->
  (exists a b, us = a ++ b /\ concat a = p /\ concat b = s) \/
  (exists a u b x y, us = a ++ u :: b /\ u = x ++ y /\ x <> [] /\ y <> [] /\
                     p = concat a ++ x /\ s = y ++ concat b).
Proof.
  induction us as [|u r IH]; intros p s H.
  - simpl in H. symmetry in H. apply app_eq_nil in H. destruct H; subst.
    left. exists [], []. auto.
  - simpl in H. apply app_eq_app in H. destruct H as [l [[H1 H2]|[H1 H2]]].
    + (* u = p ++ l *)
      destruct p as [|p0 p'].
      * left. exists [], (u :: r). simpl in *. subst. auto.
      * destruct l as [|l0 l'].
        -- left. exists [u], r. rewrite app_nil_r in H1. simpl in *. subst.
           rewrite app_nil_r. auto.
        -- right. exists [], u, r, (p0 :: p'), (l0 :: l'). simpl.
           repeat split; auto; discriminate.
    + (* p = u ++ l *)
      destruct (IH l s H2) as [[a [b [E1 [E2 E3]]]]|[a [v [b [x [y [E1 [E2 [E3 [E4 [E5 E6]]]]]]]]]]].
      * left. exists (u :: a), b. subst. simpl. auto.
      * right. exists (u :: a), v, b, x, y. subst. simpl. rewrite <- app_assoc.
        repeat split; auto.
Qed.

Lemma cut_is_unit_boundary : forall items p s, items = p ++ s ->
  cut_b (rev p) s = true -> exists a b, units items = a ++ b /\ concat a = p /\ concat b = s.
Proof.
  intros items p s Hi Hc.
  destruct (concat_split (units items) p s) as [H|[a [u [b [x [y [E1 [E2 [E3 [E4 [E5 E6]]]]]]]]]]].
  - rewrite units_concat. exact Hi.
  - exact H.
  - exfalso. pose proof (units_inside items a u b x y E1 E2 E3 E4) as F.
    subst p s. rewrite rev_app_distr in Hc. congruence.
Qed.

Definition NoForbidden (lsI : list (list item)) : Prop :=
  forall a b, lsI = a ++ b -> a <> [] -> b <> [] -> cut_b (rev (concat a)) (concat b) = true.

Lemma group_aux : forall lsI items done todo,
  units items = done ++ todo -> concat lsI = concat todo -> Forall (fun l => l <> []) lsI ->
  (forall a b, lsI = a ++ b -> a <> [] -> b <> [] ->
     cut_b (rev (concat done ++ concat a)) (concat b) = true) ->
  exists g, concat g = todo /\ Forall (fun k => k <> []) g /\ map (@concat item) g = lsI.
Proof.
  induction lsI as [|l1 rest IH]; intros items done todo Hu Hc Hne Hcut.
  - exists []. simpl in Hc. split; [|split; [constructor|reflexivity]].
    symmetry. apply concat_nil_nonempty; [|now symmetry].
    pose proof (units_nonempty items) as Hn. rewrite Hu in Hn. apply Forall_app in Hn. tauto.
  - apply Forall_cons_iff in Hne. destruct Hne as [Hl1 Hrest].
    destruct rest as [|l2 rest'].
    + exists [todo]. simpl in Hc. rewrite app_nil_r in Hc. simpl. rewrite app_nil_r.
      split; [reflexivity|]. split; [|now rewrite <- Hc].
      constructor; [|constructor]. intros E. subst todo. simpl in Hc. congruence.
    + remember (l2 :: rest') as rest eqn:Er.
      assert (Hrne : rest <> []) by (subst rest; discriminate).
      assert (Hsne : concat rest <> []).
      { subst rest. apply Forall_cons_iff in Hrest. destruct Hrest as [H2 _].
        simpl. destruct l2; [congruence|discriminate]. }
      assert (Hcut1 : cut_b (rev (concat done ++ l1)) (concat rest) = true).
      { specialize (Hcut [l1] rest eq_refl). simpl in Hcut. rewrite app_nil_r in Hcut.
        apply Hcut; [discriminate|exact Hrne]. }
      assert (Hitems : items = (concat done ++ l1) ++ concat rest).
      { rewrite <- (units_concat items), Hu, concat_app, <- Hc. simpl. now rewrite app_assoc. }
      destruct (cut_is_unit_boundary items _ _ Hitems Hcut1) as [a' [b' [Ea [Eca Ecb]]]].
      assert (Hk : exists k, a' = done ++ k /\ todo = k ++ b' /\ concat k = l1).
      { rewrite Hu in Ea. apply app_eq_app in Ea. destruct Ea as [m [[E1 E2]|[E1 E2]]].
        - exfalso. subst done. rewrite concat_app in Eca.
          apply (f_equal (@length _)) in Eca. rewrite !app_length in Eca.
          destruct l1; [congruence|]. simpl in Eca. lia.
        - exists m. subst. rewrite concat_app in Eca. apply app_inv_head in Eca. auto. }
      destruct Hk as [k [Ek1 [Ek2 Ek3]]].
      destruct (IH items a' b') as [g [Eg1 [Eg2 Eg3]]].
      * rewrite <- Ea. reflexivity.
      * exact (eq_sym Ecb).
      * exact Hrest.
      * intros a b Eab Ha Hb. rewrite Eca.
        specialize (Hcut (l1 :: a) b). simpl in Hcut. rewrite <- app_assoc.
        apply Hcut; [now rewrite Eab|discriminate|exact Hb].
      * exists (k :: g). simpl. rewrite Eg1, Eg3, Ek3. split; [now symmetry|]. split; [|reflexivity].
        constructor; [|exact Eg2]. intros E. subst k. simpl in Ek3. congruence.
Qed.

Theorem lines_are_unit_groups : forall items lsI,
  concat lsI = items -> Forall (fun l => l <> []) lsI -> NoForbidden lsI ->
  exists g, Partition (units items) g /\ flat g = lsI.
Proof.
  intros items lsI Hc Hne Hnf.
  destruct (group_aux lsI items [] (units items)) as [g [E1 [E2 E3]]]; auto.
  - now rewrite units_concat.
  - exists g. split; [split; assumption|exact E3].
Qed.

(* the line partition of the ITEM list is determined: any division into non-empty lines
   that only breaks at cut positions and whose unit grouping fits, is maximal and respects
   forced breaks is the one of break_lines *)
Theorem break_unique_items : forall avail indent items lsI,
  wf items -> concat lsI = items -> Forall (fun l => l <> []) lsI -> NoForbidden lsI ->
  (forall g, Partition (units items) g -> flat g = lsI ->
     Fits avail (avail - indent) g /\ Maximal avail (avail - indent) g /\ Forced g) ->
  lsI = flat (break_lines avail indent items).
Proof.
  intros avail indent items lsI Hwf Hc Hne Hnf H.
  destruct (lines_are_unit_groups items lsI Hc Hne Hnf) as [g [Hp Hg]].
  destruct (H g Hp Hg) as [Hf [Hm Hfo]].
  rewrite <- Hg. f_equal. apply break_unique; assumption.
Qed.

(* ------------------------------------------------------------------ placement geometry *)
Local Open Scope Q_scope.

Lemma chain_hi : forall fs lo hi hi', chain lo hi fs -> hi <= hi' -> chain lo hi' fs.
Proof.
  induction fs as [|f r IH]; intros lo hi hi' H Hh; simpl in *.
  - lra.
  - destruct H as [H1 [H2 H3]]. repeat split; auto. eapply IH; eauto.
Qed.

Lemma zq_nonneg : forall z : Z, (0 <= z)%Z -> 0 <= zq z.
Proof. intros z H. unfold zq. rewrite Zle_Qle in H. exact H. Qed.

Lemma sumw_cons : forall i l, sumw (i :: l) = (iw i + sumw l)%Z.
Proof. reflexivity. Qed.

Lemma nspaces_cons : forall emv i l,
  nspaces emv (i :: l) = (match i with Space _ w => w / emv | _ => 0 end + nspaces emv l)%Z.
Proof. intros. destruct i; reflexivity. Qed.

Lemma advance_cons : forall emv extra i l,
  advance emv extra (i :: l) ==
  zq (iw i) + (match i with Space _ w => zq (w / emv) * extra | _ => 0 end) + advance emv extra l.
Proof.
  intros. unfold advance. rewrite sumw_cons, nspaces_cons.
  unfold zq. rewrite !inject_Z_plus. destruct i; simpl inject_Z; ring.
Qed.

Lemma walk_chain : forall l emv extra x run lo,
  wf l -> 0 <= extra -> (0 <= emv)%Z ->
  match run with
  | None => lo <= x
  | Some (s, w) => lo <= s /\ s + w == x /\ 0 <= w
  end ->
  chain lo (x + advance emv extra l) (walk emv extra x run l).
Proof.
  induction l as [|i r IH]; intros emv extra x run lo Hwf He Hem Hrun.
  - assert (E : advance emv extra [] == 0) by (unfold advance, zq; cbn; ring).
    destruct run as [[s w]|]; cbn [walk chain fx fw].
    + destruct Hrun as [H1 [H2 H3]]. repeat split; auto. rewrite E. lra.
    + rewrite E. lra.
  - inversion Hwf as [|? ? Hi Hr]; subst.
    pose proof (zq_nonneg _ Hi) as Hiq.
    assert (Hadv := advance_cons emv extra i r).
    destruct i as [w0|m w0|e|e|m w0 h| |]; cbn [walk iw] in *.
    + (* Word *)
      eapply chain_hi.
      * apply (IH emv extra (x + zq w0)); auto.
        destruct run as [[s w]|]; [destruct Hrun as [H1 [H2 H3]]; repeat split; auto; lra|].
        repeat split; auto; lra.
      * lra.
    + (* Space *)
      assert (Hd : 0 <= zq (w0 / emv) * extra).
      { apply Qmult_le_0_compat; [|exact He]. apply zq_nonneg.
        destruct (Z.eq_dec emv 0) as [E|E]; [subst; rewrite Zdiv_0_r; lia|].
        apply Z.div_pos; lia. }
      eapply chain_hi.
      * apply (IH emv extra (x + (zq w0 + zq (w0 / emv) * extra))); auto.
        destruct run as [[s w]|]; [destruct Hrun as [H1 [H2 H3]]; repeat split; auto; lra|].
        repeat split; auto; lra.
      * lra.
    + (* Open *)
      destruct run as [[s w]|]; cbn [app].
      * destruct Hrun as [H1 [H2 H3]]. cbn [chain fx fw]. repeat split; auto.
        eapply chain_hi; [apply (IH emv extra (x + zq e) None (s + w)); auto; lra|lra].
      * eapply chain_hi; [apply (IH emv extra (x + zq e) None lo); auto; lra|lra].
    + (* Close *)
      destruct run as [[s w]|]; cbn [app].
      * destruct Hrun as [H1 [H2 H3]]. cbn [chain fx fw]. repeat split; auto.
        eapply chain_hi; [apply (IH emv extra (x + zq e) None (s + w)); auto; lra|lra].
      * eapply chain_hi; [apply (IH emv extra (x + zq e) None lo); auto; lra|lra].
    + (* Atomic *)
      destruct run as [[s w]|]; cbn [app].
      * destruct Hrun as [H1 [H2 H3]]. cbn [chain fx fw]. repeat split; auto; try lra.
        eapply chain_hi; [apply (IH emv extra (x + zq w0) None (x + zq w0)); auto; lra|lra].
      * cbn [chain fx fw]. repeat split; auto.
        eapply chain_hi; [apply (IH emv extra (x + zq w0) None (x + zq w0)); auto; lra|lra].
    + (* Hard *)
      destruct run as [[s w]|]; cbn [app].
      * destruct Hrun as [H1 [H2 H3]]. cbn [chain fx fw]. repeat split; auto.
        eapply chain_hi; [apply (IH emv extra x None (s + w)); auto; lra|lra].
      * eapply chain_hi; [apply (IH emv extra x None lo); auto; lra|lra].
    + (* EB: invisible *)
      eapply chain_hi; [apply (IH emv extra x run lo); auto|lra].
Qed.

Lemma wf_drops : forall l t, drops_spaces l t -> wf l -> wf t.
Proof.
  intros l t H. induction H; intros Hw; auto.
  - inversion Hw; subst. constructor; auto. apply IHdrops_spaces; auto.
  - inversion Hw; subst. apply IHdrops_spaces; auto.
Qed.

Lemma align_extra_nonneg : forall c ind last v, 0 <= snd (align_params c ind last v).
Proof.
  intros. unfold align_params.
  destruct (avail c <=? ind + sumw v)%Z eqn:E; [simpl; lra|].
  apply Z.leb_gt in E.
  destruct (al c); simpl; try lra.
  destruct (last || negb (pcoll c) || (nspaces (em c) v <=? 0)%Z) eqn:E2; simpl; [lra|].
  apply orb_false_iff in E2. destruct E2 as [_ E2]. apply Z.leb_gt in E2.
  apply Qle_shift_div_l.
  - unfold zq. rewrite Zlt_Qlt in E2. exact E2.
  - rewrite Qmult_0_l. apply zq_nonneg. lia.
Qed.

(* the fragments of a placed line follow each other, without overlap, between the start
   of the content (start edge + text-indent + alignment offset) and that start plus the
   advance of the trimmed line *)
Theorem place_chain : forall (c : cfg) (first last : bool) (l : list item), wf l -> (0 <= em c)%Z ->
  let ind := if first then indent c else 0%Z in
  let v := trim_line l in
  let p := align_params c ind last v in
  let start := x0 c + zq ind + fst p in
  chain start (start + advance (em c) (snd p) v) (place c first last l).
Proof.
  intros c first last l Hwf Hem ind v p start. unfold place.
  fold ind. fold v. fold p. destruct p as [off extra] eqn:Ep.
  apply walk_chain; auto.
  - apply (wf_drops l); [apply trim_drops_spaces|exact Hwf].
  - pose proof (align_extra_nonneg c ind last v) as H. fold p in H. rewrite Ep in H. exact H.
  - subst start. simpl. lra.
Qed.

(* for text-align: end, and for justified lines, the content ends at the end edge *)
Theorem place_end_edge : forall (c : cfg) (ind : Z) (last : bool) (v : list item),
  (ind + sumw v < avail c)%Z ->
  let p := align_params c ind last v in
  (al c = AEnd \/ (al c = AJustify /\ last = false /\ pcoll c = true /\ (0 < nspaces (em c) v)%Z)) ->
  x0 c + zq ind + fst p + advance (em c) (snd p) v == x0 c + zq (avail c).
Proof.
  intros c ind last v Hlt p H.
  destruct (align_spec c ind last v) as [_ A]. specialize (A Hlt). fold p in A.
  unfold advance.
  assert (Ez : zq (ind + sumw v) == zq ind + zq (sumw v)) by (unfold zq; now rewrite inject_Z_plus).
  destruct H as [H|[H [Hl [Hp Hn]]]]; rewrite H in A.
  - destruct A as [A1 A2]. rewrite A2. rewrite Ez in A1. lra.
  - destruct A as [A1 [_ A3]]. specialize (A3 Hl Hp Hn). rewrite Ez in A3. rewrite A1. lra.
Qed.

(* the line box holds the text-indent and the content: it starts text-indent before the
   first fragment's start and ends where the chain of fragments (place_chain) ends *)
Theorem line_box_spec : forall (c : cfg) (first last : bool) (l : list item),
  let ind := if first then indent c else 0%Z in
  let v := trim_line l in
  let p := align_params c ind last v in
  let start := x0 c + zq ind + fst p in
  fst (line_box c first last l) + zq ind == start /\
  fst (line_box c first last l) + snd (line_box c first last l) == start + advance (em c) (snd p) v.
Proof.
  intros c first last l ind v p start. subst start. unfold line_box. fold ind. fold v. fold p.
  destruct p as [off extra]. cbn [fst snd]. split; ring.
Qed.

(* a phantom line box (CSS 2.1 9.4.2) takes no room and does not count as the first line *)
Theorem stack_phantom : forall c first y l r, phantom l = true ->
  stack c first y (l :: r) = stack c first y r.
Proof. intros c first y l r H. cbn [stack]. now rewrite H. Qed.

(* ---------------------------------------------------------------- inline box extents *)

Lemma near_spec : forall a b : Q, near a b = true <-> (Qabs (a - b) <= 1 # 64)%Q.
Proof.
  intros a b. unfold near. rewrite andb_true_iff, !Qle_bool_iff. split.
  - intros [H1 H2]. apply Qabs_case; intros _; [exact H1|].
    setoid_replace (- (a - b))%Q with (b - a)%Q by ring. exact H2.
  - intros H. split.
    + eapply Qle_trans; [apply Qle_Qabs|exact H].
    + setoid_replace (b - a)%Q with (- (a - b))%Q by ring.
      eapply Qle_trans; [apply Qle_Qabs|]. rewrite Qabs_opp. exact H.
Qed.

Lemma ibox_ok_spec : forall b : iboxo, ibox_ok b = true <-> ibox_spans b.
Proof.
  intros b. unfold ibox_ok, ibox_spans. rewrite andb_true_iff, !near_spec. tauto.
Qed.

(* ---------------------------------------------------------------- line boxes and vertical-align *)

Lemma vline_tall_b_spec : forall l : vline, vline_tall_b l = true <-> vline_tall l.
Proof.
  intros l. unfold vline_tall_b, vline_tall. rewrite forallb_forall. split.
  - intros H r Hr. apply Qle_bool_iff. apply H. exact Hr.
  - intros H r Hr. apply Qle_bool_iff. apply H. exact Hr.
Qed.

Lemma vstacked_b_spec : forall ls : list vline, vstacked_b ls = true <-> vstacked ls.
Proof.
  induction ls as [|a r IH]; [simpl; tauto|].
  destruct r as [|b r']; [simpl; tauto|].
  change (vstacked_b (a :: b :: r')) with (Qeq_bool (vl_y b) (vl_y a + vl_h a)%Q && vstacked_b (b :: r')).
  change (vstacked (a :: b :: r')) with ((vl_y b == vl_y a + vl_h a)%Q /\ vstacked (b :: r')).
  rewrite andb_true_iff, Qeq_bool_iff, IH. tauto.
Qed.
