(* Layout/PaginateCounters.v -- counters in page-margin boxes (model, no proofs).

   Port of
     html/layout/pages.go makeMarginBoxes / makeBox  (pages.go:418-461): every generated
       margin box of a page evaluates its counter-* properties and its `content` on a
       COPY of the page's counter state (`marginState := state.Copy()`), with one fresh
       scope pushed (`CounterScopes = append(.., NewSet())`);
     html/boxes/build.go UpdateCounters (build.go:903-954): counter-reset, then
       counter-set, then counter-increment, on the innermost counter of each name;
     standardizePageBasedCounters (pages.go:387-413): operations on `pages` are dropped in a
       margin context;
     content: counter(n) = innermost value of n (0 when there is none), counters(n, sep) =
       all the values of n, outermost first (a single 0 when there is none).

   The page's own state is: page = position of the page (1-based), pages = number of pages
   (layout.go:162-165, pages.go:778-781).

   Two executable readings of "the margin boxes of one page":
     margin_texts         every box starts from the page's state (what CSS Page 3 / GCPM ask:
                          counters manipulated in a margin context do not leave it);
     margin_texts_shared  the state is threaded from one margin box to the next one in
                          generation order (what an implementation without the copy computes).
   Values are kept as Z (clampCounter is the identity on the generated range |v| < 2^31,
   checked by `in_range`). *)
From Coq Require Import List ZArith NArith Bool.
Import ListNotations.
Local Open Scope Z_scope.

(* counter names: 0 = page, 1 = pages, 2.. = author counters *)
Definition c_page : N := 0%N.
Definition c_pages : N := 1%N.

(* tree.CounterValues: name -> stack of values, innermost last *)
Definition cvalues := list (N * list Z).

Fixpoint cv_get (cv : cvalues) (n : N) : list Z :=
  match cv with
  | [] => []
  | (k, v) :: r => if N.eqb k n then v else cv_get r n
  end.

Fixpoint cv_put (cv : cvalues) (n : N) (v : list Z) : cvalues :=
  match cv with
  | [] => [(n, v)]
  | (k, w) :: r => if N.eqb k n then (k, v) :: r else (k, w) :: cv_put r n v
  end.

(* the state a margin box works on: the values and the names created in its own scope *)
Record mstate := mkMS { ms_values : cvalues; ms_scope : list N }.

Definition in_scope (s : list N) (n : N) : bool := existsb (N.eqb n) s.

Definition set_last (l : list Z) (v : Z) : list Z := removelast l ++ [v].

(* build.go:907-915 *)
Definition do_reset (st : mstate) (nv : N * Z) : mstate :=
  let '(n, v) := nv in
  let sl := cv_get (ms_values st) n in
  if in_scope (ms_scope st) n
  then mkMS (cv_put (ms_values st) n (removelast sl ++ [v])) (ms_scope st)
  else mkMS (cv_put (ms_values st) n (sl ++ [v])) (n :: ms_scope st).

(* the innermost counter of that name, created (value 0, in this scope) when there is none:
   build.go:918-925, 943-950 *)
Definition ensure (st : mstate) (n : N) : mstate :=
  match cv_get (ms_values st) n with
  | [] => mkMS (cv_put (ms_values st) n [0]) (n :: ms_scope st)
  | _ => st
  end.

(* build.go:917-928 *)
Definition do_set (st : mstate) (nv : N * Z) : mstate :=
  let '(n, v) := nv in
  let st := ensure st n in
  mkMS (cv_put (ms_values st) n (set_last (cv_get (ms_values st) n) v)) (ms_scope st).

(* build.go:942-953 *)
Definition do_incr (st : mstate) (nv : N * Z) : mstate :=
  let '(n, v) := nv in
  let st := ensure st n in
  let sl := cv_get (ms_values st) n in
  mkMS (cv_put (ms_values st) n (set_last sl (last sl 0 + v))) (ms_scope st).

(* what a margin box reads *)
Inductive cread :=
| RCounter (n : N)       (* counter(n) *)
| RCounters (n : N).     (* counters(n, ".") *)

(* a margin rule: its counter-reset / counter-set / counter-increment lists and the counters
   its `content` shows *)
Record mbox := mkMBox {
  mb_resets : list (N * Z);
  mb_sets : list (N * Z);
  mb_incrs : list (N * Z);
  mb_reads : list cread }.

(* pages.go:396-407: `pages` cannot be manipulated in a margin context *)
Definition drop_pages (l : list (N * Z)) : list (N * Z) :=
  filter (fun nv => negb (N.eqb (fst nv) c_pages)) l.

(* UpdateCounters on the state of the box (fresh scope) *)
Definition update_counters (cv : cvalues) (b : mbox) : mstate :=
  let st := mkMS cv [] in
  let st := fold_left do_reset (drop_pages (mb_resets b)) st in
  let st := fold_left do_set (drop_pages (mb_sets b)) st in
  fold_left do_incr (drop_pages (mb_incrs b)) st.

Definition read_one (cv : cvalues) (r : cread) : list Z :=
  match r with
  | RCounter n => [last (cv_get cv n) 0]
  | RCounters n => match cv_get cv n with [] => [0] | l => l end
  end.

(* the numbers a margin box shows, one list per counter() / counters() of its content,
   together with the counter values it leaves behind *)
Definition box_run (cv : cvalues) (b : mbox) : list (list Z) * cvalues :=
  let st := update_counters cv b in
  (map (read_one (ms_values st)) (mb_reads b), ms_values st).

Definition box_text (cv : cvalues) (b : mbox) : list (list Z) := fst (box_run cv b).

(* the counter state of page number i (0-based) of a document of `total` pages *)
Definition page_values (i total : nat) : cvalues :=
  [(c_page, [Z.of_nat (S i)]); (c_pages, [Z.of_nat total])].

(* every margin box works on a copy of the page's state (pages.go:444) *)
Definition margin_texts (cv : cvalues) (bs : list mbox) : list (list (list Z)) :=
  map (box_text cv) bs.

(* the same loop without the copy: one state for all the margin boxes of the page *)
Fixpoint margin_texts_shared (cv : cvalues) (bs : list mbox) : list (list (list Z)) :=
  match bs with
  | [] => []
  | b :: r => let '(t, cv') := box_run cv b in t :: margin_texts_shared cv' r
  end.

(* the margin boxes of all the pages of a document whose pages all use the same margin rules *)
Definition doc_margin_texts (total : nat) (bs : list mbox) : list (list (list (list Z))) :=
  map (fun i => margin_texts (page_values i total) bs) (seq 0 total).

(* a box that does not touch counter n *)
Definition touches (b : mbox) (n : N) : bool :=
  existsb (fun nv => N.eqb (fst nv) n) (mb_resets b ++ mb_sets b ++ mb_incrs b).

Definition in_range (b : mbox) : bool :=
  forallb (fun nv => (Z.abs (snd nv) <? 2 ^ 20)) (mb_resets b ++ mb_sets b ++ mb_incrs b).
