(* C02 proof-extension: laws of ResumeStack.Equals (ms_equals) on canonical stacks,
   derived from the existing characterisation ms_equals_iff_eq. *)
From Verif Require Import Layout.Fragment Layout.FragmentProofs.
From Coq Require Import List ZArith Bool.

Lemma ms_equals_refl_canonical : forall r,
  ms_canonical r = true -> ms_equals r r = true.
Proof.
  intros r Hr. apply (proj2 (ms_equals_iff_eq r r Hr Hr)). reflexivity.
Qed.

Lemma ms_equals_sym_canonical : forall r o,
  ms_canonical r = true -> ms_canonical o = true ->
  ms_equals r o = ms_equals o r.
Proof.
  intros r o Hr Ho.
  destruct (ms_equals r o) eqn:E1; destruct (ms_equals o r) eqn:E2; try reflexivity.
  - apply (proj1 (ms_equals_iff_eq r o Hr Ho)) in E1. subst o.
    rewrite (ms_equals_refl_canonical r Hr) in E2. discriminate E2.
  - apply (proj1 (ms_equals_iff_eq o r Ho Hr)) in E2. subst o.
    rewrite (ms_equals_refl_canonical r Hr) in E1. discriminate E1.
Qed.

Lemma ms_equals_trans_canonical : forall r o p,
  ms_canonical r = true -> ms_canonical o = true -> ms_canonical p = true ->
  ms_equals r o = true -> ms_equals o p = true -> ms_equals r p = true.
Proof.
  intros r o p Hr Ho Hp E1 E2.
  apply (proj1 (ms_equals_iff_eq r o Hr Ho)) in E1.
  apply (proj1 (ms_equals_iff_eq o p Ho Hp)) in E2.
  subst o. subst p. apply ms_equals_refl_canonical. exact Hr.
Qed.

(* the Go Equals and the structural decision procedure agree on canonical stacks *)
Lemma ms_equals_eqb_canonical : forall r o,
  ms_canonical r = true -> ms_canonical o = true ->
  ms_equals r o = ms_eqb r o.
Proof.
  intros r o Hr Ho.
  destruct (ms_equals r o) eqn:E1; destruct (ms_eqb r o) eqn:E2; try reflexivity.
  - apply (proj1 (ms_equals_iff_eq r o Hr Ho)) in E1.
    apply (proj2 (ms_eqb_eq r o)) in E1. rewrite E1 in E2. discriminate E2.
  - apply (proj1 (ms_eqb_eq r o)) in E2.
    apply (proj2 (ms_equals_iff_eq r o Hr Ho)) in E2. rewrite E2 in E1. discriminate E1.
Qed.
