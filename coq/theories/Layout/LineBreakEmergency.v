(* Layout/LineBreakEmergency.v -- C11: the breaker with emergency break opportunities
   (overflow-wrap: anywhere | break-word; LineBreak.chop / fill_e / break_lines_e) meets the
   specification of Layout/LineBreakSpec.v (PartitionE, FitsE, MaximalE, EmergencyOnly), the
   tags of the pieces mean what they say (tsub_tags), and without EB items it is the breaker
   of Layout/LineBreakProofs.v (break_lines_e_no_eb). *)
From Verif Require Import Layout.LineBreak Layout.LineBreakSpec Layout.LineBreakProofs.
From Coq Require Import List ZArith QArith Bool Lia.
Import ListNotations.
Open Scope Z_scope.

(* ------------------------------------------------------------------ pieces *)
Lemma cat_app : forall a b, cat (a ++ b) = cat a ++ cat b.
Proof. intros. unfold cat. now rewrite map_app, concat_app. Qed.

Lemma untag_tag : forall ps, map snd (tag_pieces ps) = ps.
Proof.
  intros [|p r]; [reflexivity|]. cbn [tag_pieces map snd]. f_equal.
  rewrite map_map. cbn [snd]. apply map_id.
Qed.

Lemma pieces_concat : forall u, concat (pieces u) = u.
Proof. intros. unfold pieces. now rewrite seg_concat. Qed.

Lemma cat_tpieces : forall u, cat (tpieces u) = u.
Proof. intros. unfold cat, tpieces. rewrite untag_tag. apply pieces_concat. Qed.

Lemma pieces_nonempty : forall u, u <> [] -> pieces u <> [].
Proof.
  intros u Hu E. apply Hu. rewrite <- (pieces_concat u), E. reflexivity.
Qed.

Lemma tpieces_head : forall u, u <> [] -> exists p F, tpieces u = (true, p) :: map (pair false) F /\ pieces u = p :: F.
Proof.
  intros u Hu. unfold tpieces. destruct (pieces u) as [|p F] eqn:E.
  - exfalso. now apply (pieces_nonempty u).
  - exists p, F. split; reflexivity.
Qed.

Lemma all_emergency_false : forall F : list (list item), all_emergency (map (pair false) F) = true.
Proof. induction F; simpl; auto. Qed.

Lemma all_emergency_app : forall a b, all_emergency (a ++ b) = all_emergency a && all_emergency b.
Proof. intros. unfold all_emergency. apply forallb_app. Qed.

(* ------------------------------------------------------------------ chop *)
Lemma chop_eq : forall avail av cur p r,
  chop avail av cur (p :: r) =
  if is_nil cur || (lw (cat cur ++ snd p) <=? av) then chop avail av (cur ++ [p]) r
  else let '(ls, c, a) := chop avail avail [p] r in (cur :: ls, c, a).
Proof. reflexivity. Qed.

Lemma chop_concat : forall ps avail av cur ls c a,
  chop avail av cur ps = (ls, c, a) -> concat ls ++ c = cur ++ ps.
Proof.
  induction ps as [|p r IH]; intros avail av cur ls c a H.
  - cbn [chop] in H. injection H as <- <- <-. now rewrite app_nil_r.
  - rewrite chop_eq in H.
    destruct (is_nil cur || (lw (cat cur ++ snd p) <=? av)).
    + apply IH in H. rewrite H, <- app_assoc. reflexivity.
    + destruct (chop avail avail [p] r) as [[ls' c'] a'] eqn:E.
      injection H as <- <- <-. apply IH in E. cbn [concat]. rewrite <- app_assoc, E. reflexivity.
Qed.

(* the lines are not empty, and neither is the line being filled *)
Lemma chop_nonempty : forall ps avail av cur ls c a,
  chop avail av cur ps = (ls, c, a) -> (cur <> [] \/ ps <> []) ->
  Forall (fun g => g <> []) ls /\ c <> [].
Proof.
  induction ps as [|p r IH]; intros avail av cur ls c a H Hne.
  - cbn [chop] in H. injection H as <- <- <-. split; [constructor|]. destruct Hne; congruence.
  - rewrite chop_eq in H.
    destruct (is_nil cur || (lw (cat cur ++ snd p) <=? av)) eqn:Hc.
    + apply IH in H; [exact H|]. left. destruct cur; discriminate.
    + destruct (chop avail avail [p] r) as [[ls' c'] a'] eqn:E.
      injection H as <- <- <-. apply IH in E; [|left; discriminate].
      destruct E as [E1 E2]. split; [|exact E2]. constructor; [|exact E1].
      destruct cur; [discriminate|discriminate].
Qed.

(* the room of the line being filled *)
Lemma chop_room : forall ps avail av cur ls c a,
  chop avail av cur ps = (ls, c, a) -> a = if is_nil ls then av else avail.
Proof.
  induction ps as [|p r IH]; intros avail av cur ls c a H.
  - cbn [chop] in H. injection H as <- <- <-. reflexivity.
  - rewrite chop_eq in H.
    destruct (is_nil cur || (lw (cat cur ++ snd p) <=? av)).
    + now apply IH in H.
    + destruct (chop avail avail [p] r) as [[ls' c'] a'] eqn:E.
      injection H as <- <- <-. apply IH in E. cbn [is_nil]. destruct (is_nil ls'); exact E.
Qed.

Lemma FitsE_app : forall avail l1 av l2,
  FitsE avail av (l1 ++ l2) <-> FitsE avail av l1 /\ FitsE avail (if is_nil l1 then av else avail) l2.
Proof.
  intros avail l1. induction l1 as [|g r IH]; intros av l2; cbn [app FitsE is_nil].
  - tauto.
  - rewrite IH. destruct r; cbn [is_nil]; tauto.
Qed.

Lemma chop_fits : forall ps avail av cur ls c a,
  chop avail av cur ps = (ls, c, a) -> (cur = [] \/ line_ok_e av cur) -> (cur <> [] \/ ps <> []) ->
  FitsE avail av (ls ++ [c]).
Proof.
  induction ps as [|p r IH]; intros avail av cur ls c a H Hok Hne.
  - cbn [chop] in H. injection H as <- <- <-. cbn [app FitsE].
    destruct Hok as [Hok|Hok]; [destruct Hne; congruence|]. tauto.
  - rewrite chop_eq in H.
    destruct (is_nil cur || (lw (cat cur ++ snd p) <=? av)) eqn:Hc.
    + apply IH in H; [exact H| |left; destruct cur; discriminate].
      right. destruct cur as [|c0 cr]; [right; reflexivity|].
      cbn [is_nil orb] in Hc. apply Z.leb_le in Hc. left.
      rewrite cat_app. unfold cat at 2. cbn [map concat]. now rewrite app_nil_r.
    + destruct (chop avail avail [p] r) as [[ls' c'] a'] eqn:E.
      injection H as <- <- <-. cbn [app FitsE]. split.
      * destruct Hok as [Hok|Hok]; [subst; discriminate|exact Hok].
      * apply (IH avail avail [p] ls' c' a' E); [right; right; reflexivity|left; discriminate].
Qed.

(* a line being filled shows up as the beginning of the first line *)
Lemma chop_head : forall ps avail av cur ls c a,
  chop avail av cur ps = (ls, c, a) -> cur <> [] ->
  (ls = [] /\ exists t, c = cur ++ t) \/ (exists t ls', ls = (cur ++ t) :: ls').
Proof.
  induction ps as [|p r IH]; intros avail av cur ls c a H Hne.
  - cbn [chop] in H. injection H as <- <- <-. left. split; [reflexivity|]. exists []. now rewrite app_nil_r.
  - rewrite chop_eq in H.
    destruct (is_nil cur || (lw (cat cur ++ snd p) <=? av)).
    + apply IH in H; [|destruct cur; discriminate].
      destruct H as [[H1 [t H2]]|[t [ls' H2]]].
      * left. split; [exact H1|]. exists (p :: t). rewrite H2, <- app_assoc. reflexivity.
      * right. exists (p :: t), ls'. rewrite H2, <- app_assoc. reflexivity.
    + destruct (chop avail avail [p] r) as [[ls' c'] a'] eqn:E.
      injection H as <- <- <-. right. exists [], ls'. now rewrite app_nil_r.
Qed.

(* every line that chop completes is followed by a piece that does not fit after it *)
Lemma chop_maximal : forall ps avail av cur ls c a,
  chop avail av cur ps = (ls, c, a) -> cur <> [] -> Forall (fun p => fst p = false) ps ->
  MaximalE avail av (ls ++ [c]).
Proof.
  induction ps as [|p r IH]; intros avail av cur ls c a H Hne Hf.
  - cbn [chop] in H. injection H as <- <- <-. cbn [app MaximalE]. tauto.
  - rewrite chop_eq in H. inversion Hf as [|? ? Hp Hr]; subst.
    destruct (is_nil cur || (lw (cat cur ++ snd p) <=? av)) eqn:Hc.
    + apply IH in H; [exact H|destruct cur; discriminate|exact Hr].
    + destruct (chop avail avail [p] r) as [[ls' c'] a'] eqn:E.
      injection H as <- <- <-.
      apply orb_false_iff in Hc. destruct Hc as [_ Hc]. apply Z.leb_gt in Hc.
      pose proof (IH avail avail [p] ls' c' a' E ltac:(discriminate) Hr) as HM.
      destruct p as [t q]. cbn [fst snd] in *. subst t.
      destruct (chop_head r avail avail [(false, q)] ls' c' a' E ltac:(discriminate))
        as [[H1 [t H2]]|[t [ls'' H2]]].
      * subst ls' c'. cbn [app MaximalE] in *. split; [right; exact Hc|exact HM].
      * subst ls'. cbn [app MaximalE] in *. split; [right; exact Hc|exact HM].
Qed.

Lemma tl_snoc_emergency : forall (cur : list (bool * list item)) p,
  all_emergency (tl cur) = true -> fst p = false -> all_emergency (tl (cur ++ [p])) = true.
Proof.
  intros [|c0 cr] p H Hp; [reflexivity|]. cbn [app tl] in *.
  rewrite all_emergency_app, H. cbn. now rewrite Hp.
Qed.

(* the lines made of the pieces of one unit hold no regular opportunity *)
Lemma chop_emergency : forall ps avail av cur ls c a,
  chop avail av cur ps = (ls, c, a) -> Forall (fun p => fst p = false) ps ->
  all_emergency (tl cur) = true ->
  Forall (fun g => all_emergency (tl g) = true) ls /\ all_emergency (tl c) = true.
Proof.
  induction ps as [|p r IH]; intros avail av cur ls c a H Hf Hc0.
  - cbn [chop] in H. injection H as <- <- <-. split; [constructor|exact Hc0].
  - rewrite chop_eq in H. inversion Hf as [|? ? Hp Hr]; subst.
    destruct (is_nil cur || (lw (cat cur ++ snd p) <=? av)).
    + apply IH in H; [exact H|exact Hr|]. now apply tl_snoc_emergency.
    + destruct (chop avail avail [p] r) as [[ls' c'] a'] eqn:E.
      injection H as <- <- <-. apply IH in E; [|exact Hr|reflexivity].
      destruct E as [E1 E2]. split; [constructor; assumption|exact E2].
Qed.

(* ------------------------------------------------------------------ fill_e *)
Definition start_e (avail a : Z) (u : list item) (r : list (list item)) : list (list (bool * list item)) :=
  let '(ls, c, a') := chop avail a [] (tpieces u) in
  if ends_hard u then ls ++ c :: fill_e avail avail [] r
  else ls ++ fill_e avail a' c r.

Lemma fill_e_eq : forall avail av cur u r,
  fill_e avail av cur (u :: r) =
  if is_nil cur then start_e avail av u r
  else if lw (cat cur ++ u) <=? av then
    (if ends_hard u then (cur ++ tpieces u) :: fill_e avail avail [] r
     else fill_e avail av (cur ++ tpieces u) r)
  else cur :: start_e avail avail u r.
Proof. reflexivity. Qed.

Lemma fill_e_nil : forall avail av cur,
  fill_e avail av cur [] = match cur with [] => [] | _ => [cur] end.
Proof. reflexivity. Qed.

Opaque fill_e.

Lemma fill_e_concat : forall us avail av cur,
  concat (fill_e avail av cur us) = cur ++ concat (map tpieces us).
Proof.
  induction us as [|u r IH]; intros avail av cur.
  - rewrite fill_e_nil. destruct cur; cbn; now rewrite ?app_nil_r.
  - assert (Hs : forall a, concat (start_e avail a u r) = tpieces u ++ concat (map tpieces r)).
    { intros a. unfold start_e. destruct (chop avail a [] (tpieces u)) as [[ls c] a'] eqn:E.
      apply chop_concat in E. cbn [app] in E.
      destruct (ends_hard u); rewrite concat_app; [cbn [concat]|]; rewrite IH; cbn [app];
        rewrite <- E, <- ?app_assoc; reflexivity. }
    rewrite fill_e_eq. cbn [map concat].
    destruct (is_nil cur) eqn:Hn.
    + destruct cur; [|discriminate]. apply Hs.
    + destruct (lw (cat cur ++ u) <=? av).
      * destruct (ends_hard u); [cbn [concat]|]; rewrite IH; cbn [app]; now rewrite <- ?app_assoc.
      * cbn [concat]. now rewrite Hs.
Qed.

Lemma tpieces_nonempty : forall u, u <> [] -> tpieces u <> [].
Proof. intros u Hu. destruct (tpieces_head u Hu) as [p [F [E _]]]. rewrite E. discriminate. Qed.

Lemma fill_e_nonempty : forall us avail av cur,
  Forall (fun u => u <> []) us -> Forall (fun g => g <> []) (fill_e avail av cur us).
Proof.
  induction us as [|u r IH]; intros avail av cur Hus.
  - rewrite fill_e_nil. destruct cur; repeat constructor. discriminate.
  - inversion Hus as [|? ? Hu Hr]; subst.
    assert (Hs : forall a, Forall (fun g => g <> []) (start_e avail a u r)).
    { intros a. unfold start_e. destruct (chop avail a [] (tpieces u)) as [[ls c] a'] eqn:E.
      apply chop_nonempty in E; [|right; now apply tpieces_nonempty]. destruct E as [E1 E2].
      destruct (ends_hard u); apply Forall_app; split; auto. }
    rewrite fill_e_eq. destruct (is_nil cur) eqn:Hn; [apply Hs|].
    destruct (lw (cat cur ++ u) <=? av).
    + destruct (ends_hard u); [|apply IH; exact Hr].
      constructor; [|apply IH; exact Hr]. destruct cur; discriminate.
    + constructor; [destruct cur; discriminate|apply Hs].
Qed.

Lemma fill_e_fits : forall us avail av cur,
  Forall (fun u => u <> []) us -> (cur = [] \/ line_ok_e av cur) ->
  FitsE avail av (fill_e avail av cur us).
Proof.
  induction us as [|u r IH]; intros avail av cur Hus Hok.
  - rewrite fill_e_nil. destruct cur; cbn [FitsE]; [exact I|].
    destruct Hok as [Hok|Hok]; [discriminate|tauto].
  - inversion Hus as [|? ? Hu Hr]; subst.
    assert (Hs : forall a, FitsE avail a (start_e avail a u r)).
    { intros a. unfold start_e. destruct (chop avail a [] (tpieces u)) as [[ls c] a'] eqn:E.
      pose proof (chop_fits _ _ _ _ _ _ _ E (or_introl eq_refl)
                    (or_intror (tpieces_nonempty u Hu))) as HF.
      pose proof (chop_room _ _ _ _ _ _ _ E) as Ha.
      apply FitsE_app in HF. destruct HF as [HF1 HF2]. cbn [FitsE] in HF2.
      destruct (ends_hard u); apply FitsE_app; (split; [exact HF1|]).
      - cbn [FitsE]. split; [tauto|]. apply IH; [exact Hr|now left].
      - rewrite <- Ha. apply IH; [exact Hr|]. right. rewrite Ha. tauto. }
    rewrite fill_e_eq. destruct (is_nil cur) eqn:Hn; [apply Hs|].
    assert (Hcur : line_ok_e av cur) by (destruct Hok as [->|]; [discriminate|assumption]).
    destruct (lw (cat cur ++ u) <=? av) eqn:Hle.
    + apply Z.leb_le in Hle.
      assert (Hok' : line_ok_e av (cur ++ tpieces u)).
      { left. now rewrite cat_app, cat_tpieces. }
      destruct (ends_hard u).
      * cbn [FitsE]. split; [exact Hok'|]. apply IH; [exact Hr|now left].
      * apply IH; [exact Hr|now right].
    + cbn [FitsE]. split; [exact Hcur|apply Hs].
Qed.

(* a line being filled shows up as the beginning of the first line produced *)
Lemma fill_e_head : forall us avail av cur, cur <> [] ->
  exists t rest, fill_e avail av cur us = (cur ++ t) :: rest.
Proof.
  induction us as [|u r IH]; intros avail av cur Hc.
  - rewrite fill_e_nil. destruct cur; [congruence|]. exists [], []. now rewrite app_nil_r.
  - rewrite fill_e_eq. destruct cur as [|c0 cr]; [congruence|]. cbn [is_nil].
    destruct (lw (cat (c0 :: cr) ++ u) <=? av).
    + destruct (ends_hard u).
      * eexists (tpieces u), _. reflexivity.
      * destruct (IH avail av ((c0 :: cr) ++ tpieces u)) as [t [rest E]]; [discriminate|].
        exists (tpieces u ++ t), rest. rewrite E. now rewrite <- app_assoc.
    + exists [], (start_e avail avail u r). now rewrite app_nil_r.
Qed.

(* the first line of a unit that starts a line begins with its first piece, tagged true *)
Lemma start_e_head : forall avail a u r, u <> [] ->
  exists p t rest, start_e avail a u r = ((true, p) :: t) :: rest.
Proof.
  intros avail a u r Hu. unfold start_e.
  destruct (tpieces_head u Hu) as [p [F [E _]]]. rewrite E.
  rewrite chop_eq. cbn [is_nil orb app].
  destruct (chop avail a [(true, p)] (map (pair false) F)) as [[ls c] a'] eqn:Ec.
  destruct (chop_head _ _ _ _ _ _ _ Ec ltac:(discriminate)) as [[H1 [t H2]]|[t [ls' H2]]].
  - subst ls c. cbn [app]. destruct (ends_hard u).
    + eexists p, t, _. reflexivity.
    + destruct (fill_e_head r avail a' ((true, p) :: t)) as [t' [rest E']]; [discriminate|].
      exists p, (t ++ t'), rest. rewrite E'. reflexivity.
  - subst ls. cbn [app]. destruct (ends_hard u); eexists p, t, _; reflexivity.
Qed.

Definition starts_reg (ls : list (list (bool * list item))) : Prop :=
  match ls with
  | ((false, _) :: _) :: _ => False
  | _ => True
  end.

Lemma fill_e_starts_reg : forall us avail av,
  Forall (fun u => u <> []) us -> starts_reg (fill_e avail av [] us).
Proof.
  intros [|u r] avail av H; [rewrite fill_e_nil; exact I|].
  inversion H; subst. rewrite fill_e_eq. cbn [is_nil].
  destruct (start_e_head avail av u r) as [p [t [rest E]]]; [assumption|]. rewrite E. exact I.
Qed.

Lemma EO_cons_reg : forall g X, starts_reg X -> EmergencyOnly X -> EmergencyOnly (g :: X).
Proof.
  intros g X Hs HX. cbn [EmergencyOnly]. split; [|exact HX].
  destruct X as [|[|[[|] q] g'] X']; auto; try (destruct Hs).
Qed.

Lemma EO_cons_em : forall g X, all_emergency (tl g) = true -> EmergencyOnly X -> EmergencyOnly (g :: X).
Proof.
  intros g X Hg HX. cbn [EmergencyOnly]. split; [|exact HX].
  destruct X as [|[|[[|] q] g'] X']; auto.
Qed.

Lemma EO_prepend : forall ls X,
  Forall (fun g => all_emergency (tl g) = true) ls -> EmergencyOnly X -> EmergencyOnly (ls ++ X).
Proof.
  induction ls as [|g r IH]; intros X H HX; [exact HX|].
  inversion H; subst. cbn [app]. apply EO_cons_em; auto.
Qed.

Lemma Forall_false_map : forall F : list (list item), Forall (fun p => fst p = false) (map (pair false) F).
Proof. induction F; constructor; auto. Qed.

Lemma fill_e_emergency : forall us avail av cur,
  Forall (fun u => u <> []) us -> EmergencyOnly (fill_e avail av cur us).
Proof.
  induction us as [|u r IH]; intros avail av cur Hus.
  - rewrite fill_e_nil. destruct cur; cbn; tauto.
  - inversion Hus as [|? ? Hu Hr]; subst.
    assert (Hs : forall a, EmergencyOnly (start_e avail a u r)).
    { intros a. unfold start_e.
      destruct (tpieces_head u Hu) as [p [F [E _]]]. rewrite E.
      rewrite chop_eq. cbn [is_nil orb app].
      destruct (chop avail a [(true, p)] (map (pair false) F)) as [[ls c] a'] eqn:Ec.
      destruct (chop_emergency _ _ _ _ _ _ _ Ec (Forall_false_map F) eq_refl) as [H1 H2].
      destruct (ends_hard u); apply EO_prepend; auto.
      apply EO_cons_em; auto. }
    rewrite fill_e_eq. destruct (is_nil cur); [apply Hs|].
    destruct (lw (cat cur ++ u) <=? av).
    + destruct (ends_hard u); [|apply IH; exact Hr].
      apply EO_cons_reg; [apply fill_e_starts_reg; exact Hr|apply IH; exact Hr].
    + apply EO_cons_reg; [|apply Hs].
      destruct (start_e_head avail avail u r Hu) as [p [t [rest E]]]. rewrite E. exact I.
Qed.

(* ------------------------------------------------------------------ maximality *)
(* in a unit nothing but end edges follows a forced break *)
Definition hard_tail (u : list item) : Prop :=
  forall x y, u = x ++ Hard :: y -> forallb is_close y = true.

Lemma after_hard_closes : forall cs r, forallb is_close cs = true -> after_hard (rev cs ++ Hard :: r) = true.
Proof.
  intros cs. induction cs as [|c cs IH] using rev_ind; intros r H; [reflexivity|].
  rewrite forallb_app in H. apply andb_true_iff in H. destruct H as [H1 H2].
  cbn in H2. rewrite andb_true_r in H2.
  rewrite rev_app_distr. cbn [rev app]. destruct c; try discriminate. cbn [after_hard]. now apply IH.
Qed.

Lemma units_hard_tail : forall items a u b, units items = a ++ u :: b -> hard_tail u.
Proof.
  intros items a u b Hu x y E.
  assert (G : forall y cs, u = x ++ Hard :: cs ++ y -> forallb is_close cs = true ->
                           forallb is_close y = true).
  { clear y E. induction y as [|s y' IH]; intros cs E Hcs; [reflexivity|].
    assert (Hs : is_close s = true).
    { pose proof (units_inside items a u b (x ++ Hard :: cs) (s :: y') Hu) as F.
      rewrite <- app_assoc in F. cbn [app] in F. specialize (F E).
      assert (N1 : x ++ Hard :: cs <> []) by (destruct x; discriminate).
      specialize (F N1 ltac:(discriminate)).
      unfold cut_b in F. apply orb_false_iff in F. destruct F as [_ F].
      cbn [app forced_b] in F.
      rewrite rev_app_distr in F. cbn [rev] in F. rewrite <- !app_assoc in F. cbn [app] in F.
      rewrite after_hard_closes in F by exact Hcs.
      rewrite andb_true_r in F. now apply negb_false_iff in F. }
    cbn [forallb]. rewrite Hs. cbn [andb].
    apply (IH (cs ++ [s])).
    - rewrite <- app_assoc. exact E.
    - rewrite forallb_app, Hcs. cbn. now rewrite Hs. }
  apply (G y []); [exact E|reflexivity].
Qed.

Lemma ecut_pre : forall pre suf, ecut_b pre suf = true -> exists p', pre = EB :: p'.
Proof.
  intros [|[] pre'] suf H; try discriminate. eauto.
Qed.

Lemma existsb_hard_split : forall l, existsb is_hard l = true -> exists x y, l = x ++ Hard :: y.
Proof.
  induction l as [|i r IH]; intros H; [discriminate|]. cbn in H.
  destruct i; cbn in H; try (destruct (IH H) as [x [y E]]; eexists (_ :: x), y; rewrite E; reflexivity).
  exists [], r. reflexivity.
Qed.

(* ... hence the forced break is in the last piece of its unit *)
Lemma hard_in_last_piece : forall u P q, hard_tail u -> ends_hard u = true ->
  pieces u = P ++ [q] -> existsb is_hard q = true.
Proof.
  intros u P q Ht Hh EP.
  destruct (existsb is_hard q) eqn:Hq; [reflexivity|exfalso].
  assert (Eu : u = concat P ++ q).
  { rewrite <- (pieces_concat u), EP, concat_app. cbn. now rewrite app_nil_r. }
  unfold ends_hard in Hh. rewrite Eu, existsb_app, Hq, orb_false_r in Hh.
  destruct (existsb_hard_split _ Hh) as [x [y1 EcP]].
  assert (Hy : forallb is_close (y1 ++ q) = true).
  { apply (Ht x). rewrite Eu, EcP, <- app_assoc. reflexivity. }
  assert (HP : P <> []) by (intros ->; destruct x; discriminate).
  pose proof (seg_boundary ecut_b u [] [] [] P [q] eq_refl EP HP ltac:(discriminate)) as B.
  rewrite app_nil_r in B. apply ecut_pre in B. destruct B as [p' B].
  rewrite EcP, rev_app_distr in B. cbn [rev] in B. rewrite <- app_assoc in B. cbn [app] in B.
  rewrite forallb_app in Hy. apply andb_true_iff in Hy. destruct Hy as [Hy1 _].
  destruct y1 as [|y0 yr] using rev_ind; [cbn in B; discriminate|].
  rewrite rev_app_distr in B. cbn in B. injection B as B _.
  rewrite forallb_app in Hy1. apply andb_true_iff in Hy1. destruct Hy1 as [_ Hy1].
  subst y0. discriminate.
Qed.

Lemma tpieces_last : forall u P q, pieces u = P ++ [q] -> exists T tg, tpieces u = T ++ [(tg, q)].
Proof.
  intros u P q E. unfold tpieces. rewrite E. destruct P as [|p0 P'].
  - exists [], true. reflexivity.
  - exists ((true, p0) :: map (pair false) P'), false.
    cbn [app tag_pieces]. rewrite map_app. reflexivity.
Qed.

Lemma last_piece_in_chop : forall ps avail av cur ls c a P q,
  chop avail av cur ps = (ls, c, a) -> cur ++ ps = P ++ [q] -> exists c', c = c' ++ [q].
Proof.
  intros ps avail av cur ls c a P q H E.
  pose proof (chop_nonempty _ _ _ _ _ _ _ H) as N.
  assert (Hne : cur <> [] \/ ps <> []).
  { destruct cur; [|left; discriminate]. destruct ps; [|right; discriminate].
    destruct P; discriminate. }
  destruct (N Hne) as [_ Hc].
  apply chop_concat in H. rewrite E in H.
  destruct (exists_last Hc) as [c' [q' Ec]]. subst c.
  rewrite app_assoc in H. apply app_inj_tail in H. destruct H as [_ ->]. eauto.
Qed.

Lemma same_unit_false : forall F T, same_unit (map (pair false) F ++ T) = concat F ++ same_unit T.
Proof.
  induction F as [|f F IH]; intros T; [reflexivity|].
  cbn [map app same_unit concat]. now rewrite IH, app_assoc.
Qed.

Lemma tsub_same_unit : forall r, Forall (fun u => u <> []) r -> same_unit (concat (map tpieces r)) = [].
Proof.
  intros [|u r] H; [reflexivity|]. inversion H; subst.
  destruct (tpieces_head u) as [p [F [E _]]]; [assumption|].
  cbn [map concat]. rewrite E. reflexivity.
Qed.

Lemma first_unit_tpieces : forall u r, u <> [] -> Forall (fun u => u <> []) r ->
  first_unit (tpieces u ++ concat (map tpieces r)) = u.
Proof.
  intros u r Hu Hr. destruct (tpieces_head u Hu) as [p [F [E EP]]].
  rewrite E. cbn [app first_unit]. rewrite same_unit_false, tsub_same_unit by exact Hr.
  rewrite app_nil_r. rewrite <- (pieces_concat u), EP. reflexivity.
Qed.

Lemma start_e_concat : forall avail a u r,
  concat (start_e avail a u r) = tpieces u ++ concat (map tpieces r).
Proof.
  intros. unfold start_e. destruct (chop avail a [] (tpieces u)) as [[ls c] a'] eqn:E.
  apply chop_concat in E. cbn [app] in E.
  destruct (ends_hard u); rewrite concat_app; [cbn [concat]|]; rewrite fill_e_concat; cbn [app];
    rewrite <- E, <- ?app_assoc; reflexivity.
Qed.

(* every line that chop starts begins with a piece tagged false *)
Lemma chop_heads : forall ps avail av cur ls c a,
  chop avail av cur ps = (ls, c, a) -> cur <> [] -> Forall (fun p => fst p = false) ps ->
  Forall (fun g => exists q g', g = (false, q) :: g') (tl (ls ++ [c])).
Proof.
  induction ps as [|p r IH]; intros avail av cur ls c a H Hne Hf.
  - cbn [chop] in H. injection H as <- <- <-. constructor.
  - rewrite chop_eq in H. inversion Hf as [|? ? Hp Hr]; subst.
    destruct (is_nil cur || (lw (cat cur ++ snd p) <=? av)).
    + apply IH in H; [exact H|destruct cur; discriminate|exact Hr].
    + destruct (chop avail avail [p] r) as [[ls' c'] a'] eqn:E.
      injection H as <- <- <-. cbn [app tl].
      pose proof (IH avail avail [p] ls' c' a' E ltac:(discriminate) Hr) as HT.
      destruct p as [t q]. cbn [fst] in Hp. subst t.
      destruct (chop_head r avail avail [(false, q)] ls' c' a' E ltac:(discriminate))
        as [[H1 [t H2]]|[t [ls'' H2]]].
      * subst ls' c'. cbn [app]. constructor; [eexists q, t; reflexivity|constructor].
      * subst ls'. cbn [app tl] in *. constructor; [eexists q, t; reflexivity|exact HT].
Qed.

Lemma M_glue : forall ls avail av c X,
  MaximalE avail av (ls ++ [c]) ->
  Forall (fun g => exists q g', g = (false, q) :: g') (tl (ls ++ [c])) ->
  (exists t rest, X = (c ++ t) :: rest) -> c <> [] ->
  MaximalE avail (if is_nil ls then av else avail) X -> MaximalE avail av (ls ++ X).
Proof.
  induction ls as [|g r IH]; intros avail av c X HM HF HX Hc HMX; [exact HMX|].
  cbn [app is_nil] in *. cbn [MaximalE] in HM. destruct HM as [HM1 HM2].
  cbn [tl] in HF. cbn [MaximalE]. split.
  - destruct r as [|g2 r'].
    + cbn [app] in *. destruct HX as [t [rest ->]].
      inversion HF as [|? ? [q [g' Eq]] _]; subst. cbn [app]. exact HM1.
    + cbn [app] in *. inversion HF as [|? ? [q [g' Eq]] _]; subst. exact HM1.
  - assert (HF' : Forall (fun g0 => exists q g', g0 = (false, q) :: g') (tl (r ++ [c]))).
    { destruct r as [|g2 r']; [constructor|]. cbn [app tl] in *. inversion HF; assumption. }
    specialize (IH avail avail c X HM2 HF' HX Hc).
    destruct r as [|g2 r']; cbn [is_nil app] in *; [exact HMX|].
    apply IH. exact HMX.
Qed.

Lemma ends_hard_t_app : forall a b, ends_hard_t (a ++ b) = ends_hard_t a || ends_hard_t b.
Proof. intros. unfold ends_hard_t. now rewrite cat_app, existsb_app. Qed.

Lemma fill_e_maximal : forall us avail av cur,
  Forall (fun u => u <> []) us -> Forall hard_tail us ->
  MaximalE avail av (fill_e avail av cur us).
Proof.
  induction us as [|u r IH]; intros avail av cur Hus Hts.
  - rewrite fill_e_nil. destruct cur; cbn; tauto.
  - inversion Hus as [|? ? Hu Hr]; subst. inversion Hts as [|? ? Ht Htr]; subst.
    (* a line followed by what fill_e makes of r from an empty line: regular start *)
    assert (Hnext : forall g a, ends_hard_t g = true ->
              MaximalE avail a (g :: fill_e avail avail [] r)).
    { intros g a Hg. cbn [MaximalE]. split; [|apply IH; assumption].
      destruct (fill_e avail avail [] r) as [|[|[t q] g'] rest]; auto. }
    assert (Hs : forall a, MaximalE avail a (start_e avail a u r)).
    { intros a. unfold start_e.
      destruct (tpieces_head u Hu) as [p [F [E EP]]]. rewrite E.
      rewrite chop_eq. cbn [is_nil orb app].
      destruct (chop avail a [(true, p)] (map (pair false) F)) as [[ls c] a'] eqn:Ec.
      pose proof (chop_maximal _ _ _ _ _ _ _ Ec ltac:(discriminate) (Forall_false_map F)) as HM.
      pose proof (chop_heads _ _ _ _ _ _ _ Ec ltac:(discriminate) (Forall_false_map F)) as HH.
      pose proof (chop_room _ _ _ _ _ _ _ Ec) as Ha.
      destruct (chop_nonempty _ _ _ _ _ _ _ Ec ltac:(left; discriminate)) as [_ Hc].
      destruct (ends_hard u) eqn:Hh.
      - apply (M_glue ls avail a c); auto.
        + exists [], (fill_e avail avail [] r). now rewrite app_nil_r.
        + apply Hnext.
          destruct (exists_last (pieces_nonempty u Hu)) as [P [q EPq]].
          pose proof (hard_in_last_piece u P q Ht Hh EPq) as Hq.
          destruct (tpieces_last u P q EPq) as [T [tg ET]].
          assert (EL : [(true, p)] ++ map (pair false) F = T ++ [(tg, q)]) by (rewrite <- ET, E; reflexivity).
          destruct (last_piece_in_chop _ _ _ _ _ _ _ _ _ Ec EL) as [c' ->].
          rewrite ends_hard_t_app. unfold ends_hard_t at 2, cat. cbn [map snd concat].
          rewrite app_nil_r, Hq. apply orb_true_r.
      - destruct (fill_e_head r avail a' c Hc) as [t [rest EX]].
        apply (M_glue ls avail a c); auto.
        + exists t, rest. exact EX.
        + rewrite <- Ha. apply IH; assumption. }
    rewrite fill_e_eq. destruct (is_nil cur) eqn:Hn; [apply Hs|].
    destruct (lw (cat cur ++ u) <=? av) eqn:Hle.
    + destruct (ends_hard u) eqn:Hh; [|apply IH; assumption].
      apply Hnext. rewrite ends_hard_t_app. unfold ends_hard_t at 2. rewrite cat_tpieces.
      unfold ends_hard in Hh. rewrite Hh. apply orb_true_r.
    + cbn [MaximalE]. split; [|apply Hs].
      destruct (start_e_head avail avail u r Hu) as [p [t [rest E]]].
      pose proof (start_e_concat avail avail u r) as EC. rewrite E in *.
      right. rewrite EC, first_unit_tpieces by assumption. now apply Z.leb_gt.
Qed.

(* ------------------------------------------------------------------ break_lines_e *)
Lemma units_all_hard_tail : forall items, Forall hard_tail (units items).
Proof.
  intros items. apply Forall_forall. intros u Hin.
  destruct (in_split _ _ Hin) as [a [b E]]. exact (units_hard_tail items a u b E).
Qed.

Theorem break_partition_e : forall avail indent items,
  PartitionE (tsub items) (break_lines_e avail indent items).
Proof.
  intros. unfold break_lines_e, tsub. split.
  - now rewrite fill_e_concat.
  - apply fill_e_nonempty, units_nonempty.
Qed.

Theorem lines_fit_e : forall avail indent items,
  FitsE avail (avail - indent) (break_lines_e avail indent items).
Proof. intros. apply fill_e_fits; [apply units_nonempty|now left]. Qed.

Theorem greedy_maximal_e : forall avail indent items,
  MaximalE avail (avail - indent) (break_lines_e avail indent items).
Proof. intros. apply fill_e_maximal; [apply units_nonempty|apply units_all_hard_tail]. Qed.

Theorem emergency_only : forall avail indent items,
  EmergencyOnly (break_lines_e avail indent items).
Proof. intros. apply fill_e_emergency, units_nonempty. Qed.

Lemma cat_concat_tpieces : forall us, cat (concat (map tpieces us)) = concat us.
Proof.
  induction us as [|u r IH]; [reflexivity|].
  cbn [map concat]. now rewrite cat_app, cat_tpieces, IH.
Qed.

Lemma concat_map_cat : forall ls, concat (map cat ls) = cat (concat ls).
Proof.
  induction ls as [|g r IH]; [reflexivity|]. cbn [map concat]. now rewrite cat_app, IH.
Qed.

Theorem concat_lines_e : forall avail indent items,
  concat (flat_e (break_lines_e avail indent items)) = items.
Proof.
  intros. unfold flat_e. rewrite concat_map_cat.
  destruct (break_partition_e avail indent items) as [H _]. rewrite H.
  unfold tsub. rewrite cat_concat_tpieces. apply units_concat.
Qed.

(* ------------------------------------------------------------------ what the tags mean *)
Lemma concat_map_split {A B} (f : A -> list B) : forall (us : list A) a x b,
  concat (map f us) = a ++ x :: b ->
  exists U1 u U2 q1 q2, us = U1 ++ u :: U2 /\ f u = q1 ++ x :: q2 /\
                        a = concat (map f U1) ++ q1 /\ b = q2 ++ concat (map f U2).
Proof.
  induction us as [|u r IH]; intros a x b H.
  - destruct a; discriminate.
  - cbn [map concat] in H. apply app_eq_app in H.
    destruct H as [l [[H1 H2]|[H1 H2]]].
    + (* f u = ... ++ l; a ++ x :: b = ... *)
      destruct l as [|l0 l'].
      * rewrite app_nil_r in H1. cbn [app] in H2.
        destruct (IH [] x b) as [U1 [u' [U2 [q1 [q2 [E1 [E2 [E3 E4]]]]]]]]; [now symmetry|].
        exists (u :: U1), u', U2, q1, q2. subst. cbn [map concat app].
        repeat split; auto. rewrite <- app_assoc, <- E3. now rewrite app_nil_r.
      * cbn [app] in H2. injection H2 as -> ->.
        exists [], u, r, a, l'. repeat split; auto.
    + destruct (IH l x b) as [U1 [u' [U2 [q1 [q2 [E1 [E2 [E3 E4]]]]]]]]; [now symmetry|].
      exists (u :: U1), u', U2, q1, q2. subst. cbn [map concat app].
      repeat split; auto. now rewrite <- app_assoc.
Qed.

Lemma ecut_app : forall pre suf x y, ecut_b pre suf = true -> ecut_b (pre ++ x) (suf ++ y) = true.
Proof.
  intros [|[] [|p' pre']] [|s suf] x y H; try discriminate. exact H.
Qed.

(* a piece tagged true follows a regular break opportunity; a piece tagged false follows an
   emergency opportunity that is not a regular one *)
Theorem tsub_tags : forall items a t p b,
  tsub items = a ++ (t, p) :: b -> a <> [] ->
  let pre := rev (cat a) in let suf := p ++ cat b in
  if t then cut_b pre suf = true
  else ecut_b pre suf = true /\ cut_b pre suf = false.
Proof.
  intros items a t p b H Ha pre suf. subst pre suf. unfold tsub in H.
  destruct (concat_map_split tpieces _ _ _ _ H) as [U1 [u [U2 [q1 [q2 [E1 [E2 [E3 E4]]]]]]]].
  assert (Hu : u <> []).
  { pose proof (units_nonempty items) as N. rewrite E1 in N. apply Forall_app in N.
    destruct N as [_ N]. now inversion N. }
  destruct (tpieces_head u Hu) as [p1 [F [ET EP]]].
  assert (EcatU2 : cat b = cat q2 ++ concat U2).
  { rewrite E4, cat_app, cat_concat_tpieces. reflexivity. }
  assert (EcatU1 : cat a = concat U1 ++ cat q1).
  { rewrite E3, cat_app, cat_concat_tpieces. reflexivity. }
  assert (Eu : u = cat q1 ++ p ++ cat q2).
  { rewrite <- (cat_tpieces u), E2, cat_app. unfold cat at 2. cbn [map snd concat]. reflexivity. }
  destruct t.
  - (* the only piece tagged true is the first one *)
    assert (q1 = []).
    { rewrite ET in E2. destruct q1 as [|q0 q1']; [reflexivity|exfalso].
      cbn [app] in E2. injection E2 as _ E2.
      assert (Hin : In (true, p) (map (pair false) F)) by (rewrite E2; apply in_or_app; right; now left).
      apply in_map_iff in Hin. destruct Hin as [? [Hd _]]. discriminate. }
    subst q1. cbn [app] in *. rewrite app_nil_r in EcatU1.
    assert (HU1 : U1 <> []).
    { intros ->. cbn in E3. subst a. congruence. }
    rewrite EcatU1, EcatU2.
    replace (p ++ cat q2 ++ concat U2) with (concat (u :: U2))
      by (cbn [concat]; rewrite Eu; cbn [cat map concat app]; now rewrite <- app_assoc).
    apply (units_boundary items U1 (u :: U2) E1 HU1). discriminate.
  - (* a piece tagged false is not the first one of its unit *)
    assert (Hq1 : q1 <> []).
    { intros ->. rewrite ET in E2. cbn [app] in E2. discriminate. }
    (* in terms of the untagged pieces of u *)
    assert (EPu : pieces u = map snd q1 ++ p :: map snd q2).
    { rewrite <- (untag_tag (pieces u)). fold (tpieces u). rewrite E2, map_app. reflexivity. }
    assert (Hp : p <> []).
    { pose proof (seg_nonempty ecut_b u [] []) as N. fold (pieces u) in N. rewrite EPu in N.
      apply Forall_app in N. destruct N as [_ N]. now inversion N. }
    assert (Hcq1 : cat q1 <> []).
    { pose proof (seg_nonempty ecut_b u [] []) as N. fold (pieces u) in N. rewrite EPu in N.
      apply Forall_app in N. destruct N as [N _].
      destruct q1 as [|[t0 x0] q1']; [congruence|]. cbn [map snd] in N. inversion N; subst.
      unfold cat. cbn [map snd concat]. destruct x0; [congruence|discriminate]. }
    split.
    + pose proof (seg_boundary ecut_b u [] [] [] (map snd q1) (p :: map snd q2) eq_refl EPu) as B.
      rewrite app_nil_r in B.
      specialize (B ltac:(destruct q1; [congruence|discriminate]) ltac:(discriminate)).
      rewrite EcatU1, EcatU2, rev_app_distr.
      replace (p ++ cat q2 ++ concat U2) with (concat (p :: map snd q2) ++ concat U2)
        by (cbn [concat]; unfold cat; now rewrite <- app_assoc).
      apply ecut_app. exact B.
    + rewrite EcatU1, EcatU2, rev_app_distr.
      replace (p ++ cat q2 ++ concat U2) with ((p ++ cat q2) ++ concat U2) by now rewrite <- app_assoc.
      apply (units_inside items U1 u U2 (cat q1) (p ++ cat q2) E1 Eu Hcq1).
      destruct p; [congruence|discriminate].
Qed.

(* "a line never breaks where white-space / overflow-wrap forbid it": every line boundary
   is a regular break opportunity, or an emergency one and then the line that ends there
   holds no regular opportunity (all its pieces but the first are tagged false, and
   tsub_tags / units_inside say that there is no regular opportunity before or inside
   such a piece) *)
Theorem no_forbidden_break_e : forall avail indent items a g b,
  break_lines_e avail indent items = a ++ g :: b -> b <> [] ->
  let pre := rev (cat (concat (a ++ [g]))) in let suf := cat (concat b) in
  cut_b pre suf = true \/
  (ecut_b pre suf = true /\ cut_b pre suf = false /\ all_emergency (tl g) = true).
Proof.
  intros avail indent items a g b E Hb pre suf. subst pre suf.
  destruct (break_partition_e avail indent items) as [Hcat Hne].
  pose proof (emergency_only avail indent items) as HE.
  rewrite E in Hcat, Hne, HE.
  apply Forall_app in Hne. destruct Hne as [_ Hne]. inversion Hne as [|? ? Hg Hnb]; subst.
  destruct b as [|g2 b']; [congruence|]. inversion Hnb as [|? ? Hg2 _]; subst.
  destruct g2 as [|[t p] g2']; [congruence|].
  assert (HT : tsub items = concat (a ++ [g]) ++ (t, p) :: (g2' ++ concat b')).
  { rewrite <- Hcat. rewrite concat_app. cbn [concat]. rewrite concat_app. cbn [concat].
    rewrite app_nil_r, <- !app_assoc. reflexivity. }
  assert (Hne' : concat (a ++ [g]) <> []).
  { rewrite concat_app. cbn [concat]. rewrite app_nil_r.
    intros H0. apply app_eq_nil in H0. destruct H0. congruence. }
  pose proof (tsub_tags items _ t p _ HT Hne') as TT. cbn zeta in TT.
  assert (Es : cat (concat (((t, p) :: g2') :: b')) = p ++ cat (g2' ++ concat b')).
  { cbn [concat]. unfold cat. cbn [app map snd concat]. reflexivity. }
  rewrite Es. destruct t.
  - left. exact TT.
  - right. destruct TT as [T1 T2]. repeat split; auto.
    (* the line g is followed by an emergency break *)
    clear - HE. induction a as [|g0 a IH]; cbn [app EmergencyOnly] in HE; [tauto|].
    apply IH. tauto.
Qed.

(* ------------------------------------------------------------------ overflow-wrap: normal *)
Definition noeb (l : list item) : Prop := Forall (fun i => is_eb i = false) l.

Lemma ecut_noeb : forall i pre suf, is_eb i = false -> ecut_b (i :: pre) suf = false.
Proof. intros [] pre suf H; try reflexivity. discriminate. Qed.

Lemma seg_noeb : forall l pre cur, noeb pre -> noeb l ->
  seg ecut_b pre cur l = match rev cur ++ l with [] => [] | x => [x] end.
Proof.
  induction l as [|x r IH]; intros pre cur Hp Hl.
  - cbn [seg]. rewrite app_nil_r. destruct cur as [|c0 c]; [reflexivity|].
    destruct (rev (c0 :: c)) eqn:E; [|reflexivity].
    apply (f_equal (@length _)) in E. rewrite rev_length in E. discriminate.
  - inversion Hl as [|? ? Hx Hr]; subst. cbn [seg]. destruct cur as [|c0 c].
    + rewrite IH; [reflexivity|constructor; assumption|assumption].
    + assert (Ec : ecut_b pre (x :: r) = false).
      { destruct pre as [|p0 pre']; [reflexivity|]. inversion Hp; subst. now apply ecut_noeb. }
      rewrite Ec. rewrite IH; [|constructor; assumption|assumption].
      cbn [rev]. rewrite <- !app_assoc. cbn [app].
      destruct (rev c ++ c0 :: x :: r) eqn:E; [|destruct (rev c ++ [c0] ++ x :: r) eqn:E2; [|reflexivity]].
      * destruct (rev c); discriminate.
      * destruct (rev c); discriminate.
Qed.

Lemma pieces_noeb : forall u, u <> [] -> noeb u -> pieces u = [u].
Proof.
  intros u Hu Hn. unfold pieces. rewrite seg_noeb; [|constructor|exact Hn].
  cbn [rev app]. destruct u; [congruence|reflexivity].
Qed.

Lemma cat_true : forall g : list (list item), cat (map (pair true) g) = concat g.
Proof. intros. unfold cat. rewrite map_map. cbn [snd]. now rewrite map_id. Qed.

Lemma fill_e_noeb : forall us avail av cur,
  Forall (fun u => u <> [] /\ noeb u) us ->
  fill_e avail av (map (pair true) cur) us = map (map (pair true)) (fill avail av cur us).
Proof.
  induction us as [|u r IH]; intros avail av cur H.
  - rewrite fill_e_nil, fill_nil. destruct cur; reflexivity.
  - inversion H as [|? ? [Hu Hn] Hr]; subst.
    assert (ET : tpieces u = [(true, u)]) by (unfold tpieces; now rewrite pieces_noeb).
    assert (Hs : forall a, start_e avail a u r =
              map (map (pair true)) (if ends_hard u then [u] :: fill avail avail [] r
                                      else fill avail a [u] r)).
    { intros a. unfold start_e. rewrite ET. cbn [chop is_nil orb app].
      destruct (ends_hard u).
      - cbn [map]. f_equal. apply (IH avail avail [] Hr).
      - apply (IH avail a [u] Hr). }
    rewrite fill_e_eq, fill_eq. rewrite cat_true.
    destruct cur as [|c0 c].
    + cbn [map is_nil orb app]. rewrite Hs. reflexivity.
    + cbn [is_nil orb].
      replace (is_nil (map (pair true) (c0 :: c))) with false by reflexivity.
      destruct (lw (concat (c0 :: c) ++ u) <=? av).
      * rewrite ET. change [(true, u)] with (map (pair true) [u]). rewrite <- map_app.
        destruct (ends_hard u).
        -- cbn [map]. f_equal. apply (IH avail avail [] Hr).
        -- apply IH. exact Hr.
      * cbn [map]. f_equal. apply Hs.
Qed.

Lemma noeb_forallb : forall l, forallb (fun i => negb (is_eb i)) l = true -> noeb l.
Proof.
  induction l as [|i r IH]; intros H; [constructor|].
  cbn in H. apply andb_true_iff in H. destruct H as [H1 H2].
  constructor; [now apply negb_true_iff|now apply IH].
Qed.

Lemma units_noeb : forall items, no_eb items -> Forall (fun u => u <> [] /\ noeb u) (units items).
Proof.
  intros items H. apply noeb_forallb in H.
  pose proof (units_nonempty items) as N. pose proof (units_concat items) as C.
  rewrite <- C in H. clear C. induction (units items) as [|u r IH]; [constructor|].
  inversion N as [|? ? Nu Nr]; subst. cbn [concat] in H. apply Forall_app in H. destruct H as [Hu Hr].
  constructor; [split; assumption|now apply IH].
Qed.

(* without emergency break opportunities (overflow-wrap: normal) the breaker is the one of
   Layout/LineBreakProofs.v, whose theorems (uniqueness included) then apply *)
Theorem break_lines_e_no_eb : forall avail indent items, no_eb items ->
  break_lines_e avail indent items = map (map (pair true)) (break_lines avail indent items) /\
  flat_e (break_lines_e avail indent items) = flat (break_lines avail indent items).
Proof.
  intros avail indent items H. unfold break_lines_e, break_lines.
  pose proof (fill_e_noeb (units items) avail (avail - indent) [] (units_noeb items H)) as E.
  cbn [map] in E. split; [exact E|].
  rewrite E. unfold flat_e, flat. rewrite map_map. apply map_ext. intros g. apply cat_true.
Qed.

Theorem tsub_no_eb : forall items, no_eb items -> tsub items = map (pair true) (units items).
Proof.
  intros items H. unfold tsub. pose proof (units_noeb items H) as N.
  induction (units items) as [|u r IH]; [reflexivity|].
  inversion N as [|? ? [Hu Hn] Hr]; subst. cbn [map concat].
  unfold tpieces at 1. rewrite pieces_noeb by assumption. cbn [tag_pieces map app].
  f_equal. now apply IH.
Qed.

(* ------------------------------------------------------------------ forced breaks *)
(* on a line nothing but end edges follows a forced break: "a line ends at a forced break" *)
Definition hard_closes (l : list item) : Prop :=
  forall x y, l = x ++ Hard :: y -> forallb is_close y = true.

Lemma hard_closes_nohard : forall l, existsb is_hard l = false -> hard_closes l.
Proof.
  intros l H x y E. subst. rewrite existsb_app in H. cbn in H. rewrite orb_true_r in H. discriminate.
Qed.

Lemma hard_closes_app : forall a b, existsb is_hard a = false -> hard_closes b -> hard_closes (a ++ b).
Proof.
  intros a b Ha Hb x y E. apply app_eq_app in E. destruct E as [l [[E1 E2]|[E1 E2]]].
  - destruct l as [|l0 l'].
    + cbn [app] in E2. apply (Hb [] y). now symmetry.
    + cbn [app] in E2. injection E2 as E2 _. subst l0 a.
      rewrite existsb_app in Ha. cbn in Ha. rewrite orb_true_r in Ha. discriminate.
  - apply (Hb l y). now symmetry.
Qed.

Lemma hard_tail_segment : forall u p s q, hard_tail u -> u = p ++ s ++ q -> hard_closes s.
Proof.
  intros u p s q Ht E x y Es. subst s.
  assert (H : forallb is_close (y ++ q) = true).
  { apply (Ht (p ++ x)). rewrite E, <- !app_assoc. reflexivity. }
  rewrite forallb_app in H. now apply andb_true_iff in H.
Qed.

Lemma nohard_segment : forall u p s q, existsb is_hard u = false -> u = p ++ s ++ q -> existsb is_hard s = false.
Proof.
  intros u p s q H E. subst u. rewrite !existsb_app in H.
  apply orb_false_iff in H. destruct H as [_ H]. now apply orb_false_iff in H.
Qed.

Lemma in_concat_segment : forall (L : list (list (bool * list item))) g,
  In g L -> exists P Q, cat (concat L) = P ++ cat g ++ Q.
Proof.
  intros L g Hin. destruct (in_split _ _ Hin) as [L1 [L2 ->]].
  exists (cat (concat L1)), (cat (concat L2)).
  rewrite concat_app. cbn [concat]. now rewrite !cat_app.
Qed.

Lemma chop_segments : forall u avail a ls c a',
  chop avail a [] (tpieces u) = (ls, c, a') ->
  forall g, In g (ls ++ [c]) -> exists P Q, u = P ++ cat g ++ Q.
Proof.
  intros u avail a ls c a' E g Hin.
  destruct (in_concat_segment (ls ++ [c]) g Hin) as [P [Q H]].
  apply chop_concat in E. cbn [app] in E.
  rewrite concat_app in H. cbn [concat] in H. rewrite app_nil_r, E, cat_tpieces in H. eauto.
Qed.

Lemma fill_e_forced : forall us avail av cur,
  Forall hard_tail us -> existsb is_hard (cat cur) = false ->
  Forall (fun g => hard_closes (cat g)) (fill_e avail av cur us).
Proof.
  induction us as [|u r IH]; intros avail av cur Hts Hc.
  - rewrite fill_e_nil. destruct cur; repeat constructor. now apply hard_closes_nohard.
  - inversion Hts as [|? ? Ht Htr]; subst.
    assert (Hs : forall a, Forall (fun g => hard_closes (cat g)) (start_e avail a u r)).
    { intros a. unfold start_e. destruct (chop avail a [] (tpieces u)) as [[ls c] a'] eqn:E.
      pose proof (chop_segments u avail a ls c a' E) as SG.
      assert (HL : Forall (fun g => hard_closes (cat g)) (ls ++ [c])).
      { apply Forall_forall. intros g Hg. destruct (SG g Hg) as [P [Q EU]].
        exact (hard_tail_segment u P (cat g) Q Ht EU). }
      apply Forall_app in HL. destruct HL as [HL1 HL2].
      destruct (ends_hard u) eqn:Hh; apply Forall_app; split; auto.
      - inversion HL2; subst. constructor; [assumption|]. apply IH; [exact Htr|reflexivity].
      - apply IH; [exact Htr|].
        destruct (SG c ltac:(apply in_or_app; right; now left)) as [P [Q EU]].
        exact (nohard_segment u P (cat c) Q Hh EU). }
    rewrite fill_e_eq. destruct (is_nil cur); [apply Hs|].
    destruct (lw (cat cur ++ u) <=? av).
    + destruct (ends_hard u) eqn:Hh.
      * constructor; [|apply IH; [exact Htr|reflexivity]].
        rewrite cat_app, cat_tpieces. apply hard_closes_app; [exact Hc|].
        intros x y E. exact (Ht x y E).
      * apply IH; [exact Htr|]. rewrite cat_app, cat_tpieces, existsb_app, Hc. exact Hh.
    + constructor; [now apply hard_closes_nohard|apply Hs].
Qed.

Theorem forced_respected_e : forall avail indent items,
  Forall hard_closes (flat_e (break_lines_e avail indent items)).
Proof.
  intros. unfold flat_e. apply Forall_map.
  apply fill_e_forced; [apply units_all_hard_tail|reflexivity].
Qed.
