(* Layout/LineBreak.v -- C11: "Lines are broken greedily and fit their container".

   This is a SPECIFICATION-LEVEL model, not a port of /repo/html/layout/inline.go
   (1 500 lines: recursive splitInlineBox with waiting children, :592-1044, on top
   of the Pango port text/engine_pango.go:624-925).  It describes what CSS Text 3
   section 5 (line breaking), CSS 2.1 sections 9.4.2, 10.8, 16.1, 16.2 and the
   property text require of the result, as an executable greedy algorithm over an
   abstract description of the inline content of one block container, and it is
   tied to /repo through observables that the property determines (theorem
   break_unique): line partition, x/width of every text fragment and atomic box,
   y/height of every line box.  No proofs in this file.

   Inline content = list of items (document order):
     Word w        unbreakable run of glyphs of total advance w
     Space m w     run of U+0020 of total advance w inside text whose white-space is m
     Open e        start edge of an inline box (margin+border+padding, width e)
     Close e       end edge of an inline box
     Atomic m w h  atomic inline (inline-block) of margin-box width w, height h, child of a
                   box whose white-space is m
     Hard          forced line break (<br>, or a preserved newline)
     EB            emergency break opportunity: the boundary between two glyphs of an otherwise
                   unbreakable sequence inside text whose overflow-wrap is anywhere | break-word
                   (and whose white-space wraps).  Zero width, invisible.  CSS Text 3, 5.5: "an
                   otherwise unbreakable sequence of characters may be broken at an arbitrary
                   point if there are no otherwise-acceptable break points in the line"
   lengths are integers in one common unit (px for the Ahem stream, 1/1024 px = Pango
   units for the real-font monitor).

   Anchors (what the corresponding Go code is, for orientation):
     units / cut_b     inline.go:882-905 (canBreak between children), text/engine_pango.go:624-700
     fill              inline.go:833-946 (children loop), :708-777 (breakWaitingChildren), :141-214
     lw / trimming     inline.go:246-303 skipFirstWhitespace, :307-370 removeLastWhitespace
     place             inline.go:1383-1487 textAlign/justifyLine/addWordSpacing, :94-97,148 text-indent
     line_extent       inline.go:1223-1381 lineBoxVerticality, text/text.go:128-171 StrutLayout
     chop / fill_e     text/engine_pango.go:843-864 (step 5: break the word if it is too long for
                       the line and the text starts the line), inline.go:623 isLineStart *)
From Coq Require Import List ZArith QArith Qminmax Bool.
Import ListNotations.
Open Scope Z_scope.

Inductive mode := Normal | Nowrap | Pre | PreWrap | PreLine.

(* CSS Text 3, 3. white-space: does the value allow wrapping at spaces / collapse spaces *)
Definition wraps (m : mode) : bool :=
  match m with Normal | PreWrap | PreLine => true | Nowrap | Pre => false end.
Definition collapses (m : mode) : bool :=
  match m with Normal | Nowrap | PreLine => true | Pre | PreWrap => false end.
(* a space at the end of a line takes no room: removed when collapsible (CSS 2.1 16.6.1
   step 4 / CSS Text 4.1.2), hanging when preserved and wrappable (pre-wrap, CSS Text 4.1.3) *)
Definition hangs (m : mode) : bool := collapses m || wraps m.

Inductive item :=
| Word (w : Z)
| Space (m : mode) (w : Z)
| Open (e : Z)
| Close (e : Z)
| Atomic (m : mode) (w h : Z)
| Hard
| EB.

Notation lunit := (list item) (only parsing).   (* a unit: items between two consecutive break opportunities *)

Definition is_open (i : item) := match i with Open _ => true | _ => false end.
Definition is_close (i : item) := match i with Close _ => true | _ => false end.
Definition is_edge (i : item) := match i with Open _ | Close _ => true | _ => false end.
Definition is_hard (i : item) := match i with Hard => true | _ => false end.
Definition is_space (i : item) := match i with Space _ _ => true | _ => false end.
Definition is_eb (i : item) := match i with EB => true | _ => false end.

(* nearest content item (not an inline-box edge, not an emergency break opportunity) *)
Fixpoint content (l : list item) : option item :=
  match l with
  | [] => None
  | i :: r => if is_edge i || is_eb i then content r else Some i
  end.

(* is there a Word / Atomic / preserved space before (list given backwards) since the last
   forced break: a collapsible space with nothing before it on the line is removed, no
   wrap opportunity follows it *)
Fixpoint solid_before (pre : list item) : bool :=
  match pre with
  | [] => false
  | Word _ :: _ | Atomic _ _ _ :: _ => true
  | Space m _ :: r => if collapses m then solid_before r else true
  | Hard :: _ => false
  | _ :: r => solid_before r
  end.

(* soft wrap opportunity between the items `pre` (backwards) and `suf`.
   CSS Text 3, 5.1: at spaces when white-space allows wrapping (the break goes after the
   space run); before and after an atomic inline (it behaves like an ideographic
   character), governed by the white-space of its parent; never before a space
   (UAX 14 LB7) and never between an inline box's edge and its content (the edge
   sticks to the adjacent content: CSS 2.1 9.4.2 / CSS Text 5.1 "boundaries of
   inline boxes are ignored"). *)
Definition allowed_b (pre suf : list item) : bool :=
  match pre, suf with
  | p :: _, s :: _ =>
      negb (is_open p) && negb (is_close s) &&
      match content pre, content suf with
      | Some (Space m _), Some (Word _) => wraps m && solid_before pre
      | Some (Space m _), Some (Atomic m' _ _) => (wraps m || wraps m') && solid_before pre
      | Some (Word _), Some (Atomic m _ _) => wraps m
      | Some (Atomic m _ _), Some (Word _) => wraps m
      | Some (Atomic m _ _), Some (Atomic m' _ _) => wraps m && wraps m'
      | _, _ => false
      end
  | _, _ => false
  end.

(* forced break: right after a Hard; the Close edges that follow it stay with it *)
Fixpoint after_hard (pre : list item) : bool :=
  match pre with
  | Hard :: _ => true
  | Close _ :: r => after_hard r
  | _ => false
  end.

Definition forced_b (pre suf : list item) : bool :=
  match suf with
  | s :: _ => negb (is_close s) && after_hard pre
  | [] => false
  end.

Definition cut_b (pre suf : list item) : bool := allowed_b pre suf || forced_b pre suf.

(* cut a list at every position where `cut (reversed prefix) suffix` holds *)
Fixpoint seg (cut : list item -> list item -> bool) (pre cur : list item) (l : list item)
  : list lunit :=
  match l with
  | [] => match cur with [] => [] | _ => [rev cur] end
  | x :: r =>
      match cur with
      | [] => seg cut (x :: pre) [x] r
      | _ => if cut pre l then rev cur :: seg cut (x :: pre) [x] r
             else seg cut (x :: pre) (x :: cur) r
      end
  end.

Definition units (items : list item) : list lunit := seg cut_b [] [] items.

Definition ends_hard (u : lunit) : bool := existsb is_hard u.

(* ---- occupied width of a line (CSS 2.1 16.6.1: leading collapsible spaces removed,
   trailing ones removed / hanging) *)
Record wst := mkW { acc : Z; pend : Z; solid : bool }.

Definition wstep (s : wst) (i : item) : wst :=
  match i with
  | Word w | Atomic _ w _ => mkW (acc s + pend s + w) 0 true
  | Space m w =>
      if collapses m && negb (solid s) then s
      else if hangs m then mkW (acc s) (pend s + w) (solid s)
      else mkW (acc s + pend s + w) 0 true
  | Open e | Close e => mkW (acc s + e) (pend s) (solid s)
  | Hard | EB => s
  end.

Definition lw_from (s : wst) (l : list item) : Z := acc (fold_left wstep l s).
Definition lw (l : list item) : Z := lw_from (mkW 0 0 false) l.

(* ---- greedy first fit over units.  `av` is the room of the line being filled (the
   first line has avail - text-indent), `avail` the room of every later line. *)
Definition is_nil {A} (l : list A) : bool := match l with [] => true | _ => false end.

Fixpoint fill (avail av : Z) (cur : list lunit) (us : list lunit) : list (list lunit) :=
  match us with
  | [] => match cur with [] => [] | _ => [cur] end
  | u :: r =>
      let take := fun (c : list lunit) (a : Z) =>
        if ends_hard u then (c ++ [u]) :: fill avail avail [] r
        else fill avail a (c ++ [u]) r in
      if is_nil cur || (lw (concat cur ++ u) <=? av) then take cur av
      else cur :: take [] avail
  end.

Definition break_lines (avail indent : Z) (items : list item) : list (list lunit) :=
  fill avail (avail - indent) [] (units items).

Definition flat (ls : list (list lunit)) : list (list item) := map (@concat item) ls.

(* ---- overflow-wrap: anywhere | break-word.  A unit that holds emergency break
   opportunities is made of PIECES (what lies between consecutive EB positions; the EB ends
   its piece; an inline-box edge sticks to its content here too).  A piece carries a tag:
   true = a regular break opportunity (cut_b) precedes it (it starts a unit), false = only an
   emergency opportunity precedes it.  A line is a list of tagged pieces. *)
Definition ecut_b (pre suf : list item) : bool :=
  match pre, suf with
  | EB :: p :: _, s :: _ => negb (is_open p) && negb (is_close s)
  | _, _ => false
  end.

Definition pieces (u : lunit) : list lunit := seg ecut_b [] [] u.

Notation tpiece := (bool * list item)%type (only parsing).

Definition tag_pieces (ps : list lunit) : list tpiece :=
  match ps with
  | [] => []
  | p :: r => (true, p) :: map (pair false) r
  end.

Definition tpieces (u : lunit) : list tpiece := tag_pieces (pieces u).

Definition cat (l : list tpiece) : list item := concat (map snd l).

(* the tagged pieces of the whole inline content *)
Definition tsub (items : list item) : list tpiece := concat (map tpieces (units items)).

(* a unit that starts a line and does not fit is broken at its emergency opportunities,
   greedily: pieces are taken while they fit, at least one per line.  Returns the completed
   lines, the line being filled and its room. *)
Fixpoint chop (avail av : Z) (cur : list tpiece) (ps : list tpiece)
  : list (list tpiece) * list tpiece * Z :=
  match ps with
  | [] => ([], cur, av)
  | p :: r =>
      if is_nil cur || (lw (cat cur ++ snd p) <=? av) then chop avail av (cur ++ [p]) r
      else let '(ls, c, a) := chop avail avail [p] r in (cur :: ls, c, a)
  end.

(* greedy first fit over units, a unit being broken at its emergency opportunities only when
   it starts a line (no other break opportunity on that line) *)
Fixpoint fill_e (avail av : Z) (cur : list tpiece) (us : list lunit) : list (list tpiece) :=
  match us with
  | [] => match cur with [] => [] | _ => [cur] end
  | u :: r =>
      let start := fun (a : Z) =>
        let '(ls, c, a') := chop avail a [] (tpieces u) in
        if ends_hard u then ls ++ c :: fill_e avail avail [] r
        else ls ++ fill_e avail a' c r in
      if is_nil cur then start av
      else if lw (cat cur ++ u) <=? av then
        (if ends_hard u then (cur ++ tpieces u) :: fill_e avail avail [] r
         else fill_e avail av (cur ++ tpieces u) r)
      else cur :: start avail
  end.

Definition break_lines_e (avail indent : Z) (items : list item) : list (list tpiece) :=
  fill_e avail (avail - indent) [] (units items).

Definition flat_e (ls : list (list tpiece)) : list (list item) := map cat ls.

(* ---- what is left of a line once the spaces at its edges are removed *)
Definition stops_trim (i : item) : bool :=
  match i with
  | Word _ | Atomic _ _ _ => true
  | Space m _ => negb (collapses m)
  | _ => false
  end.

Fixpoint drop_lead (l : list item) : list item :=
  match l with
  | [] => []
  | i :: r =>
      if stops_trim i then l
      else match i with
           | Space _ _ => drop_lead r
           | _ => i :: drop_lead r
           end
  end.

Definition trim_line (l : list item) : list item := rev (drop_lead (rev (drop_lead l))).

(* ---- placement *)
Inductive align := AStart | AEnd | ACenter | AJustify.

Record cfg := mkCfg {
  avail : Z;        (* width of the containing block *)
  indent : Z;       (* text-indent *)
  em : Z;           (* font size = advance of every glyph (Ahem) *)
  lh : Z;           (* line-height *)
  al : align;
  pcoll : bool;     (* the block's own white-space collapses spaces (justification allowed) *)
  x0 : Q; y0 : Q    (* content-box origin of the block *)
}.

Inductive frag := FT (x w : Q) | FA (x w : Q).    (* text fragment / atomic box *)

Definition iw (i : item) : Z :=
  match i with
  | Word w | Space _ w | Open w | Close w | Atomic _ w _ => w
  | Hard | EB => 0
  end.

Definition sumw (l : list item) : Z := fold_right (fun i a => iw i + a) 0 l.

(* number of space glyphs of a line *)
Definition nspaces (emv : Z) (l : list item) : Z :=
  fold_right (fun i a => match i with Space _ w => w / emv + a | _ => a end) 0 l.

Local Open Scope Q_scope.
Definition zq (z : Z) : Q := inject_Z z.

(* text-align (CSS 2.1 16.2 / CSS Text 7.1): offset of the content and widening of each
   space glyph, for a line whose trimmed content is `v`, starting `ind` after the line
   box's start edge.  Content that does not fit is start-aligned. *)
Definition align_params (c : cfg) (ind : Z) (last : bool) (v : list item) : Q * Q :=
  let W := (ind + sumw v)%Z in
  let free := zq (avail c - W) in
  if (avail c <=? W)%Z then (0, 0)
  else match al c with
       | AStart => (0, 0)
       | AEnd => (free, 0)
       | ACenter => (free / 2, 0)
       | AJustify =>
           let n := nspaces (em c) v in
           if last || negb (pcoll c) || (n <=? 0)%Z then (0, 0)
           else (0, free / zq n)
       end.

(* walk the trimmed line: x of every text run (maximal sequence of Word/Space) and atomic *)
Fixpoint walk (emv : Z) (extra : Q) (x : Q) (run : option (Q * Q)) (l : list item) : list frag :=
  let flush := match run with Some (s, w) => [FT s w] | None => [] end in
  let grow := fun (d : Q) => match run with Some (s, w) => Some (s, w + d) | None => Some (x, d) end in
  match l with
  | [] => flush
  | Word w :: r => walk emv extra (x + zq w) (grow (zq w)) r
  | Space _ w :: r =>
      let d := zq w + zq (w / emv) * extra in
      walk emv extra (x + d) (grow d) r
  | Open e :: r | Close e :: r => flush ++ walk emv extra (x + zq e) None r
  | Atomic _ w _ :: r => flush ++ FA x (zq w) :: walk emv extra (x + zq w) None r
  | Hard :: r => flush ++ walk emv extra x None r
  | EB :: r => walk emv extra x run r      (* invisible: the glyphs around it are one text run *)
  end.

(* total advance of a placed line: widths plus the widening of every space glyph *)
Definition advance (emv : Z) (extra : Q) (v : list item) : Q :=
  zq (sumw v) + zq (nspaces emv v) * extra.

(* the line box itself: it starts at the alignment offset and holds the text-indent and
   the content (inline.go:155-178: line.Width after removeLastWhitespace / justification,
   translated by textAlign's offset) *)
Definition line_box (c : cfg) (first last : bool) (l : list item) : Q * Q :=
  let ind := if first then indent c else 0%Z in
  let v := trim_line l in
  let '(off, extra) := align_params c ind last v in
  (x0 c + off, zq ind + advance (em c) extra v).

Definition place (c : cfg) (first last : bool) (l : list item) : list frag :=
  let ind := if first then indent c else 0%Z in
  let v := trim_line l in
  let '(off, extra) := align_params c ind last v in
  walk (em c) extra (x0 c + zq ind + off) None v.

(* ---- vertical extent of a line box whose boxes all use the block's font and
   vertical-align: baseline (CSS 2.1 10.8).  Relative to the baseline: the strut and
   every inline box reach from -(A + L/2) to D + L/2 where A = 4/5 em, D = 1/5 em
   (Ahem) and L = line-height - em is the leading; an atomic inline of height h sits
   on the baseline. *)
Definition strut_top (c : cfg) : Q := - (zq (4 * em c) / 5 + zq (lh c - em c) / 2).
Definition strut_bottom (c : cfg) : Q := strut_top c + zq (lh c).

Definition line_extent (c : cfg) (l : list item) : Q * Q :=
  fold_left (fun tb i =>
               match i with
               | Atomic _ _ h => (Qmin (fst tb) (- zq h), Qmax (snd tb) 0)
               | _ => tb
               end) l (strut_top c, strut_bottom c).

Definition line_height (c : cfg) (l : list item) : Q :=
  let tb := line_extent c l in snd tb - fst tb.

Record oline := mkLine { oy : Q; oh : Q; ox : Q; ow : Q; ofr : list frag }.

(* CSS 2.1 9.4.2: "line boxes that contain no text, no preserved white space, no inline
   elements with non-zero margins, padding, or borders, and no other in-flow content must be
   treated as zero-height [...] and must be treated as not existing for any other purpose":
   a line holding only collapsible spaces (removed) and empty edges is no line *)
Definition phantom_item (i : item) : bool :=
  match i with
  | Word _ | Atomic _ _ _ | Hard => false
  | Space m _ => collapses m
  | Open e | Close e => (e =? 0)%Z
  | EB => true
  end.
Definition phantom (l : list item) : bool := forallb phantom_item l.

(* the line is the last one of the block (nothing but phantom lines follows) or ends with a
   forced break: it is not justified *)
Definition line_last (l : list item) (rest : list (list item)) : bool :=
  forallb phantom rest || existsb is_hard l.

Fixpoint stack (c : cfg) (first : bool) (y : Q) (ls : list (list item)) : list oline :=
  match ls with
  | [] => []
  | l :: r =>
      if phantom l then stack c first y r
      else
      let h := line_height c l in
      let b := line_box c first (line_last l r) l in
      mkLine y h (fst b) (snd b) (place c first (line_last l r) l) :: stack c false (y + h) r
  end.

Definition layout (c : cfg) (items : list item) : list oline :=
  stack c true (y0 c) (flat_e (break_lines_e (avail c) (indent c) items)).
