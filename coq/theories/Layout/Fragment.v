(* Layout/Fragment.v -- fragmentation steps and resume points (C02).

   A layout pass over one page is a *step*: it starts at a resume point
   (`skip`, the ResumeStack handed to blockContainerLayout, blocks.go:371-378),
   places some content units on the page and returns the resume point of the
   next page (`resume`, None when the flow is finished; blocks.go:822-824,
   1017-1020).  The model is generic in what a resume point is; two instances:

     nat      the index of the first unit not yet placed (Layout/Paginate.v)
     rstack   html/tree/target.go:30-58 ResumeStack restricted to the single-key
              maps that block / line fragmentation produces: {index: sub-stack},
              nil = "from the start" (multi-key stacks only arise for out-of-flow
              boxes, which are separate flows)

   rewinds (each turns a step into a step that placed less):
     drop_last_lines k         blocks.go:685-692 breakLine: the last k lines already
                               placed are removed for widows; blocks.go:695 returns
                               {index: skipStack} = resume before the overflowing line
     rewind_to_earlier_break   blocks.go:1135-1211 findEarlierPageBreak: children
                               [:index] are kept, resumeAt = {children[index].Index: nil}
                               (or, inside a paragraph, the ResumeAt of the last kept line)

   No proofs in this file. *)
From Coq Require Export List Arith.
From Verif Require Export Layout.Paginate.
Export ListNotations.
Local Open Scope nat_scope.

Section Steps.
  Variable Pos : Type.
  Variable U : Type.
  (* the content of the flow from a resume point on, in flow order *)
  Variable content_from : Pos -> list U.

  Record step := mkStep { skip : Pos; placed : list U; resume : option Pos }.

  Definition content_opt (r : option Pos) : list U :=
    match r with Some p => content_from p | None => [] end.

  (* resume-stack consistency of one step *)
  Definition step_ok (s : step) : Prop :=
    content_from (skip s) = placed s ++ content_opt (resume s).

  (* the next step starts where the previous one said to resume; the last one
     returns `final` *)
  Fixpoint linked (start : Pos) (steps : list step) (final : option Pos) : Prop :=
    match steps with
    | [] => final = Some start
    | s :: r =>
        skip s = start /\
        match r with
        | [] => resume s = final
        | _ => match resume s with Some p => linked p r final | None => False end
        end
    end.

  (* rewinds: remove the last k placed units / keep only the first j; the caller
     supplies the new resume point *)
  Definition drop_last (k : nat) (new_resume : Pos) (s : step) : step :=
    mkStep (skip s) (firstn (length (placed s) - k) (placed s)) (Some new_resume).
  Definition rewind_to (j : nat) (new_resume : Pos) (s : step) : step :=
    mkStep (skip s) (firstn j (placed s)) (Some new_resume).

  (* "returns a resume matching what was removed" *)
  Definition rewind_matches (removed : list U) (new_resume : Pos) (old : option Pos) : Prop :=
    content_from new_resume = removed ++ content_opt old.
End Steps.
Arguments skip {Pos U} s.
Arguments placed {Pos U} s.
Arguments resume {Pos U} s.
Arguments mkStep {Pos U} skip placed resume.

(* ------------------------------------------------------------------ resume stacks on flow trees *)

Inductive rstack := RS (i : nat) (sub : option rstack).

(* number of units of a flow *)
Fixpoint flow_size (f : flow) : nat :=
  match f with
  | Blk _ _ _ _ _ _ _ _ kids => (fix go (ks : list flow) := match ks with [] => 0 | k :: r => flow_size k + go r end) kids
  | Para n _ _ _ => n
  | Mono _ => 1
  end.
Definition flows_size (ks : list flow) : nat := fold_right (fun k a => flow_size k + a) 0 ks.

(* how many units of the children list `ks` precede the point a stack designates:
   {i: sub} = children before i entirely, then inside child i as `sub` says;
   inside a paragraph the index is the line index (blocks.go:823, 1146) *)
Fixpoint offset_in (f : flow) (r : option rstack) : nat :=
  match r with
  | None => 0
  | Some (RS i sub) =>
      match f with
      | Blk _ _ _ _ _ _ _ _ kids =>
          (fix go (ks : list flow) (i : nat) : nat :=
             match ks, i with
             | [], _ => 0
             | k :: _, 0 => offset_in k sub
             | k :: r, S j => flow_size k + go r j
             end) kids i
      | Para n _ _ _ => Nat.min i n
      | Mono _ => Nat.min i 1
      end
  end.

Definition offset_list (ks : list flow) (r : option rstack) : nat :=
  match r with
  | None => 0
  | Some (RS i sub) =>
      (fix go (ks : list flow) (i : nat) : nat :=
         match ks, i with
         | [], _ => 0
         | k :: _, 0 => offset_in k sub
         | k :: r, S j => flow_size k + go r j
         end) ks i
  end.

(* the units (numbered in flow order) of the children list from a resume stack on *)
Definition units_from (ks : list flow) (r : option rstack) : list nat :=
  let n := flows_size ks in
  let o := offset_list ks r in
  seq o (n - o).

(* tree.ResumeStack.Unpack (target.go:34-39): panics on the empty stack; callers
   test `skipStack == nil` first (blocks.go:373) *)
From Verif Require Import Base.GoSem.
Definition unpack (r : option rstack) : res (nat * option rstack) :=
  match r with
  | Some (RS i sub) => Ok (i, sub)
  | None => Panic 38%N
  end.

(* blocks.go:371-376: skip = 0 at the start of a box, otherwise the unpacked index *)
Definition block_skip (r : option rstack) : res (nat * option rstack) :=
  match r with
  | None => Ok (0, None)
  | Some _ => unpack r
  end.

(* ------------------------------------------------------------------ children of a block container, out-of-flow ones included *)

(* findEarlierPageBreak, block case (blocks.go:1175-1203).  The laid-out children of a
   block container are in normal flow or not (float / absolutely positioned placeholders
   sit between their in-flow siblings); every child carries its own content.  The scan runs
   from the last child backwards, remembers the last in-flow child seen (`previousInFlow`)
   and stops at the first in-flow child `index` whose boundary to that sibling is not
   `avoid`: children[:index+1] stay on the page and the next page resumes at
   children[index+1].Index -- the FIRST removed child, which is an out-of-flow box when one
   sits at the break. *)
Section Siblings.
  Variable U : Type.
  Record child := mkChild { in_flow : bool; c_units : list U }.

  (* what the index i of a resume stack {i: nil} designates: children i, i+1, ... *)
  Definition sib_content_from (cs : list child) (i : nat) : list U :=
    flat_map c_units (skipn i cs).

  (* avoid_after i: the break between in-flow child i and the next in-flow sibling is avoided *)
  Variable avoid_after : nat -> bool.

  (* the loop, on the children paired with their index, last first; returns the number of
     children kept *)
  Fixpoint feb_scan (rev_cs : list (nat * child)) (previous_in_flow : bool) : option nat :=
    match rev_cs with
    | [] => None                                       (* blocks.go:1229 i_ == L *)
    | (i, c) :: r =>
        if in_flow c then
          if previous_in_flow && negb (avoid_after i) then Some (S i)   (* 1196: index += 1 *)
          else feb_scan r true                                          (* 1202 *)
        else feb_scan r previous_in_flow
    end.

  Definition find_earlier_break (cs : list child) : option nat :=
    feb_scan (rev (combine (seq 0 (length cs)) cs)) false.

  (* the step after the rewind: children[:j] kept, resume at child r *)
  Definition rewound_step (cs : list child) (j r : nat) : step nat U :=
    mkStep 0 (flat_map c_units (firstn j cs)) (Some r).

  (* blocks.go:1199: r = children[j].Index *)
  Definition find_earlier_step (cs : list child) : option (step nat U) :=
    option_map (fun j => rewound_step cs j j) (find_earlier_break cs).
End Siblings.
Arguments mkChild {U} in_flow c_units.
Arguments in_flow {U} c.
Arguments c_units {U} c.

(* ------------------------------------------------------------------ a table row split between two pages *)

(* tables.go:133-241.  Every cell of a row is a flow of its own, laid out with its own
   resume position.  When the row is split, resumeAt[indexRow] maps the cells that are NOT
   finished to their resume position (line 236-241); on the next page a cell that is absent
   from that map is given the stack {len(cell.Children): nil}: nothing is left of it (lines
   180-184).  When nothing of a continued cell fits on a page (newCell == nil, lines
   221-232) the cell resumes where it was (before /repo 7408964: at {0: nil}). *)
Section RowSplit.
  Variable U : Type.

  (* what the row's resume map records for a cell of which the first p units were placed *)
  Definition cell_record (len p : nat) : option nat :=
    if p <? len then Some p else None.

  (* [absent_is_end] = true: tables.go:183; false: a missing key read as the nil stack *)
  Definition cell_skip (absent_is_end : bool) (len : nat) (r : option nat) : nat :=
    match r with
    | Some p => p
    | None => if absent_is_end then len else 0
    end.

  (* a cell over two pages: p units on the first, the rest from its skip position on *)
  Definition cell_two_pages (absent_is_end : bool) (c : list U) (p : nat) : list U :=
    firstn p c ++ skipn (cell_skip absent_is_end (length c) (cell_record (length c) p)) c.

  (* a continued cell (skip position s) of which nothing fits on the second of three pages:
     [restart] = true is the code before /repo 7408964 (resume at {0: nil}), false resumes
     where it was (the code now) *)
  Definition cell_three_pages (restart : bool) (c : list U) (s : nat) : list U :=
    firstn s c ++ [] ++ skipn (if restart then 0 else s) c.
End RowSplit.

(* ------------------------------------------------------------------ general resume stacks and their comparison *)

(* tree.ResumeStack (target.go:30) in general: map[int]ResumeStack, "at each level several
   boxes may be selected".  A map is represented by its entries; the canonical
   representation lists them by strictly increasing key (the harness prints them so).  nil
   and the empty map are both `MS []` ("nil and 0-sized map are compared equal").

   ms_equals is the port of ResumeStack.Equals (target.go:50-62): same number of entries and
   every key of r is a key of other with a sub-stack that Equals its own.  Its only caller is
   remakePage (pages.go): the cached next page is kept only when the page just made again
   ends at the resume point it ended at before -- the guard that lets the repagination loop
   reuse pages (C01's page loop) without losing or repeating content (C02). *)
Inductive mstack := MS (entries : list (Z * mstack)).

Definition ms_entries (r : mstack) : list (Z * mstack) := match r with MS e => e end.

Fixpoint ms_lookup (k : Z) (e : list (Z * mstack)) : option mstack :=
  match e with
  | [] => None
  | (k', v) :: t => if Z.eqb k k' then Some v else ms_lookup k t
  end.

Fixpoint ms_equals (r o : mstack) {struct r} : bool :=
  let eo := ms_entries o in
  match r with
  | MS er =>
      Nat.eqb (length er) (length eo) &&
      (fix all (l : list (Z * mstack)) : bool :=
         match l with
         | [] => true
         | (k, v1) :: t =>
             match ms_lookup k eo with
             | Some v2 => ms_equals v1 v2
             | None => false
             end && all t
         end) er
  end.

(* keys strictly increasing, at every level *)
Fixpoint keys_increasing (lo : option Z) (ks : list Z) : bool :=
  match ks with
  | [] => true
  | k :: t => match lo with Some l => Z.ltb l k | None => true end && keys_increasing (Some k) t
  end.

Fixpoint ms_canonical (r : mstack) : bool :=
  match r with
  | MS e =>
      keys_increasing None (map fst e) &&
      (fix all (l : list (Z * mstack)) : bool :=
         match l with [] => true | (_, v) :: t => ms_canonical v && all t end) e
  end.

(* structural equality, decided *)
Fixpoint ms_eqb (r o : mstack) {struct r} : bool :=
  match r, o with
  | MS er, MS eo =>
      (fix go (l1 l2 : list (Z * mstack)) : bool :=
         match l1, l2 with
         | [], [] => true
         | (k1, v1) :: t1, (k2, v2) :: t2 => Z.eqb k1 k2 && ms_eqb v1 v2 && go t1 t2
         | _, _ => false
         end) er eo
  end.

(* the single-key stacks of block / line fragmentation as general stacks *)
Fixpoint ms_of_rs (r : rstack) : mstack :=
  match r with
  | RS i sub => MS [(Z.of_nat i, match sub with Some r' => ms_of_rs r' | None => MS [] end)]
  end.
Definition ms_of_rstack (r : option rstack) : mstack :=
  match r with Some r' => ms_of_rs r' | None => MS [] end.

(* ------------------------------------------------------------------ the re-split of splitInlineBox *)

(* inline.go:877-902: when the last child of an inline box fits on the line but not followed by
   the box's end padding / border / margin, it is split again at the narrower width and then at
   its last possible break point.  A split of the text `ws` (units = what lies between two break
   opportunities) that lets k units in returns the kept box (the first k units) and the resume
   point k.  The box kept on the line comes from the split at k_last; `retry_step k_last k_res`
   is the step that resumes where the split at k_res said. *)
Section SplitRetry.
  Variable U : Type.
  Variable ws : list U.

  Definition text_from (p : nat) : list U := skipn p ws.

  Definition split_step (k : nat) : step nat U := mkStep 0 (firstn k ws) (Some k).

  Definition retry_step (k_last k_res : nat) : step nat U :=
    mkStep 0 (placed (split_step k_last)) (resume (split_step k_res)).
End SplitRetry.

(* ------------------------------------------------------------------ a cancelled layout that is restarted *)

(* blocks.go:485-499: a fragmented block with break-inside: avoid that is not first on its page
   is cancelled (nil) and laid out again, from its start, on the next page.  An out-of-flow
   child broken by the page end has its continuation registered in context.brokenOutOfFlow;
   makePage lays the registered continuations out at the top of the next page (pages.go), then
   the flow.  `registered` is what the cancelled layout left in the registry for that child
   (None: nothing); the child's text on the next page is the continuation's, then -- the block
   being laid out from its start -- the whole text again. *)
Section CancelRestart.
  Variable U : Type.
  Variable text : list U.          (* the text of the out-of-flow child *)

  Definition cancel_restart_text (registered : option nat) : list U :=
    match registered with Some p => skipn p text | None => [] end ++ text.
End CancelRestart.
