(* Layout/Fragment.v -- fragmentation steps and resume points (C02).

   A layout pass over one page is a *step*: it starts at a resume point
   (`skip`, the ResumeStack handed to blockContainerLayout, blocks.go:371-378),
   places some content units on the page and returns the resume point of the
   next page (`resume`, None when the flow is finished; blocks.go:822-824,
   1017-1020).  The model is generic in what a resume point is; two instances:

     nat      the index of the first unit not yet placed (Layout/Paginate.v)
     rstack   html/tree/target.go:30-58 ResumeStack restricted to the single-key
              maps that block / line fragmentation produces: {index: sub-stack},
              nil = "from the start" (multi-key stacks only arise for out-of-flow
              boxes, which are separate flows)

   rewinds (each turns a step into a step that placed less):
     drop_last_lines k         blocks.go:685-692 breakLine: the last k lines already
                               placed are removed for widows; blocks.go:695 returns
                               {index: skipStack} = resume before the overflowing line
     rewind_to_earlier_break   blocks.go:1135-1211 findEarlierPageBreak: children
                               [:index] are kept, resumeAt = {children[index].Index: nil}
                               (or, inside a paragraph, the ResumeAt of the last kept line)

   No proofs in this file. *)
From Coq Require Export List Arith.
From Verif Require Export Layout.Paginate.
Export ListNotations.
Local Open Scope nat_scope.

Section Steps.
  Variable Pos : Type.
  Variable U : Type.
  (* the content of the flow from a resume point on, in flow order *)
  Variable content_from : Pos -> list U.

  Record step := mkStep { skip : Pos; placed : list U; resume : option Pos }.

  Definition content_opt (r : option Pos) : list U :=
    match r with Some p => content_from p | None => [] end.

  (* resume-stack consistency of one step *)
  Definition step_ok (s : step) : Prop :=
    content_from (skip s) = placed s ++ content_opt (resume s).

  (* the next step starts where the previous one said to resume; the last one
     returns `final` *)
  Fixpoint linked (start : Pos) (steps : list step) (final : option Pos) : Prop :=
    match steps with
    | [] => final = Some start
    | s :: r =>
        skip s = start /\
        match r with
        | [] => resume s = final
        | _ => match resume s with Some p => linked p r final | None => False end
        end
    end.

  (* rewinds: remove the last k placed units / keep only the first j; the caller
     supplies the new resume point *)
  Definition drop_last (k : nat) (new_resume : Pos) (s : step) : step :=
    mkStep (skip s) (firstn (length (placed s) - k) (placed s)) (Some new_resume).
  Definition rewind_to (j : nat) (new_resume : Pos) (s : step) : step :=
    mkStep (skip s) (firstn j (placed s)) (Some new_resume).

  (* "returns a resume matching what was removed" *)
  Definition rewind_matches (removed : list U) (new_resume : Pos) (old : option Pos) : Prop :=
    content_from new_resume = removed ++ content_opt old.
End Steps.
Arguments skip {Pos U} s.
Arguments placed {Pos U} s.
Arguments resume {Pos U} s.
Arguments mkStep {Pos U} skip placed resume.

(* ------------------------------------------------------------------ resume stacks on flow trees *)

Inductive rstack := RS (i : nat) (sub : option rstack).

(* number of units of a flow *)
Fixpoint flow_size (f : flow) : nat :=
  match f with
  | Blk _ _ _ _ _ _ _ _ kids => (fix go (ks : list flow) := match ks with [] => 0 | k :: r => flow_size k + go r end) kids
  | Para n _ _ _ => n
  | Mono _ => 1
  end.
Definition flows_size (ks : list flow) : nat := fold_right (fun k a => flow_size k + a) 0 ks.

(* how many units of the children list `ks` precede the point a stack designates:
   {i: sub} = children before i entirely, then inside child i as `sub` says;
   inside a paragraph the index is the line index (blocks.go:823, 1146) *)
Fixpoint offset_in (f : flow) (r : option rstack) : nat :=
  match r with
  | None => 0
  | Some (RS i sub) =>
      match f with
      | Blk _ _ _ _ _ _ _ _ kids =>
          (fix go (ks : list flow) (i : nat) : nat :=
             match ks, i with
             | [], _ => 0
             | k :: _, 0 => offset_in k sub
             | k :: r, S j => flow_size k + go r j
             end) kids i
      | Para n _ _ _ => Nat.min i n
      | Mono _ => Nat.min i 1
      end
  end.

Definition offset_list (ks : list flow) (r : option rstack) : nat :=
  match r with
  | None => 0
  | Some (RS i sub) =>
      (fix go (ks : list flow) (i : nat) : nat :=
         match ks, i with
         | [], _ => 0
         | k :: _, 0 => offset_in k sub
         | k :: r, S j => flow_size k + go r j
         end) ks i
  end.

(* the units (numbered in flow order) of the children list from a resume stack on *)
Definition units_from (ks : list flow) (r : option rstack) : list nat :=
  let n := flows_size ks in
  let o := offset_list ks r in
  seq o (n - o).

(* tree.ResumeStack.Unpack (target.go:34-39): panics on the empty stack; callers
   test `skipStack == nil` first (blocks.go:373) *)
From Verif Require Import Base.GoSem.
Definition unpack (r : option rstack) : res (nat * option rstack) :=
  match r with
  | Some (RS i sub) => Ok (i, sub)
  | None => Panic 38%N
  end.

(* blocks.go:371-376: skip = 0 at the start of a box, otherwise the unpacked index *)
Definition block_skip (r : option rstack) : res (nat * option rstack) :=
  match r with
  | None => Ok (0, None)
  | Some _ => unpack r
  end.
