(* Layout/TableGeomProofs.v -- the exact-rational instance of the model of
   Layout/TableGeom.v meets the grid geometry specification of
   Layout/TableGeomSpec.v. *)
From Verif Require Import Base.F32 Base.GoSem Layout.TableGeom Layout.TableGeomSpec.
From Coq Require Import QArith Qabs List ZArith Lia Lqa Setoid.
Import ListNotations.
Open Scope Q_scope.

(* ------------------------------------------------------------------ sums *)
Lemma sumQ_app l1 l2 : sumQ (l1 ++ l2) == sumQ l1 + sumQ l2.
Proof. induction l1 as [|a l IH]; simpl; [ring|]. rewrite IH. ring. Qed.

Lemma fold_add_sumQ l a : fold_left (fun s v => s + v) l a == a + sumQ l.
Proof.
  revert a. induction l as [|x l IH]; intros a; simpl; [ring|]. rewrite IH. ring.
Qed.

Lemma sumQ_nonneg l : Forall (fun w => 0 <= w) l -> 0 <= sumQ l.
Proof. induction 1; simpl; [apply Qle_refl|]. lra. Qed.

Lemma sumQ_firstn_S l k :
  (k < length l)%nat -> sumQ (firstn (S k) l) == sumQ (firstn k l) + nth k l 0.
Proof.
  revert k. induction l as [|a l IH]; intros k Hk; simpl in Hk; [lia|].
  destruct k as [|k]; simpl; [ring|].
  specialize (IH k ltac:(lia)). simpl in IH. rewrite IH. ring.
Qed.

Lemma sumQ_firstn_add l a b :
  sumQ (firstn (a + b) l) == sumQ (firstn a l) + sumQ (firstn b (skipn a l)).
Proof.
  revert l. induction a as [|a IH]; intros l; simpl; [ring|].
  destruct l as [|x l]; simpl.
  - destruct b; simpl; ring.
  - rewrite IH. ring.
Qed.

(* ------------------------------------------------------------------ columns *)
Lemma inject_S n : inject_Z (Z.of_nat (S n)) == inject_Z (Z.of_nat n) + 1.
Proof. rewrite Nat2Z.inj_succ. unfold Z.succ. rewrite inject_Z_plus. reflexivity. Qed.

Theorem column_positions_spec widths : forall x0 bsx j,
  (j < length widths)%nat ->
  nth j (column_positions exactQ x0 bsx widths) 0 == col_left x0 bsx widths j.
Proof.
  induction widths as [|w r IH]; intros x0 bsx j Hj; simpl in Hj; [lia|].
  destruct j as [|j]; simpl.
  - unfold col_left. simpl. ring.
  - rewrite IH by lia. unfold col_left. rewrite (inject_S (S j)). simpl firstn. simpl sumQ. ring.
Qed.

Lemma column_positions_length widths x0 bsx : length (column_positions exactQ x0 bsx widths) = length widths.
Proof. revert x0. induction widths; intros x0; simpl; auto. Qed.

(* ---- a table split across pages: after all pages are laid out every fragment
   still reads the column positions of ITS OWN page (the store of arrays only
   grows; a slice header made for page k points below the arrays of the later
   pages) *)
Lemma layout_pages_store ar bsx pages : forall st st' ss,
  layout_pages ar st bsx pages = (st', ss) ->
  exists ext, st' = st ++ ext /\
    map (slice_read st') ss = map (fun p => column_positions ar (fst p) bsx (snd p)) pages /\
    Forall (fun s => (sl_arr s >= length st)%nat) ss.
Proof.
  induction pages as [|p r IH]; intros st st' ss H; simpl in H.
  - injection H as <- <-. exists []. rewrite app_nil_r. repeat split; constructor.
  - destruct (layout_pages ar (st ++ [column_positions ar (fst p) bsx (snd p)]) bsx r) as [st2 ss2] eqn:E.
    injection H as <- <-.
    destruct (IH _ _ _ E) as [ext [Est [Emap Hge]]].
    exists ([column_positions ar (fst p) bsx (snd p)] ++ ext).
    split; [rewrite Est, <- app_assoc; reflexivity|]. split.
    + cbn [map]. f_equal; [|exact Emap].
      unfold slice_read. cbn [sl_arr sl_len]. rewrite Est, <- app_assoc.
      rewrite app_nth2 by lia. rewrite Nat.sub_diag. cbn [app nth]. apply firstn_all.
    + constructor; [cbn [sl_arr]; lia|].
      eapply Forall_impl; [|exact Hge]. intros s Hs. cbn beta in Hs. rewrite app_length in Hs. cbn in Hs. lia.
Qed.

Theorem fragments_positions_spec ar bsx pages :
  fragments_positions ar bsx pages = map (fun p => column_positions ar (fst p) bsx (snd p)) pages.
Proof.
  unfold fragments_positions. destruct (layout_pages ar [] bsx pages) as [st ss] eqn:E.
  destruct (layout_pages_store ar bsx pages _ _ _ E) as [ext [_ [Emap _]]]. exact Emap.
Qed.

(* hence the closed form holds for every fragment, with that fragment's page *)
Theorem fragment_column_positions bsx pages k x0 widths j :
  nth_error pages k = Some (x0, widths) -> (j < length widths)%nat ->
  nth j (nth k (fragments_positions exactQ bsx pages) []) 0 == col_left x0 bsx widths j.
Proof.
  intros Hk Hj. rewrite fragments_positions_spec.
  assert (E : nth k (map (fun p => column_positions exactQ (fst p) bsx (snd p)) pages) []
              = column_positions exactQ x0 bsx widths).
  { apply nth_error_nth. rewrite nth_error_map, Hk. reflexivity. }
  rewrite E. apply column_positions_spec. exact Hj.
Qed.

(* adjacent columns are exactly border-spacing apart *)
Theorem columns_adjacent x0 bsx widths j :
  (S j < length widths)%nat ->
  col_left x0 bsx widths (S j) - col_right x0 bsx widths j == bsx.
Proof.
  intros Hj. unfold col_right, col_left. rewrite (inject_S (S j)).
  rewrite (sumQ_firstn_S widths j) by lia. ring.
Qed.

Lemma col_left_mono x0 bsx widths : Forall (fun w => 0 <= w) widths -> 0 <= bsx ->
  forall j k, (j <= k)%nat -> col_left x0 bsx widths j <= col_left x0 bsx widths k.
Proof.
  intros Hw Hb j k Hjk. induction Hjk as [|k Hle IH]; [apply Qle_refl|].
  eapply Qle_trans; [exact IH|]. unfold col_left. rewrite (inject_S (S k)).
  destruct (Nat.lt_ge_cases k (length widths)) as [Hk|Hk].
  - rewrite (sumQ_firstn_S widths k Hk).
    assert (0 <= nth k widths 0).
    { rewrite Forall_forall in Hw. apply Hw. apply nth_In. assumption. }
    lra.
  - rewrite !firstn_all2 by lia. lra.
Qed.

Lemma col_right_le_next x0 bsx widths j : 0 <= bsx -> (S j < length widths)%nat ->
  col_right x0 bsx widths j <= col_left x0 bsx widths (S j).
Proof. intros Hb Hj. pose proof (columns_adjacent x0 bsx widths j Hj). lra. Qed.

(* cells on disjoint column ranges: the earlier one's right edge is not beyond the later one's left edge *)
Theorem columns_disjoint x0 bsx widths e1 g2 :
  Forall (fun w => 0 <= w) widths -> 0 <= bsx -> (e1 < g2)%nat -> (g2 < length widths)%nat ->
  col_right x0 bsx widths e1 + bsx <= col_left x0 bsx widths g2.
Proof.
  intros Hw Hb H12 Hg.
  pose proof (columns_adjacent x0 bsx widths e1 ltac:(lia)) as Ha.
  pose proof (col_left_mono x0 bsx widths Hw Hb (S e1) g2 ltac:(lia)). lra.
Qed.

(* a span of columns: from the left edge of its first to the right edge of its last *)
Lemma span_width x0 bsx widths gx cs :
  (1 <= cs)%nat -> (gx + cs <= length widths)%nat ->
  col_right x0 bsx widths (gx + cs - 1) - col_left x0 bsx widths gx ==
  sumQ (firstn cs (skipn gx widths)) + inject_Z (Z.of_nat cs - 1) * bsx.
Proof.
  intros Hcs Hlen. unfold col_right, col_left.
  replace (gx + cs - 1)%nat with (gx + (cs - 1))%nat by lia.
  assert (E : sumQ (firstn (gx + (cs - 1)) widths) + nth (gx + (cs - 1)) widths 0 ==
              sumQ (firstn gx widths) + sumQ (firstn cs (skipn gx widths))).
  { rewrite <- sumQ_firstn_S by lia. replace (S (gx + (cs - 1))) with (gx + cs)%nat by lia.
    apply sumQ_firstn_add. }
  replace (Z.of_nat cs - 1)%Z with (Z.of_nat (cs - 1)) by lia.
  rewrite (inject_S (gx + (cs - 1))), (inject_S gx).
  replace (Z.of_nat (gx + (cs - 1))) with (Z.of_nat gx + Z.of_nat (cs - 1))%Z by lia.
  rewrite inject_Z_plus. lra.
Qed.

(* ------------------------------------------------------------------ cells, horizontally *)
Lemma spanned_eq widths gx cs :
  (0 <= gx)%Z -> (0 <= cs)%Z ->
  spanned widths gx cs =
  firstn (Z.to_nat cs) (skipn (Z.to_nat gx) widths).
Proof.
  intros Hg Hc. unfold spanned.
  destruct (gx <? Z.of_nat (length widths))%Z eqn:E1.
  - destruct (cs <? Z.of_nat (length (skipn (Z.to_nat gx) widths)))%Z eqn:E2; [reflexivity|].
    rewrite firstn_all2; [reflexivity|]. apply Z.ltb_ge in E2. lia.
  - apply Z.ltb_ge in E1. rewrite skipn_all2 by lia. simpl.
    destruct (cs <? 0)%Z; destruct (Z.to_nat cs); reflexivity.
Qed.

Lemma firstn_firstn_length {A} k (l : list A) : firstn (length (firstn k l)) l = firstn k l.
Proof.
  rewrite firstn_length. destruct (Nat.le_ge_cases k (length l)).
  - rewrite Nat.min_l by assumption. reflexivity.
  - rewrite Nat.min_r by assumption. rewrite !firstn_all2; auto.
Qed.

Theorem cell_horizontal_spec x0 bsx widths c cs x w bw :
  (0 <= hc_gridx c)%Z -> (1 <= hc_colspan c)%Z ->
  cell_horizontal exactQ widths (column_positions exactQ x0 bsx widths) bsx c = Ok (Some (cs, x, w, bw)) ->
  let gx := Z.to_nat (hc_gridx c) in
  let n := Z.to_nat cs in
  (* the colspan is clipped to the grid *)
  cs = Z.min (hc_colspan c) (Z.of_nat (length widths) - hc_gridx c) /\ (1 <= cs)%Z /\
  (* left edge of the first column, right edge of the last one *)
  x == col_left x0 bsx widths gx /\
  x + bw == col_right x0 bsx widths (gx + n - 1) /\
  (* the border box is the spanned columns plus the spacing between them *)
  bw == sumQ (firstn n (skipn gx widths)) + inject_Z (cs - 1) * bsx /\
  w == bw - (hc_pl c + hc_pr c + hc_bl c + hc_br c).
Proof.
  intros Hg Hc H. unfold cell_horizontal in H.
  assert (Hc0 : (0 <= hc_colspan c)%Z) by lia.
  rewrite (spanned_eq widths (hc_gridx c) (hc_colspan c) Hg Hc0) in H.
  set (sw := firstn (Z.to_nat (hc_colspan c)) (skipn (Z.to_nat (hc_gridx c)) widths)) in *.
  destruct (Z.of_nat (length sw) =? 0)%Z eqn:E0; [discriminate|].
  apply Z.eqb_neq in E0.
  apply bind_ok_inv in H. destruct H as (px & Hpx & H). injection H as <- <- <- <-.
  assert (Hlen : length sw = Z.to_nat (Z.min (hc_colspan c) (Z.of_nat (length widths) - hc_gridx c))).
  { unfold sw. rewrite firstn_length, skipn_length. lia. }
  assert (Hgx : (Z.to_nat (hc_gridx c) < length widths)%nat).
  { unfold sw in E0. rewrite firstn_length, skipn_length in E0. lia. }
  cbv zeta.
  assert (Ecs : Z.of_nat (length sw) = Z.min (hc_colspan c) (Z.of_nat (length widths) - hc_gridx c)) by lia.
  split; [assumption|]. split; [lia|].
  assert (Ex : px == col_left x0 bsx widths (Z.to_nat (hc_gridx c))).
  { unfold index in Hpx. destruct (hc_gridx c <? 0)%Z eqn:En; [lia|].
    destruct (nth_error (column_positions exactQ x0 bsx widths) (Z.to_nat (hc_gridx c))) as [v|] eqn:Enth; [|discriminate].
    injection Hpx as <-.
    rewrite <- (column_positions_spec widths x0 bsx _ Hgx).
    apply nth_error_nth with (d := 0) in Enth. rewrite Enth. reflexivity. }
  rewrite Nat2Z.id.
  assert (Esw : sw = firstn (length sw) (skipn (Z.to_nat (hc_gridx c)) widths)).
  { unfold sw. symmetry. apply firstn_firstn_length. }
  cbn [add sub mul div exactQ].
  set (bpp := 0 + hc_pl c + hc_pr c + hc_bl c + hc_br c).
  set (base := bsx * of_Z (Z.of_nat (length sw) - 1) - bpp).
  assert (Ebw : fold_left (fun a w0 => a + w0) sw base
                == sumQ sw + inject_Z (Z.of_nat (length sw) - 1) * bsx - (hc_pl c + hc_pr c + hc_bl c + hc_br c)).
  { rewrite fold_add_sumQ. unfold base, bpp, of_Z. ring. }
  assert (Ebw2 : fold_left (fun a w0 => a + w0) sw base + hc_pl c + hc_pr c + hc_bl c + hc_br c
                 == sumQ sw + inject_Z (Z.of_nat (length sw) - 1) * bsx).
  { rewrite Ebw. ring. }
  pose proof (span_width x0 bsx widths (Z.to_nat (hc_gridx c)) (length sw)) as Hs.
  rewrite <- Esw in Hs.
  assert (Hl1 : (1 <= length sw)%nat) by lia.
  assert (Hl2 : (Z.to_nat (hc_gridx c) + length sw <= length widths)%nat).
  { unfold sw. rewrite firstn_length, skipn_length. lia. }
  specialize (Hs Hl1 Hl2).
  rewrite <- Esw.
  set (K := inject_Z (Z.of_nat (length sw) - 1) * bsx) in *.
  set (FL := fold_left (fun a w0 : Q => a + w0) sw base) in *.
  split; [exact Ex|]. split; [lra|]. split; [lra|]. lra.
Qed.

(* ------------------------------------------------------------------ direction: rtl *)
Theorem column_positions_rtl_spec widths : forall xr bsx j,
  (j < length widths)%nat ->
  nth j (column_positions_rtl exactQ xr bsx widths) 0 == col_left_rtl xr bsx widths j.
Proof.
  induction widths as [|w r IH]; intros xr bsx j Hj; simpl in Hj; [lia|].
  destruct j as [|j]; simpl.
  - unfold col_left_rtl. simpl. ring.
  - rewrite IH by lia. unfold col_left_rtl. rewrite (inject_S (S j)). simpl firstn. simpl sumQ. ring.
Qed.

Lemma column_positions_rtl_length widths xr bsx : length (column_positions_rtl exactQ xr bsx widths) = length widths.
Proof. revert xr. induction widths; intros xr; simpl; auto. Qed.

(* the mirror image: column j of the rtl table is where column j of the ltr
   table would be, reflected about the middle of the content box *)
Lemma span_width_rtl xr bsx widths gx cs :
  (1 <= cs)%nat -> (gx + cs <= length widths)%nat ->
  col_right_rtl xr bsx widths gx - col_left_rtl xr bsx widths (gx + cs - 1) ==
  sumQ (firstn cs (skipn gx widths)) + inject_Z (Z.of_nat cs - 1) * bsx.
Proof.
  intros Hcs Hlen. unfold col_right_rtl, col_left_rtl.
  replace (S (gx + cs - 1)) with (gx + cs)%nat by lia.
  rewrite (sumQ_firstn_S widths gx) by lia.
  rewrite (sumQ_firstn_add widths gx cs).
  replace (Z.of_nat (gx + cs)) with (Z.of_nat (S gx) + (Z.of_nat cs - 1))%Z by lia.
  rewrite inject_Z_plus. ring.
Qed.

Theorem cell_horizontal_rtl_spec xr bsx widths c cs x w bw :
  (0 <= hc_gridx c)%Z -> (1 <= hc_colspan c)%Z ->
  cell_horizontal_rtl exactQ widths (column_positions_rtl exactQ xr bsx widths) bsx c = Ok (Some (cs, x, w, bw)) ->
  let gx := Z.to_nat (hc_gridx c) in
  let n := Z.to_nat cs in
  cs = Z.min (hc_colspan c) (Z.of_nat (length widths) - hc_gridx c) /\ (1 <= cs)%Z /\
  (* left edge of the LAST column, right edge of the first one *)
  x == col_left_rtl xr bsx widths (gx + n - 1) /\
  x + bw == col_right_rtl xr bsx widths gx /\
  bw == sumQ (firstn n (skipn gx widths)) + inject_Z (cs - 1) * bsx /\
  w == bw - (hc_pl c + hc_pr c + hc_bl c + hc_br c).
Proof.
  intros Hg Hc H. unfold cell_horizontal_rtl in H.
  assert (Hc0 : (0 <= hc_colspan c)%Z) by lia.
  rewrite (spanned_eq widths (hc_gridx c) (hc_colspan c) Hg Hc0) in H.
  set (sw := firstn (Z.to_nat (hc_colspan c)) (skipn (Z.to_nat (hc_gridx c)) widths)) in *.
  destruct (Z.of_nat (length sw) =? 0)%Z eqn:E0; [discriminate|].
  apply Z.eqb_neq in E0.
  apply bind_ok_inv in H. destruct H as (px & Hpx & H). injection H as <- <- <- <-.
  assert (Hlen : length sw = Z.to_nat (Z.min (hc_colspan c) (Z.of_nat (length widths) - hc_gridx c))).
  { unfold sw. rewrite firstn_length, skipn_length. lia. }
  assert (Hgx : (Z.to_nat (hc_gridx c) < length widths)%nat).
  { unfold sw in E0. rewrite firstn_length, skipn_length in E0. lia. }
  assert (Hl1 : (1 <= length sw)%nat) by lia.
  assert (Hl2 : (Z.to_nat (hc_gridx c) + length sw <= length widths)%nat).
  { unfold sw. rewrite firstn_length, skipn_length. lia. }
  cbv zeta.
  assert (Ecs : Z.of_nat (length sw) = Z.min (hc_colspan c) (Z.of_nat (length widths) - hc_gridx c)) by lia.
  split; [assumption|]. split; [lia|].
  rewrite Nat2Z.id.
  assert (Ex : px == col_left_rtl xr bsx widths (Z.to_nat (hc_gridx c) + length sw - 1)).
  { unfold index in Hpx. destruct (hc_gridx c + Z.of_nat (length sw) - 1 <? 0)%Z eqn:En; [lia|].
    replace (Z.to_nat (hc_gridx c + Z.of_nat (length sw) - 1)) with (Z.to_nat (hc_gridx c) + length sw - 1)%nat in Hpx by lia.
    destruct (nth_error (column_positions_rtl exactQ xr bsx widths) (Z.to_nat (hc_gridx c) + length sw - 1)) as [v|] eqn:Enth; [|discriminate].
    injection Hpx as <-.
    rewrite <- (column_positions_rtl_spec widths xr bsx (Z.to_nat (hc_gridx c) + length sw - 1)%nat ltac:(lia)).
    apply nth_error_nth with (d := 0) in Enth. rewrite Enth. reflexivity. }
  assert (Esw : sw = firstn (length sw) (skipn (Z.to_nat (hc_gridx c)) widths)).
  { unfold sw. symmetry. apply firstn_firstn_length. }
  cbn [add sub mul div exactQ].
  set (bpp := 0 + hc_pl c + hc_pr c + hc_bl c + hc_br c).
  set (base := bsx * of_Z (Z.of_nat (length sw) - 1) - bpp).
  assert (Ebw : fold_left (fun a w0 => a + w0) sw base
                == sumQ sw + inject_Z (Z.of_nat (length sw) - 1) * bsx - (hc_pl c + hc_pr c + hc_bl c + hc_br c)).
  { rewrite fold_add_sumQ. unfold base, bpp, of_Z. ring. }
  pose proof (span_width_rtl xr bsx widths (Z.to_nat (hc_gridx c)) (length sw) Hl1 Hl2) as Hs.
  rewrite <- Esw in Hs.
  rewrite <- Esw.
  set (K := inject_Z (Z.of_nat (length sw) - 1) * bsx) in *.
  set (FL := fold_left (fun a w0 : Q => a + w0) sw base) in *.
  split; [exact Ex|]. split; [lra|]. split; [lra|]. lra.
Qed.

(* rtl columns: adjacent columns one border-spacing apart, the later column to the LEFT *)
Theorem columns_adjacent_rtl xr bsx widths j :
  (S j < length widths)%nat ->
  col_left_rtl xr bsx widths j - col_right_rtl xr bsx widths (S j) == bsx.
Proof.
  intros Hj. unfold col_right_rtl, col_left_rtl. rewrite (inject_S (S j)).
  rewrite (sumQ_firstn_S widths (S j)) by lia. ring.
Qed.

(* the rtl grid is the mirror image of the ltr grid about the content box [x0, x0 + tw] *)
Theorem col_rtl_mirror x0 tw bsx widths j :
  (j < length widths)%nat ->
  col_right_rtl (x0 + tw) bsx widths j - x0 == tw - (col_left x0 bsx widths j - x0) /\
  col_left_rtl (x0 + tw) bsx widths j - x0 == tw - (col_right x0 bsx widths j - x0).
Proof.
  intros Hj. unfold col_right_rtl, col_left_rtl, col_right, col_left.
  rewrite (sumQ_firstn_S widths j) by lia. split; ring.
Qed.

(* ------------------------------------------------------------------ fixedTableLayout *)
Lemma set_nth_length {A} (l : list A) i a : length (set_nth l i a) = length l.
Proof.
  unfold set_nth. rewrite app_length, firstn_length.
  destruct (skipn i l) as [|b r] eqn:E.
  - simpl. assert (length (skipn i l) = 0)%nat by (rewrite E; reflexivity).
    rewrite skipn_length in H. lia.
  - simpl. assert (length (skipn i l) = S (length r)) by (rewrite E; reflexivity).
    rewrite skipn_length in H. lia.
Qed.

Lemma fill_length cw idx v : length (fill cw idx v) = length cw.
Proof.
  unfold fill. revert cw. induction idx as [|j idx IH]; intros cw; simpl; [reflexivity|].
  rewrite IH. apply set_nth_length.
Qed.

Definition onn (o : option Q) : Prop := match o with Some v => 0 <= v | None => True end.

Lemma set_nth_onn l i v : Forall onn l -> 0 <= v -> Forall onn (set_nth l i (Some v)).
Proof.
  intros Hl Hv. unfold set_nth. apply Forall_app. split.
  - apply Forall_forall. intros x Hx. rewrite Forall_forall in Hl. apply Hl.
    rewrite <- (firstn_skipn i l). apply in_or_app. left. assumption.
  - destruct (skipn i l) as [|b r] eqn:E; [constructor|].
    constructor; [exact Hv|].
    apply Forall_forall. intros x Hx. rewrite Forall_forall in Hl. apply Hl.
    rewrite <- (firstn_skipn i l). apply in_or_app. right. rewrite E. right. assumption.
Qed.

Lemma fill_onn cw idx v : Forall onn cw -> 0 <= v -> Forall onn (fill cw idx v).
Proof.
  unfold fill. revert cw. induction idx as [|j idx IH]; intros cw Hc Hv; simpl; [assumption|].
  apply IH; [apply set_nth_onn; assumption|assumption].
Qed.

Lemma Qmax_nonneg a : 0 <= Qmax_ 0 a.
Proof.
  unfold Qmax_. destruct (Qle_bool 0 a) eqn:E; [apply Qle_bool_iff; assumption|apply Qle_refl].
Qed.

Lemma first_row_props cells : forall cw i bsx out,
  first_row exactQ cw i bsx cells = Ok out ->
  length out = length cw /\ (Forall onn cw -> Forall onn out).
Proof.
  induction cells as [|c cells IH]; intros cw i bsx out H; simpl in H.
  - injection H as <-. auto.
  - apply bind_ok_inv in H. destruct H as (cw' & Hcw & H).
    destruct (IH _ _ _ _ H) as [L1 N1].
    assert (Hc : length cw' = length cw /\ (Forall onn cw -> Forall onn cw')).
    { destruct (fc_bw c) as [bw|]; [|injection Hcw as <-; auto].
      apply bind_ok_inv in Hcw. destruct Hcw as ([w' without] & _ & Hcw).
      assert (Hor : cw' = cw \/ exists v, 0 <= v /\ cw' = fill cw without v).
      { destruct without as [|j r]; injection Hcw as <-; [left; reflexivity|].
        right. eexists. split; [apply Qmax_nonneg|reflexivity]. }
      destruct Hor as [-> | (v & Hv & ->)]; [auto|].
      split; [apply fill_length|]. intros Hn. apply fill_onn; assumption. }
    destruct Hc as [L2 N2]. split; [congruence|auto].
Qed.

Lemma sumQ_map_add l d : sumQ (map (fun w => w + d) l) == sumQ l + inject_Z (Z.of_nat (length l)) * d.
Proof.
  induction l as [|a l IH]; [simpl; ring|].
  cbn [map sumQ length]. rewrite IH, (inject_S (length l)). ring.
Qed.

Lemma Forall_onn_out cw :
  Forall onn cw -> Forall (fun w => 0 <= w) (map (fun w => match w with Some v => v | None => 0 end) cw).
Proof.
  induction 1 as [|o l Ho Hl IH]; simpl; constructor; auto.
  destruct o; [exact Ho|apply Qle_refl].
Qed.

Theorem fixed_layout_spec W cols cells bsx out W' :
  fixed_table_layout exactQ W cols cells bsx = Ok (out, W') ->
  (* the used width is never smaller than the specified one *)
  W <= W' /\
  (* the columns and the spacing around them exactly fill it *)
  (out <> [] -> sumQ out + inject_Z (Z.of_nat (length out) + 1) * bsx == W') /\
  (* one column per <col> / per column spanned by the first row *)
  Z.of_nat (length out) = Z.max (Z.of_nat (length cols)) (fold_left (fun s c => (s + fc_colspan c)%Z) cells 0%Z) /\
  (* no negative width *)
  (0 <= W -> 0 <= bsx -> Forall onn cols -> Forall (fun w => 0 <= w) out).
Proof.
  unfold fixed_table_layout. intros H.
  set (ncols := Z.max (Z.of_nat (length cols)) (fold_left (fun s c => (s + fc_colspan c)%Z) cells 0%Z)) in *.
  set (cw0 := cols ++ repeat None (Z.to_nat ncols - length cols)) in *.
  assert (L0 : length cw0 = Z.to_nat ncols).
  { unfold cw0. rewrite app_length, repeat_length. lia. }
  apply bind_ok_inv in H. destruct H as (cw1 & Hfr & H).
  destruct (first_row_props _ _ _ _ _ Hfr) as [L1 N1].
  cbn [add sub mul div exactQ] in H.
  set (all_spacing := bsx * of_Z (ncols + 1)) in *.
  destruct (known_sum exactQ cw1 0 all_spacing []) as [min_width without] eqn:Eks.
  set (cw2 := match without with
              | [] => cw1
              | _ => if Qle_b min_width W
                     then fill cw1 without ((W - min_width) / of_nat (length without))
                     else fill cw1 without 0
              end) in *.
  assert (L2 : length cw2 = Z.to_nat ncols).
  { unfold cw2. destruct without; [congruence|]. destruct (Qle_b min_width W); rewrite fill_length; congruence. }
  set (out0 := map (fun w => match w with Some v => v | None => 0 end) cw2) in *.
  assert (Lo : length out0 = Z.to_nat ncols) by (unfold out0; rewrite map_length; exact L2).
  assert (Esum : fold_left (fun s v => s + v) out0 0 == sumQ out0) by (rewrite fold_add_sumQ; ring).
  set (sum_w := fold_left (fun s v => s + v) out0 0) in *.
  set (extra := W - sum_w - all_spacing) in *.
  assert (Hncols : (0 <= ncols)%Z) by (unfold ncols; lia).
  assert (Eas : all_spacing == inject_Z (Z.of_nat (Z.to_nat ncols) + 1) * bsx).
  { unfold all_spacing, of_Z. rewrite Z2Nat.id by assumption. ring. }
  (* non negativity of the intermediate widths *)
  assert (N2 : 0 <= W -> 0 <= bsx -> Forall onn cols -> Forall (fun w => 0 <= w) out0).
  { intros HW Hb Hcols. apply Forall_onn_out.
    assert (Hcw0 : Forall onn cw0).
    { unfold cw0. apply Forall_app. split; [assumption|]. apply Forall_forall. intros x Hx. apply repeat_spec in Hx. subst. exact I. }
    specialize (N1 Hcw0). unfold cw2. destruct without as [|j r]; [assumption|].
    destruct (Qle_b min_width W) eqn:Ele.
    - apply fill_onn; [assumption|]. apply Qle_bool_iff in Ele.
      apply Qle_shift_div_l.
      + unfold of_nat. replace 0 with (inject_Z 0) by reflexivity. rewrite <- Zlt_Qlt. simpl length. lia.
      + lra.
    - apply fill_onn; [assumption|apply Qle_refl]. }
  destruct (Qle_b extra 0) eqn:Eex.
  - injection H as <- <-. apply Qle_bool_iff in Eex.
    split; [lra|]. split; [|split; [lia|exact N2]].
    intros _. rewrite Lo, <- Eas. unfold extra. rewrite Esum. ring.
  - assert (Hpos : 0 < extra).
    { destruct (Qlt_le_dec 0 extra) as [Hlt|Hle]; [assumption|].
      apply Qle_bool_iff in Hle. unfold Qle_b in Eex. congruence. }
    destruct (ncols =? 0)%Z eqn:En.
    + injection H as <- <-. apply Z.eqb_eq in En.
      split; [apply Qle_refl|]. split; [|split; [lia|exact N2]].
      intros Hne. exfalso. apply Hne. destruct out0; [reflexivity|]. simpl in Lo. lia.
    + injection H as <- <-. apply Z.eqb_neq in En.
      split; [apply Qle_refl|]. split; [|split; [rewrite map_length; lia|]].
      * intros _. rewrite map_length, sumQ_map_add, Lo, <- Eas.
        assert (Hn : ~ of_Z ncols == 0).
        { unfold of_Z. intros E. unfold Qeq in E. simpl in E. lia. }
        rewrite Z2Nat.id by assumption. unfold extra in *. rewrite Esum in *.
        unfold of_Z in *. field. exact Hn.
      * intros HW Hb Hcols. specialize (N2 HW Hb Hcols).
        apply Forall_forall. intros x Hx. apply in_map_iff in Hx. destruct Hx as (w & <- & Hw).
        rewrite Forall_forall in N2. specialize (N2 w Hw).
        assert (0 <= extra / of_Z ncols).
        { apply Qle_shift_div_l; [|lra].
          unfold of_Z. replace 0 with (inject_Z 0) by reflexivity. rewrite <- Zlt_Qlt. lia. }
        lra.
Qed.

(* ------------------------------------------------------------------ rows *)
Lemma Qmax_ge_l a b : a <= Qmax_ a b.
Proof.
  unfold Qmax_. destruct (Qle_bool a b) eqn:E; [apply Qle_bool_iff; assumption|apply Qle_refl].
Qed.
Lemma Qmax_ge_r a b : b <= Qmax_ a b.
Proof.
  unfold Qmax_. destruct (Qle_bool a b) eqn:E; [apply Qle_refl|].
  destruct (Qlt_le_dec b a) as [H|H]; [apply Qlt_le_weak; assumption|].
  apply Qle_bool_iff in H. congruence.
Qed.

Lemma In_add_at {A} (l : list (list A)) i a p :
  In p (concat (add_at l i a)) -> In p (concat l) \/ p = a.
Proof.
  unfold add_at. intros H. rewrite concat_app in H. apply in_app_or in H.
  rewrite <- (firstn_skipn i l) at 1. rewrite concat_app.
  destruct H as [H|H]; [left; apply in_or_app; left; assumption|].
  destruct (skipn i l) as [|b r]; [inversion H|].
  simpl in H. apply in_app_or in H. destruct H as [H|H].
  - apply in_app_or in H. destruct H as [H|[<-|[]]]; [|right; reflexivity].
    left. apply in_or_app. right. simpl. apply in_or_app. left. assumption.
  - left. apply in_or_app. right. simpl. apply in_or_app. right. assumption.
Qed.

Lemma enqueue_spec cells : forall buckets row y idx out p,
  enqueue buckets row y idx cells = Ok out -> In p (concat out) ->
  In p (concat buckets) \/ (p_row p = row /\ p_y p = y).
Proof.
  induction cells as [|c cells IH]; intros buckets row y idx out p H Hin; simpl in H.
  - injection H as <-. left. assumption.
  - destruct ((vc_rowspan c - 1 <? 0)%Z || (Z.of_nat (length buckets) <=? vc_rowspan c - 1)%Z); [discriminate|].
    destruct (IH _ _ _ _ _ p H Hin) as [H1|H1]; [|right; assumption].
    apply In_add_at in H1. destruct H1 as [H1| ->]; [left; assumption|right; split; reflexivity].
Qed.

Lemma fold_max_nonneg (f : pending -> Q) l : forall a, 0 <= a -> 0 <= fold_left (fun m p => Qmax_ m (f p)) l a.
Proof.
  induction l as [|x l IHl]; intros a Ha; simpl; [assumption|].
  apply IHl. eapply Qle_trans; [exact Ha|apply Qmax_ge_l].
Qed.

Lemma auto_height rb0 y :
  0 <= Qmax_ (Qmax_ rb0 y - y) 0 /\ Qmax_ rb0 y == y + Qmax_ (Qmax_ rb0 y - y) 0.
Proof.
  set (rb := Qmax_ rb0 y). assert (Hge : y <= rb) by apply Qmax_ge_r.
  split; [apply Qmax_ge_r|].
  generalize dependent rb. intros rb Hge.
  unfold Qmax_. destruct (Qle_bool (rb - y) 0) eqn:E.
  - apply Qle_bool_iff in E. lra.
  - ring.
Qed.

(* the rows of `outs` follow each other: each starts where the previous one
   ended plus the vertical spacing *)
Fixpoint rows_chain (bsy y : Q) (outs : list row_out) (y_end : Q) : Prop :=
  match outs with
  | [] => y_end == y
  | ro :: r => r_y ro == y /\ rows_chain bsy (r_y ro + r_h ro + bsy) r y_end
  end.

Definition endings (outs : list row_out) : list ending := flat_map r_ending outs.

Theorem rows_vertical_spec bsy rows : forall buckets row y outs y',
  (forall p, In p (concat buckets) -> (p_row p < row)%nat) ->
  rows_vertical exactQ bsy buckets row y rows = Ok (outs, y') ->
  length outs = length rows /\
  rows_chain bsy y outs y' /\
  Forall (fun ro => 0 <= r_h ro) outs /\
  (* every cell reaches exactly the bottom edge of the row in which it ends *)
  Forall (fun ro => Forall (fun e => e_y e + e_bh e == r_y ro + r_h ro) (r_ending ro)) outs /\
  (* and starts at the top edge of the row in which it was placed *)
  (forall e, In e (endings outs) ->
     ((e_row e < row)%nat -> exists p, In p (concat buckets) /\ p_row p = e_row e /\ p_y p = e_y e) /\
     ((row <= e_row e)%nat -> exists ro, nth_error outs (e_row e - row) = Some ro /\ r_y ro = e_y e)).
Proof.
  induction rows as [|[spec_h cells] rows IH]; intros buckets row y outs y' Hold H; simpl in H.
  - injection H as <- <-. simpl. split; [reflexivity|]. split; [apply Qeq_refl|].
    split; [constructor|]. split; [constructor|]. intros e [].
  - apply bind_ok_inv in H. destruct H as (b1 & Henq & H).
    destruct b1 as [|ending b2]; [discriminate|].
    cbn [add sub exactQ] in H.
    set (hb := match ending with
               | [] => (0, y)
               | _ :: _ =>
                   match spec_h with
                   | Some sh =>
                       let m := fold_left (fun m p => Qmax_ m (p_bh p)) ending 0 in
                       let h := Qmax_ sh m in (h, y + h)
                   | None =>
                       let rb0 := fold_left (fun m p => Qmax_ m (p_y p + p_bh p)) ending 0 in
                       let rb := Qmax_ rb0 y in (Qmax_ (rb - y) 0, rb)
                   end
               end) in *.
    assert (Hhb : 0 <= fst hb /\ snd hb == y + fst hb).
    { unfold hb. destruct ending as [|p0 ending'].
      - simpl. split; [apply Qle_refl|ring].
      - destruct spec_h as [sh|]; cbv zeta; cbn [fst snd].
        + split; [|ring].
          eapply Qle_trans; [|apply Qmax_ge_r]. apply fold_max_nonneg. apply Qle_refl.
        + apply auto_height. }
    destruct hb as [h bottom]. simpl in Hhb. destruct Hhb as [Hh Hbot].
    apply bind_ok_inv in H. destruct H as ([outs1 y1] & Hrec & H). injection H as <- <-.
    assert (Hold' : forall p, In p (concat b2) -> (p_row p < S row)%nat).
    { intros p Hp.
      assert (Hin : In p (concat (ending :: b2))) by (simpl; apply in_or_app; right; assumption).
      destruct (enqueue_spec _ _ _ _ _ _ p Henq Hin) as [H1|[H1 H2]]; [specialize (Hold p H1); lia|lia]. }
    destruct (IH _ _ _ _ _ Hold' Hrec) as (L & C & NN & B & HS).
    split; [simpl; congruence|]. split; [simpl; split; [reflexivity|exact C]|].
    split; [constructor; [exact Hh|exact NN]|].
    split.
    { constructor; [|exact B]. simpl. apply Forall_forall. intros e He.
      apply in_map_iff in He. destruct He as (p & <- & Hp). simpl. lra. }
    intros e He. unfold endings in He. simpl in He. apply in_app_or in He.
    destruct He as [He|He].
    + (* ends in this row: it was pending *)
      apply in_map_iff in He. destruct He as (p & <- & Hp). simpl.
      assert (Hin : In p (concat (ending :: b2))) by (simpl; apply in_or_app; left; assumption).
      destruct (enqueue_spec _ _ _ _ _ _ p Henq Hin) as [H1|[H1 H2]].
      * split; [intros _; exists p; auto|].
        intros Hge. (* an old pending has an earlier row *)
        specialize (Hold p H1). lia.
      * split; [intros Hlt; lia|]. intros _. rewrite H1, Nat.sub_diag. simpl.
        eexists. split; [reflexivity|]. simpl. congruence.
    + destruct (HS e He) as [S1 S2]. split.
      * intros Hlt. destruct (S1 ltac:(lia)) as (p & Hp & E1 & E2).
        assert (Hin : In p (concat (ending :: b2))) by (simpl; apply in_or_app; right; assumption).
        destruct (enqueue_spec _ _ _ _ _ _ p Henq Hin) as [H1|[H1 H2]]; [exists p; auto|lia].
      * intros Hge. destruct (Nat.eq_dec (e_row e) row) as [Heq|Hne].
        -- destruct (S1 ltac:(lia)) as (p & Hp & E1 & E2).
           assert (Hin : In p (concat (ending :: b2))) by (simpl; apply in_or_app; right; assumption).
           destruct (enqueue_spec _ _ _ _ _ _ p Henq Hin) as [H1|[H1 H2]].
           ++ specialize (Hold p H1). lia.
           ++ rewrite Heq, Nat.sub_diag. simpl. eexists. split; [reflexivity|]. simpl. congruence.
        -- destruct (S2 ltac:(lia)) as (ro & Hro & E).
           exists ro. split; [|assumption].
           replace (e_row e - row)%nat with (S (e_row e - S row)) by lia. exact Hro.
Qed.

Lemma concat_repeat_nil {A} n : concat (repeat (@nil A) n) = [].
Proof. induction n; simpl; auto. Qed.

Lemma chain_closed bsy outs : forall y y_end,
  rows_chain bsy y outs y_end ->
  (forall k ro, nth_error outs k = Some ro -> r_y ro == row_top y bsy (map r_h outs) k) /\
  y_end == row_top y bsy (map r_h outs) (length outs).
Proof.
  induction outs as [|ro0 outs IH]; intros y y_end H; simpl in H.
  - split; [intros [|k] ro E; discriminate|]. unfold row_top. simpl. rewrite H. ring.
  - destruct H as [H0 H1]. destruct (IH _ _ H1) as [I1 I2]. split.
    + intros [|k] ro E; simpl in E.
      * injection E as <-. unfold row_top. simpl. rewrite H0. ring.
      * rewrite (I1 k ro E). unfold row_top. cbn [map firstn sumQ]. rewrite (inject_S k), H0. ring.
    + rewrite I2. unfold row_top. cbn [map firstn sumQ length]. rewrite (inject_S (length outs)), H0. ring.
Qed.

(* one row group: every cell spans exactly from the top edge of its first row
   to the bottom edge of its last row, i.e. its height is the sum of the
   heights of the rows it spans plus the spacing between them *)
Theorem rowspan_heights_spec bsy y rows outs gh y_end :
  group_vertical exactQ bsy y rows = Ok (outs, gh, y_end) ->
  let hs := map r_h outs in
  length outs = length rows /\
  Forall (fun h => 0 <= h) hs /\
  (forall k ro, nth_error outs k = Some ro -> r_y ro == row_top y bsy hs k) /\
  (forall k ro e, nth_error outs k = Some ro -> In e (r_ending ro) ->
     (e_row e < length outs)%nat /\
     e_y e == row_top y bsy hs (e_row e) /\
     e_y e + e_bh e == row_bottom y bsy hs k) /\
  (rows <> [] -> gh == sumQ hs + inject_Z (Z.of_nat (length outs) - 1) * bsy).
Proof.
  unfold group_vertical. intros H.
  apply bind_ok_inv in H. destruct H as ([outs0 ye] & Hrv & H).
  assert (Hold : forall p, In p (concat (repeat (@nil pending) (length rows))) -> (p_row p < 0)%nat).
  { intros p Hp. rewrite concat_repeat_nil in Hp. inversion Hp. }
  destruct (rows_vertical_spec bsy rows _ 0%nat y outs0 ye Hold Hrv) as (L & C & NN & B & HS).
  destruct (chain_closed bsy outs0 y ye C) as [C1 C2].
  cbn [sub exactQ] in H.
  assert (Eouts : outs = outs0 /\ y_end = ye) by (destruct rows; injection H; auto).
  destruct Eouts as [-> ->]. cbv zeta.
  split; [assumption|]. split.
  { clear -NN. induction NN; simpl; constructor; auto. }
  split; [exact C1|]. split.
  - intros k ro e Hk He.
    assert (Hin : In e (endings outs0)).
    { unfold endings. apply in_flat_map. exists ro. split; [eapply nth_error_In; eassumption|assumption]. }
    destruct (HS e Hin) as [_ S2]. destruct (S2 ltac:(lia)) as (ro' & Hro' & Ey).
    rewrite Nat.sub_0_r in Hro'.
    split; [apply nth_error_Some; congruence|]. split.
    + rewrite <- Ey. apply C1. assumption.
    + rewrite Forall_forall in B. pose proof (B ro (nth_error_In _ _ Hk)) as Bro.
      rewrite Forall_forall in Bro. rewrite (Bro e He).
      unfold row_bottom. rewrite (C1 k ro Hk).
      assert (En : nth k (map r_h outs0) 0 = r_h ro).
      { erewrite nth_indep by (rewrite map_length; apply nth_error_Some; congruence).
        rewrite (map_nth r_h outs0 ro k). f_equal. apply nth_error_nth. assumption. }
      rewrite En. reflexivity.
  - intros Hne. destruct rows as [|r0 rows']; [contradiction|].
    injection H as <-. rewrite C2. unfold row_top.
    rewrite firstn_all2 by (rewrite map_length; lia).
    replace (Z.of_nat (length outs0) - 1)%Z with (Z.of_nat (length outs0) + -1)%Z by lia.
    rewrite inject_Z_plus. simpl (inject_Z (-1)). ring.
Qed.

(* "No cell has a negative used size, never smaller than the content's minimum":
   a cell laid on columns whose widths (plus the spacing between them) cover its
   outer min-content width -- min-content width mc of its content plus its own
   paddings and borders, what the width algorithm has to guarantee for every
   cell -- gets a used content width of at least mc, in particular a non
   negative one; and conversely a cell narrower than mc betrays columns that
   under-count its outer width (the predicate of Check/C13.v codes 20 / 21). *)
Theorem cell_content_fits x0 bsx widths c cs x w bw mc :
  (0 <= hc_gridx c)%Z -> (1 <= hc_colspan c)%Z ->
  cell_horizontal exactQ widths (column_positions exactQ x0 bsx widths) bsx c = Ok (Some (cs, x, w, bw)) ->
  let cols := sumQ (firstn (Z.to_nat cs) (skipn (Z.to_nat (hc_gridx c)) widths)) + inject_Z (cs - 1) * bsx in
  (mc + (hc_pl c + hc_pr c + hc_bl c + hc_br c) <= cols <-> mc <= w).
Proof.
  intros Hg Hc H cols.
  destruct (cell_horizontal_spec x0 bsx widths c cs x w bw Hg Hc H) as (_ & _ & _ & _ & Ebw & Ew).
  unfold cols. split; intro Hle; lra.
Qed.
