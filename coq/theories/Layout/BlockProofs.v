(* Layout/BlockProofs.v -- the model of Layout/BlockFlow.v (exact-rational
   instance) meets the CSS 2.1 specification of Layout/Css21BlockSpec.v:
   horizontal part (10.3.3, 10.4, percentages) and collapse_margin. *)
From Coq Require Import QArith Qminmax Qabs List Bool Lqa Lia.
From Verif Require Import Base.F32 Layout.BlockFlow Layout.Css21BlockSpec.
Import ListNotations.
Open Scope Q_scope.

(* ------------------------------------------------------------------ comparisons *)

Lemma Qgtb_true a b : Qgtb a b = true <-> b < a.
Proof.
  unfold Qgtb. rewrite negb_true_iff. split.
  - intros H. apply Qnot_le_lt. intros H'. apply Qle_bool_iff in H'. congruence.
  - intros H. destruct (Qle_bool a b) eqn:E; auto. apply Qle_bool_iff in E. lra.
Qed.
Lemma Qgtb_false a b : Qgtb a b = false <-> a <= b.
Proof.
  unfold Qgtb. rewrite negb_false_iff. apply Qle_bool_iff.
Qed.
Lemma Qltb_true a b : Qltb a b = true <-> a < b.
Proof. unfold Qltb. change (Qgtb b a = true <-> a < b). apply Qgtb_true. Qed.
Lemma Qltb_false a b : Qltb a b = false <-> b <= a.
Proof. unfold Qltb. change (Qgtb b a = false <-> b <= a). apply Qgtb_false. Qed.

Lemma Qeq_bool_true a b : Qeq_bool a b = true <-> a == b.
Proof. apply Qeq_bool_iff. Qed.
Lemma Qeq_bool_false a b : Qeq_bool a b = false <-> ~ a == b.
Proof.
  split.
  - intros H E. apply Qeq_bool_iff in E. congruence.
  - intros H. destruct (Qeq_bool a b) eqn:E; auto. apply Qeq_bool_iff in E. contradiction.
Qed.

Lemma fmax_spec x y : fmax x y == Qmax x y.
Proof.
  unfold fmax. destruct (Qgtb x y) eqn:E.
  - apply Qgtb_true in E. symmetry. apply Q.max_l. lra.
  - apply Qgtb_false in E. symmetry. apply Q.max_r. lra.
Qed.
Lemma fmin_spec x y : fmin x y == Qmin x y.
Proof.
  unfold fmin. destruct (Qltb x y) eqn:E.
  - apply Qltb_true in E. symmetry. apply Q.min_l. lra.
  - apply Qltb_false in E. symmetry. apply Q.min_r. lra.
Qed.

(* ------------------------------------------------------------------ 10.3.3 *)

(* the used right margin: the stored one, except in the over-constrained case
   where it is what the equation gives (the implementation keeps the specified value) *)
Definition mr_used (cbw : Q) (u : ubox) (over : bool) : Q :=
  if over then cbw - (V (uml u) + ubl u + upl u + V (uw u) + upr u + ubr u) else V (umr u).

Definition used_of (cbw : Q) (r : ubox * bool) : wused :=
  mkW (V (uml (fst r))) (V (uw (fst r))) (mr_used cbw (fst r) (snd r)).

Ltac qb :=
  repeat match goal with
  | H : Qgtb _ _ = true |- _ => apply Qgtb_true in H
  | H : Qgtb _ _ = false |- _ => apply Qgtb_false in H
  | H : Qltb _ _ = true |- _ => apply Qltb_true in H
  | H : Qltb _ _ = false |- _ => apply Qltb_false in H
  end.

Lemma blw_spec : forall u cbw,
  css_10_3_3 cbw (upl u) (upr u) (ubl u) (ubr u) (uml u) (umr u) (uw u)
             (used_of cbw (block_level_width_ exactQ u cbw)).
Proof.
  intros [x y mt mr mb ml pt pr pb pl bt br bb bl w h minw minh maxw maxh] cbw.
  unfold css_10_3_3, used_of, block_level_width_, mr_used; cbn [uml umr uw upl upr ubl ubr add sub div exactQ].
  destruct w as [wv|]; destruct ml as [l|]; destruct mr as [r|]; cbn [V is_auto negb andb].
  all: try (destruct (Qgtb _ cbw) eqn:E1).
  all: cbn [fst snd set_margins_w uml umr uw upl upr ubl ubr V is_auto negb andb wu_ml wu_w wu_mr].
  all: try (destruct (Qltb cbw _) eqn:E2).
  all: qb.
  all: try (exfalso; lra).
  all: split; [try field; try ring | ].
  all: try (eexists; eexists; split; [split; reflexivity| cbn [zero_if_auto V]; split; try reflexivity; try ring; try field]).
Qed.

(* blockLevelWidth_ only writes the two horizontal margins and the width *)
Lemma blw_shape : forall ar u cbw, exists a b c o,
  block_level_width_ ar u cbw = (set_margins_w u a b c, o).
Proof.
  intros ar u cbw. unfold block_level_width_.
  repeat match goal with
  | |- context [let '(_, _) := ?x in _] => destruct x
  | |- context [match ?x with _ => _ end] => destruct x
  end; repeat eexists.
Qed.

Lemma used_of_set cbw u a b c o :
  used_of cbw (set_margins_w u a b c, o) =
  mkW (V a) (V c) (if o then cbw - (V a + ubl u + upl u + V c + upr u + ubr u) else V b).
Proof. reflexivity. Qed.

(* ------------------------------------------------------------------ 10.4 *)

Definition rules_of (cbw : Q) (u : ubox) : mf -> wused -> Prop :=
  fun w t => css_10_3_3 cbw (upl u) (upr u) (ubl u) (ubr u) (uml u) (umr u) w t.

Lemma blw_spec_w : forall u cbw w',
  rules_of cbw u w' (used_of cbw (block_level_width_ exactQ (set_margins_w u (uml u) (umr u) w') cbw)).
Proof.
  intros u cbw w'. unfold rules_of.
  exact (blw_spec (set_margins_w u (uml u) (umr u) w') cbw).
Qed.

Lemma hmm_spec : forall u cbw,
  css_10_4 (rules_of cbw u) (uw u) (uminw u) (umaxw u)
           (used_of cbw (handle_min_max_width exactQ u cbw)).
Proof.
  intros u cbw. unfold css_10_4, handle_min_max_width.
  pose proof (blw_spec u cbw) as H1.
  destruct (blw_shape exactQ u cbw) as (a1 & b1 & c1 & o1 & E1).
  rewrite E1 in *. cbn [fst snd].
  exists (used_of cbw (set_margins_w u a1 b1 c1, o1)).
  (* second step *)
  set (r2 := if gt_ext (V (uw (set_margins_w u a1 b1 c1))) (umaxw (set_margins_w u a1 b1 c1))
             then block_level_width_ exactQ
                    (set_margins_w (set_margins_w u a1 b1 c1) (uml u) (umr u)
                       (match umaxw (set_margins_w u a1 b1 c1) with
                        | Fin m => Some m | PInf => uw (set_margins_w u a1 b1 c1) end)) cbw
             else (set_margins_w u a1 b1 c1, o1)).
  assert (Hr2 : exists a2 b2 c2 o2, r2 = (set_margins_w u a2 b2 c2, o2)).
  { unfold r2. destruct (gt_ext _ _).
    - destruct (blw_shape exactQ (set_margins_w (set_margins_w u a1 b1 c1) (uml u) (umr u)
                 (match umaxw (set_margins_w u a1 b1 c1) with
                        | Fin m => Some m | PInf => uw (set_margins_w u a1 b1 c1) end)) cbw)
        as (a & b & c & o & E).
      rewrite E. exists a, b, c, o. reflexivity.
    - exists a1, b1, c1, o1. reflexivity. }
  destruct Hr2 as (a2 & b2 & c2 & o2 & E2).
  exists (used_of cbw r2).
  split; [exact H1|]. split.
  - unfold r2. cbn [umaxw set_margins_w uw V wu_w used_of fst].
    destruct (umaxw u) as [m|]; cbn [gt_ext].
    + change (Qltb m (V c1)) with (Qgtb (V c1) m).
      destruct (Qgtb (V c1) m); [|reflexivity].
      exact (blw_spec_w u cbw (Some m)).
    + reflexivity.
  - destruct r2 as [u2 o2']. injection E2 as -> ->.
    cbn [uw uminw set_margins_w V used_of wu_w fst].
    destruct (Qltb (V c2) (uminw u)); [|reflexivity].
    exact (blw_spec_w u cbw (Some (uminw u))).
Qed.

(* ------------------------------------------------------------------ percentages, box-sizing *)

Lemma shrink_q_spec sz pad bord hd x :
  hd == (match sz with ContentBox => 0 | PaddingBox => pad | BorderBox => pad + bord end) ->
  (if Qgtb hd 0 then fmax 0 (x - hd) else x) == content_of sz pad bord x.
Proof.
  intros H. unfold content_of, Qmax0.
  destruct sz.
  - destruct (Qgtb hd 0) eqn:E; qb; [lra | reflexivity].
  - destruct (Qgtb hd 0) eqn:E; destruct (Qltb 0 pad) eqn:E'; qb; try lra; try reflexivity.
    rewrite fmax_spec, H. reflexivity.
  - destruct (Qgtb hd 0) eqn:E; destruct (Qltb 0 (pad + bord)) eqn:E'; qb; try lra; try reflexivity.
    rewrite fmax_spec, H. reflexivity.
Qed.

Lemma mf_eq_refl a : mf_eq a a.
Proof. destruct a; cbn; [reflexivity | exact I]. Qed.
Lemma ext_eq_refl a : ext_eq a a.
Proof. destruct a; cbn; [reflexivity | exact I]. Qed.

Lemma shrink_mf_spec sz pad bord hd (x y : mf) :
  hd == (match sz with ContentBox => 0 | PaddingBox => pad | BorderBox => pad + bord end) ->
  mf_eq x y ->
  mf_eq (if Qgtb hd 0 then shrink_mf exactQ x hd else x) (content_of_mf sz pad bord y).
Proof.
  intros H Hxy. destruct x as [x|], y as [y|]; cbn in Hxy; try contradiction.
  - pose proof (shrink_q_spec sz pad bord hd x H) as S.
    destruct (Qgtb hd 0); cbn [shrink_mf content_of_mf mf_eq sub exactQ] in *.
    + rewrite S. unfold content_of, Qmax0. destruct sz; repeat destruct (Qltb _ _); rewrite ?Hxy; reflexivity.
    + rewrite S. unfold content_of, Qmax0. destruct sz; repeat destruct (Qltb _ _); rewrite ?Hxy; reflexivity.
  - destruct (Qgtb hd 0); exact I.
Qed.

Lemma shrink_ext_spec sz pad bord hd (x y : ext) :
  hd == (match sz with ContentBox => 0 | PaddingBox => pad | BorderBox => pad + bord end) ->
  ext_eq x y ->
  ext_eq (if Qgtb hd 0 then shrink_ext exactQ x hd else x) (content_of_ext sz pad bord y).
Proof.
  intros H Hxy. destruct x as [x|], y as [y|]; cbn in Hxy; try contradiction.
  - pose proof (shrink_q_spec sz pad bord hd x H) as S.
    destruct (Qgtb hd 0); cbn [shrink_ext content_of_ext ext_eq sub exactQ] in *.
    + rewrite S. unfold content_of, Qmax0. destruct sz; repeat destruct (Qltb _ _); rewrite ?Hxy; reflexivity.
    + rewrite S. unfold content_of, Qmax0. destruct sz; repeat destruct (Qltb _ _); rewrite ?Hxy; reflexivity.
  - destruct (Qgtb hd 0); exact I.
Qed.

Lemma shrink_min_spec sz pad bord hd (x y : Q) :
  hd == (match sz with ContentBox => 0 | PaddingBox => pad | BorderBox => pad + bord end) ->
  x == y ->
  (if Qgtb hd 0 then fmax 0 (x - hd) else x) == content_of sz pad bord y.
Proof.
  intros H Hxy. rewrite (shrink_q_spec sz pad bord hd x H).
  unfold content_of, Qmax0. destruct sz; repeat destruct (Qltb _ _); rewrite ?Hxy; reflexivity.
Qed.

Lemma resolve_len_spec v refer : mf_eq (resolve_len exactQ v refer) (spec_len v refer).
Proof. destruct v; cbn; try reflexivity; try exact I. unfold pct_of. field. Qed.
Lemma resolve_plen_spec v refer : resolve_plen exactQ v refer == spec_plen v refer.
Proof. destruct v; cbn; try reflexivity. unfold pct_of. field. Qed.
Lemma resolve_min_spec v refer : resolve_min exactQ v refer == V (spec_len v refer).
Proof. destruct v; cbn; try reflexivity. unfold pct_of. field. Qed.
Lemma resolve_max_spec v refer :
  ext_eq (resolve_max exactQ v refer)
         (match v with MNone => PInf | MPx x => Fin x | MPct p => Fin (pct_of refer p) end).
Proof. destruct v; cbn; try reflexivity; try exact I. unfold pct_of. field. Qed.

Lemma shrink_mf_spec' sz pad bord hd (x y : mf) (b : bool) :
  Qgtb hd 0 = b ->
  hd == (match sz with ContentBox => 0 | PaddingBox => pad | BorderBox => pad + bord end) ->
  mf_eq x y ->
  mf_eq (if b then shrink_mf exactQ x hd else x) (content_of_mf sz pad bord y).
Proof. intros <-. apply shrink_mf_spec. Qed.
Lemma shrink_ext_spec' sz pad bord hd (x y : ext) (b : bool) :
  Qgtb hd 0 = b ->
  hd == (match sz with ContentBox => 0 | PaddingBox => pad | BorderBox => pad + bord end) ->
  ext_eq x y ->
  ext_eq (if b then shrink_ext exactQ x hd else x) (content_of_ext sz pad bord y).
Proof. intros <-. apply shrink_ext_spec. Qed.
Lemma shrink_min_spec' sz pad bord hd (x y : Q) (b : bool) :
  Qgtb hd 0 = b ->
  hd == (match sz with ContentBox => 0 | PaddingBox => pad | BorderBox => pad + bord end) ->
  x == y ->
  (if b then fmax 0 (x - hd) else x) == content_of sz pad bord y.
Proof. intros <-. apply shrink_min_spec. Qed.

Lemma pct_spec_holds : forall s cbw cbh x y,
  pct_spec s cbw cbh (resolve_percentages exactQ s cbw cbh x y).
Proof.
  intros [mt mr mb ml pt pr pb pl bt br bb bl w h minw minh maxw maxh sz] cbw cbh x y.
  unfold pct_spec, resolve_percentages. cbn [s_mt s_mr s_mb s_ml s_pt s_pr s_pb s_pl s_bt s_br s_bb s_bl s_w s_h s_minw s_minh s_maxw s_maxh s_sizing].
  set (PL := resolve_plen exactQ pl cbw). set (PR := resolve_plen exactQ pr cbw).
  set (PT := resolve_plen exactQ pt cbw). set (PB := resolve_plen exactQ pb cbw).
  (* the two deltas *)
  assert (HD : fst (match sz with
                    | BorderBox => (add exactQ (add exactQ (add exactQ PL PR) bl) br,
                                    add exactQ (add exactQ (add exactQ PT PB) bt) bb)
                    | PaddingBox => (add exactQ PL PR, add exactQ PT PB)
                    | ContentBox => (0, 0) end)
               == match sz with ContentBox => 0 | PaddingBox => PL + PR | BorderBox => (PL + PR) + (bl + br) end).
  { destruct sz; cbn; ring. }
  assert (VD : snd (match sz with
                    | BorderBox => (add exactQ (add exactQ (add exactQ PL PR) bl) br,
                                    add exactQ (add exactQ (add exactQ PT PB) bt) bb)
                    | PaddingBox => (add exactQ PL PR, add exactQ PT PB)
                    | ContentBox => (0, 0) end)
               == match sz with ContentBox => 0 | PaddingBox => PT + PB | BorderBox => (PT + PB) + (bt + bb) end).
  { destruct sz; cbn; ring. }
  destruct (match sz with
            | BorderBox => _ | PaddingBox => _ | ContentBox => _ end) as [hd vd].
  cbn [fst snd] in HD, VD.
  destruct cbh as [ch|];
    destruct (Qgtb hd 0) eqn:EH; destruct (Qgtb vd 0) eqn:EV;
    cbn [umt umr umb uml upt upr upb upl ubt ubr ubb ubl uw uh uminw uminh umaxw umaxh];
    repeat split;
    try apply resolve_len_spec; try apply resolve_plen_spec; try reflexivity.
  all: try (apply (shrink_mf_spec' sz _ _ hd _ _ _ EH HD); apply resolve_len_spec).
  all: try (apply (shrink_mf_spec' sz _ _ vd _ _ _ EV VD); apply resolve_len_spec).
  all: try (apply (shrink_min_spec' sz _ _ hd _ _ _ EH HD); apply resolve_min_spec).
  all: try (apply (shrink_min_spec' sz _ _ vd _ _ _ EV VD); apply resolve_min_spec).
  all: try (apply (shrink_ext_spec' sz _ _ hd _ _ _ EH HD); apply resolve_max_spec).
  all: try (apply (shrink_ext_spec' sz _ _ vd _ _ _ EV VD); apply resolve_max_spec).
  all: try (apply (shrink_mf_spec' sz _ _ vd _ _ _ EV VD); destruct h; cbn; try reflexivity; exact I).
  all: try (apply (shrink_min_spec' sz _ _ vd _ _ _ EV VD); destruct minh; cbn; reflexivity).
  all: try (apply (shrink_ext_spec' sz _ _ vd _ _ _ EV VD); destruct maxh; cbn; try reflexivity; exact I).
Qed.

(* ------------------------------------------------------------------ collapse_margin *)

(* case analysis on every Qmax / Qmin, then linear arithmetic *)
Ltac qmm :=
  repeat match goal with
  | |- context [Qmax ?a ?b] =>
      let H := fresh in let E := fresh in
      destruct (Q.max_spec a b) as [[H E]|[H E]]; rewrite E in *; clear E
  | |- context [Qmin ?a ?b] =>
      let H := fresh in let E := fresh in
      destruct (Q.min_spec a b) as [[H E]|[H E]]; rewrite E in *; clear E
  | H0 : context [Qmax ?a ?b] |- _ =>
      let H := fresh in let E := fresh in
      destruct (Q.max_spec a b) as [[H E]|[H E]]; rewrite E in *; clear E
  | H0 : context [Qmin ?a ?b] |- _ =>
      let H := fresh in let E := fresh in
      destruct (Q.min_spec a b) as [[H E]|[H E]]; rewrite E in *; clear E
  end; try lra.

Lemma maxpos_nonneg l : 0 <= maxpos l.
Proof. induction l as [|m r IH]; cbn [maxpos fold_right]; [lra|]. fold (maxpos r). qmm. Qed.
Lemma minneg_nonpos l : minneg l <= 0.
Proof. induction l as [|m r IH]; cbn [minneg fold_right]; [lra|]. fold (minneg r). qmm. Qed.

Lemma collapse_go_spec : forall l p n, 0 <= p -> n <= 0 ->
  fst (collapse_go l p n) == Qmax p (maxpos l) /\ snd (collapse_go l p n) == Qmin n (minneg l).
Proof.
  induction l as [|m r IH]; intros p n Hp Hn.
  - cbn. split; qmm.
  - cbn [collapse_go maxpos minneg fold_right]. fold (maxpos r). fold (minneg r).
    pose proof (maxpos_nonneg r). pose proof (minneg_nonpos r).
    destruct (Qgtb m p) eqn:E1; [|destruct (Qltb m n) eqn:E2]; qb.
    + destruct (IH m n) as [A B]; [lra | lra |]. rewrite A, B. split; qmm.
    + destruct (IH p m) as [A B]; [lra | lra |]. rewrite A, B. split; qmm.
    + destruct (IH p n) as [A B]; [lra | lra |]. rewrite A, B. split; qmm.
Qed.

Lemma collapse_margin_spec : forall l, collapse_margin exactQ l == collapsed l.
Proof.
  intros l. unfold collapse_margin, collapsed.
  destruct (collapse_go_spec l 0 0) as [A B]; [lra | lra |].
  destruct (collapse_go l 0 0) as [p n]. cbn [fst snd add exactQ] in *.
  rewrite A, B. pose proof (maxpos_nonneg l). pose proof (minneg_nonpos l). qmm.
Qed.

(* ------------------------------------------------------------------ the cases of 10.3.3, stated on the model *)

Definition ppb (u : ubox) : Q := upl u + upr u + ubl u + ubr u.

Lemma blw_width_some ar u cbw w :
  uw u = Some w -> uw (fst (block_level_width_ ar u cbw)) = Some w.
Proof.
  intros H. unfold block_level_width_. rewrite H.
  repeat match goal with
  | |- context [let '(_, _) := ?x in _] => destruct x
  | |- context [match ?x with _ => _ end] => destruct x
  end; reflexivity.
Qed.

Lemma blw_x ar u cbw : ux (fst (block_level_width_ ar u cbw)) = ux u.
Proof.
  destruct (blw_shape ar u cbw) as (a & b & c & o & E). rewrite E. reflexivity.
Qed.

(* width: auto -> auto margins become 0 and the width fills the containing block *)
Lemma auto_width_fills u cbw :
  uw u = None ->
  let r := fst (block_level_width_ exactQ u cbw) in
  V (uml r) == V (uml u) /\ V (umr r) == V (umr u) /\
  V (uw r) == cbw - (ppb u + V (uml u) + V (umr u)) /\
  V (uml r) + ubl u + upl u + V (uw r) + upr u + ubr u + V (umr r) == cbw.
Proof.
  intros H. unfold block_level_width_, ppb. rewrite H.
  destruct (uml u) as [l|], (umr u) as [r|];
    cbn [fst set_margins_w uml umr uw V add sub div exactQ];
    repeat split; try reflexivity; ring.
Qed.

(* both margins auto: centred (equal margins) when the box fits, both 0 when it does not *)
Lemma auto_margins_center u cbw wv :
  uw u = Some wv -> uml u = None -> umr u = None ->
  let r := fst (block_level_width_ exactQ u cbw) in
  V (uw r) == wv /\
  (ppb u + wv <= cbw ->
     V (uml r) == V (umr r) /\ V (uml r) == (cbw - ppb u - wv) / 2 /\
     V (uml r) + ubl u + upl u + wv + upr u + ubr u + V (umr r) == cbw) /\
  (cbw < ppb u + wv -> V (uml r) == 0).
Proof.
  intros Hw Hl Hr. unfold block_level_width_, ppb. rewrite Hw, Hl, Hr.
  cbn [add sub div exactQ V]. destruct (Qgtb _ cbw) eqn:E; qb;
    cbn [fst set_margins_w uml umr uw V is_auto negb andb];
    repeat split; try reflexivity; intros; try lra; try field.
Qed.

(* exactly one auto margin: it takes what is left *)
Lemma one_auto_margin_left u cbw wv r :
  uw u = Some wv -> uml u = None -> umr u = Some r -> ppb u + wv + r <= cbw ->
  let b := fst (block_level_width_ exactQ u cbw) in
  V (uw b) == wv /\ V (umr b) == r /\ V (uml b) == cbw - ppb u - wv - r.
Proof.
  intros Hw Hl Hr Hfit. unfold block_level_width_. fold (ppb u). rewrite Hw, Hl, Hr.
  cbn [add sub div exactQ V]. unfold ppb in *. destruct (Qgtb _ cbw) eqn:E; qb; try lra.
  cbn [fst set_margins_w uml umr uw V]. repeat split; try reflexivity; try ring.
Qed.
Lemma one_auto_margin_right u cbw wv l :
  uw u = Some wv -> uml u = Some l -> umr u = None -> ppb u + wv + l <= cbw ->
  let b := fst (block_level_width_ exactQ u cbw) in
  V (uw b) == wv /\ V (uml b) == l /\ V (umr b) == cbw - ppb u - wv - l.
Proof.
  intros Hw Hl Hr Hfit. unfold block_level_width_. fold (ppb u). rewrite Hw, Hl, Hr.
  cbn [add sub div exactQ V]. unfold ppb in *. destruct (Qgtb _ cbw) eqn:E; qb; try lra.
  cbn [fst set_margins_w uml umr uw V]. repeat split; try reflexivity; try ring.
Qed.

(* over-constrained, ltr: position, left margin and width are the specified ones whatever
   the right margin; the flag is raised *)
Lemma overconstrained_ignores_mr u cbw wv l r :
  uw u = Some wv -> uml u = Some l -> umr u = Some r ->
  let res := block_level_width_ exactQ u cbw in
  snd res = true /\ ux (fst res) = ux u /\ uml (fst res) = Some l /\ uw (fst res) = Some wv.
Proof.
  intros Hw Hl Hr. unfold block_level_width_. rewrite Hw, Hl, Hr.
  cbn [add exactQ]. destruct (Qgtb _ cbw); cbn; repeat split; reflexivity.
Qed.

(* 10.4 on the model: the used width is the tentative one, capped by max-width, then
   raised to min-width *)
Lemma hmm_width u cbw :
  V (uw (fst (handle_min_max_width exactQ u cbw))) =
  let w1 := V (uw (fst (block_level_width_ exactQ u cbw))) in
  let w2 := if gt_ext w1 (umaxw u) then match umaxw u with Fin m => m | PInf => w1 end else w1 in
  if Qltb w2 (uminw u) then uminw u else w2.
Proof.
  unfold handle_min_max_width.
  destruct (blw_shape exactQ u cbw) as (a1 & b1 & c1 & o1 & E1). rewrite E1.
  cbn [fst umaxw uw set_margins_w V]. cbv zeta.
  destruct (gt_ext (V c1) (umaxw u)) eqn:G.
  - destruct (umaxw u) as [m|] eqn:EM; [|discriminate G].
    match goal with |- context [block_level_width_ exactQ ?v cbw] => set (v2 := v) end.
    pose proof (blw_width_some exactQ v2 cbw m eq_refl) as W.
    destruct (blw_shape exactQ v2 cbw) as (a & b & c & o & E2). rewrite E2 in *.
    cbn [fst uw set_margins_w uminw] in *. subst c. cbn [V]. subst v2. cbn [uminw set_margins_w].
    destruct (Qltb m (uminw u)); [|reflexivity].
    rewrite (blw_width_some exactQ _ cbw (uminw u)) by reflexivity. reflexivity.
  - cbn [uw set_margins_w uminw V].
    destruct (Qltb (V c1) (uminw u)); [|reflexivity].
    rewrite (blw_width_some exactQ _ cbw (uminw u)) by reflexivity. reflexivity.
Qed.

Lemma width_ge_min u cbw :
  uminw u <= V (uw (fst (handle_min_max_width exactQ u cbw))).
Proof.
  rewrite hmm_width. cbv zeta.
  match goal with |- context [Qltb ?a ?b] => destruct (Qltb a b) eqn:E end; qb; lra.
Qed.

Lemma negative_width_clamped u cbw :
  0 <= uminw u -> 0 <= V (uw (fst (handle_min_max_width exactQ u cbw))).
Proof. intros H. pose proof (width_ge_min u cbw). lra. Qed.

(* ... and never above max-width unless min-width says otherwise *)
Lemma width_le_max u cbw m :
  umaxw u = Fin m -> uminw u <= m ->
  V (uw (fst (handle_min_max_width exactQ u cbw))) <= m.
Proof.
  intros Hm Hle. rewrite hmm_width, Hm. cbv zeta. cbn [gt_ext].
  destruct (Qgtb _ m) eqn:E1;
  match goal with |- context [Qltb ?a ?b] => destruct (Qltb a b) eqn:E end; qb; lra.
Qed.
