From Verif Require Import Layout.TextDraw.
From Coq Require Import List NArith Bool Lia.
Import ListNotations.

Lemma pbox_ind' (P : pbox -> Prop) :
  (forall v f t, P (PText v f t)) -> (forall w ks, Forall P ks -> P (PBox w ks)) -> forall b, P b.
Proof.
  intros HT HB. fix IH 1. intros [v f t|w ks]; [apply HT|]. apply HB.
  induction ks as [|k r IHr]; constructor; [apply IH|exact IHr].
Qed.

Lemma flat_map_filter_map {A B} (f : A -> list B) l1 l2 :
  flat_map f (l1 ++ l2) = flat_map f l1 ++ flat_map f l2.
Proof. apply flat_map_app. Qed.

(* every text box of the page yields exactly one DrawText call -- with its own text,
   in document order -- if it is visible, not blank and has a non-zero font size,
   and none otherwise *)
Theorem drawn_once b :
  draw_events b =
  map (fun x => snd x) (filter (fun x => drawable (fst (fst x)) (snd (fst x)) (snd x)) (text_boxes b)).
Proof.
  induction b as [v f t|w ks IH] using pbox_ind'.
  - cbn. destruct (drawable v f t); reflexivity.
  - cbn [draw_events text_boxes]. induction IH as [|k r Hk Hr IHr]; [reflexivity|].
    cbn [flat_map]. rewrite filter_app, map_app, <- Hk, <- IHr. reflexivity.
Qed.

Corollary drawn_once_count b :
  length (draw_events b) =
  length (filter (fun x => drawable (fst (fst x)) (snd (fst x)) (snd x)) (text_boxes b)).
Proof. rewrite drawn_once. apply map_length. Qed.

(* the visibility of a line / inline box / container never decides whether the texts inside it
   are drawn: only each text box's own (computed) visibility does *)
Theorem draw_ignores_container_visibility b : draw_events b = draw_events (show_boxes b).
Proof.
  induction b as [v f t|w ks IH] using pbox_ind'; [reflexivity|].
  cbn [draw_events show_boxes]. induction IH as [|k r Hk Hr IHr]; [reflexivity|].
  cbn [flat_map map]. rewrite <- Hk, IHr. reflexivity.
Qed.

Lemma vbox_ind' (P : vbox -> Prop) :
  (forall t, P (VText t)) -> (forall s ks, Forall P ks -> P (VBox s ks)) -> forall b, P b.
Proof.
  intros HT HB. fix IH 1. intros [t|s ks]; [apply HT|]. apply HB.
  induction ks as [|k r IHr]; constructor; [apply IH|exact IHr].
Qed.

(* with the cascade's inheritance: exactly the non-blank texts whose nearest ancestor setting
   `visibility` sets it to visible reach the backend, once each, in document order -- also
   those inside hidden ancestors *)
Theorem visible_descendants_drawn b inh :
  draw_events (resolve_visibility inh b) =
  filter (fun t => negb (forallb is_space_rune t)) (visible_texts inh b).
Proof.
  revert inh. induction b as [t|s ks IH] using vbox_ind'; intros inh.
  - cbn [resolve_visibility draw_events visible_texts]. unfold drawable.
    destruct inh; cbn [andb filter]; [|reflexivity].
    destruct (negb (forallb is_space_rune t)); reflexivity.
  - cbn [resolve_visibility draw_events visible_texts].
    set (v := match s with Some x => x | None => inh end). clearbody v.
    induction IH as [|k r Hk Hr IHr]; [reflexivity|].
    cbn [map flat_map]. rewrite filter_app, <- Hk, <- IHr. reflexivity.
Qed.
