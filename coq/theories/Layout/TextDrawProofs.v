From Verif Require Import Layout.TextDraw.
From Coq Require Import List NArith Bool Lia.
Import ListNotations.

Lemma pbox_ind' (P : pbox -> Prop) :
  (forall v f t, P (PText v f t)) -> (forall ks, Forall P ks -> P (PBox ks)) -> forall b, P b.
Proof.
  intros HT HB. fix IH 1. intros [v f t|ks]; [apply HT|]. apply HB.
  induction ks as [|k r IHr]; constructor; [apply IH|exact IHr].
Qed.

Lemma flat_map_filter_map {A B} (f : A -> list B) l1 l2 :
  flat_map f (l1 ++ l2) = flat_map f l1 ++ flat_map f l2.
Proof. apply flat_map_app. Qed.

(* every text box of the page yields exactly one DrawText call -- with its own text,
   in document order -- if it is visible, not blank and has a non-zero font size,
   and none otherwise *)
Theorem drawn_once b :
  draw_events b =
  map (fun x => snd x) (filter (fun x => drawable (fst (fst x)) (snd (fst x)) (snd x)) (text_boxes b)).
Proof.
  induction b as [v f t|ks IH] using pbox_ind'.
  - cbn. destruct (drawable v f t); reflexivity.
  - cbn [draw_events text_boxes]. induction IH as [|k r Hk Hr IHr]; [reflexivity|].
    cbn [flat_map]. rewrite filter_app, map_app, <- Hk, <- IHr. reflexivity.
Qed.

Corollary drawn_once_count b :
  length (draw_events b) =
  length (filter (fun x => drawable (fst (fst x)) (snd (fst x)) (snd x)) (text_boxes b)).
Proof. rewrite drawn_once. apply map_length. Qed.
