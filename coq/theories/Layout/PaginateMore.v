(* Layout/PaginateMore.v -- further consequences of the pagination specification:
   uniqueness between any two conforming paginations, exists-unique on the class,
   content conservation on the rendered pages, monotonicity of page starts. *)
From Verif Require Import Layout.Paginate Layout.PaginateSpec Layout.PaginateProofs.
From Coq Require Import List ZArith NArith QArith Arith Lia.
Import ListNotations.
Local Open Scope nat_scope.

(* ---------------------------------------------------------------- uniqueness *)

Theorem paginate_unique_between : forall (css : bool) (d : doc),
  let us := lin_flows (d_flow d) in
  Forall wf_unit us ->
  forall ps ps',
    pagination_ok pstate (length us) (forced_at css us) (allowed_at us) (fits_doc css d us)
      (next_pstate css (d_rtl d) us) (init_pstate d) ps ->
    Forall (conforming_exists pstate (length us) (forced_at css us) (allowed_at us) (fits_doc css d us)) ps ->
    pagination_ok pstate (length us) (forced_at css us) (allowed_at us) (fits_doc css d us)
      (next_pstate css (d_rtl d) us) (init_pstate d) ps' ->
    Forall (conforming_exists pstate (length us) (forced_at css us) (allowed_at us) (fits_doc css d us)) ps' ->
    ps = ps'.
Proof.
  intros css d us Hw ps ps' H1 H2 H3 H4.
  rewrite (paginate_unique_partial css d Hw ps H1 H2).
  rewrite (paginate_unique_partial css d Hw ps' H3 H4). reflexivity.
Qed.

Theorem paginate_exists_unique : forall (css : bool) (d : doc),
  let us := lin_flows (d_flow d) in
  Forall wf_unit us ->
  Forall (conforming_exists pstate (length us) (forced_at css us) (allowed_at us) (fits_doc css d us))
    (paginate_ranges css d) ->
  exists! ps,
    pagination_ok pstate (length us) (forced_at css us) (allowed_at us) (fits_doc css d us)
      (next_pstate css (d_rtl d) us) (init_pstate d) ps /\
    Forall (conforming_exists pstate (length us) (forced_at css us) (allowed_at us) (fits_doc css d us)) ps.
Proof.
  intros css d us Hw Hc. exists (paginate_ranges css d). split.
  - split; [apply paginate_satisfies_spec|exact Hc].
  - intros ps' [H1 H2]. symmetry. apply (paginate_unique_partial css d Hw ps' H1 H2).
Qed.

(* ---------------------------------------------------------------- monotonicity *)

Section Chain.
  Variable St : Type.
  Variable n : nat.
  Variable next_st : St -> nat -> St.

  Lemma chain_first st s p r : chain St n next_st st s (p :: r) -> snd (fst p) = s /\ fst (fst p) = st.
  Proof.
    destruct p as [[st' s'] e]. cbn [PaginateSpec.chain]. intros (-> & -> & _). auto.
  Qed.

  (* consecutive pages: the next page starts where the page ends, strictly later *)
  Lemma chain_adjacent ps : forall st s, chain St n next_st st s ps ->
    forall i p q, nth_error ps i = Some p -> nth_error ps (S i) = Some q ->
      snd (fst q) = snd p /\ snd (fst p) < snd (fst q) /\ fst (fst q) = next_st (fst (fst p)) (snd (fst p)).
  Proof.
    induction ps as [|[[st' s'] e] r IH]; intros st s H i p q Hp Hq.
    - destruct i; discriminate.
    - cbn [PaginateSpec.chain] in H. destruct H as (-> & -> & H1 & H2 & H3).
      destruct i as [|i].
      + cbn in Hp. injection Hp as <-. cbn [nth_error] in Hq.
        destruct r as [|q' r']; [discriminate|]. cbn in Hq. injection Hq as ->.
        destruct (chain_first _ _ _ _ H3) as [Ha Hb]. cbn [fst snd]. rewrite Ha, Hb. auto.
      + cbn [nth_error] in Hp, Hq. eapply IH; eauto.
  Qed.

  (* the last page ends at the end of the flow *)
  Lemma chain_last ps : forall st s dflt, chain St n next_st st s ps -> ps <> [] ->
    snd (last ps dflt) = n.
  Proof.
    induction ps as [|[[st' s'] e] r IH]; intros st s dflt H Hne; [congruence|].
    cbn [PaginateSpec.chain] in H. destruct H as (-> & -> & H1 & H2 & H3).
    destruct r as [|q r'].
    - cbn in H3. cbn. auto.
    - change (last ((st, s, e) :: q :: r') dflt) with (last (q :: r') dflt).
      eapply IH; eauto. discriminate.
  Qed.
End Chain.

Theorem paginate_monotone : forall (css : bool) (d : doc),
  let us := lin_flows (d_flow d) in
  let ps := paginate_ranges css d in
  (forall p, nth_error ps 0 = Some p -> snd (fst p) = 0 /\ fst (fst p) = init_pstate d) /\
  (forall i p q, nth_error ps i = Some p -> nth_error ps (S i) = Some q ->
     snd (fst q) = snd p /\ snd (fst p) < snd (fst q) /\
     fst (fst q) = next_pstate css (d_rtl d) us (fst (fst p)) (snd (fst p))) /\
  (forall dflt, ps <> [] -> snd (last ps dflt) = length us) /\
  (ps = [] <-> us = []).
Proof.
  intros css d us ps. destruct (paginate_satisfies_spec css d) as [Hc _]. fold ps in Hc.
  split; [|split; [|split]].
  - intros p Hp. destruct ps as [|p' r]; [discriminate|]. cbn in Hp. injection Hp as ->.
    eapply chain_first; eauto.
  - intros i p q Hp Hq. eapply chain_adjacent; eauto.
  - intros dflt Hne. eapply chain_last; eauto.
  - split.
    + intros E. rewrite E in Hc. cbn in Hc. apply length_zero_iff_nil. auto.
    + intros E. destruct ps as [|[[st' s'] e] r]; auto.
      cbn [PaginateSpec.chain] in Hc. destruct Hc as (_ & _ & H1 & H2 & _).
      fold us in H2. rewrite E in H2. cbn in H2. lia.
Qed.

(* ---------------------------------------------------------------- conservation *)

Lemma render_pages_units css d rs :
  concat (map snd (render_pages css d rs)) =
  flat_map (fun p : pstate * nat * nat => let '(_, a, e) := p in seq a (e - a)) rs.
Proof.
  unfold render_pages. induction rs as [|[[st s] e] r IH]; [reflexivity|].
  cbn [flat_map]. rewrite map_app, concat_app, IH. f_equal.
  destruct (pages_for css (d_rtl d) (lin_flows (d_flow d)) st s) as [[bl pt] x].
  destruct bl; cbn; rewrite app_nil_r; reflexivity.
Qed.

(* the units of the rendered pages (blank pages included), in page order, are 0 .. n-1 *)
Theorem paginate_pages_conserve : forall (css : bool) (d : doc),
  concat (map pg_units (paginate css d)) = seq 0 (length (lin_flows (d_flow d))).
Proof.
  intros css d. unfold paginate. cbv zeta. rewrite map_map.
  rewrite (map_ext _ snd) by (intros [pt u]; reflexivity).
  destruct (lin_flows (d_flow d)) eqn:E.
  - reflexivity.
  - rewrite <- E. rewrite render_pages_units. apply paginate_conserves.
Qed.
