(* Layout/PageLoopProofs.v -- termination and panic-freedom of the page loop
   model (Layout/PageLoop.v) under the PROGRESS hypothesis on the layout of one
   page, and the bound on re-pagination rounds. *)
From Verif Require Import Base.GoSem Layout.PageLoop.
From Coq Require Import List Arith Bool Lia.
Import ListNotations.

Lemma idx_app_last {A} site (pre : list A) (x : A) :
  idx site (pre ++ [x]) (length pre) = Ok x.
Proof.
  unfold idx. rewrite nth_error_app2 by lia. rewrite Nat.sub_diag. reflexivity.
Qed.

Lemma set_nth_app_last {A} (pre : list A) (x y : A) :
  set_nth (pre ++ [x]) (length pre) y = pre ++ [y].
Proof. induction pre as [|a pre IH]; simpl; [reflexivity | now rewrite IH]. Qed.

(* ---- the loop over the reported footnotes (pages.go 704-717) *)
Lemma report_loop_le ff ov : forall n i, report_loop ff ov i n <= n.
Proof.
  induction n as [|n IH]; intros i; cbn [report_loop]; [lia|].
  destruct (ov i && (negb ff || negb (i =? 0))); [lia|]. specialize (IH (S i)). lia.
Qed.

(* with the `i != 0` guard the first reported footnote is placed: the list
   strictly shrinks on every page that receives reported footnotes *)
Lemma report_loop_first_placed ov n : 0 < n -> report_loop true ov 0 n < n.
Proof.
  destruct n as [|n]; [lia|]. intros _. cbn [report_loop negb orb Nat.eqb]. rewrite andb_false_r.
  pose proof (report_loop_le true ov n 1). lia.
Qed.

(* without it a footnote that always overflows is reported again for ever *)
Lemma report_loop_unguarded_stuck n : report_loop false (fun _ => true) 0 n = n.
Proof. destruct n; reflexivity. Qed.

(* H_fn_blank of the section below is a theorem for the blank pages of /repo *)
Lemma blank_of_report_loop_ok overflow flags : forall fn fn' fl,
  blank_of_report_loop true overflow flags fn = (fn', fl) -> fn' <= fn /\ (0 < fn -> fn' < fn).
Proof.
  intros fn fn' fl H. unfold blank_of_report_loop in H. inversion H; subst. split.
  - apply report_loop_le.
  - apply report_loop_first_placed.
Qed.

Section Proofs.
  Variable R : Type.
  Variable R_eqb : R -> R -> bool.
  Variable layout_content : option R -> nat -> (option R * brk * nat) * (bool * bool).
  Variable layout_blank : nat -> nat * (bool * bool).
  Variable state_changed : nat -> bool.

  (* remaining content, in units (lines, atomic blocks, table rows, ...) *)
  Variable mu : option R -> nat.
  (* total number of footnotes of the document *)
  Variable F : nat.

  (* PROGRESS: a page that is not blank and does not finish the document
     consumes at least one unit (the pageIsEmpty rule: the first line / first
     child of an empty page is placed even if it overflows) *)
  Hypothesis H_progress : forall r fn r' b fn' fl,
    layout_content r fn = ((Some r', b, fn'), fl) -> mu (Some r') < mu r.
  Hypothesis H_fn_content : forall r fn r' b fn' fl,
    layout_content r fn = ((r', b, fn'), fl) -> fn' <= F.
  (* the first reported footnote of a page is always placed (pages.go 767:
     `overflow && i != 0`) *)
  Hypothesis H_fn_blank : forall fn fn' fl,
    layout_blank fn = (fn', fl) -> fn' <= fn /\ (0 < fn -> fn' < fn).

  Notation item := (item R).
  Notation remake_page := (remake_page R R_eqb layout_content layout_blank state_changed).
  Notation make_all_pages := (make_all_pages R R_eqb layout_content layout_blank state_changed).
  Notation doc_loop := (doc_loop R).
  Notation layout_document := (layout_document R R_eqb layout_content layout_blank state_changed).

  (* what one page does, as a function of the current pageMaker item *)
  Definition page_step (it : item) (fn : nat)
    : page * option R * brk * nat * (bool * bool) :=
    if side_mismatch (i_brk it) (i_right it) || (negb (fn =? 0) && is_none (i_resume it)) then
      let '(fn', fl) := layout_blank fn in (PBlank, i_resume it, i_brk it, fn', fl)
    else
      let '((r', b', fn'), fl) := layout_content (i_resume it) fn in (PContent, r', b', fn', fl).

  Lemma remake_page_last pre (it : item) fn :
    remake_page (length pre) (pre ++ [it]) fn =
    let '(pg, ra, nb, fn', (cc, pw)) := page_step it fn in
    Ok (pg, ra, fn',
        (pre ++ [mk_item (i_resume it) (i_brk it) (i_right it) cc pw])
          ++ [mk_item ra nb (negb (i_right it)) (is_some ra) false]).
  Proof.
    unfold remake_page, PageLoop.remake_page, page_step.
    rewrite idx_app_last. cbn [bind].
    destruct (side_mismatch (i_brk it) (i_right it) || (negb (fn =? 0) && is_none (i_resume it))).
    - destruct (layout_blank fn) as [fn' [cc pw]].
      rewrite set_nth_app_last.
      replace (length (pre ++ [_]) <=? length pre + 1) with true
        by (symmetry; apply Nat.leb_le; rewrite app_length; simpl; lia).
      cbn [bind]. reflexivity.
    - destruct (layout_content (i_resume it) fn) as [[[r' b'] fn'] [cc pw]].
      rewrite set_nth_app_last.
      replace (length (pre ++ [_]) <=? length pre + 1) with true
        by (symmetry; apply Nat.leb_le; rewrite app_length; simpl; lia).
      cbn [bind]. reflexivity.
  Qed.

  (* termination measure of the first round *)
  Definition W (i : nat) (it : item) (fn : nat) : nat :=
    if (i =? 0) || is_some (i_resume it) then
      F + 2 + 2 * mu (i_resume it) + (if side_mismatch (i_brk it) (i_right it) then 1 else 0)
    else fn.

  Lemma side_mismatch_flip b r : side_mismatch b r = true -> side_mismatch b (negb r) = false.
  Proof. destruct b, r; simpl; congruence. Qed.

  (* states the loop can be in: the first page, or something is left to place *)
  Definition live (i : nat) (it : item) (fn : nat) : bool :=
    (i =? 0) || is_some (i_resume it) || negb (fn =? 0).

  (* one page either ends the loop or strictly decreases the measure *)
  Lemma step_decreases i (it : item) fn pg ra nb fn' fl :
    fn <= F -> live i it fn = true ->
    page_step it fn = (pg, ra, nb, fn', fl) ->
    fn' <= F /\
    (is_none ra && (fn' =? 0) = false ->
     let it' := mk_item ra nb (negb (i_right it)) (is_some ra) false in
     live (S i) it' fn' = true /\ W (S i) it' fn' < W i it fn).
  Proof.
    intros HF Hlive Hs. unfold page_step in Hs. unfold live in *.
    destruct it as [res b right cc0 pw0]. cbn [i_resume i_brk i_right] in *.
    assert (Hlive' : forall ra0 fn0, is_none ra0 && (fn0 =? 0) = false ->
               (S i =? 0) || is_some (A:=R) ra0 || negb (fn0 =? 0) = true).
    { intros ra0 fn0 Hc. destruct ra0; cbn in *; [reflexivity|]. now rewrite Hc. }
    destruct (side_mismatch b right) eqn:Hm; cbn [orb] in Hs.
    - (* blank page: wrong side *)
      destruct (layout_blank fn) as [fn1 fl1] eqn:Hb. inversion Hs; subst; clear Hs.
      destruct (H_fn_blank _ _ _ Hb) as [Hle Hlt]. split; [lia|].
      intros Hcont. split; [now apply Hlive'|].
      unfold W. cbn [i_resume i_brk i_right].
      rewrite (side_mismatch_flip _ _ Hm), Hm.
      replace (S i =? 0) with false by reflexivity. cbn [orb].
      destruct ra as [r|]; cbn [is_some is_none negb orb andb] in *.
      + rewrite orb_true_r. lia.
      + apply Nat.eqb_neq in Hcont. rewrite orb_false_r. destruct (i =? 0); lia.
    - destruct (negb (fn =? 0) && is_none res) eqn:Hfb.
      + (* blank page: reported footnotes after the end of the content *)
        apply andb_true_iff in Hfb as [Hfn Hnone].
        apply negb_true_iff, Nat.eqb_neq in Hfn.
        destruct res as [r|]; [discriminate|].
        destruct (layout_blank fn) as [fn1 fl1] eqn:Hb. inversion Hs; subst; clear Hs.
        destruct (H_fn_blank _ _ _ Hb) as [Hle Hlt]. split; [lia|].
        intros Hcont. split; [now apply Hlive'|].
        unfold W. cbn [i_resume i_brk i_right is_some is_none negb].
        replace (S i =? 0) with false by reflexivity. cbn [orb].
        rewrite orb_false_r. destruct (i =? 0); lia.
      + (* content page *)
        destruct (layout_content res fn) as [[[r1 b1] fn1] fl1] eqn:Hc.
        inversion Hs; subst; clear Hs.
        pose proof (H_fn_content _ _ _ _ _ _ Hc) as HF1. split; [exact HF1|].
        intros Hcont. split; [now apply Hlive'|].
        assert (Hphase : (i =? 0) || is_some res = true).
        { destruct res; cbn [is_some is_none negb] in *; [now rewrite orb_true_r|].
          rewrite andb_true_r in Hfb. apply negb_false_iff in Hfb. rewrite Hfb in Hlive.
          destruct (i =? 0); cbn in *; congruence. }
        unfold W. cbn [i_resume i_brk i_right]. rewrite Hphase, Hm.
        replace (S i =? 0) with false by reflexivity. cbn [orb].
        destruct ra as [r'|]; cbn [is_some is_none negb andb] in *.
        * pose proof (H_progress _ _ _ _ _ _ Hc). destruct (side_mismatch nb (negb right)); lia.
        * lia.
  Qed.

  (* FIRST ROUND (old_pages = 0: every page is made): the loop returns, without
     panic, after at most W + 1 pages *)
  Lemma first_round_loop : forall fuel pre (it : item) fn out,
    fn <= F -> live (length pre) it fn = true -> W (length pre) it fn < fuel ->
    exists pm' out',
      make_all_pages fuel (pre ++ [it]) 0 fn (length pre) out = Ok (pm', out') /\
      length out < length out' <= length out + S (W (length pre) it fn).
  Proof.
    induction fuel as [|fuel IH]; intros pre it fn out HF Hlive HW; [lia|].
    cbn [make_all_pages PageLoop.make_all_pages].
    rewrite idx_app_last. cbn [bind]. rewrite Nat.eqb_refl. cbn [orb].
    rewrite set_nth_app_last.
    set (it0 := mk_item (i_resume it) (i_brk it) (i_right it) false false).
    rewrite (remake_page_last pre it0 fn).
    destruct (page_step it0 fn) as [[[[pg ra] nb] fn'] [cc pw]] eqn:Hs.
    cbn [bind].
    assert (Hlive0 : live (length pre) it0 fn = true) by exact Hlive.
    assert (HW0 : W (length pre) it0 fn = W (length pre) it fn) by reflexivity.
    destruct (step_decreases (length pre) it0 fn _ _ _ _ _ HF Hlive0 Hs) as [HF' Hdec].
    destruct (is_none ra && (fn' =? 0)) eqn:Hstop.
    - eexists _, _. split; [reflexivity|]. rewrite app_length. simpl. lia.
    - destruct (Hdec eq_refl) as [Hl' Hlt]. cbn [i_right it0] in *.
      set (pre' := pre ++ [mk_item (i_resume it0) (i_brk it0) (i_right it0) cc pw]) in *.
      assert (Hlen : length pre + 1 = length pre') by (unfold pre'; rewrite app_length; simpl; lia).
      rewrite Hlen.
      replace (S (length pre)) with (length pre') in * by lia.
      destruct (IH pre' _ fn' (out ++ [pg]) HF' Hl') as (pm' & out' & Heq & Hb); [lia|].
      exists pm', out'. split; [exact Heq|].
      rewrite app_length in Hb. simpl in Hb. lia.
  Qed.

  Definition first_round_fuel : nat := F + 2 * mu None + 5.

  Theorem page_loop_terminates : forall b right,
    exists pm' pages,
      make_all_pages first_round_fuel (initial_page_maker R b right) 0 0 0 [] = Ok (pm', pages) /\
      1 <= length pages <= F + 2 * mu None + 4.
  Proof.
    intros b right.
    destruct (first_round_loop first_round_fuel [] (mk_item None b right false false) 0 [])
      as (pm' & out' & Heq & Hb).
    - lia.
    - reflexivity.
    - unfold W, first_round_fuel. cbn. destruct (side_mismatch b right); lia.
    - exists pm', out'. split; [exact Heq|].
      unfold W in Hb. cbn in Hb. destruct (side_mismatch b right); cbn in Hb; lia.
  Qed.

  (* ---- a document whose pages never ask for a re-make (no page-based counter,
     no target) is laid out in exactly one round *)
  Definition no_flags (it : item) : Prop := i_changed it = false /\ i_wanted it = false.

  Lemma firstn_all_app {A} (l : list A) (x : A) n : n = length l + 1 -> firstn n (l ++ [x]) = l ++ [x].
  Proof.
    intros ->. replace (length l + 1) with (length (l ++ [x])) by (rewrite app_length; reflexivity).
    apply firstn_all.
  Qed.

  Lemma first_round_loop_flags :
    (forall r fn, snd (layout_content r fn) = (false, false)) ->
    (forall fn, snd (layout_blank fn) = (false, false)) ->
    forall fuel pre (it : item) fn out,
    Forall no_flags pre ->
    fn <= F -> live (length pre) it fn = true -> W (length pre) it fn < fuel ->
    exists pm' out',
      make_all_pages fuel (pre ++ [it]) 0 fn (length pre) out = Ok (pm', out') /\
      Forall no_flags pm'.
  Proof.
    intros Hc Hb. induction fuel as [|fuel IH]; intros pre it fn out Hpre HF Hlive HW; [lia|].
    cbn [make_all_pages PageLoop.make_all_pages].
    rewrite idx_app_last. cbn [bind]. rewrite Nat.eqb_refl. cbn [orb].
    rewrite set_nth_app_last.
    set (it0 := mk_item (i_resume it) (i_brk it) (i_right it) false false).
    rewrite (remake_page_last pre it0 fn).
    destruct (page_step it0 fn) as [[[[pg ra] nb] fn'] [cc pw]] eqn:Hs.
    cbn [bind].
    assert (Hfl : cc = false /\ pw = false).
    { unfold page_step in Hs.
      destruct (side_mismatch (i_brk it0) (i_right it0) || (negb (fn =? 0) && is_none (i_resume it0))).
      - specialize (Hb fn). destruct (layout_blank fn) as [x fl]. cbn in Hb. subst fl.
        inversion Hs; subst. auto.
      - specialize (Hc (i_resume it0) fn). destruct (layout_content (i_resume it0) fn) as [[[x y] z] fl].
        cbn in Hc. subst fl. inversion Hs; subst. auto. }
    destruct Hfl as [-> ->].
    assert (Hlive0 : live (length pre) it0 fn = true) by exact Hlive.
    destruct (step_decreases (length pre) it0 fn _ _ _ _ _ HF Hlive0 Hs) as [HF' Hdec].
    set (pre' := pre ++ [mk_item (i_resume it0) (i_brk it0) (i_right it0) false false]) in *.
    assert (Hpre' : Forall no_flags pre').
    { unfold pre'. apply Forall_app. split; [exact Hpre|]. constructor; [split; reflexivity|constructor]. }
    assert (Hlen : length pre + 1 = length pre') by (unfold pre'; rewrite app_length; simpl; lia).
    destruct (is_none ra && (fn' =? 0)) eqn:Hstop.
    - eexists _, _. split; [reflexivity|].
      rewrite Hlen. rewrite firstn_all_app by reflexivity.
      apply Forall_app. split; [exact Hpre'|]. constructor; [|constructor].
      apply andb_true_iff in Hstop as [Hn _]. destruct ra; [discriminate|]. split; reflexivity.
    - destruct (Hdec eq_refl) as [Hl' Hlt]. cbn [i_right it0] in *.
      rewrite Hlen.
      replace (S (length pre)) with (length pre') in * by lia.
      apply (IH pre' _ fn' (out ++ [pg]) Hpre' HF' Hl').
      assert (HW0 : W (length pre) it0 fn = W (length pre) it fn) by reflexivity.
      lia.
  Qed.

  Theorem single_round_without_remake_flags :
    (forall r fn, snd (layout_content r fn) = (false, false)) ->
    (forall fn, snd (layout_blank fn) = (false, false)) ->
    forall max_loops b right, max_loops <> Some 0 ->
    exists pages, layout_document first_round_fuel max_loops b right = Ok (1, pages).
  Proof.
    intros Hc Hb ml b right Hml.
    unfold layout_document, PageLoop.layout_document.
    set (k := match ml with None => max_loops_default | Some n => n end).
    assert (Hk : exists k', k = S k').
    { unfold k, max_loops_default. destruct ml as [[|n]|]; [congruence|eauto|eauto]. }
    destruct Hk as [k' ->]. cbn [doc_loop PageLoop.doc_loop].
    destruct (first_round_loop_flags Hc Hb first_round_fuel [] (mk_item None b right false false) 0 [])
      as (pm' & out' & Heq & Hfl).
    - constructor.
    - lia.
    - reflexivity.
    - unfold W, first_round_fuel. cbn. destruct (side_mismatch b right); lia.
    - unfold initial_page_maker. cbn [app length] in Heq |- *. rewrite Heq. cbn [bind].
      assert (Hch : existsb i_changed pm' = false).
      { clear Heq. induction Hfl as [|x l [Hx _] _ IH']; [reflexivity|]. cbn. now rewrite Hx, IH'. }
      assert (Hwa : existsb i_wanted pm' = false).
      { clear Heq Hch. induction Hfl as [|x l [_ Hx] _ IH']; [reflexivity|]. cbn. now rewrite Hx, IH'. }
      rewrite Hch, Hwa. cbn. eauto.
  Qed.

  (* the re-pagination loop of layoutDocument runs at most max_loops rounds,
     whatever makeAllPages does (port of the loop condition of layout.go 147-176) *)
  Lemma doc_loop_rounds make_all : forall k rounds pm pages n pages',
    doc_loop make_all k rounds pm pages = Ok (n, pages') -> rounds <= n <= rounds + k.
  Proof.
    induction k as [|k IH]; intros rounds pm pages n pages' H; cbn [doc_loop PageLoop.doc_loop] in H.
    - inversion H; subst. lia.
    - destruct (make_all pm (length pages)) as [[pm1 pages1]| |]; cbn [bind] in H; try discriminate.
      destruct (negb (existsb i_changed pm1) &&
                negb (existsb i_wanted pm1 && negb (length pages =? length pages1))).
      + inversion H; subst. lia.
      + apply IH in H. lia.
  Qed.

  Lemma doc_loop_no_panic make_all :
    (forall pm old, exists r, make_all pm old = Ok r) ->
    forall k rounds pm pages, exists r, doc_loop make_all k rounds pm pages = Ok r.
  Proof.
    intros Hall. induction k as [|k IH]; intros rounds pm pages; cbn [doc_loop PageLoop.doc_loop].
    - eauto.
    - destruct (Hall pm (length pages)) as [[pm1 pages1] Heq]. rewrite Heq. cbn [bind].
      destruct (negb (existsb i_changed pm1) &&
                negb (existsb i_wanted pm1 && negb (length pages =? length pages1))); eauto.
  Qed.

  Theorem repagination_bounded : forall fuel max_loops b right n pages,
    layout_document fuel max_loops b right = Ok (n, pages) ->
    n <= match max_loops with None => 8 | Some m => m end.
  Proof.
    intros fuel ml b right n pages H. unfold layout_document, PageLoop.layout_document in H.
    apply doc_loop_rounds in H. unfold max_loops_default in H. destruct ml; lia.
  Qed.

End Proofs.

(* The first round terminates for the page maker whose blank pages run the loop
   over the reported footnotes of /repo (report_loop with the `i != 0` guard):
   only PROGRESS and the bound on the number of footnotes are left as hypotheses. *)
Theorem page_loop_terminates_report_loop :
  forall (R : Type) (R_eqb : R -> R -> bool)
         (layout_content : option R -> nat -> (option R * brk * nat) * (bool * bool))
         (overflow : nat -> nat -> bool) (flags : nat -> bool * bool) (state_changed : nat -> bool)
         (mu : option R -> nat) (F : nat),
    (forall r fn r' b fn' fl, layout_content r fn = ((Some r', b, fn'), fl) -> mu (Some r') < mu r) ->
    (forall r fn r' b fn' fl, layout_content r fn = ((r', b, fn'), fl) -> fn' <= F) ->
    forall b right,
    exists pm' pages,
      make_all_pages R R_eqb layout_content (blank_of_report_loop true overflow flags) state_changed
        (first_round_fuel R mu F) (initial_page_maker R b right) 0 0 0 [] = Ok (pm', pages) /\
      1 <= length pages <= F + 2 * mu None + 4.
Proof.
  intros R R_eqb lc ov flags sc mu F Hp Hf b right.
  apply (page_loop_terminates R R_eqb lc (blank_of_report_loop true ov flags) sc mu F Hp Hf
           (blank_of_report_loop_ok ov flags)).
Qed.

(* ---- later rounds: the re-use of up-to-date pages *)
Section Reuse.
  Variable R : Type.
  Variable R_eqb : R -> R -> bool.
  Variable layout_content : option R -> nat -> (option R * brk * nat) * (bool * bool).
  Variable layout_blank : nat -> nat * (bool * bool).
  Variable state_changed : nat -> bool.
  Notation remake_page := (remake_page R R_eqb layout_content layout_blank state_changed).
  Notation make_all_pages := (make_all_pages R R_eqb layout_content layout_blank state_changed).

  Lemma idx_cases {A} site (l : list A) n : (exists a, idx site l n = Ok a) \/ idx site l n = Panic site.
  Proof. unfold idx. destruct (nth_error l n); eauto. Qed.

  Lemma remake_page_sites i pm fn :
    (exists r, remake_page i pm fn = Ok r) \/ remake_page i pm fn = Panic 909 \/ remake_page i pm fn = Panic 966.
  Proof.
    unfold remake_page, PageLoop.remake_page.
    destruct (idx_cases 909 pm i) as [[tmp ->]| ->]; cbn [bind]; [|auto].
    destruct (side_mismatch (i_brk tmp) (i_right tmp) || (negb (fn =? 0) && is_none (i_resume tmp))).
    - destruct (layout_blank fn) as [fn' [cc pw]].
      destruct (length _ <=? i + 1); cbn [bind]; [eauto|].
      match goal with |- context [idx 966 ?l ?n] => destruct (idx_cases 966 l n) as [[nx ->]| ->] end; cbn [bind]; eauto.
    - destruct (layout_content (i_resume tmp) fn) as [[[r' b'] fn'] [cc pw]].
      destruct (length _ <=? i + 1); cbn [bind]; [eauto|].
      match goal with |- context [idx 966 ?l ?n] => destruct (idx_cases 966 l n) as [[nx ->]| ->] end; cbn [bind]; eauto.
  Qed.

  (* the re-use branch of the repaired loop never indexes a page that the previous
     round does not have (site 1021) *)
  Lemma reuse_index_in_range : forall fuel pm old fn i out,
    make_all_pages fuel pm old fn i out <> Panic 1021.
  Proof.
    induction fuel as [|fuel IH]; intros pm old fn i out; cbn [make_all_pages PageLoop.make_all_pages]; [discriminate|].
    destruct (idx_cases 1003 pm i) as [[it ->]| ->]; cbn [bind]; [|discriminate].
    destruct ((old =? 0) || (old <=? i) || i_changed it || i_wanted it) eqn:Hc.
    - destruct (remake_page_sites i (set_nth pm i (mk_item (i_resume it) (i_brk it) (i_right it) false false)) fn)
        as [[[[[pg ra] fn'] pm2] ->]|[-> | ->]]; cbn [bind]; try discriminate.
      destruct (is_none ra && (fn' =? 0)); [discriminate|apply IH].
    - destruct (idx_cases 1019 pm (i + 1)) as [[nx ->]| ->]; cbn [bind]; [|discriminate].
      assert (Hlt : (i <? old) = true).
      { apply orb_false_iff in Hc as [Hc _]. apply orb_false_iff in Hc as [Hc _].
        apply orb_false_iff in Hc as [_ Hc]. apply Nat.leb_gt in Hc. now apply Nat.ltb_lt. }
      rewrite Hlt. cbn [bind].
      destruct (is_none (i_resume nx) && (0 =? 0)); [discriminate|apply IH].
  Qed.
End Reuse.
