(* Widening of Css/TextComposeProofs.v: C06_text_compositional_statement for every s1 made
   only of code points whose token, in Syntax3Spec.consume_token, is one code point long,
   needs no look-ahead, and opens no block:
     ! % & ) , : ; = > ? ] ` }
   (the closers ) ] } are fine because s1 starts at top level, where component_values_until
   has ending = None and a closer is a preserved token). *)
From Verif Require Import Css.Token Css.Syntax3Spec Css.TextComposeProofs.
From Coq Require Import List NArith ZArith Bool.
Import ListNotations.
Open Scope N_scope.

Definition simple2_list : list N := [33; 37; 38; 41; 44; 58; 59; 61; 62; 63; 93; 96; 125].
Definition simple2 (c : N) : bool := existsb (N.eqb c) simple2_list.

Definition tok2 (c : N) : stoken :=
  if c =? 41 then SRParen else if c =? 44 then SComma else if c =? 58 then SColon
  else if c =? 59 then SSemicolon else if c =? 93 then SRBracket
  else if c =? 125 then SRBrace else SDelim c.

Lemma simple2_cases : forall c, simple2 c = true -> In c simple2_list.
Proof.
  intros c H. unfold simple2 in H. apply existsb_exists in H.
  destruct H as [x [Hin Hx]]. apply N.eqb_eq in Hx. subst x. exact Hin.
Qed.

Ltac each2 H c tac :=
  unfold simple2_list in H; cbn [In] in H;
  repeat (destruct H as [H|H]; [subst c; tac|]); try contradiction.

Lemma preprocess_simple2 : forall c s, simple2 c = true ->
  preprocess (c :: s) = c :: preprocess s.
Proof.
  intros c s H. apply simple2_cases in H.
  each2 H c ltac:(destruct s; reflexivity).
Qed.

Lemma consume_token_simple2 : forall fuel c r, simple2 c = true ->
  consume_token fuel (c :: r) = (tok2 c, r).
Proof.
  intros fuel c r H. apply simple2_cases in H.
  each2 H c ltac:(destruct r; reflexivity).
Qed.

Lemma component_values_simple2 : forall c l, simple2 c = true ->
  component_values (tok2 c :: l) = CVToken (tok2 c) :: component_values l.
Proof.
  intros c l H. apply simple2_cases in H.
  unfold component_values. cbn [length].
  remember (S (length l)) as n eqn:Hn.
  each2 H c ltac:(cbn [component_values_until mirror stoken_is tok2 N.eqb Pos.eqb];
                  destruct (component_values_until n None l) as [vs r2]; reflexivity).
Qed.

Lemma spec_tokenize_simple2_head : forall c s, simple2 c = true ->
  spec_tokenize false (c :: s) = norm_token (tok2 c) ++ spec_tokenize false s.
Proof.
  intros c s H. unfold spec_tokenize.
  rewrite (preprocess_simple2 c s H). set (r := preprocess s).
  assert (Ht : tokens (c :: r) = tok2 c :: tokens r).
  { unfold tokens. cbn [length tokens_from].
    rewrite (consume_token_simple2 _ c r H). reflexivity. }
  rewrite Ht, (component_values_simple2 c _ H). reflexivity.
Qed.

Lemma spec_tokenize_simple2_app : forall s1 s, forallb simple2 s1 = true ->
  spec_tokenize false (s1 ++ s) =
    flat_map (fun c => norm_token (tok2 c)) s1 ++ spec_tokenize false s.
Proof.
  induction s1 as [|c s1 IH]; intros s H.
  - reflexivity.
  - cbn [forallb] in H. apply andb_true_iff in H. destruct H as [Hc Hs].
    cbn [app flat_map].
    rewrite (spec_tokenize_simple2_head c (s1 ++ s) Hc), (IH s Hs), app_assoc. reflexivity.
Qed.

Theorem text_compositional_simple2 : forall s1 s2 : list N,
  forallb simple2 s1 = true ->
  spec_tokenize false (s1 ++ 59 :: s2) =
    spec_tokenize false s1 ++ TLiteral p0 [59] :: spec_tokenize false s2.
Proof.
  intros s1 s2 H.
  rewrite (spec_tokenize_simple2_app s1 (59 :: s2) H), spec_tokenize_semicolon_head.
  pose proof (spec_tokenize_simple2_app s1 [] H) as E. rewrite app_nil_r in E.
  rewrite E. change (spec_tokenize false []) with (@nil token). rewrite app_nil_r. reflexivity.
Qed.

Example simple2_example : forallb simple2 [125; 33; 41; 58; 93; 61; 62; 63; 96; 37; 38; 44; 59] = true.
Proof. reflexivity. Qed.
