(* Css/HtmlAttrProofs.v -- totality and clamping facts of Css/HtmlAttr.v (C07). *)
From Verif Require Import Base.GoSem Base.GoStrings Base.GoStringsProofs Css.HtmlAttr.
From Coq Require Import List ZArith NArith Bool Lia ZifyBool ZifyNat ZifyN.
Import ListNotations.
Open Scope Z_scope.

Theorem integer_attribute_total attr minimum : exists v, integer_attribute attr minimum = Ok v.
Proof. unfold integer_attribute. destruct (atoi (trim_space attr)); eauto. Qed.

(* a well-formed integer is clamped from below, anything else reads as 1 *)
Theorem integer_attribute_spec attr minimum :
  integer_attribute attr minimum =
  Ok (match atoi (trim_space attr) with Some x => Z.max x minimum | None => 1 end).
Proof.
  unfold integer_attribute. destruct (atoi (trim_space attr)) as [x|]; [|reflexivity].
  f_equal. destruct (x <? minimum) eqn:E; lia.
Qed.

(* colspan / span are read with minimum 1, rowspan with minimum 0: never below the minimum,
   always an int64 *)
Theorem integer_attribute_clamped attr minimum v :
  minimum <= 1 -> min_int64 <= minimum ->
  integer_attribute attr minimum = Ok v -> minimum <= v <= max_int64.
Proof.
  intros Hm Hm2. rewrite integer_attribute_spec. intros H. injection H as <-.
  destruct (atoi (trim_space attr)) as [x|] eqn:E.
  - apply atoi_range in E. unfold max_int64, min_int64 in *. lia.
  - unfold max_int64. lia.
Qed.

(* ---- the call sites: HTML "rules for parsing non-negative integers" + "clamped to the range"
   (https://html.spec.whatwg.org/multipage/tables.html#attr-tdth-colspan): stated on the integer the
   attribute denotes, independently of the order of the two clamps in the code *)
Definition clamp (lo hi x : Z) : Z := Z.max lo (Z.min hi x).

Lemma span_site_spec attr lo hi :
  lo <= hi ->
  (let* v := integer_attribute attr lo in Ok (min_int v hi)) =
  Ok (match atoi (trim_space attr) with Some x => clamp lo hi x | None => Z.min 1 hi end).
Proof.
  intros Hle. rewrite integer_attribute_spec. cbn [bind]. f_equal. unfold min_int, clamp.
  destruct (atoi (trim_space attr)) as [x|].
  - destruct (Z.max x lo <? hi) eqn:E; lia.
  - destruct (1 <? hi) eqn:E; lia.
Qed.

Theorem cell_colspan_spec attr :
  cell_colspan attr = Ok (match atoi (trim_space attr) with Some x => clamp 1 1000 x | None => 1 end).
Proof. unfold cell_colspan. rewrite span_site_spec by lia. destruct (atoi _); reflexivity. Qed.

Theorem cell_rowspan_spec attr :
  cell_rowspan attr = Ok (match atoi (trim_space attr) with Some x => clamp 0 65534 x | None => 1 end).
Proof. unfold cell_rowspan. rewrite span_site_spec by lia. destruct (atoi _); reflexivity. Qed.

Theorem column_span_spec attr :
  column_span attr = Ok (match atoi (trim_space attr) with Some x => clamp 1 1000 x | None => 1 end) /\
  column_group_span attr = column_span attr.
Proof. split; [|reflexivity]. unfold column_span. rewrite span_site_spec by lia. destruct (atoi _); reflexivity. Qed.

(* what the table code relies on: a cell covers at least one column (a cell spanning 0 columns leaves
   the grid narrower than its rows: index out of range in tableAndColumnsPreferredWidths), a column
   element stands for at least one column, spans are bounded (make([]Box, span)) *)
Theorem table_spans_range attr :
  (exists c, cell_colspan attr = Ok c /\ 1 <= c <= 1000) /\
  (exists r, cell_rowspan attr = Ok r /\ 0 <= r <= 65534) /\
  (exists s, column_span attr = Ok s /\ 1 <= s <= 1000) /\
  (exists s, column_group_span attr = Ok s /\ 1 <= s <= 1000).
Proof.
  unfold column_group_span. fold (column_span attr).
  rewrite cell_colspan_spec, cell_rowspan_spec, (proj1 (column_span_spec attr)).
  unfold clamp. repeat split; eexists; (split; [reflexivity|]); destruct (atoi _); lia.
Qed.

Theorem font_size_attr_total attr : exists r, font_size_attr attr = Ok r.
Proof.
  unfold font_size_attr.
  set (size := trim_space attr).
  destruct (has_prefix size [43%N] || has_prefix size [45%N]) eqn:E.
  - assert (1 <= len size).
    { apply orb_prop in E as [E|E]; apply has_prefix_len in E; unfold len; cbn [length] in E; lia. }
    rewrite slice_from_ok by lia. cbn [bind].
    destruct (atoi _); eauto.
  - cbn [bind]. destruct (atoi size); eauto.
Qed.

Theorem font_size_attr_range attr i : font_size_attr attr = Ok (Some i) -> 1 <= i <= 7.
Proof.
  unfold font_size_attr.
  set (size := trim_space attr).
  destruct (if has_prefix size [43%N] || has_prefix size [45%N]
            then let* s := slice_from 750 size 1 in Ok (trim_space s)
            else Ok size) as [size'| |]; cbn [bind]; try discriminate.
  destruct (atoi size') as [x|]; [|discriminate].
  intros H. injection H as <-. lia.
Qed.
