(* Css/SelPrint.v -- model of /repo/css/selector/serialize.go (String()).
   Model only: no proofs here. *)
From Verif Require Export Css.Sel.
From Coq Require Import List ZArith NArith Bool.
Import ListNotations.

(* serialize.go:15: the special characters are , ! dquote # $ % & quote ( ) * + space - . / : ; < = > ? @ [ backslash ] ^ backquote { | } ~
   i.e. bytes 32-47, 58-64, 91-94, 96, 123-126 *)
Definition special_char (c : N) : bool :=
  ((32 <=? c) && (c <=? 47) || (58 <=? c) && (c <=? 64) || (91 <=? c) && (c <=? 94) ||
   (c =? 96) || (123 <=? c) && (c <=? 126))%N.
(* %x of a byte < 256, lower case, no padding *)
Definition hex_char (d : N) : N := (if d <? 10 then 48 + d else 87 + d)%N.
Definition hex_of_byte (c : N) : str :=
  (if c <? 16 then [hex_char c] else [hex_char (c / 16); hex_char (c mod 16)])%N.
(* fmt.Sprintf("\\%x ", c) *)
Definition hex_escape (c : N) : str := [92%N] ++ hex_of_byte c ++ [32%N].

(* serialize.go:16 escape *)
Definition escape (s : str) : str :=
  flat_map (fun c => if (c <? 32)%N then hex_escape c
                     else if (c =? 127)%N || special_char c then [92%N; c]
                     else [c]) s.
(* serialize.go:36 escapeIdentifier *)
Definition escape_identifier (s : str) : str :=
  match s with
  | c :: r => if ((48 <=? c) && (c <=? 57))%N then hex_escape c ++ escape r else escape s
  | [] => escape s
  end.
(* serialize.go:44 escapeString *)
Definition escape_string (s : str) : str :=
  flat_map (fun c => if (c =? 34)%N || (c =? 92)%N then [92%N; c]
                     else if (c =? 10)%N || (c =? 13)%N || (c =? 12)%N then hex_escape c
                     else [c]) s.

(* decimal digits of a positive number, most significant first; fuel = number of bits *)
Fixpoint dec_digits (fuel : nat) (n : N) (acc : str) : str :=
  match fuel with
  | O => acc
  | S f => let acc' := (48 + N.modulo n 10)%N :: acc in
           if (n <? 10)%N then acc' else dec_digits f (N.div n 10) acc'
  end.
Definition n_to_dec (n : N) : str := dec_digits (S (N.size_nat n)) n [].
(* strconv.Itoa / %d *)
Definition z_to_dec (z : Z) : str :=
  match z with
  | Z0 => [48%N]
  | Zpos p => n_to_dec (Npos p)
  | Zneg p => 45%N :: n_to_dec (Npos p)
  end.

Definition b (l : list N) : str := l.
Definition str_of_op (o : attr_op) : str :=
  match o with
  | OpExists => []
  | OpEq => [61] | OpNe => [33;61] | OpIncludes => [126;61] | OpDash => [124;61]
  | OpPrefix => [94;61] | OpSuffix => [36;61] | OpSubstr => [42;61]
  end%N.
Definition str_of_rel (r : rel_name) : str :=
  match r with
  | RIs => [105;115] | RNot => [110;111;116] | RHas => [104;97;115]
  | RHasChild => [104;97;115;99;104;105;108;100]
  end%N.
Definition byte_of_comb (c : comb) : N :=
  match c with CDesc => 32 | CChild => 62 | CAdj => 43 | CSib => 126 end%N.

Definition t_child : str := [99;104;105;108;100]%N.            (* child *)
Definition t_of_type : str := [111;102;45;116;121;112;101]%N.  (* of-type *)
Definition t_first : str := [58;102;105;114;115;116;45]%N.     (* :first- *)
Definition t_last : str := [58;108;97;115;116;45]%N.           (* :last- *)
Definition t_nth : str := [58;110;116;104;45]%N.               (* :nth- *)
Definition t_nth_last : str := [58;110;116;104;45;108;97;115;116;45]%N.  (* :nth-last- *)
Definition t_only : str := [58;111;110;108;121;45]%N.          (* :only- *)

Fixpoint join (sep : str) (l : list str) : str :=
  match l with
  | [] => []
  | [x] => x
  | x :: r => x ++ sep ++ join sep r
  end.

Fixpoint print_sel (s : sel) : str :=
  match s with
  | STag t => escape_identifier t                                            (* serialize.go:25 *)
  | SId i => 35%N :: escape i                              (* :32 *)
  | SClass c => 46%N :: escape_identifier c                           (* :36 *)
  | SAttr key val op ic =>                                 (* :40 *)
      let v := match op with OpExists => val | _ => [34%N] ++ escape_string val ++ [34%N] end in
      [91%N] ++ escape_identifier key ++ str_of_op op ++ v ++ (if ic then [32;105]%N else []) ++ [93%N]
  | SRel name g =>                                         (* :56 *)
      [58%N] ++ str_of_rel name ++ [40%N] ++ join [44;32]%N (map print_sel g) ++ [41%N]
  | SNth a b last ofType =>                                (* :76 *)
      if (a =? 0)%Z && (b =? 1)%Z then
        (if last then t_last else t_first) ++ (if ofType then t_of_type else t_child)
      else
        (if last then t_nth_last else t_nth) ++ (if ofType then t_of_type else t_child) ++
        [40%N] ++ z_to_dec a ++ [110%N] ++
        (if (b <? 0)%Z then z_to_dec b else 43%N :: z_to_dec b) ++ [41%N]
  | SOnly ofType => t_only ++ (if ofType then t_of_type else t_child)   (* :106 *)
  | SInput => [58;105;110;112;117;116]%N
  | SEmpty => [58;101;109;112;116;121]%N
  | SRoot => [58;114;111;111;116]%N
  | SLink => [58;108;105;110;107]%N
  | SLang l => [58;108;97;110;103;40]%N ++ escape_identifier l ++ [41%N]     (* :129 *)
  | SNever v => v                                          (* :133 *)
  | SEnabled => [58;101;110;97;98;108;101;100]%N
  | SDisabled => [58;100;105;115;97;98;108;101;100]%N
  | SChecked => [58;99;104;101;99;107;101;100]%N
  | SCompound sels pe =>                                   (* :149 *)
      match sels, pe with
      | [], [] => [42%N]
      | _, _ => concat (map print_sel sels) ++ match pe with [] => [] | _ => [58;58]%N ++ pe end
      end
  | SCombined a c b =>                                     (* :164 *)
      print_sel a ++ [32%N; byte_of_comb c; 32%N] ++ print_sel b
  end.

(* serialize.go:172 SelectorGroup.String *)
Definition print_group (g : list sel) : str := join [44;32]%N (map print_sel g).
