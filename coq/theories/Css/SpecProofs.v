(* Css/SpecProofs.v -- the tokenizer model (repaired code, Css/Tok.v) computes what
   CSS Syntax 3 prescribes (Css/Syntax3Spec.v): per-consumer lemmas, then the
   one-iteration correspondence, then the tree (blocks_spec). *)
From Verif Require Import Base.GoSem Css.Token Css.Tok Css.TokProofs.
From Verif Require Css.Syntax3Spec.
From Coq Require Import List NArith ZArith Bool Lia ZifyBool ZifyNat ZifyN.
Import ListNotations.
Open Scope N_scope.
Module S := Css.Syntax3Spec.

Arguments consume_escape : simpl never.
Arguments valid_escape_at : simpl never.
Arguments N.eqb : simpl never.
Arguments N.leb : simpl never.
Arguments N.ltb : simpl never.
Arguments has_prefix : simpl never.
Arguments N.mul : simpl never.
Arguments N.add : simpl never.
Arguments N.sub : simpl never.

(* a Unicode scalar value: what decoding valid UTF-8 yields *)
Definition scalar (c : N) : Prop := c <= 1114111 /\ is_surrogate c = false.
Definition scalars (l : list N) : Prop := Forall scalar l.

Lemma write_rune_scalar c : scalar c -> write_rune c = c.
Proof. intros [H1 H2]. unfold write_rune. rewrite H2. simpl. destruct (1114111 <? c) eqn:E; [lia|reflexivity]. Qed.

Lemma scalars_suffix r rest : suffix r rest -> scalars rest -> scalars r.
Proof. intros [pre ->] H. unfold scalars in *. apply Forall_app in H. tauto. Qed.

(* ------------------------------------------------------------------ code point classes *)
Lemma is_space_spec c : is_space c = S.whitespace c.
Proof. unfold is_space, S.whitespace, S.newline. lia. Qed.
Lemma is_digit_spec c : is_digit c = S.digit c.
Proof. reflexivity. Qed.
Lemma is_hex_spec c : is_hex c = S.hex_digit c.
Proof. unfold is_hex, S.hex_digit, is_digit, S.digit. lia. Qed.
Lemma is_name_start_cp_spec c : is_name_start_cp c = S.ident_start c.
Proof. unfold is_name_start_cp, S.ident_start, S.letter, S.non_ascii, is_lower, is_upper. lia. Qed.
Lemma is_name_cp_spec c : is_name_cp c = S.ident_char c.
Proof.
  unfold is_name_cp, S.ident_char, S.ident_start, S.letter, S.non_ascii, S.digit, is_lower, is_upper, is_digit. lia.
Qed.
Lemma is_non_printable_spec c :
  is_non_printable c = (c =? 34) || (c =? 39) || (c =? 40) || S.non_printable c.
Proof. unfold is_non_printable, S.non_printable. lia. Qed.

Lemma has_prefix_1 a l : has_prefix [a] l = match l with c :: _ => a =? c | [] => false end.
Proof. destruct l; [reflexivity|]. unfold has_prefix. now rewrite andb_true_r. Qed.

Lemma valid_escape_at_spec rest : valid_escape_at rest = S.valid_escape rest.
Proof.
  unfold valid_escape_at, S.valid_escape, S.newline. destruct rest as [|c r]; [reflexivity|].
  rewrite has_prefix_1. destruct r as [|d r]; [lia|]. lia.
Qed.

(* ------------------------------------------------------------------ escapes *)
Lemma take_hex_spec n l : take_hex n l = S.while_upto S.hex_digit n l.
Proof.
  revert l; induction n as [|n IH]; intros l; [reflexivity|].
  destruct l as [|c r]; [reflexivity|]. simpl. rewrite is_hex_spec. rewrite IH. reflexivity.
Qed.

Lemma take_hex_all_hex n l h r : take_hex n l = (h, r) -> Forall (fun c => is_hex c = true) h.
Proof.
  revert l h r; induction n as [|n IH]; intros l h r H; simpl in H.
  - inversion H; constructor.
  - destruct l as [|c l']; [inversion H; constructor|].
    destruct (is_hex c) eqn:Ec.
    + destruct (take_hex n l') as [h' r'] eqn:E. inversion H; subst. constructor; [exact Ec|eapply IH; eassumption].
    + inversion H; constructor.
Qed.

Lemma hex_digit_value_spec c : is_hex c = true -> hex_digit_value c = S.hex_val c.
Proof.
  unfold is_hex, hex_digit_value, S.hex_val, is_digit, S.digit. intros H.
  destruct ((48 <=? c) && (c <=? 57)) eqn:Ed; [reflexivity|].
  destruct (97 <=? c) eqn:El; lia.
Qed.

Lemma hex_value_spec h : Forall (fun c => is_hex c = true) h -> hex_value h = S.hex_number 0 h.
Proof.
  unfold hex_value. generalize 0. induction h as [|c h IH]; intros acc H; [reflexivity|].
  inversion H; subst. simpl. rewrite hex_digit_value_spec by assumption.
  rewrite IH by assumption. f_equal. lia.
Qed.

Lemma take_hex_S n c r : take_hex (S n) (c :: r) =
  if is_hex c then let '(h, r') := take_hex n r in (c :: h, r') else ([], c :: r).
Proof. reflexivity. Qed.

Lemma consume_escape_spec r : scalars r ->
  S.consume_escaped r = (write_rune (fst (consume_escape r)), snd (consume_escape r)).
Proof.
  intros Hs. unfold consume_escape, S.consume_escaped.
  destruct r as [|c r'].
  - reflexivity.
  - destruct (take_hex 6 (c :: r')) as [h r1] eqn:E.
    pose proof (take_hex_all_hex _ _ _ _ E) as Hh.
    rewrite take_hex_S in E. rewrite <- is_hex_spec.
    destruct (is_hex c) eqn:Ec.
    + destruct (take_hex 5 r') as [h' r1'] eqn:E'. inversion E; subst.
      rewrite <- take_hex_spec, E'. rewrite <- hex_value_spec by assumption.
      cbn [fst snd]. f_equal.
      * set (cp := hex_value (c :: h')). unfold write_rune, is_surrogate, S.surrogate, S.max_code_point.
        destruct ((0 <? cp) && (cp <=? 1114111)) eqn:E1.
        -- destruct ((55296 <=? cp) && (cp <=? 57343)) eqn:E2; simpl.
           ++ replace ((cp =? 0) || true || (1114111 <? cp)) with true by lia. reflexivity.
           ++ replace (1114111 <? cp) with false by lia. replace (cp =? 0) with false by lia. reflexivity.
        -- replace ((cp =? 0) || (55296 <=? cp) && (cp <=? 57343) || (1114111 <? cp)) with true by lia.
           reflexivity.
      * destruct r1 as [|w r'']; [reflexivity|]. rewrite is_space_spec. reflexivity.
    + inversion E; subst. cbn [fst snd]. inversion Hs; subst.
      rewrite write_rune_scalar by assumption. reflexivity.
Qed.

Lemma consume_escape_spec' r e r1 : scalars r -> consume_escape r = (e, r1) ->
  S.consume_escaped r = (write_rune e, r1).
Proof. intros Hs E. rewrite consume_escape_spec by assumption. now rewrite E. Qed.

(* ------------------------------------------------------------------ consume an ident sequence *)
Lemma consume_ident_spec f : forall g rest v r', scalars rest -> (length rest <= g)%nat ->
  consume_ident f rest = Ok (v, r') -> S.ident_sequence g rest = (v, r').
Proof.
  induction f as [|f IH]; intros g rest v r' Hs Hg H; [discriminate|].
  destruct rest as [|c r].
  - simpl in H. inversion H; subst. destruct g; reflexivity.
  - destruct g as [|g]; [simpl in Hg; lia|]. simpl in Hg.
    cbn [consume_ident] in H. cbn [S.ident_sequence].
    rewrite <- is_name_cp_spec, <- valid_escape_at_spec.
    inversion Hs as [|? ? Hc Hr]; subst.
    destruct (is_name_cp c).
    + destruct (consume_ident f r) as [[v1 r1]| |] eqn:E; try discriminate.
      simpl in H. inversion H; subst. erewrite IH; [reflexivity|assumption|lia|exact E].
    + destruct (valid_escape_at (c :: r)).
      * destruct (consume_escape r) as [e r1] eqn:Ee.
        destruct (consume_ident f r1) as [[v1 r2]| |] eqn:E; try discriminate.
        simpl in H. inversion H; subst.
        rewrite (consume_escape_spec' _ _ _ Hr Ee).
        pose proof (consume_escape_suffix' _ _ _ Ee) as Sf.
        erewrite IH; [reflexivity| |apply suffix_length in Sf; lia|exact E].
        eapply scalars_suffix; eassumption.
      * inversion H; subst. reflexivity.
Qed.

(* ------------------------------------------------------------------ strings *)
Lemma quoted_loop_spec f : forall g q rest v a e r', scalars rest -> (length rest <= g)%nat ->
  quoted_loop f q rest = Ok (v, a, e, r') ->
  exists v' o, S.string_body g q rest = (v', o, r') /\
    ((a = true /\ v' = v /\ ((e = 0 /\ o = 0) \/ (e = errEofInString /\ o = 1))) \/
     (a = false /\ e = errBadString /\ o = 2)).
Proof.
  induction f as [|f IH]; intros g q rest v a e r' Hs Hg H; [discriminate|].
  destruct rest as [|c r].
  - simpl in H. inversion H; subst. exists [], 1. split; [destruct g; reflexivity|]. left; auto.
  - destruct g as [|g]; [simpl in Hg; lia|]. simpl in Hg.
    cbn [quoted_loop] in H. cbn [S.string_body]. unfold S.newline.
    inversion Hs as [|? ? Hc Hr]; subst.
    destruct (c =? q) eqn:Eq.
    { inversion H; subst. exists [], 0. split; [reflexivity|]. left; auto. }
    destruct (c =? 92) eqn:E92.
    + replace (c =? 10) with false by lia.
      destruct r as [|d r2].
      * inversion H; subst. exists [], 1. split; [destruct g; reflexivity|]. left; auto.
      * destruct (d =? 10) eqn:Ed.
        -- inversion Hr; subst. apply (IH g) in H; [|assumption|simpl in Hg; lia]. exact H.
        -- destruct (consume_escape (d :: r2)) as [ch r1] eqn:Ee.
           destruct (quoted_loop f q r1) as [[[[v1 a1] e1] r3]| |] eqn:E; try discriminate.
           simpl in H. inversion H; subst.
           rewrite (consume_escape_spec' _ _ _ Hr Ee).
           pose proof (consume_escape_suffix' _ _ _ Ee) as Sf.
           apply (IH g) in E; [|eapply scalars_suffix; eassumption|apply suffix_length in Sf; lia].
           destruct E as (v' & o & E & Hcase). rewrite E.
           destruct Hcase as [(-> & -> & Ho)|(-> & -> & ->)].
           ++ eexists _, _; split; [reflexivity|]. left; auto.
           ++ eexists _, _; split; [reflexivity|]. right; auto.
    + destruct (c =? 10) eqn:E10.
      { inversion H; subst. exists [], 2. split; [reflexivity|]. right; auto. }
      destruct (quoted_loop f q r) as [[[[v1 a1] e1] r3]| |] eqn:E; try discriminate.
      simpl in H. inversion H; subst.
      apply (IH g) in E; [|assumption|lia].
      destruct E as (v' & o & E & Hcase). rewrite E.
      destruct Hcase as [(-> & -> & Ho)|(-> & -> & ->)].
      * eexists _, _; split; [reflexivity|]. left; auto.
      * eexists _, _; split; [reflexivity|]. right; auto.
Qed.

(* ------------------------------------------------------------------ urls *)
Lemma bad_url_remnants_spec f : forall g rest r', scalars rest -> (length rest <= g)%nat ->
  bad_url_remnants true f rest = Ok r' -> S.bad_url_remnants g rest = r'.
Proof.
  induction f as [|f IH]; intros g rest r' Hs Hg H; [discriminate|].
  destruct rest as [|c r].
  - simpl in H. inversion H. destruct g; reflexivity.
  - destruct g as [|g]; [simpl in Hg; lia|]. simpl in Hg.
    cbn [bad_url_remnants] in H. cbn [S.bad_url_remnants].
    inversion Hs as [|? ? Hc Hr]; subst.
    destruct (c =? 41); [inversion H; reflexivity|].
    rewrite <- valid_escape_at_spec. destruct (valid_escape_at (c :: r)).
    + rewrite consume_escape_spec by assumption. cbn [snd].
      pose proof (consume_escape_suffix r) as Sf.
      apply IH; [eapply scalars_suffix; eassumption|apply suffix_length in Sf; lia|exact H].
    + apply IH; [assumption|lia|exact H].
Qed.

Lemma skip_spaces_spec l : skip_spaces l = S.skip_ws l.
Proof.
  unfold S.skip_ws. induction l as [|c r IH]; [reflexivity|].
  simpl. rewrite is_space_spec. destruct (S.whitespace c); [|reflexivity].
  rewrite IH. destruct (S.while_ S.whitespace r); reflexivity.
Qed.

(* what the specification's url_body returns, in terms of the model's loop result *)
Definition url_body_expect (x : url_loop_result) (res : option (str * bool) * list N) : Prop :=
  match x with
  | ULDone v r1 => res = (Some (v, false), r1)
  | ULEof v => res = (Some (v, true), [])
  | ULSpace v r1 =>
      match S.skip_ws r1 with
      | [] => res = (Some (v, true), [])
      | d :: r' => if d =? 41 then res = (Some (v, false), r')
                   else exists g', (length (d :: r') <= g')%nat /\ res = (None, S.bad_url_remnants g' (d :: r'))
      end
  | ULBad r1 => exists g', (length r1 <= g')%nat /\ res = (None, S.bad_url_remnants g' r1)
  end.

Lemma skip_ws_length r : (length (S.skip_ws r) <= length r)%nat.
Proof. rewrite <- skip_spaces_spec. apply suffix_length, skip_spaces_suffix. Qed.

Lemma url_loop_spec f : forall g rest x, scalars rest -> (length rest < g)%nat ->
  url_loop true f rest = Ok x -> url_body_expect x (S.url_body g rest).
Proof.
  induction f as [|f IH]; intros g rest x Hs Hg H; [discriminate|].
  destruct g as [|g]; [lia|].
  destruct rest as [|c r].
  - simpl in H. inversion H; subst. reflexivity.
  - simpl in Hg.
    cbn [url_loop] in H. cbn [S.url_body].
    inversion Hs as [|? ? Hc Hr]; subst.
    destruct (c =? 41) eqn:E41; [inversion H; subst; reflexivity|].
    rewrite <- is_space_spec. destruct (is_space c) eqn:Esp.
    { inversion H; subst. simpl.
      pose proof (skip_ws_length r) as Hl.
      destruct (S.skip_ws r) as [|d r'] eqn:Ew; [reflexivity|].
      destruct (d =? 41); [reflexivity|]. exists g. split; [simpl in *; lia|reflexivity]. }
    rewrite <- valid_escape_at_spec.
    assert (Hnp : (c =? 34) || (c =? 39) || (c =? 40) || S.non_printable c = is_non_printable c)
      by (symmetry; apply is_non_printable_spec).
    rewrite Hnp.
    destruct (valid_escape_at (c :: r)) eqn:Eve.
    + assert (E92 : c =? 92 = true).
      { unfold valid_escape_at in Eve. lia. }
      assert (Enp : is_non_printable c = false).
      { unfold is_non_printable. lia. }
      rewrite Enp, E92.
      destruct (consume_escape r) as [ch r1] eqn:Ee.
      destruct (url_loop true f r1) as [y| |] eqn:E; try discriminate.
      simpl in H. inversion H; subst.
      rewrite (consume_escape_spec' _ _ _ Hr Ee).
      pose proof (consume_escape_suffix' _ _ _ Ee) as Sf.
      apply (IH g) in E; [|eapply scalars_suffix; eassumption|apply suffix_length in Sf; lia].
      destruct y as [v r2|v|v r2|r2]; simpl in E |- *.
      * rewrite E; reflexivity.
      * rewrite E; reflexivity.
      * destruct (S.skip_ws r2) as [|d r'].
        -- rewrite E; reflexivity.
        -- destruct (d =? 41); [rewrite E; reflexivity|].
           destruct E as (g' & Hg' & E). rewrite E. eauto.
      * destruct E as (g' & Hg' & E). rewrite E. eauto.
    + simpl in H. destruct (is_non_printable c) eqn:Enp.
      { simpl in H. inversion H; subst. simpl. exists g; split; [lia|reflexivity]. }
      simpl in H. destruct (c =? 92) eqn:E92.
      { inversion H; subst. simpl. exists g; split; [lia|reflexivity]. }
      destruct (url_loop true f r) as [y| |] eqn:E; try discriminate.
      simpl in H. inversion H; subst.
      apply (IH g) in E; [|assumption|lia].
      destruct y as [v r2|v|v r2|r2]; simpl in E |- *.
      * rewrite E; reflexivity.
      * rewrite E; reflexivity.
      * destruct (S.skip_ws r2) as [|d r'].
        -- rewrite E; reflexivity.
        -- destruct (d =? 41); [rewrite E; reflexivity|].
           destruct E as (g' & Hg' & E). rewrite E. eauto.
      * destruct E as (g' & Hg' & E). rewrite E. eauto.
Qed.
