(* Css/SpecProofs.v -- the tokenizer model (repaired code, Css/Tok.v) computes what
   CSS Syntax 3 prescribes (Css/Syntax3Spec.v): per-consumer lemmas, then the
   one-iteration correspondence, then the tree (blocks_spec). *)
From Verif Require Import Base.GoSem Css.Token Css.Tok Css.TokProofs.
From Verif Require Css.Syntax3Spec.
From Coq Require Import List NArith ZArith Bool Lia ZifyBool ZifyNat ZifyN.
Import ListNotations.
Open Scope N_scope.
Module S := Css.Syntax3Spec.

Arguments consume_escape : simpl never.
Arguments valid_escape_at : simpl never.
Arguments N.eqb : simpl never.
Arguments N.leb : simpl never.
Arguments N.ltb : simpl never.
Arguments has_prefix : simpl never.
Arguments N.mul : simpl never.
Arguments N.add : simpl never.
Arguments N.sub : simpl never.

(* a Unicode scalar value: what decoding valid UTF-8 yields *)
Definition scalar (c : N) : Prop := c <= 1114111 /\ is_surrogate c = false.
Definition scalars (l : list N) : Prop := Forall scalar l.

Lemma write_rune_scalar c : scalar c -> write_rune c = c.
Proof. intros [H1 H2]. unfold write_rune. rewrite H2. simpl. destruct (1114111 <? c) eqn:E; [lia|reflexivity]. Qed.

Lemma scalars_suffix r rest : suffix r rest -> scalars rest -> scalars r.
Proof. intros [pre ->] H. unfold scalars in *. apply Forall_app in H. tauto. Qed.

(* ------------------------------------------------------------------ code point classes *)
Lemma is_space_spec c : is_space c = S.whitespace c.
Proof. unfold is_space, S.whitespace, S.newline. lia. Qed.
Lemma is_digit_spec c : is_digit c = S.digit c.
Proof. reflexivity. Qed.
Lemma is_hex_spec c : is_hex c = S.hex_digit c.
Proof. unfold is_hex, S.hex_digit, is_digit, S.digit. lia. Qed.
Lemma is_name_start_cp_spec c : is_name_start_cp c = S.ident_start c.
Proof. unfold is_name_start_cp, S.ident_start, S.letter, S.non_ascii, is_lower, is_upper. lia. Qed.
Lemma is_name_cp_spec c : is_name_cp c = S.ident_char c.
Proof.
  unfold is_name_cp, S.ident_char, S.ident_start, S.letter, S.non_ascii, S.digit, is_lower, is_upper, is_digit. lia.
Qed.
Lemma is_non_printable_spec c :
  is_non_printable c = (c =? 34) || (c =? 39) || (c =? 40) || S.non_printable c.
Proof. unfold is_non_printable, S.non_printable. lia. Qed.

Lemma has_prefix_1 a l : has_prefix [a] l = match l with c :: _ => a =? c | [] => false end.
Proof. destruct l; [reflexivity|]. unfold has_prefix. now rewrite andb_true_r. Qed.

Lemma valid_escape_at_spec rest : valid_escape_at rest = S.valid_escape rest.
Proof.
  unfold valid_escape_at, S.valid_escape, S.newline. destruct rest as [|c r]; [reflexivity|].
  rewrite has_prefix_1. destruct r as [|d r]; [lia|]. lia.
Qed.

(* ------------------------------------------------------------------ escapes *)
Lemma take_hex_spec n l : take_hex n l = S.while_upto S.hex_digit n l.
Proof.
  revert l; induction n as [|n IH]; intros l; [reflexivity|].
  destruct l as [|c r]; [reflexivity|]. simpl. rewrite is_hex_spec. rewrite IH. reflexivity.
Qed.

Lemma take_hex_all_hex n l h r : take_hex n l = (h, r) -> Forall (fun c => is_hex c = true) h.
Proof.
  revert l h r; induction n as [|n IH]; intros l h r H; simpl in H.
  - inversion H; constructor.
  - destruct l as [|c l']; [inversion H; constructor|].
    destruct (is_hex c) eqn:Ec.
    + destruct (take_hex n l') as [h' r'] eqn:E. inversion H; subst. constructor; [exact Ec|eapply IH; eassumption].
    + inversion H; constructor.
Qed.

Lemma hex_digit_value_spec c : is_hex c = true -> hex_digit_value c = S.hex_val c.
Proof.
  unfold is_hex, hex_digit_value, S.hex_val, is_digit, S.digit. intros H.
  destruct ((48 <=? c) && (c <=? 57)) eqn:Ed; [reflexivity|].
  destruct (97 <=? c) eqn:El; lia.
Qed.

Lemma hex_value_spec h : Forall (fun c => is_hex c = true) h -> hex_value h = S.hex_number 0 h.
Proof.
  unfold hex_value. generalize 0. induction h as [|c h IH]; intros acc H; [reflexivity|].
  inversion H; subst. simpl. rewrite hex_digit_value_spec by assumption.
  rewrite IH by assumption. f_equal. lia.
Qed.

Lemma take_hex_S n c r : take_hex (S n) (c :: r) =
  if is_hex c then let '(h, r') := take_hex n r in (c :: h, r') else ([], c :: r).
Proof. reflexivity. Qed.

Lemma consume_escape_spec r : scalars r ->
  S.consume_escaped r = (write_rune (fst (consume_escape r)), snd (consume_escape r)).
Proof.
  intros Hs. unfold consume_escape, S.consume_escaped.
  destruct r as [|c r'].
  - reflexivity.
  - destruct (take_hex 6 (c :: r')) as [h r1] eqn:E.
    pose proof (take_hex_all_hex _ _ _ _ E) as Hh.
    rewrite take_hex_S in E. rewrite <- is_hex_spec.
    destruct (is_hex c) eqn:Ec.
    + destruct (take_hex 5 r') as [h' r1'] eqn:E'. inversion E; subst.
      rewrite <- take_hex_spec, E'. rewrite <- hex_value_spec by assumption.
      cbn [fst snd]. f_equal.
      * set (cp := hex_value (c :: h')). unfold write_rune, is_surrogate, S.surrogate, S.max_code_point.
        destruct ((0 <? cp) && (cp <=? 1114111)) eqn:E1.
        -- destruct ((55296 <=? cp) && (cp <=? 57343)) eqn:E2; simpl.
           ++ replace ((cp =? 0) || true || (1114111 <? cp)) with true by lia. reflexivity.
           ++ replace (1114111 <? cp) with false by lia. replace (cp =? 0) with false by lia. reflexivity.
        -- replace ((cp =? 0) || (55296 <=? cp) && (cp <=? 57343) || (1114111 <? cp)) with true by lia.
           reflexivity.
      * destruct r1 as [|w r'']; [reflexivity|]. rewrite is_space_spec. reflexivity.
    + inversion E; subst. cbn [fst snd]. inversion Hs; subst.
      rewrite write_rune_scalar by assumption. reflexivity.
Qed.

Lemma consume_escape_spec' r e r1 : scalars r -> consume_escape r = (e, r1) ->
  S.consume_escaped r = (write_rune e, r1).
Proof. intros Hs E. rewrite consume_escape_spec by assumption. now rewrite E. Qed.

(* ------------------------------------------------------------------ consume an ident sequence *)
Lemma consume_ident_spec f : forall g rest v r', scalars rest -> (length rest <= g)%nat ->
  consume_ident f rest = Ok (v, r') -> S.ident_sequence g rest = (v, r').
Proof.
  induction f as [|f IH]; intros g rest v r' Hs Hg H; [discriminate|].
  destruct rest as [|c r].
  - simpl in H. inversion H; subst. destruct g; reflexivity.
  - destruct g as [|g]; [simpl in Hg; lia|]. simpl in Hg.
    cbn [consume_ident] in H. cbn [S.ident_sequence].
    rewrite <- is_name_cp_spec, <- valid_escape_at_spec.
    inversion Hs as [|? ? Hc Hr]; subst.
    destruct (is_name_cp c).
    + destruct (consume_ident f r) as [[v1 r1]| |] eqn:E; try discriminate.
      simpl in H. inversion H; subst. erewrite IH; [reflexivity|assumption|lia|exact E].
    + destruct (valid_escape_at (c :: r)).
      * destruct (consume_escape r) as [e r1] eqn:Ee.
        destruct (consume_ident f r1) as [[v1 r2]| |] eqn:E; try discriminate.
        simpl in H. inversion H; subst.
        rewrite (consume_escape_spec' _ _ _ Hr Ee).
        pose proof (consume_escape_suffix' _ _ _ Ee) as Sf.
        erewrite IH; [reflexivity| |apply suffix_length in Sf; lia|exact E].
        eapply scalars_suffix; eassumption.
      * inversion H; subst. reflexivity.
Qed.

(* ------------------------------------------------------------------ strings *)
Lemma quoted_loop_spec f : forall g q rest v a e r', scalars rest -> (length rest <= g)%nat ->
  quoted_loop f q rest = Ok (v, a, e, r') ->
  exists v' o, S.string_body g q rest = (v', o, r') /\
    ((a = true /\ v' = v /\ ((e = 0 /\ o = 0) \/ (e = errEofInString /\ o = 1))) \/
     (a = false /\ e = errBadString /\ o = 2)).
Proof.
  induction f as [|f IH]; intros g q rest v a e r' Hs Hg H; [discriminate|].
  destruct rest as [|c r].
  - simpl in H. inversion H; subst. exists [], 1. split; [destruct g; reflexivity|]. left; auto.
  - destruct g as [|g]; [simpl in Hg; lia|]. simpl in Hg.
    cbn [quoted_loop] in H. cbn [S.string_body]. unfold S.newline.
    inversion Hs as [|? ? Hc Hr]; subst.
    destruct (c =? q) eqn:Eq.
    { inversion H; subst. exists [], 0. split; [reflexivity|]. left; auto. }
    destruct (c =? 92) eqn:E92.
    + replace (c =? 10) with false by lia.
      destruct r as [|d r2].
      * inversion H; subst. exists [], 1. split; [destruct g; reflexivity|]. left; auto.
      * destruct (d =? 10) eqn:Ed.
        -- inversion Hr; subst. apply (IH g) in H; [|assumption|simpl in Hg; lia]. exact H.
        -- destruct (consume_escape (d :: r2)) as [ch r1] eqn:Ee.
           destruct (quoted_loop f q r1) as [[[[v1 a1] e1] r3]| |] eqn:E; try discriminate.
           simpl in H. inversion H; subst.
           rewrite (consume_escape_spec' _ _ _ Hr Ee).
           pose proof (consume_escape_suffix' _ _ _ Ee) as Sf.
           apply (IH g) in E; [|eapply scalars_suffix; eassumption|apply suffix_length in Sf; lia].
           destruct E as (v' & o & E & Hcase). rewrite E.
           destruct Hcase as [(-> & -> & Ho)|(-> & -> & ->)].
           ++ eexists _, _; split; [reflexivity|]. left; auto.
           ++ eexists _, _; split; [reflexivity|]. right; auto.
    + destruct (c =? 10) eqn:E10.
      { inversion H; subst. exists [], 2. split; [reflexivity|]. right; auto. }
      destruct (quoted_loop f q r) as [[[[v1 a1] e1] r3]| |] eqn:E; try discriminate.
      simpl in H. inversion H; subst.
      apply (IH g) in E; [|assumption|lia].
      destruct E as (v' & o & E & Hcase). rewrite E.
      destruct Hcase as [(-> & -> & Ho)|(-> & -> & ->)].
      * eexists _, _; split; [reflexivity|]. left; auto.
      * eexists _, _; split; [reflexivity|]. right; auto.
Qed.

(* ------------------------------------------------------------------ urls *)
Lemma bad_url_remnants_spec f : forall g rest r', scalars rest -> (length rest <= g)%nat ->
  bad_url_remnants true f rest = Ok r' -> S.bad_url_remnants g rest = r'.
Proof.
  induction f as [|f IH]; intros g rest r' Hs Hg H; [discriminate|].
  destruct rest as [|c r].
  - simpl in H. inversion H. destruct g; reflexivity.
  - destruct g as [|g]; [simpl in Hg; lia|]. simpl in Hg.
    cbn [bad_url_remnants] in H. cbn [S.bad_url_remnants].
    inversion Hs as [|? ? Hc Hr]; subst.
    destruct (c =? 41); [inversion H; reflexivity|].
    rewrite <- valid_escape_at_spec. destruct (valid_escape_at (c :: r)).
    + rewrite consume_escape_spec by assumption. cbn [snd].
      pose proof (consume_escape_suffix r) as Sf.
      apply IH; [eapply scalars_suffix; eassumption|apply suffix_length in Sf; lia|exact H].
    + apply IH; [assumption|lia|exact H].
Qed.

Lemma skip_spaces_spec l : skip_spaces l = S.skip_ws l.
Proof.
  unfold S.skip_ws. induction l as [|c r IH]; [reflexivity|].
  simpl. rewrite is_space_spec. destruct (S.whitespace c); [|reflexivity].
  rewrite IH. destruct (S.while_ S.whitespace r); reflexivity.
Qed.

(* what the specification's url_body returns, in terms of the model's loop result *)
Definition url_body_expect (x : url_loop_result) (res : option (str * bool) * list N) : Prop :=
  match x with
  | ULDone v r1 => res = (Some (v, false), r1)
  | ULEof v => res = (Some (v, true), [])
  | ULSpace v r1 =>
      match S.skip_ws r1 with
      | [] => res = (Some (v, true), [])
      | d :: r' => if d =? 41 then res = (Some (v, false), r')
                   else exists g', (length (d :: r') <= g')%nat /\ res = (None, S.bad_url_remnants g' (d :: r'))
      end
  | ULBad r1 => exists g', (length r1 <= g')%nat /\ res = (None, S.bad_url_remnants g' r1)
  end.

Lemma skip_ws_length r : (length (S.skip_ws r) <= length r)%nat.
Proof. rewrite <- skip_spaces_spec. apply suffix_length, skip_spaces_suffix. Qed.

Lemma url_loop_spec f : forall g rest x, scalars rest -> (length rest < g)%nat ->
  url_loop true f rest = Ok x -> url_body_expect x (S.url_body g rest).
Proof.
  induction f as [|f IH]; intros g rest x Hs Hg H; [discriminate|].
  destruct g as [|g]; [lia|].
  destruct rest as [|c r].
  - simpl in H. inversion H; subst. reflexivity.
  - simpl in Hg.
    cbn [url_loop] in H. cbn [S.url_body].
    inversion Hs as [|? ? Hc Hr]; subst.
    destruct (c =? 41) eqn:E41; [inversion H; subst; reflexivity|].
    rewrite <- is_space_spec. destruct (is_space c) eqn:Esp.
    { inversion H; subst. simpl.
      pose proof (skip_ws_length r) as Hl.
      destruct (S.skip_ws r) as [|d r'] eqn:Ew; [reflexivity|].
      destruct (d =? 41); [reflexivity|]. exists g. split; [simpl in *; lia|reflexivity]. }
    rewrite <- valid_escape_at_spec.
    assert (Hnp : (c =? 34) || (c =? 39) || (c =? 40) || S.non_printable c = is_non_printable c)
      by (symmetry; apply is_non_printable_spec).
    rewrite Hnp.
    destruct (valid_escape_at (c :: r)) eqn:Eve.
    + assert (E92 : c =? 92 = true).
      { unfold valid_escape_at in Eve. lia. }
      assert (Enp : is_non_printable c = false).
      { unfold is_non_printable. lia. }
      rewrite Enp, E92.
      destruct (consume_escape r) as [ch r1] eqn:Ee.
      destruct (url_loop true f r1) as [y| |] eqn:E; try discriminate.
      simpl in H. inversion H; subst.
      rewrite (consume_escape_spec' _ _ _ Hr Ee).
      pose proof (consume_escape_suffix' _ _ _ Ee) as Sf.
      apply (IH g) in E; [|eapply scalars_suffix; eassumption|apply suffix_length in Sf; lia].
      destruct y as [v r2|v|v r2|r2]; simpl in E |- *.
      * rewrite E; reflexivity.
      * rewrite E; reflexivity.
      * destruct (S.skip_ws r2) as [|d r'].
        -- rewrite E; reflexivity.
        -- destruct (d =? 41); [rewrite E; reflexivity|].
           destruct E as (g' & Hg' & E). rewrite E. eauto.
      * destruct E as (g' & Hg' & E). rewrite E. eauto.
    + simpl in H. destruct (is_non_printable c) eqn:Enp.
      { simpl in H. inversion H; subst. simpl. exists g; split; [lia|reflexivity]. }
      simpl in H. destruct (c =? 92) eqn:E92.
      { inversion H; subst. simpl. exists g; split; [lia|reflexivity]. }
      destruct (url_loop true f r) as [y| |] eqn:E; try discriminate.
      simpl in H. inversion H; subst.
      apply (IH g) in E; [|assumption|lia].
      destruct y as [v r2|v|v r2|r2]; simpl in E |- *.
      * rewrite E; reflexivity.
      * rewrite E; reflexivity.
      * destruct (S.skip_ws r2) as [|d r'].
        -- rewrite E; reflexivity.
        -- destruct (d =? 41); [rewrite E; reflexivity|].
           destruct E as (g' & Hg' & E). rewrite E. eauto.
      * destruct E as (g' & Hg' & E). rewrite E. eauto.
Qed.

(* ------------------------------------------------------------------ numbers *)
Lemma span_spec p l : span p l = S.while_ p l.
Proof. induction l as [|c r IH]; [reflexivity|]. simpl. rewrite IH. reflexivity. Qed.

Lemma while_all p l a b : S.while_ p l = (a, b) -> Forall (fun c => p c = true) a /\ l = a ++ b /\
  match b with c :: _ => p c = false | [] => True end.
Proof.
  revert a b; induction l as [|c r IH]; intros a b H; simpl in H.
  - inversion H; subst. repeat split; constructor.
  - destruct (p c) eqn:Ec.
    + destruct (S.while_ p r) as [a' b'] eqn:E. inversion H; subst.
      destruct (IH _ _ eq_refl) as (F & -> & Hb). split; [constructor; assumption|]. split; [reflexivity|assumption].
    + inversion H; subst. split; [constructor|]. split; [reflexivity|exact Ec].
Qed.

Lemma while_head_true p c r : p c = true ->
  S.while_ p (c :: r) = (c :: fst (S.while_ p r), snd (S.while_ p r)).
Proof. intros H. simpl. rewrite H. destruct (S.while_ p r); reflexivity. Qed.

Lemma while_head_false p c r : p c = false -> S.while_ p (c :: r) = ([], c :: r).
Proof. intros H. simpl. rewrite H. reflexivity. Qed.

(* sign splitting, common to both sides *)
Definition split_sign (l : list N) : list N * list N :=
  match l with
  | c :: r => if (c =? 43) || (c =? 45) then ([c], r) else ([], l)
  | [] => ([], [])
  end.

Lemma digits_value_spec d : digits_value d = S.digits_val d.
Proof.
  unfold digits_value, S.digits_val. generalize 0. induction d as [|c d IH]; intros acc; [reflexivity|].
  simpl. rewrite IH. f_equal. lia.
Qed.

(* the exponent part *)
Definition model_exp (r4 : list N) : option (list N * list N) :=
  match r4 with
  | e :: r5 =>
      if (e =? 101) || (e =? 69) then
        let '(es, r6) := match r5 with
                         | c :: r => if (c =? 43) || (c =? 45) then ([c], r) else ([], r5)
                         | [] => ([], [])
                         end in
        let '(d3, r7) := span is_digit r6 in
        match d3 with [] => None | _ :: _ => Some (e :: es ++ d3, r7) end
      else None
  | [] => None
  end.

Definition spec_exp (r2 : list N) : list N * list N :=
  match r2 with
  | e :: r =>
      if (e =? 69) || (e =? 101) then
        match r with
        | s :: d :: r' =>
            if ((s =? 43) || (s =? 45)) && S.digit d then
              let '(ds, r'') := S.while_ S.digit (d :: r') in (e :: s :: ds, r'')
            else if S.digit s then let '(ds, r'') := S.while_ S.digit r in (e :: ds, r'')
            else ([], r2)
        | [d] => if S.digit d then ([e; d], []) else ([], r2)
        | [] => ([], r2)
        end
      else ([], r2)
  | [] => ([], r2)
  end.

Lemma exp_spec r4 :
  match model_exp r4 with
  | Some (x, r7) => spec_exp r4 = (x, r7) /\ x <> [] /\ (exists e t, x = e :: t /\ is_digit e = false)
  | None => spec_exp r4 = ([], r4)
  end.
Proof.
  unfold model_exp, spec_exp. destruct r4 as [|e r5]; [reflexivity|].
  replace ((e =? 69) || (e =? 101)) with ((e =? 101) || (e =? 69)) by lia.
  destruct ((e =? 101) || (e =? 69)) eqn:Ee; [|reflexivity].
  assert (Hde : is_digit e = false) by (unfold is_digit; lia).
  destruct r5 as [|s r].
  - reflexivity.
  - destruct ((s =? 43) || (s =? 45)) eqn:Es.
    + assert (Hds : S.digit s = false) by (unfold S.digit; lia).
      rewrite span_spec; change (S.while_ is_digit) with (S.while_ S.digit). destruct r as [|d r'].
      * simpl. rewrite Hds. reflexivity.
      * simpl andb. destruct (S.digit d) eqn:Ed.
        -- rewrite (while_head_true _ _ _ Ed). destruct (S.while_ S.digit r') as [a b]. simpl.
           repeat split; [discriminate|eauto].
        -- rewrite (while_head_false _ _ _ Ed). rewrite Hds. reflexivity.
    + rewrite span_spec; change (S.while_ is_digit) with (S.while_ S.digit). destruct (S.digit s) eqn:Ed.
      * rewrite (while_head_true _ _ _ Ed).
        destruct r as [|d r'].
        -- simpl. repeat split; [discriminate|eauto].
        -- simpl andb. destruct (S.while_ S.digit (d :: r')) as [a b]. simpl.
           repeat split; [discriminate|eauto].
      * rewrite (while_head_false _ _ _ Ed).
        destruct r as [|d r']; [reflexivity|]. simpl andb. reflexivity.
Qed.

Definition model_mant (d1 r1 : list N) : option (list N * list N) :=
  let plain := match d1 with [] => None | _ :: _ => Some (d1, r1) end in
  match r1 with
  | c :: r2 =>
      if c =? 46 then
        let '(d2, r3) := span is_digit r2 in
        match d2 with [] => plain | _ :: _ => Some (d1 ++ 46 :: d2, r3) end
      else plain
  | [] => plain
  end.

Definition spec_frac (r1 : list N) : list N * list N :=
  match r1 with
  | p :: d :: r =>
      if (p =? 46) && S.digit d then let '(ds, r') := S.while_ S.digit (d :: r) in (46 :: ds, r') else ([], r1)
  | _ => ([], r1)
  end.

Lemma scan_number_eq rest :
  scan_number rest =
  let '(sign, r0) := split_sign rest in
  let '(d1, r1) := span is_digit r0 in
  match model_mant d1 r1 with
  | None => None
  | Some (m, r4) =>
      match model_exp r4 with
      | Some (x, r7) => Some (sign ++ m ++ x, r7)
      | None => Some (sign ++ m, r4)
      end
  end.
Proof. reflexivity. Qed.

Lemma consume_number_eq rest :
  S.consume_number rest =
  let '(sign, r0) := split_sign rest in
  let '(ip, r1) := S.while_ S.digit r0 in
  let '(frac, r2) := spec_frac r1 in
  let '(expo, r3) := spec_exp r2 in
  (sign ++ ip ++ frac ++ expo, match frac, expo with [], [] => true | _, _ => false end, r3).
Proof. reflexivity. Qed.

Lemma mant_spec d1 r1 : (match r1 with c :: _ => S.digit c = false | [] => True end) ->
  match model_mant d1 r1 with
  | Some (m, r4) => m = d1 ++ fst (spec_frac r1) /\ r4 = snd (spec_frac r1) /\ m <> []
  | None => d1 = [] /\ spec_frac r1 = ([], r1)
  end.
Proof.
  intros Hh. unfold model_mant, spec_frac.
  assert (Hp : match (match d1 with [] => None | _ :: _ => Some (d1, r1) end) with
               | Some (m, r4) => m = d1 ++ [] /\ r4 = r1 /\ m <> []
               | None => d1 = [] /\ True end).
  { destruct d1; [auto|]. rewrite app_nil_r. repeat split. discriminate. }
  destruct r1 as [|c r2].
  - destruct d1; [auto|]. rewrite app_nil_r. repeat split. discriminate.
  - destruct (c =? 46) eqn:Ec.
    + rewrite span_spec. change (S.while_ is_digit) with (S.while_ S.digit).
      destruct r2 as [|d r].
      * simpl. destruct d1; [auto|]. rewrite app_nil_r. repeat split. discriminate.
      * simpl andb. destruct (S.digit d) eqn:Ed.
        -- rewrite (while_head_true _ _ _ Ed). destruct (S.while_ S.digit r) as [a b]. simpl.
           apply N.eqb_eq in Ec. subst c. repeat split. destruct d1; discriminate.
        -- rewrite (while_head_false _ _ _ Ed). simpl.
           destruct d1; [auto|]. rewrite app_nil_r. repeat split. discriminate.
    + simpl andb. destruct r2 as [|d r]; (destruct d1; [auto|]; rewrite app_nil_r; repeat split; discriminate).
Qed.

Lemma split_sign_app rest : rest = fst (split_sign rest) ++ snd (split_sign rest).
Proof. unfold split_sign. destruct rest as [|c r]; [reflexivity|]. destruct ((c =? 43) || (c =? 45)); reflexivity. Qed.

Lemma starts_number_spec rest :
  S.starts_number rest =
  let '(sign, r0) := split_sign rest in
  let '(d1, r1) := S.while_ S.digit r0 in
  match d1, fst (spec_frac r1) with
  | [], [] => false
  | _, _ => true
  end.
Proof.
  unfold S.starts_number, split_sign. destruct rest as [|c r]; [reflexivity|].
  destruct ((c =? 43) || (c =? 45)) eqn:Es.
  - destruct r as [|d r']; [reflexivity|].
    destruct (S.digit d) eqn:Ed.
    + rewrite (while_head_true _ _ _ Ed). simpl. reflexivity.
    + rewrite (while_head_false _ _ _ Ed). simpl. unfold spec_frac.
      destruct r' as [|e r'']; [simpl; lia|].
      destruct (d =? 46) eqn:E46; simpl andb; [|reflexivity].
      destruct (S.digit e) eqn:Ee; [|reflexivity].
      destruct (S.while_ S.digit r''). reflexivity.
  - destruct (c =? 46) eqn:E46.
    + assert (Ed : S.digit c = false) by (unfold S.digit; lia).
      rewrite (while_head_false _ _ _ Ed). unfold spec_frac. rewrite E46.
      destruct r as [|d r']; [reflexivity|]. simpl andb.
      destruct (S.digit d); [|reflexivity]. destruct (S.while_ S.digit (d :: r')). reflexivity.
    + destruct (S.digit c) eqn:Ed.
      * rewrite (while_head_true _ _ _ Ed). reflexivity.
      * rewrite (while_head_false _ _ _ Ed). unfold spec_frac. rewrite E46.
        destruct r; reflexivity.
Qed.

(* the integer flag: strconv.ParseInt succeeds  <->  type "integer" and the value fits int64 *)
Definition sign_ok (sign : list N) : Prop := sign = [] \/ sign = [43] \/ sign = [45].

Lemma split_sign_ok rest sign r0 : split_sign rest = (sign, r0) ->
  sign_ok sign /\ (sign = [] -> match r0 with c :: _ => (c =? 45) || (c =? 43) = false | [] => True end).
Proof.
  unfold split_sign, sign_ok. destruct rest as [|c r].
  - intros H; inversion H; auto.
  - destruct ((c =? 43) || (c =? 45)) eqn:E; intros H; inversion H; subst.
    + split; [|discriminate]. destruct (c =? 43) eqn:E1.
      * apply N.eqb_eq in E1; subst; auto.
      * right; right. f_equal. lia.
    + split; [auto|]. intros _. lia.
Qed.

Lemma repr_is_int_nondigit sign body :
  sign_ok sign ->
  (sign = [] -> match body with c :: _ => (c =? 45) || (c =? 43) = false | [] => True end) ->
  forallb is_digit body = false ->
  repr_is_int (sign ++ body) = false.
Proof.
  intros Hs Hh Hf. unfold repr_is_int, repr_int.
  destruct Hs as [->|[->| ->]]; simpl app.
  - specialize (Hh eq_refl). destruct body as [|c b]; [reflexivity|].
    destruct (c =? 45) eqn:E1; [simpl in Hh; lia|]. destruct (c =? 43) eqn:E2; [simpl in Hh; lia|].
    rewrite Hf. reflexivity.
  - cbv match. change (N.eqb 43 45) with false. change (N.eqb 43 43) with true. cbv match.
    destruct body; [reflexivity|]. rewrite Hf. reflexivity.
  - cbv match. change (N.eqb 45 45) with true. cbv match.
    destruct body; [reflexivity|]. rewrite Hf. reflexivity.
Qed.

Lemma repr_is_int_digits sign d :
  sign_ok sign -> d <> [] -> forallb is_digit d = true ->
  repr_is_int (sign ++ d) = S.fits_int64 (sign ++ d).
Proof.
  intros Hs Hne Hf. unfold repr_is_int, repr_int, S.fits_int64.
  destruct Hs as [->|[->| ->]]; simpl app.
  - destruct d as [|c b]; [congruence|].
    assert (Hc : is_digit c = true) by (simpl in Hf; lia).
    replace (c =? 45) with false by (unfold is_digit in Hc; lia).
    replace (c =? 43) with false by (unfold is_digit in Hc; lia).
    rewrite Hf. rewrite digits_value_spec.
    set (v := S.digits_val (c :: b)).
    destruct (v <=? 9223372036854775807) eqn:E.
    + replace ((-9223372036854775808 <=? Z.of_N v)%Z && (Z.of_N v <=? 9223372036854775807)%Z) with true by lia.
      reflexivity.
    + replace ((-9223372036854775808 <=? Z.of_N v)%Z && (Z.of_N v <=? 9223372036854775807)%Z) with false by lia.
      reflexivity.
  - cbv match. change (N.eqb 43 45) with false. change (N.eqb 43 43) with true. cbv match.
    destruct d as [|c b]; [congruence|]. rewrite Hf. rewrite digits_value_spec.
    set (v := S.digits_val (c :: b)).
    destruct (v <=? 9223372036854775807) eqn:E.
    + replace ((-9223372036854775808 <=? Z.of_N v)%Z && (Z.of_N v <=? 9223372036854775807)%Z) with true by lia.
      reflexivity.
    + replace ((-9223372036854775808 <=? Z.of_N v)%Z && (Z.of_N v <=? 9223372036854775807)%Z) with false by lia.
      reflexivity.
  - cbv match. change (N.eqb 45 45) with true. cbv match.
    destruct d as [|c b]; [congruence|]. rewrite Hf. rewrite digits_value_spec.
    set (v := S.digits_val (c :: b)).
    destruct (v <=? 9223372036854775808) eqn:E.
    + replace ((-9223372036854775808 <=? - Z.of_N v)%Z && (- Z.of_N v <=? 9223372036854775807)%Z) with true by lia.
      reflexivity.
    + replace ((-9223372036854775808 <=? - Z.of_N v)%Z && (- Z.of_N v <=? 9223372036854775807)%Z) with false by lia.
      reflexivity.
Qed.

Lemma forallb_app_false (p : N -> bool) a e b : p e = false -> forallb p (a ++ e :: b) = false.
Proof. intros H. rewrite forallb_app. simpl. rewrite H. apply andb_false_r. Qed.

Lemma Forall_forallb (p : N -> bool) l : Forall (fun c => p c = true) l -> forallb p l = true.
Proof. induction 1; simpl; [reflexivity|]. rewrite H, IHForall. reflexivity. Qed.

Lemma scan_number_spec rest :
  match scan_number rest with
  | Some (repr, r1) =>
      S.starts_number rest = true /\
      exists integer, S.consume_number rest = (repr, integer, r1) /\
                      repr_is_int repr = S.nflag repr integer
  | None => S.starts_number rest = false
  end.
Proof.
  rewrite scan_number_eq, consume_number_eq, starts_number_spec.
  destruct (split_sign rest) as [sign r0] eqn:Ess.
  destruct (split_sign_ok _ _ _ Ess) as [Hso Hsh].
  rewrite span_spec. change (S.while_ is_digit) with (S.while_ S.digit).
  destruct (S.while_ S.digit r0) as [d1 r1] eqn:Ew.
  destruct (while_all _ _ _ _ Ew) as (Hd1 & Hr0 & Hh).
  pose proof (mant_spec d1 r1 Hh) as Hm.
  destruct (model_mant d1 r1) as [[m r4]|].
  - destruct Hm as (Hm & Hr4 & Hne).
    destruct (spec_frac r1) as [frac r2] eqn:Ef. cbn [fst snd] in *. subst r4.
    assert (Hfrac : frac = [] \/ exists t, frac = 46 :: t).
    { unfold spec_frac in Ef. destruct r1 as [|p0 [|d0 r]]; try (inversion Ef; auto).
      destruct ((p0 =? 46) && S.digit d0).
      - destruct (S.while_ S.digit (d0 :: r)). inversion Ef; eauto.
      - inversion Ef; auto. }
    assert (Hsn : match d1, frac with [], [] => false | _, _ => true end = true).
    { destruct d1; [|reflexivity]. destruct frac; [|reflexivity]. simpl in Hm. congruence. }
    (* the head of (d1 ++ frac ++ ...) is not a sign when there is no sign *)
    assert (Hbody : forall y, sign = [] ->
              match (d1 ++ frac) ++ y with c :: _ => (c =? 45) || (c =? 43) = false | [] => True end).
    { intros y Hs0. destruct d1 as [|c d1'].
      - destruct Hfrac as [->|[t ->]]; [simpl in Hm; congruence|]. reflexivity.
      - inversion Hd1; subst. simpl. unfold S.digit in *. lia. }
    pose proof (exp_spec r2) as He.
    destruct (model_exp r2) as [[x r7]|].
    + destruct He as (He & Hxne & (e & t & Hx & Hde)). rewrite He.
      split; [exact Hsn|]. eexists; split.
      * subst m. rewrite <- !app_assoc. reflexivity.
      * assert (Hint : match frac, x with [], [] => true | _, _ => false end = false).
        { destruct frac; [|reflexivity]. destruct x; [congruence|reflexivity]. }
        rewrite Hint. unfold S.nflag. simpl andb.
        subst m x. apply repr_is_int_nondigit; [exact Hso|apply Hbody|].
        apply forallb_app_false. exact Hde.
    + rewrite He. split; [exact Hsn|]. eexists; split.
      * subst m. rewrite app_nil_r. reflexivity.
      * unfold S.nflag. destruct Hfrac as [->|[t ->]].
        -- simpl andb. subst m. rewrite app_nil_r in *.
           apply repr_is_int_digits; [exact Hso|exact Hne|].
           apply Forall_forallb. exact Hd1.
        -- simpl andb. subst m.
           apply repr_is_int_nondigit; [exact Hso| |].
           ++ intros Hs0. specialize (Hbody [] Hs0). rewrite app_nil_r in Hbody. exact Hbody.
           ++ apply forallb_app_false. reflexivity.
  - destruct Hm as [-> Hf]. rewrite Hf. reflexivity.
Qed.

(* ------------------------------------------------------------------ unicode-range *)
Lemma take_while_n_spec p q n l : (forall c, p c = q c) -> take_while_n p n l = S.while_upto q n l.
Proof.
  intros Hpq. revert l; induction n as [|n IH]; intros l; [reflexivity|].
  destruct l as [|c r]; [reflexivity|]. simpl. rewrite Hpq, IH. reflexivity.
Qed.

Lemma while_upto_all p n l a b : S.while_upto p n l = (a, b) -> Forall (fun c => p c = true) a.
Proof.
  revert l a b; induction n as [|n IH]; intros l a b H; simpl in H.
  - inversion H; constructor.
  - destruct l as [|c r]; [inversion H; constructor|].
    destruct (p c) eqn:Ec.
    + destruct (S.while_upto p n r) as [a' b'] eqn:E. inversion H; subst. constructor; [exact Ec|eapply IH; eassumption].
    + inversion H; constructor.
Qed.

Lemma repeat_map (x : N) (l : list N) : repeat x (length l) = map (fun _ => x) l.
Proof. induction l; simpl; congruence. Qed.

Lemma Forall_hex_app h x (l : list N) : Forall (fun c => is_hex c = true) h -> is_hex x = true ->
  Forall (fun c => is_hex c = true) (h ++ map (fun _ => x) l).
Proof. intros Hh Hx. apply Forall_app; split; [exact Hh|]. induction l; constructor; auto. Qed.

Lemma while_upto_head p n c r : p c = true ->
  exists a b, S.while_upto p (S n) (c :: r) = (c :: a, b).
Proof. intros H. simpl. rewrite H. destruct (S.while_upto p n r); eauto. Qed.

Lemma while_upto_head_false p n c r : p c = false -> S.while_upto p (S n) (c :: r) = ([], c :: r).
Proof. intros H. simpl. rewrite H. reflexivity. Qed.

Lemma consume_unicode_range_spec c2 r : is_hex c2 || (c2 =? 63) = true ->
  exists s e r', consume_unicode_range (c2 :: r) = (Some (s, e), r') /\
                 S.consume_unicode_range (c2 :: r) = (S.SUnicodeRange s e, r').
Proof.
  intros Hc2. unfold consume_unicode_range, S.consume_unicode_range.
  rewrite (take_while_n_spec is_hex S.hex_digit) by apply is_hex_spec.
  destruct (S.while_upto S.hex_digit 6 (c2 :: r)) as [h r1] eqn:E1.
  assert (Hh : Forall (fun c => is_hex c = true) h).
  { apply while_upto_all in E1. eapply Forall_impl; [|exact E1]. intros a Ha. now rewrite is_hex_spec. }
  rewrite (take_while_n_spec (fun c => c =? 63) (fun c => c =? 63)) by reflexivity.
  destruct (S.while_upto (fun c => c =? 63) (6 - length h) r1) as [q r2] eqn:E2.
  destruct q as [|q0 q].
  - (* no question mark: the first code point is a hex digit *)
    assert (Hne : h <> []).
    { destruct (is_hex c2) eqn:Eh.
      - destruct (while_upto_head S.hex_digit 5 c2 r) as (a & b & E); [now rewrite <- is_hex_spec|].
        rewrite E in E1. inversion E1. discriminate.
      - (* c2 = '?' : then h = [] and q is not empty *)
        exfalso. rewrite (while_upto_head_false S.hex_digit 5 c2 r) in E1 by (now rewrite <- is_hex_spec).
        inversion E1; subst. change (6 - length (@nil N))%nat with 6%nat in E2.
        destruct (while_upto_head (fun c => c =? 63) 5 c2 r) as (a & b & E); [lia|].
        rewrite E in E2. discriminate. }
    cbn [length Nat.eqb negb].
    assert (Hph : parse_hex h = Some (hex_value h)) by (destruct h; [congruence|reflexivity]).
    destruct r2 as [|c0 [|c1 r'']].
    + rewrite Hph. rewrite hex_value_spec by assumption. eauto.
    + rewrite Hph. rewrite hex_value_spec by assumption. eauto.
    + rewrite <- is_hex_spec. destruct ((c0 =? 45) && is_hex c1) eqn:Ec.
      * rewrite (take_while_n_spec is_hex S.hex_digit) by apply is_hex_spec.
        destruct (S.while_upto S.hex_digit 6 (c1 :: r'')) as [h2 r4] eqn:E4.
        assert (Hh2 : Forall (fun c => is_hex c = true) h2).
        { apply while_upto_all in E4. eapply Forall_impl; [|exact E4]. intros a Ha. now rewrite is_hex_spec. }
        assert (Hne2 : h2 <> []).
        { destruct (while_upto_head S.hex_digit 5 c1 r'') as (a & b & E); [rewrite <- is_hex_spec; lia|].
          rewrite E in E4. inversion E4. discriminate. }
        rewrite Hph. assert (Hph2 : parse_hex h2 = Some (hex_value h2)) by (destruct h2; [congruence|reflexivity]).
        rewrite Hph2. rewrite !hex_value_spec by assumption. eauto.
      * rewrite Hph. rewrite hex_value_spec by assumption. eauto.
  - cbn [length Nat.eqb negb].
    rewrite !(repeat_map _ (q0 :: q)).
    assert (H48 : Forall (fun c => is_hex c = true) (h ++ map (fun _ => 48) (q0 :: q))) by (apply Forall_hex_app; auto).
    assert (H70 : Forall (fun c => is_hex c = true) (h ++ map (fun _ => 70) (q0 :: q))) by (apply Forall_hex_app; auto).
    assert (P1 : parse_hex (h ++ map (fun _ => 48) (q0 :: q)) = Some (hex_value (h ++ map (fun _ => 48) (q0 :: q)))).
    { destruct h; reflexivity. }
    assert (P2 : parse_hex (h ++ map (fun _ => 70) (q0 :: q)) = Some (hex_value (h ++ map (fun _ => 70) (q0 :: q)))).
    { destruct h; reflexivity. }
    rewrite P1, P2. rewrite !hex_value_spec by assumption. eauto.
Qed.

(* ------------------------------------------------------------------ would start an identifier *)
Lemma is_ident_start_spec c r : is_ident_start true (c :: r) = Ok (S.starts_ident (c :: r)).
Proof.
  unfold is_ident_start, is_name_start, S.starts_ident. rewrite is_name_start_cp_spec.
  destruct (S.ident_start c) eqn:Eis.
  - replace (c =? 45) with false by (unfold S.ident_start, S.letter, S.non_ascii in Eis; lia).
    replace (c =? 92) with false by (unfold S.ident_start, S.letter, S.non_ascii in Eis; lia).
    reflexivity.
  - unfold index. simpl. destruct (c =? 45) eqn:E45.
    + f_equal. rewrite valid_escape_at_spec. destruct r as [|d r']; [reflexivity|].
      rewrite is_name_start_cp_spec. reflexivity.
    + destruct (c =? 92) eqn:E92; [|reflexivity].
      f_equal. apply N.eqb_eq in E92; subst c. unfold s_bsnl.
      change (has_prefix [92; 10] (92 :: r)) with (N.eqb 92 92 && has_prefix [10] r).
      change (N.eqb 92 92) with true. rewrite has_prefix_1. unfold S.newline.
      destruct r as [|d r']; [reflexivity|]. simpl. rewrite N.eqb_sym. reflexivity.
Qed.

Lemma is_ident_start_guard_spec r :
  match r with [] => Ok false | _ :: _ => is_ident_start true r end = Ok (S.starts_ident r).
Proof. destruct r; [reflexivity|apply is_ident_start_spec]. Qed.

(* ------------------------------------------------------------------ url( look-ahead *)
Definition head_ws (l : list N) : bool := match l with c :: _ => S.whitespace c | [] => false end.
Definition ws_equiv (a b : list N) : Prop := S.skip_ws a = S.skip_ws b /\ head_ws a = head_ws b.

Lemma ws_equiv_refl a : ws_equiv a a.
Proof. split; reflexivity. Qed.

Lemma skip_ws_cons c r : S.skip_ws (c :: r) = if S.whitespace c then S.skip_ws r else c :: r.
Proof. unfold S.skip_ws. simpl. destruct (S.whitespace c); [|reflexivity]. destruct (S.while_ S.whitespace r); reflexivity. Qed.

Lemma skip_ws_nows l : head_ws l = false -> S.skip_ws l = l.
Proof. destruct l as [|c r]; [reflexivity|]. simpl. intros H. rewrite skip_ws_cons, H. reflexivity. Qed.

Lemma ws_equiv_nows a b : ws_equiv a b -> head_ws a = false -> a = b.
Proof. intros [H1 H2] Ha. rewrite skip_ws_nows in H1 by assumption. rewrite skip_ws_nows in H1 by congruence. exact H1. Qed.

Lemma dwbo_cons2 a b r : S.drop_ws_but_one (a :: b :: r) =
  if S.whitespace a && S.whitespace b then S.drop_ws_but_one (b :: r) else a :: b :: r.
Proof. reflexivity. Qed.

Lemma dwbo_props n : forall r, (length r <= n)%nat ->
  ws_equiv r (S.drop_ws_but_one r) /\
  (match S.drop_ws_but_one r with
   | a :: b :: _ => S.quote a || (S.whitespace a && S.quote b)
   | [a] => S.quote a
   | [] => false
   end = match S.skip_ws r with c :: _ => S.quote c | [] => false end) /\
  suffix (S.drop_ws_but_one r) r.
Proof.
  induction n as [|n IH]; intros r Hl.
  - destruct r; [|simpl in Hl; lia]. repeat split; apply suffix_refl.
  - destruct r as [|a [|b r']].
    + repeat split; apply suffix_refl.
    + split; [apply ws_equiv_refl|]. split; [|apply suffix_refl]. simpl. rewrite skip_ws_cons.
      destruct (S.whitespace a) eqn:Ew; [|reflexivity].
      change (S.skip_ws []) with (@nil N). cbv match.
      unfold S.whitespace, S.newline, S.quote in *. lia.
    + rewrite dwbo_cons2. destruct (S.whitespace a && S.whitespace b) eqn:Ew.
      * destruct (IH (b :: r')) as ((Hs & Hh) & Hq & Sf); [simpl in *; lia|].
        assert (Ea : S.whitespace a = true) by lia. assert (Eb : S.whitespace b = true) by lia.
        split; [split|split].
        -- rewrite skip_ws_cons, Ea. exact Hs.
        -- simpl head_ws at 1. rewrite Ea. rewrite <- Hh. simpl. rewrite Eb. reflexivity.
        -- rewrite Hq. rewrite (skip_ws_cons a), Ea. reflexivity.
        -- apply suffix_cons. exact Sf.
      * split; [apply ws_equiv_refl|]. split; [|apply suffix_refl].
        rewrite skip_ws_cons. destruct (S.whitespace a) eqn:Ea.
        -- assert (Eb : S.whitespace b = false) by lia. rewrite skip_ws_cons, Eb.
           replace (S.quote a) with false by (unfold S.whitespace, S.newline, S.quote in *; lia). reflexivity.
        -- simpl. rewrite orb_false_r. reflexivity.
Qed.

Lemma url_is_unquoted_spec r : url_is_unquoted r =
  negb (match S.skip_ws r with c :: _ => S.quote c | [] => false end).
Proof.
  unfold url_is_unquoted. rewrite skip_spaces_spec. destruct (S.skip_ws r) as [|c r']; [reflexivity|].
  unfold S.quote. reflexivity.
Qed.

Lemma is_url_name_spec v : str_eqb (ascii_lower v) s_url = S.is_url_name v.
Proof.
  unfold S.is_url_name, ascii_lower, s_url.
  assert (Hl : forall c, lower_cp c = S.lower c) by reflexivity.
  destruct v as [|a [|b [|c [|d v]]]]; simpl; rewrite ?Hl;
    repeat (destruct (N.eqb _ _); simpl; try reflexivity); reflexivity.
Qed.

(* ------------------------------------------------------------------ one iteration against "consume a token" *)
Definition tok_out (t : S.stoken) (rS : list N) (lx : lexed) : Prop :=
  exists ts, lx = LTok ts rS /\ map S.erase ts = S.norm_token t.

Lemma consume_url_spec f g p r2 v e r3 : scalars r2 -> (length r2 < f)%nat -> (length r2 < g)%nat ->
  url_is_unquoted r2 = true ->
  consume_url true f p r2 = Ok (v, e, r3) ->
  tok_out (fst (S.consume_url g r2)) (snd (S.consume_url g r2)) (LTok (opt_list v ++ opt_list e) r3).
Proof.
  intros Hs Hf Hg Hu H. unfold tok_out. exists (opt_list v ++ opt_list e).
  unfold consume_url in H. unfold S.consume_url.
  rewrite url_is_unquoted_spec in Hu. rewrite skip_spaces_spec in H.
  pose proof (skip_ws_length r2) as Hl.
  assert (Hsw : scalars (S.skip_ws r2)).
  { eapply scalars_suffix; [|exact Hs]. rewrite <- skip_spaces_spec. apply skip_spaces_suffix. }
  (* bad-url continuation *)
  assert (Bad : forall r g', suffix r (S.skip_ws r2) -> (length r <= g')%nat ->
    (let* r' := bad_url_remnants true f r in Ok (@None token, Some (TParseError p errBadURL), r')) = Ok (v, e, r3) ->
    LTok (opt_list v ++ opt_list e) r3 = LTok (opt_list v ++ opt_list e) (S.bad_url_remnants g' r) /\
    map S.erase (opt_list v ++ opt_list e) = S.norm_token S.SBadUrl).
  { intros r g' Sr Hg' X. destruct (bad_url_remnants true f r) as [rb| |] eqn:Eb; try discriminate.
    simpl in X. inversion X; subst.
    rewrite (bad_url_remnants_spec f g' r r3); [split; reflexivity| |exact Hg'|exact Eb].
    eapply scalars_suffix; eassumption. }
  destruct (S.skip_ws r2) as [|c r] eqn:Ew.
  - inversion H; subst. destruct g; [lia|]. simpl. split; reflexivity.
  - simpl in Hu. assert (Eq : (c =? 34) || (c =? 39) = false) by (unfold S.quote in Hu; lia).
    rewrite Eq in H.
    assert (Hlg : (length (c :: r) < g)%nat) by lia.
    destruct (c =? 41) eqn:E41.
    + inversion H; subst. destruct g; [lia|]. simpl. rewrite E41. simpl. split; reflexivity.
    + destruct (url_loop true f (c :: r)) as [x| |] eqn:El; try discriminate.
      pose proof (url_loop_suffix _ _ _ El) as Sx.
      apply (url_loop_spec f g) in El; [|exact Hsw|exact Hlg].
      cbn [bind] in H.
      destruct x as [v0 r1|v0|v0 r1|r1]; simpl in El, Sx.
      * inversion H; subst. rewrite El. simpl. split; reflexivity.
      * inversion H; subst. rewrite El. simpl. split; reflexivity.
      * rewrite skip_spaces_spec in H. destruct (S.skip_ws r1) as [|d r'] eqn:Ew1.
        -- inversion H; subst. rewrite El. simpl. split; reflexivity.
        -- destruct (d =? 41).
           ++ inversion H; subst. rewrite El. simpl. split; reflexivity.
           ++ destruct El as (g' & Hg' & El). rewrite El. cbn [fst snd].
              apply Bad; [|exact Hg'|exact H].
              eapply suffix_trans; [|exact Sx]. rewrite <- Ew1, <- skip_spaces_spec. apply skip_spaces_suffix.
      * destruct El as (g' & Hg' & El). rewrite El. cbn [fst snd].
        apply Bad; [exact Sx|exact Hg'|exact H].
Qed.

Definition lex_rel (skip : bool) (endc : N) (p : pos) (t : S.stoken) (rS : list N) (lx : lexed) : Prop :=
  match t with
  | S.SComment txt eof =>
      let cs := if skip then [] else [TComment p txt] in
      if eof then rS = [] /\ lx = LReturn cs [] else lx = LTok cs rS
  | S.SLParen => lx = LOpen OParens rS
  | S.SLBracket => lx = LOpen OSquare rS
  | S.SLBrace => lx = LOpen OCurly rS
  | S.SFunction n => exists rI, lx = LOpen (OFunction n) rI /\ ws_equiv rI rS /\ suffix rS rI
  | S.SRParen => lx = if 41 =? endc then LClose rS else LTok [TParseError p 41] rS
  | S.SRBracket => lx = if 93 =? endc then LClose rS else LTok [TParseError p 93] rS
  | S.SRBrace => lx = if 125 =? endc then LClose rS else LTok [TParseError p 125] rS
  | _ => tok_out t rS lx
  end.

Lemma lex_ident_like_spec skip endc f g p rest lx : scalars rest -> (length rest < f)%nat -> (length rest <= g)%nat ->
  lex_ident_like true f p rest = Ok lx ->
  lex_rel skip endc p (fst (S.consume_ident_like g rest)) (snd (S.consume_ident_like g rest)) lx.
Proof.
  intros Hs Hf Hg H. unfold lex_ident_like in H. unfold S.consume_ident_like.
  destruct (consume_ident f rest) as [[value r1]| |] eqn:Ei; try discriminate.
  cbn [bind] in H.
  pose proof (consume_ident_suffix _ _ _ _ Ei) as S1.
  rewrite (consume_ident_spec f g rest value r1 Hs Hg Ei).
  destruct r1 as [|c1 r2].
  - inversion H; subst. cbn [fst snd]. exists [TIdent p value]. split; reflexivity.
  - destruct (c1 =? 40) eqn:E40.
    + rewrite <- is_url_name_spec.
      assert (Sr2 : suffix r2 rest) by (eapply suffix_trans; [apply suffix_tl|exact S1]).
      pose proof (suffix_length _ _ S1) as L1. simpl in L1.
      destruct (dwbo_props (length r2) r2 (le_n _)) as (Hwe & Hq & Sd).
      destruct (str_eqb (ascii_lower value) s_url) eqn:Eu; cbn [andb] in H.
      * rewrite url_is_unquoted_spec in H.
        set (qc := match S.skip_ws r2 with c :: _ => S.quote c | [] => false end) in *.
        assert (Hcond : forall (A : Type) (x y : A),
           match S.drop_ws_but_one r2 with
           | a :: b :: _ => if S.quote a || S.whitespace a && S.quote b then x else y
           | [a] => if S.quote a then x else y
           | [] => y
           end = if qc then x else y).
        { intros A x y. rewrite <- Hq. destruct (S.drop_ws_but_one r2) as [|a [|b l]]; reflexivity. }
        rewrite Hcond. destruct qc eqn:Eqc; cbn [negb] in H.
        -- inversion H; subst. cbn [fst snd]. exists r2. split; [reflexivity|split; [exact Hwe|exact Sd]].
        -- destruct (consume_url true f p r2) as [[[v e] r3]| |] eqn:Ec; try discriminate.
           cbn [bind] in H. inversion H; subst.
           assert (Hsame : S.consume_url g (S.drop_ws_but_one r2) = S.consume_url g r2).
           { unfold S.consume_url. destruct Hwe as [Hw _]. rewrite <- Hw. reflexivity. }
           rewrite Hsame.
           pose proof (consume_url_spec f g p r2 v e r3) as X.
           assert (tok_out (fst (S.consume_url g r2)) (snd (S.consume_url g r2)) (LTok (opt_list v ++ opt_list e) r3)) as Y.
           { apply X; [eapply scalars_suffix; eassumption|lia|lia| |exact Ec].
             rewrite url_is_unquoted_spec. fold qc. rewrite Eqc. reflexivity. }
           destruct (S.consume_url g r2) as [t rS] eqn:Ecu. cbn [fst snd] in *.
           assert (Ht : t = S.SBadUrl \/ exists v0 b0, t = S.SUrl v0 b0).
           { unfold S.consume_url in Ecu. destruct (S.url_body g (S.skip_ws r2)) as [[[v0 b0]|] r0];
               inversion Ecu; eauto. }
           destruct Ht as [->|(v0 & b0 & ->)]; exact Y.
      * inversion H; subst. cbn [fst snd]. exists r2. split; [reflexivity|split; [apply ws_equiv_refl|apply suffix_refl]].
    + inversion H; subst. cbn [fst snd]. exists [TIdent p value]. split; reflexivity.
Qed.

Lemma try_consume_number_spec f g p rest : scalars rest -> (length rest < f)%nat -> (length rest <= g)%nat ->
  match try_consume_number true f p rest with
  | Ok (Some (t, r')) =>
      S.starts_number rest = true /\
      tok_out (fst (S.consume_numeric g rest)) (snd (S.consume_numeric g rest)) (LTok [t] r')
  | Ok None => S.starts_number rest = false
  | _ => False
  end.
Proof.
  intros Hs Hf Hg. unfold try_consume_number, S.consume_numeric.
  pose proof (scan_number_spec rest) as Hn.
  destruct (scan_number rest) as [[repr r1]|] eqn:Esn; [|exact Hn].
  destruct Hn as (Hsn & integer & Hcn & Hfl). rewrite Hcn.
  apply scan_number_psuffix in Esn.
  assert (S1 : suffix r1 rest) by auto with sfx.
  rewrite is_ident_start_guard_spec. cbn [bind].
  destruct (S.starts_ident r1) eqn:Esi.
  - destruct (consume_ident_ok f r1) as (u & r2 & E).
    { apply psuffix_length in Esn. lia. }
    rewrite E. cbn [bind]. split; [exact Hsn|].
    rewrite (consume_ident_spec f g r1 u r2); [| |apply suffix_length in S1; lia|exact E].
    + cbn [fst snd]. eexists; split; [reflexivity|]. simpl. rewrite Hfl. reflexivity.
    + eapply scalars_suffix; eassumption.
  - destruct r1 as [|c r2].
    + split; [exact Hsn|]. cbn [fst snd]. eexists; split; [reflexivity|]. simpl. rewrite Hfl. reflexivity.
    + destruct (c =? 37).
      * split; [exact Hsn|]. cbn [fst snd]. eexists; split; [reflexivity|]. simpl. rewrite Hfl. reflexivity.
      * split; [exact Hsn|]. cbn [fst snd]. eexists; split; [reflexivity|]. simpl. rewrite Hfl. reflexivity.
Qed.

(* comments *)
Lemma find_comment_end_spec l :
  match find_comment_end l with
  | Some (txt, r') => S.comment_body l = (txt, false, r')
  | None => S.comment_body l = (l, true, [])
  end.
Proof.
  induction l as [|c r IH]; [reflexivity|].
  cbn [find_comment_end S.comment_body].
  assert (Hp : has_prefix [42; 47] (c :: r) = (c =? 42) && match r with d :: _ => d =? 47 | [] => false end).
  { change (has_prefix [42; 47] (c :: r)) with ((42 =? c) && has_prefix [47] r). rewrite has_prefix_1.
    rewrite (N.eqb_sym 42 c). destruct r as [|d r']; [reflexivity|]. rewrite (N.eqb_sym 47 d). reflexivity. }
  rewrite Hp. destruct ((c =? 42) && _); [reflexivity|].
  destruct (find_comment_end r) as [[txt r']|]; rewrite IH; reflexivity.
Qed.

Ltac resolve_if :=
  match goal with
  | |- context [if ?b then _ else _] =>
      first [ replace b with false by lia | replace b with true by lia ]
  end.

Ltac unfold_classes :=
  unfold S.whitespace, S.newline, S.quote, S.digit, S.ident_start, S.letter, S.non_ascii,
         is_space, is_digit, is_lower, is_upper in *.

Definition plain (t : S.stoken) : bool :=
  match t with
  | S.SComment _ _ | S.SLParen | S.SLBracket | S.SLBrace | S.SFunction _
  | S.SRParen | S.SRBracket | S.SRBrace => false
  | _ => true
  end.

Lemma lex_rel_plain skip endc p t rS lx : plain t = true -> tok_out t rS lx -> lex_rel skip endc p t rS lx.
Proof. destruct t; simpl; intros Hp Ht; try discriminate; exact Ht. Qed.

Lemma consume_numeric_plain g rest : plain (fst (S.consume_numeric g rest)) = true.
Proof.
  unfold S.consume_numeric. destruct (S.consume_number rest) as [[repr i] r].
  destruct (S.starts_ident r).
  - destruct (S.ident_sequence g r); reflexivity.
  - destruct r as [|c r']; [reflexivity|]. destruct (c =? 37); reflexivity.
Qed.

Lemma has_prefix_cdc c r : has_prefix s_cdc (c :: r) =
  (c =? 45) && match r with a :: b :: _ => (a =? 45) && (b =? 62) | _ => false end.
Proof.
  unfold s_cdc. change (has_prefix [45; 45; 62] (c :: r)) with ((45 =? c) && has_prefix [45; 62] r).
  rewrite (N.eqb_sym 45 c). f_equal. destruct r as [|a r1]; [reflexivity|].
  change (has_prefix [45; 62] (a :: r1)) with ((45 =? a) && has_prefix [62] r1).
  rewrite has_prefix_1. rewrite (N.eqb_sym 45 a). destruct r1 as [|b r2]; [apply andb_false_r|].
  rewrite (N.eqb_sym 62 b). reflexivity.
Qed.

Lemma has_prefix_cdo c r : has_prefix s_cdo (c :: r) =
  (c =? 60) && match r with a :: b :: d :: _ => (a =? 33) && (b =? 45) && (d =? 45) | _ => false end.
Proof.
  unfold s_cdo. change (has_prefix [60; 33; 45; 45] (c :: r)) with ((60 =? c) && has_prefix [33; 45; 45] r).
  rewrite (N.eqb_sym 60 c). f_equal. destruct r as [|a r1]; [reflexivity|].
  change (has_prefix [33; 45; 45] (a :: r1)) with ((33 =? a) && has_prefix [45; 45] r1).
  rewrite (N.eqb_sym 33 a). destruct r1 as [|b r2]; [apply andb_false_r|].
  change (has_prefix [45; 45] (b :: r2)) with ((45 =? b) && has_prefix [45] r2).
  rewrite has_prefix_1. rewrite (N.eqb_sym 45 b). destruct r2 as [|d r3]; [rewrite !andb_false_r; reflexivity|].
  rewrite (N.eqb_sym 45 d). rewrite andb_assoc. reflexivity.
Qed.

Lemma has_prefix_2 x y c r : has_prefix [x; y] (c :: r) = (c =? x) && match r with d :: _ => d =? y | [] => false end.
Proof.
  change (has_prefix [x; y] (c :: r)) with ((x =? c) && has_prefix [y] r). rewrite has_prefix_1.
  rewrite (N.eqb_sym x c). destruct r as [|d r']; [reflexivity|]. rewrite (N.eqb_sym y d). reflexivity.
Qed.

Lemma starts_ident_not_number r : S.starts_ident (45 :: r) = true -> S.starts_number (45 :: r) = false.
Proof.
  unfold S.starts_ident, S.starts_number. change (N.eqb 45 45) with true. change (N.eqb 45 43) with false. cbv match.
  simpl orb. cbv match.
  destruct r as [|d r']; [reflexivity|].
  unfold S.valid_escape, S.ident_start, S.letter, S.non_ascii, S.digit, S.newline.
  destruct r' as [|e r'']; intros H; lia.
Qed.

Ltac resolve_if' :=
  match goal with
  | |- context [if ?b then _ else _] =>
      first [ replace b with false by lia | replace b with true by lia ]
  end; cbv match.

Ltac spec_chain :=
  unfold S.whitespace, S.newline, S.quote, S.digit, S.ident_start, S.letter, S.non_ascii;
  repeat resolve_if'; cbn [fst snd].

Lemma lex1_spec skip f g endc p c r lx :
  scalars (c :: r) -> c <> 0 -> (length (c :: r) < f)%nat -> (length (c :: r) <= g)%nat ->
  (endc = 0 \/ endc = 41 \/ endc = 93 \/ endc = 125) ->
  lex1 true skip f endc p (c :: r) = Ok lx ->
  lex_rel skip endc p (fst (S.consume_token g (c :: r))) (snd (S.consume_token g (c :: r))) lx.
Proof.
  intros Hs Hc0 Hf Hg Hendc H.
  assert (Hsr : scalars r) by (inversion Hs; assumption).
  assert (Hsc : scalar c) by (inversion Hs; assumption).
  unfold lex1 in H. unfold S.consume_token.
  (* 1. whitespace *)
  destruct (is_space c) eqn:Esp.
  { rewrite span_spec in H.
    assert (Hw : S.while_ is_space r = S.while_ S.whitespace r).
    { clear. induction r as [|d r IH]; [reflexivity|]. simpl. rewrite IH, is_space_spec. reflexivity. }
    rewrite Hw in H. unfold S.skip_ws.
    destruct (S.while_ S.whitespace r) as [ws r'] eqn:Ew. inversion H; subst.
    unfold is_space in Esp.
    spec_chain. eexists; split; reflexivity. }
  unfold is_space in Esp.
  (* 2. unicode-range *)
  destruct (if (c =? 85) || (c =? 117) then try_consume_unicode_range p (c :: r) else None) as [[t r']|] eqn:Eu.
  { destruct ((c =? 85) || (c =? 117)) eqn:EU; [|discriminate].
    unfold try_consume_unicode_range in Eu. destruct r as [|c1 [|c2 r2]]; try discriminate.
    destruct ((c1 =? 43) && (is_hex c2 || (c2 =? 63))) eqn:Ec; [|discriminate].
    destruct (consume_unicode_range_spec c2 r2) as (s & e & r3 & E1 & E2); [lia|].
    rewrite E1 in Eu. inversion Eu; subst. inversion H; subst.
    rewrite is_hex_spec in Ec.
    spec_chain. rewrite E2. cbn [fst snd]. eexists; split; reflexivity. }
  (* 3. CDC *)
  rewrite has_prefix_cdc in H.
  destruct ((c =? 45) && _) eqn:Ecdc.
  { inversion H; subst. destruct r as [|a [|b r']]; try (simpl in Ecdc; lia).
    assert (Esn : S.starts_number (c :: a :: b :: r') = false).
    { unfold S.starts_number, S.digit. replace ((c =? 43) || (c =? 45)) with true by lia. cbv match. lia. }
    spec_chain.
    change (skipn 3 (c :: a :: b :: r')) with r'. eexists; split; reflexivity. }
  (* 4. identifiers *)
  rewrite is_ident_start_spec in H. cbn [bind] in H.
  destruct (S.starts_ident (c :: r)) eqn:Esi.
  { pose proof (lex_ident_like_spec skip endc f g p (c :: r) lx Hs Hf Hg H) as X.
    destruct (c =? 45) eqn:E45.
    - apply N.eqb_eq in E45; subst c.
      pose proof (starts_ident_not_number r Esi) as Esn.
      destruct r as [|a [|b r']]; simpl in Ecdc; spec_chain; exact X.
    - destruct (c =? 92) eqn:E92.
      + apply N.eqb_eq in E92; subst c.
        assert (Eve : S.valid_escape (92 :: r) = true) by exact Esi.
        spec_chain. exact X.
      + assert (Eis : S.ident_start c = true).
        { unfold S.starts_ident in Esi. rewrite E45, E92 in Esi. exact Esi. }
        unfold S.ident_start, S.letter, S.non_ascii in Eis.
        destruct ((c =? 85) || (c =? 117)) eqn:EU.
        * unfold try_consume_unicode_range in Eu.
          destruct r as [|a [|d r']].
          -- spec_chain. exact X.
          -- spec_chain. exact X.
          -- destruct ((a =? 43) && (is_hex d || (d =? 63))) eqn:Ec.
             ++ destruct (consume_unicode_range (d :: r')) as [[[s e]|] r3]; discriminate.
             ++ rewrite is_hex_spec in Ec. spec_chain. exact X.
        * spec_chain. exact X. }
  (* 5. numbers *)
  pose proof (try_consume_number_spec f g p (c :: r) Hs Hf Hg) as Xn.
  destruct (try_consume_number true f p (c :: r)) as [[[t r']|]| |]; try contradiction.
  { cbn [bind] in H. inversion H; subst. destruct Xn as [Esn Xn].
    apply (lex_rel_plain skip endc p) in Xn; [|apply consume_numeric_plain].
    assert (Hcl : c = 43 \/ c = 45 \/ c = 46 \/ S.digit c = true).
    { unfold S.starts_number in Esn. destruct ((c =? 43) || (c =? 45)) eqn:E1; [lia|].
      destruct (c =? 46) eqn:E2; [lia|]. auto. }
    destruct Hcl as [->|[->|[->|Hd]]].
    - spec_chain. exact Xn.
    - spec_chain. exact Xn.
    - spec_chain. exact Xn.
    - unfold S.digit in Hd. spec_chain. exact Xn. }
  cbn [bind] in H. rename Xn into Esn.
  unfold lex1_punct in H.
  assert (Hgr : (length r <= g)%nat) by (simpl in Hg; lia).
  assert (Hfr : (length r < f)%nat) by (simpl in Hf; lia).
  (* @ *)
  destruct (c =? 64) eqn:E64.
  { apply N.eqb_eq in E64; subst c. rewrite is_ident_start_guard_spec in H. cbn [bind] in H.
    destruct (S.starts_ident r) eqn:Esr.
    - destruct (consume_ident f r) as [[v r']| |] eqn:Ei; try discriminate. cbn [bind] in H. inversion H; subst.
      spec_chain. rewrite (consume_ident_spec f g r v r' Hsr Hgr Ei). cbn [fst snd].
      eexists; split; reflexivity.
    - inversion H; subst. spec_chain. eexists; split; reflexivity. }
  (* # *)
  destruct (c =? 35) eqn:E35.
  { apply N.eqb_eq in E35; subst c. unfold try_consume_hash in H. destruct r as [|d r'].
    - cbn [bind] in H. inversion H; subst. spec_chain. unfold S.valid_escape. cbv match. spec_chain.
      eexists; split; reflexivity.
    - assert (Hc : is_digit d || is_lower d || is_upper d || (d =? 45) || (d =? 95) || (127 <? d)
                   || valid_escape_at (d :: r') = S.ident_char d || S.valid_escape (d :: r')).
      { rewrite valid_escape_at_spec.
        unfold S.ident_char, S.ident_start, S.letter, S.non_ascii, S.digit, is_digit, is_lower, is_upper. lia. }
      rewrite Hc in H. destruct (S.ident_char d || S.valid_escape (d :: r')) eqn:Eh.
      + rewrite is_ident_start_spec in H. cbn [bind] in H.
        destruct (consume_ident f (d :: r')) as [[v r2]| |] eqn:Ei; try discriminate.
        cbn [bind] in H. inversion H; subst.
        spec_chain. rewrite (consume_ident_spec f g (d :: r') v r2 Hsr Hgr Ei). cbn [fst snd].
        eexists; split; reflexivity.
      + cbn [bind] in H. inversion H; subst. spec_chain. eexists; split; reflexivity. }
  destruct (c =? 123) eqn:E123.
  { apply N.eqb_eq in E123; subst c. inversion H; subst. spec_chain. reflexivity. }
  destruct (c =? 91) eqn:E91.
  { apply N.eqb_eq in E91; subst c. inversion H; subst. spec_chain. reflexivity. }
  destruct (c =? 40) eqn:E40.
  { apply N.eqb_eq in E40; subst c. inversion H; subst. spec_chain. reflexivity. }
  destruct (c =? 0) eqn:E0; [lia|].
  destruct (c =? endc) eqn:Eend.
  { inversion H; subst. apply N.eqb_eq in Eend. subst endc.
    destruct Hendc as [->|[->|[->| ->]]]; [lia| | |]; spec_chain; reflexivity. }
  destruct ((c =? 125) || (c =? 93) || (c =? 41)) eqn:Ecl.
  { inversion H; subst.
    assert (Hcl : c = 125 \/ c = 93 \/ c = 41) by lia.
    destruct Hcl as [->|[->| ->]]; spec_chain; unfold lex_rel.
    - replace (125 =? endc) with false by lia. reflexivity.
    - replace (93 =? endc) with false by lia. reflexivity.
    - replace (41 =? endc) with false by lia. reflexivity. }
  (* strings *)
  destruct ((c =? 39) || (c =? 34)) eqn:Eq.
  { unfold consume_quoted_string, index in H. cbn [nth_error Z.to_nat Z.ltb Z.compare bind tl] in H.
    destruct (quoted_loop f c r) as [[[[v a] e] r']| |] eqn:Eql; try discriminate.
    cbn [bind] in H. inversion H; subst.
    destruct (quoted_loop_spec f g c r v a e r' Hsr Hgr Eql) as (v' & o & Esb & Hcase).
    assert (Hcs : fst (S.consume_string g c r) = (if o =? 2 then S.SBadString else S.SString v' (o =? 1)) /\
                  snd (S.consume_string g c r) = r').
    { unfold S.consume_string. rewrite Esb. destruct (o =? 2); split; reflexivity. }
    destruct Hcs as [Hc1 Hc2].
    assert (Hgoal : lex_rel skip endc p (fst (S.consume_string g c r)) (snd (S.consume_string g c r))
       (LTok ((if a then [TString p v (negb (e =? 0))] else []) ++ (if negb (e =? 0) then [TParseError p e] else [])) r')).
    { rewrite Hc1, Hc2.
      destruct Hcase as [(-> & -> & [[-> ->]|[-> ->]])|(-> & -> & ->)]; eexists; split; reflexivity. }
    assert (Hq : c = 39 \/ c = 34) by lia.
    destruct Hq as [->| ->]; spec_chain; exact Hgoal. }
  (* comments *)
  rewrite has_prefix_2 in H.
  destruct ((c =? 47) && match r with d :: _ => d =? 42 | [] => false end) eqn:Ecm.
  { assert (c = 47) by lia. subst c.
    pose proof (find_comment_end_spec (tl r)) as Xc.
    destruct (find_comment_end (tl r)) as [[txt r']|] eqn:Efc; inversion H; subst;
      spec_chain; rewrite Xc; cbn [fst snd]; simpl; auto. }
  (* delimiters *)
  unfold consume_delim, index in H. cbn [nth_error Z.to_nat Z.ltb Z.compare bind tl] in H.
  rewrite has_prefix_cdo, has_prefix_2, has_prefix_1 in H.
  destruct ((c =? 60) && _) eqn:Ecdo.
  { inversion H; subst. assert (c = 60) by lia. subst c.
    destruct r as [|a [|b [|d r']]]; try (simpl in Ecdo; lia).
    spec_chain. change (skipn 4 (60 :: a :: b :: d :: r')) with r'. eexists; split; reflexivity. }
  destruct ((c =? 124) && _) eqn:Ecol.
  { inversion H; subst. assert (c = 124) by lia. subst c.
    destruct r as [|a r']; [simpl in Ecol; lia|].
    spec_chain. change (skipn 2 (124 :: a :: r')) with r'. eexists; split; reflexivity. }
  destruct ((c =? 126) || (c =? 124) || (c =? 94) || (c =? 36) || (c =? 42)) eqn:Eop.
  { destruct r as [|a r'].
    - inversion H; subst.
      assert (Hop : c = 126 \/ c = 124 \/ c = 94 \/ c = 36 \/ c = 42) by lia.
      destruct Hop as [->|[->|[->|[->| ->]]]]; spec_chain; eexists; split; reflexivity.
    - rewrite (N.eqb_sym 61 a) in H. destruct (a =? 61) eqn:Ea; inversion H; subst;
      assert (Hop : c = 126 \/ c = 124 \/ c = 94 \/ c = 36 \/ c = 42) by lia;
      destruct Hop as [->|[->|[->|[->| ->]]]]; spec_chain; eexists; split; reflexivity. }
  inversion H; subst. rewrite (write_rune_scalar _ Hsc).
  destruct (c =? 43) eqn:E43; [assert (c = 43) by lia; subst c; spec_chain; eexists; split; reflexivity|].
  destruct (c =? 44) eqn:E44; [assert (c = 44) by lia; subst c; spec_chain; eexists; split; reflexivity|].
  destruct (c =? 45) eqn:E45.
  { assert (c = 45) by lia; subst c.
    destruct r as [|a [|b r']]; simpl in Ecdc; spec_chain; eexists; split; reflexivity. }
  destruct (c =? 46) eqn:E46; [assert (c = 46) by lia; subst c; spec_chain; eexists; split; reflexivity|].
  destruct (c =? 58) eqn:E58; [assert (c = 58) by lia; subst c; spec_chain; eexists; split; reflexivity|].
  destruct (c =? 59) eqn:E59; [assert (c = 59) by lia; subst c; spec_chain; eexists; split; reflexivity|].
  destruct (c =? 60) eqn:E60.
  { assert (c = 60) by lia; subst c.
    destruct r as [|a [|b [|d r']]]; simpl in Ecdo; spec_chain; eexists; split; reflexivity. }
  destruct (c =? 92) eqn:E92.
  { assert (c = 92) by lia; subst c.
    assert (Eve : S.valid_escape (92 :: r) = false) by exact Esi.
    spec_chain; eexists; split; reflexivity. }
  assert (Eis : S.ident_start c = false).
  { unfold S.starts_ident in Esi. rewrite E45, E92 in Esi. exact Esi. }
  assert (Edg : S.digit c = false).
  { unfold S.starts_number in Esn. replace ((c =? 43) || (c =? 45)) with false in Esn by lia.
    rewrite E46 in Esn. exact Esn. }
  unfold S.ident_start, S.letter, S.non_ascii in Eis. unfold S.digit in Edg.
  spec_chain. eexists; split; reflexivity.
Qed.
