(* Css/WhitespaceProofs.v -- properties of the white-space phase I model. *)
From Verif Require Import Css.Whitespace Css.WhitespaceSpec.
From Coq Require Import List NArith Bool Lia.
Import ListNotations.
Local Open Scope N_scope.

Lemma non_ws_app a b : non_ws (a ++ b) = non_ws a ++ non_ws b.
Proof. apply filter_app. Qed.

Lemma blank_is_ws c : is_blank c = true -> is_ws c = true.
Proof.
  unfold is_blank, is_ws. rewrite !orb_true_iff. intros [H|H]; rewrite H; cbn; auto.
Qed.

Lemma non_ws_blanks l : forallb is_blank l = true -> non_ws l = [].
Proof.
  induction l as [|c l IH]; cbn; auto. rewrite andb_true_iff. intros [H1 H2].
  rewrite (blank_is_ws _ H1). cbn. auto.
Qed.

(* ---------------------------------------------------------------- each pass keeps the non-space characters *)

Lemma non_ws_cons_ws c l : is_ws c = true -> non_ws (c :: l) = non_ws l.
Proof. intros H. unfold non_ws. cbn [filter]. rewrite H. reflexivity. Qed.
Lemma non_ws_cons_nws c l : is_ws c = false -> non_ws (c :: l) = c :: non_ws l.
Proof. intros H. unfold non_ws. cbn [filter]. rewrite H. reflexivity. Qed.

Lemma norm_lf_non_ws l : non_ws (norm_lf l) = non_ws l.
Proof.
  assert (G : forall n l, (length l <= n)%nat -> non_ws (norm_lf l) = non_ws l).
  { induction n as [|n IH]; intros [|c r] Hn; cbn [length] in Hn; try reflexivity; try lia.
    cbn [norm_lf]. destruct (N.eqb_spec c CR) as [->|Hc].
    - rewrite (non_ws_cons_ws LF), (non_ws_cons_ws CR) by reflexivity.
      destruct r as [|c' r']; [reflexivity|].
      destruct (N.eqb_spec c' LF) as [->|Hc'].
      + rewrite (non_ws_cons_ws LF) by reflexivity. apply IH. cbn [length] in Hn. lia.
      + apply IH. lia.
    - destruct (is_ws c) eqn:W.
      + rewrite !non_ws_cons_ws by auto. apply IH. lia.
      + rewrite !non_ws_cons_nws by auto. f_equal. apply IH. lia. }
  apply (G (length l)). lia.
Qed.

Lemma tab_re_from_non_ws l : forall pend after_nl,
  forallb is_blank pend = true ->
  non_ws (tab_re_from pend after_nl l) = non_ws l.
Proof.
  induction l as [|c r IH]; intros pend a Hp; cbn [tab_re_from].
  - apply non_ws_blanks; auto.
  - destruct (N.eqb_spec c LF) as [->|Hc].
    + rewrite !(non_ws_cons_ws LF) by reflexivity. apply IH. reflexivity.
    + destruct (is_blank c) eqn:B.
      * pose proof (blank_is_ws _ B) as W. rewrite (non_ws_cons_ws c) by auto.
        destruct a; apply IH; auto.
        rewrite forallb_app, Hp. cbn [forallb]. rewrite B. reflexivity.
      * rewrite non_ws_app, (non_ws_blanks _ Hp). cbn [app].
        destruct (is_ws c) eqn:W.
        -- rewrite !non_ws_cons_ws by auto. apply IH. reflexivity.
        -- rewrite !non_ws_cons_nws by auto. f_equal. apply IH. reflexivity.
Qed.

Lemma tab_re_non_ws l : non_ws (tab_re l) = non_ws l.
Proof. apply tab_re_from_non_ws. reflexivity. Qed.

Lemma nl_to_space_non_ws l : non_ws (nl_to_space l) = non_ws l.
Proof.
  induction l as [|c r IH]; cbn [nl_to_space map]; auto.
  destruct (N.eqb_spec c LF) as [->|Hc].
  - rewrite (non_ws_cons_ws SP), (non_ws_cons_ws LF) by reflexivity. exact IH.
  - destruct (is_ws c) eqn:W.
    + rewrite !non_ws_cons_ws by auto. exact IH.
    + rewrite !non_ws_cons_nws by auto. f_equal. exact IH.
Qed.

Lemma space_re_from_non_ws l : forall b, non_ws (space_re_from b l) = non_ws l.
Proof.
  induction l as [|c r IH]; intros b; cbn [space_re_from]; auto.
  destruct (is_blank c) eqn:B.
  - pose proof (blank_is_ws _ B) as W. rewrite (non_ws_cons_ws c) by auto.
    destruct b; [apply IH|]. rewrite (non_ws_cons_ws SP) by reflexivity. apply IH.
  - destruct (is_ws c) eqn:W.
    + rewrite !non_ws_cons_ws by auto. apply IH.
    + rewrite !non_ws_cons_nws by auto. f_equal. apply IH.
Qed.

Lemma tl_sp_non_ws l : has_prefix_sp l = true -> non_ws (tl l) = non_ws l.
Proof.
  destruct l as [|c r]; cbn [has_prefix_sp tl]; [discriminate|]. intros H. apply N.eqb_eq in H. subst.
  rewrite (non_ws_cons_ws SP) by reflexivity. reflexivity.
Qed.

Theorem process_text_non_ws m f t : non_ws (fst (process_text m f t)) = non_ws t.
Proof.
  unfold process_text. destruct t as [|c r]; [reflexivity|]. set (t := c :: r).
  destruct (space_collapse m) eqn:SC.
  - cbn [fst].
    assert (E : non_ws (space_re (if new_line_collapse m then nl_to_space (tab_re (norm_lf t)) else tab_re (norm_lf t))) = non_ws t).
    { unfold space_re. rewrite space_re_from_non_ws.
      destruct (new_line_collapse m); rewrite ?nl_to_space_non_ws, tab_re_non_ws, norm_lf_non_ws; reflexivity. }
    destruct f; cbn [andb]; auto.
    destruct (has_prefix_sp _) eqn:P; auto. rewrite tl_sp_non_ws; auto.
  - cbn [fst]. destruct (new_line_collapse m); rewrite ?nl_to_space_non_ws, norm_lf_non_ws; reflexivity.
Qed.

(* ---------------------------------------------------------------- trees *)

Definition tree_non_ws (b : inl) : list rune := flat_map (fun mt => non_ws (snd mt)) (texts b).

Lemma flat_map_app' {A B} (f : A -> list B) l1 l2 : flat_map f (l1 ++ l2) = flat_map f l1 ++ flat_map f l2.
Proof. apply flat_map_app. Qed.

(* a stronger induction principle for inl (nested lists) *)
Fixpoint inl_size (b : inl) : nat :=
  match b with
  | IBox ks => S (fold_right (fun k a => (inl_size k + a)%nat) 0%nat ks)
  | _ => 1%nat
  end.

Lemma inl_ind' (P : inl -> Prop) :
  (forall m t, P (IText m t)) -> P IAtom ->
  (forall ks, Forall P ks -> P (IBox ks)) -> forall b, P b.
Proof.
  intros HT HA HB.
  fix IH 1. intros [m t|ks|]; [apply HT| |exact HA]. apply HB.
  induction ks as [|k r IHr]; constructor; [apply IH|exact IHr].
Qed.

Lemma pw_box ks f : pw f (IBox ks) = let '(ks', f') := pw_list pw f ks in (IBox ks', f').
Proof. reflexivity. Qed.

Theorem pw_non_ws b : forall f, tree_non_ws (fst (pw f b)) = tree_non_ws b.
Proof.
  induction b as [m t| |ks IH] using inl_ind'; intros f.
  - cbn [pw]. destruct (process_text m f t) as [t' f'] eqn:E. cbn.
    rewrite !app_nil_r. change t' with (fst (t', f')). rewrite <- E. apply process_text_non_ws.
  - reflexivity.
  - rewrite pw_box. destruct (pw_list pw f ks) as [ks' f'] eqn:E. cbn [fst].
    unfold tree_non_ws. cbn [texts].
    revert f ks' f' E. induction IH as [|k r Hk Hr IHr]; intros f ks' f' E; cbn in E.
    + injection E as <- <-. reflexivity.
    + destruct k as [m t|kk|].
      * destruct (pw f (IText m t)) as [k' f1] eqn:E1. destruct (pw_list pw f1 r) as [r' f2] eqn:E2.
        injection E as <- <-. cbn [flat_map]. rewrite !flat_map_app.
        rewrite (IHr _ _ _ E2). f_equal.
        specialize (Hk f). rewrite E1 in Hk. exact Hk.
      * destruct (pw f (IBox kk)) as [k' f1] eqn:E1. destruct (pw_list pw f1 r) as [r' f2] eqn:E2.
        injection E as <- <-. cbn [flat_map]. rewrite !flat_map_app.
        rewrite (IHr _ _ _ E2). f_equal.
        specialize (Hk f). rewrite E1 in Hk. exact Hk.
      * destruct (pw_list pw false r) as [r' f2] eqn:E2. injection E as <- <-.
        cbn [flat_map]. rewrite !flat_map_app. rewrite (IHr _ _ _ E2). reflexivity.
Qed.

Theorem build_non_ws b : tree_non_ws (build b) = tree_non_ws b.
Proof.
  induction b as [m t| |ks IH] using inl_ind'; try reflexivity.
  cbn [build]. rewrite pw_non_ws. unfold tree_non_ws. cbn [texts].
  induction IH as [|k r Hk Hr IHr]; cbn; auto.
  rewrite !flat_map_app. rewrite IHr. f_equal. exact Hk.
Qed.

(* ================================================================== normal forms and idempotence *)

Definition cr_free (l : list rune) : Prop := Forall (fun c => c <> CR) l.
Definition lf_free (l : list rune) : Prop := Forall (fun c => c <> LF) l.

Lemma norm_lf_cr_free l : cr_free (norm_lf l).
Proof.
  assert (G : forall n l, (length l <= n)%nat -> cr_free (norm_lf l)).
  { induction n as [|n IH]; intros [|c r] Hn; cbn [length] in Hn; try (constructor; fail); try lia.
    cbn [norm_lf]. destruct (N.eqb_spec c CR) as [->|Hc].
    - constructor; [discriminate|]. destruct r as [|c' r']; [constructor|].
      destruct (N.eqb_spec c' LF); apply IH; cbn [length] in *; lia.
    - constructor; auto. apply IH. lia. }
  apply (G (length l)). lia.
Qed.

Lemma norm_lf_id l : cr_free l -> norm_lf l = l.
Proof.
  induction 1 as [|c r Hc Hr IH]; cbn [norm_lf]; auto.
  destruct (N.eqb_spec c CR); [contradiction|]. f_equal. exact IH.
Qed.

Lemma Forall_tl {A} (P : A -> Prop) l : Forall P l -> Forall P (tl l).
Proof. destruct 1; cbn; auto. Qed.

Lemma tab_re_from_forall (P : rune -> Prop) l : forall pend a,
  P LF -> Forall P pend -> Forall P l -> Forall P (tab_re_from pend a l).
Proof.
  induction l as [|c r IH]; intros pend a HLF Hp Hl; cbn [tab_re_from]; auto.
  inversion Hl; subst.
  destruct (N.eqb c LF).
  - constructor; auto.
  - destruct (is_blank c).
    + destruct a; apply IH; auto. apply Forall_app; auto.
    + apply Forall_app. split; auto.
Qed.

Lemma tab_re_from_lf_free l : forall pend, lf_free l -> tab_re_from pend false l = pend ++ l.
Proof.
  induction l as [|c r IH]; intros pend Hl; cbn [tab_re_from].
  - now rewrite app_nil_r.
  - inversion Hl; subst. destruct (N.eqb_spec c LF); [contradiction|].
    destruct (is_blank c).
    + rewrite IH; auto. rewrite <- app_assoc. reflexivity.
    + rewrite (IH []); auto.
Qed.

Lemma tab_re_id l : lf_free l -> tab_re l = l.
Proof. intros H. unfold tab_re. now rewrite tab_re_from_lf_free. Qed.

Lemma nl_to_space_lf_free l : lf_free (nl_to_space l).
Proof.
  induction l as [|c r IH]; cbn; constructor; auto.
  destruct (N.eqb_spec c LF); [discriminate|auto].
Qed.

Lemma nl_to_space_id l : lf_free l -> nl_to_space l = l.
Proof.
  induction 1 as [|c r Hc Hr IH]; cbn; auto.
  destruct (N.eqb_spec c LF); [contradiction|]. f_equal. exact IH.
Qed.

Lemma nl_to_space_forall (P : rune -> Prop) l : P SP -> Forall P l -> Forall P (nl_to_space l).
Proof.
  intros HS. induction 1 as [|c r Hc Hr IH]; cbn; constructor; auto.
  destruct (N.eqb c LF); auto.
Qed.

Lemma space_re_from_forall (P : rune -> Prop) l : forall b, P SP -> Forall P l -> Forall P (space_re_from b l).
Proof.
  induction l as [|c r IH]; intros b HS Hl; cbn [space_re_from]; auto.
  inversion Hl; subst. destruct (is_blank c).
  - destruct b; auto.
  - constructor; auto.
Qed.

(* space_re normal form: no tab, no two adjacent spaces; `after` = the previous
   character was a space *)
Fixpoint snf (after : bool) (l : list rune) : Prop :=
  match l with
  | [] => True
  | c :: r => c <> TAB /\ (after = true -> c <> SP) /\ snf (N.eqb c SP) r
  end.

Lemma is_blank_spec c : is_blank c = true <-> c = SP \/ c = TAB.
Proof. unfold is_blank. rewrite orb_true_iff, !N.eqb_eq. tauto. Qed.

Lemma space_re_from_snf l : forall b, snf b (space_re_from b l).
Proof.
  induction l as [|c r IH]; intros b; cbn [space_re_from]; [exact I|].
  destruct (is_blank c) eqn:B.
  - destruct b; [apply IH|]. cbn [snf]. repeat split; try discriminate. apply IH.
  - assert (c <> SP /\ c <> TAB).
    { split; intros ->; cbn in B; discriminate. }
    cbn [snf]. repeat split; try tauto.
    destruct (N.eqb_spec c SP); [tauto|]. apply IH.
Qed.

Lemma space_re_from_id l : forall b, snf b l -> space_re_from b l = l.
Proof.
  induction l as [|c r IH]; intros b H; cbn [space_re_from]; auto.
  cbn [snf] in H. destruct H as (H1 & H2 & H3).
  destruct (is_blank c) eqn:B.
  - apply is_blank_spec in B as [-> | ->]; [|contradiction].
    destruct b; [exfalso; apply H2; auto|]. f_equal. apply IH. exact H3.
  - f_equal. apply IH. destruct (N.eqb_spec c SP) as [->|]; [cbn in B; discriminate|]. exact H3.
Qed.

Lemma snf_tl l : snf false l -> snf false (tl l).
Proof.
  destruct l as [|c r]; cbn; auto. intros (H1 & H2 & H3).
  destruct r as [|c' r']; cbn in *; auto. destruct H3 as (A & B & C). repeat split; auto. discriminate.
Qed.

Lemma process_text_core m f t : t <> [] ->
  process_text m f t =
  if space_collapse m then
    (if f && has_prefix_sp (core m t) then tl (core m t) else core m t, has_suffix_sp (core m t))
  else (core m t, false).
Proof.
  intros Hne. unfold process_text, core. destruct t as [|c r]; [contradiction|].
  destruct (space_collapse m); reflexivity.
Qed.

Lemma core_cr_free m t : cr_free (core m t).
Proof.
  unfold core. pose proof (norm_lf_cr_free t) as H.
  assert (LFCR : LF <> CR) by discriminate. assert (SPCR : SP <> CR) by discriminate.
  destruct (space_collapse m), (new_line_collapse m); auto.
  - apply space_re_from_forall; auto. apply nl_to_space_forall; auto.
    apply tab_re_from_forall; auto.
  - apply space_re_from_forall; auto. apply tab_re_from_forall; auto.
  - apply nl_to_space_forall; auto.
Qed.

(* tab_re normal form: no blank next to a line feed.  pb / pl: the previous
   character was a blank / a line feed *)
Fixpoint tnf (pb pl : bool) (l : list rune) : Prop :=
  match l with
  | [] => True
  | c :: r => (c = LF -> pb = false) /\ (is_blank c = true -> pl = false) /\
              tnf (is_blank c) (N.eqb c LF) r
  end.

Lemma tnf_weaken l : forall pb pl, tnf pb pl l -> tnf false false l.
Proof. destruct l as [|c r]; cbn; auto. intros pb pl (A & B & C). auto. Qed.

Lemma blank_not_lf c : is_blank c = true -> N.eqb c LF = false.
Proof. intros H. apply is_blank_spec in H as [-> | ->]; reflexivity. Qed.

Lemma tnf_blanks pend : forall pb r, forallb is_blank pend = true -> pend <> [] ->
  tnf true false r -> tnf pb false (pend ++ r).
Proof.
  induction pend as [|c p IH]; intros pb r Hb Hne Hr; [contradiction|].
  cbn in Hb. apply andb_true_iff in Hb as [Hc Hp]. cbn [app tnf]. rewrite Hc, (blank_not_lf c Hc).
  split; [intros ->; discriminate|]. split; auto.
  destruct p as [|c' p']; [exact Hr|]. apply IH; auto. discriminate.
Qed.

(* the output of tab_re is in normal form *)
Lemma tab_re_from_tnf l : forall pend after,
  forallb is_blank pend = true -> (after = true -> pend = []) ->
  tnf false after (tab_re_from pend after l).
Proof.
  induction l as [|c r IH]; intros pend after Hp Ha; cbn [tab_re_from].
  - destruct pend as [|x p]; [exact I|].
    assert (after = false) by (destruct after; auto; specialize (Ha eq_refl); discriminate). subst.
    rewrite <- (app_nil_r (x :: p)). apply tnf_blanks; auto. discriminate. exact I.
  - destruct (N.eqb_spec c LF) as [->|Hc].
    + cbn [tnf]. split; auto. split; [discriminate|]. cbn. apply IH; auto.
    + destruct (is_blank c) eqn:B.
      * destruct after.
        -- apply IH; auto.
        -- apply IH; [|discriminate]. rewrite forallb_app, Hp. cbn. rewrite B. reflexivity.
      * assert (T : tnf (match pend with [] => false | _ => true end) false (c :: tab_re_from [] false r)).
        { cbn [tnf]. split; [contradiction|]. split; [congruence|]. rewrite B.
          destruct (N.eqb_spec c LF); [contradiction|]. apply IH; auto; discriminate. }
        destruct pend as [|x p].
        -- cbn [app]. destruct after.
           ++ cbn [tnf] in *. destruct T as (T1 & T2 & T3). split; auto. split; auto. congruence.
           ++ exact T.
        -- assert (after = false) by (destruct after; auto; specialize (Ha eq_refl); discriminate). subst.
           apply tnf_blanks; auto. discriminate.
Qed.

(* ... and tab_re leaves a text in normal form unchanged *)
Lemma tab_re_from_tnf_id l : forall pend after,
  forallb is_blank pend = true ->
  tnf false after (pend ++ l) -> (after = true -> pend = []) ->
  tab_re_from pend after l = pend ++ l.
Proof.
  induction l as [|c r IH]; intros pend after Hp Ht Ha; cbn [tab_re_from].
  - now rewrite app_nil_r.
  - assert (Tc : forall pb pl, tnf pb pl (pend ++ c :: r) ->
                 tnf (match pend with [] => pb | _ => true end) (match pend with [] => pl | _ => false end) (c :: r)).
    { clear -Hp. induction pend as [|x p IHp]; intros pb pl H; [exact H|].
      cbn in Hp. apply andb_true_iff in Hp as [Hx Hp']. cbn [app tnf] in H. destruct H as (_ & _ & H).
      rewrite Hx, (blank_not_lf x Hx) in H. specialize (IHp Hp' _ _ H). destruct p; exact IHp. }
    specialize (Tc _ _ Ht). cbn [tnf] in Tc. destruct Tc as (T1 & T2 & T3).
    destruct (N.eqb_spec c LF) as [->|Hc].
    + assert (pend = []) by (destruct pend; auto; specialize (T1 eq_refl); discriminate). subst pend.
      cbn [app]. f_equal. cbn in T3. apply (IH [] true); auto.
    + destruct (is_blank c) eqn:B.
      * assert (after = false).
        { destruct after; auto. rewrite (Ha eq_refl) in T2. specialize (T2 eq_refl). discriminate. }
        subst after.
        rewrite (IH (pend ++ [c]) false); [now rewrite <- app_assoc| | |discriminate].
        -- rewrite forallb_app, Hp. cbn. rewrite B. reflexivity.
        -- rewrite <- app_assoc. exact Ht.
      * f_equal. f_equal. apply (IH [] false); auto; try discriminate;
        try (destruct (N.eqb_spec c LF); [contradiction|]; cbn [app]; exact T3).
Qed.

Lemma tab_re_tnf_id l : tnf false false l -> tab_re l = l.
Proof. intros H. unfold tab_re. apply (tab_re_from_tnf_id l [] false); auto; discriminate. Qed.

(* space_re keeps the normal form of tab_re *)
Lemma space_re_from_tnf l : forall inb pl, tnf inb pl l -> tnf inb pl (space_re_from inb l).
Proof.
  induction l as [|c r IH]; intros inb pl H; cbn [space_re_from]; [exact I|].
  cbn [tnf] in H. destruct H as (H1 & H2 & H3).
  destruct (is_blank c) eqn:B.
  - specialize (H2 eq_refl). subst pl. rewrite (blank_not_lf c B) in H3.
    destruct inb.
    + apply IH. exact H3.
    + cbn [tnf]. split; [discriminate|]. split; [auto|]. cbn. apply IH. exact H3.
  - cbn [tnf]. rewrite B. split; [auto|]. split; [congruence|]. apply IH. exact H3.
Qed.

Lemma tnf_tl_sp l : tnf false false l -> has_prefix_sp l = true -> tnf false false (tl l).
Proof.
  destruct l as [|c r]; cbn; auto. intros (A & B & C) H. apply N.eqb_eq in H. subst c.
  eapply tnf_weaken; eauto.
Qed.

(* the collapsing passes leave their own output unchanged *)
Lemma core_fixpoint m l :
  cr_free l ->
  (new_line_collapse m = true -> lf_free l) ->
  (space_collapse m = true -> snf false l) ->
  (m = WPreLine -> tnf false false l) ->
  core m l = l.
Proof.
  intros Hcr Hlf Hs Ht. unfold core. rewrite (norm_lf_id l Hcr).
  destruct m; cbn [space_collapse new_line_collapse] in *; auto.
  - rewrite tab_re_id, nl_to_space_id by auto. apply space_re_from_id; auto.
  - rewrite tab_re_id, nl_to_space_id by auto. apply space_re_from_id; auto.
  - rewrite tab_re_tnf_id by auto. apply space_re_from_id; auto.
Qed.

Lemma core_tnf t : tnf false false (core WPreLine t).
Proof.
  unfold core. cbn [space_collapse new_line_collapse]. unfold space_re, tab_re.
  apply space_re_from_tnf. apply tab_re_from_tnf; auto; discriminate.
Qed.

Lemma core_lf_free m t : new_line_collapse m = true -> lf_free (core m t).
Proof.
  intros H. unfold core. rewrite H.
  assert (SPLF : SP <> LF) by discriminate.
  destruct (space_collapse m).
  - apply space_re_from_forall; auto. apply nl_to_space_lf_free.
  - apply nl_to_space_lf_free.
Qed.

Lemma core_snf m t : space_collapse m = true -> snf false (core m t).
Proof. intros H. unfold core. rewrite H. apply space_re_from_snf. Qed.

Lemma has_suffix_sp_tl l : (2 <= length l)%nat -> has_suffix_sp (tl l) = has_suffix_sp l.
Proof.
  destruct l as [|a [|b r]]; cbn [length]; try lia. intros _.
  unfold has_suffix_sp. cbn [tl rev]. destruct (rev r ++ [b]) eqn:E.
  - destruct (rev r); discriminate.
  - cbn. reflexivity.
Qed.

(* the passes never empty a text *)
Lemma norm_lf_nonempty l : l <> [] -> norm_lf l <> [].
Proof. destruct l as [|c r]; [contradiction|]. intros _. cbn [norm_lf]. destruct (N.eqb c CR); discriminate. Qed.

Lemma tab_re_from_nonempty l : forall pend, pend <> [] \/ l <> [] -> tab_re_from pend false l <> [].
Proof.
  induction l as [|c r IH]; intros pend H; cbn [tab_re_from].
  - destruct H; auto.
  - destruct (N.eqb c LF); [discriminate|]. destruct (is_blank c).
    + apply IH. left. destruct pend; discriminate.
    + destruct pend; discriminate.
Qed.

Lemma space_re_nonempty l : l <> [] -> space_re l <> [].
Proof.
  destruct l as [|c r]; [contradiction|]. intros _. unfold space_re. cbn [space_re_from].
  destruct (is_blank c); discriminate.
Qed.

Lemma core_nonempty m t : t <> [] -> core m t <> [].
Proof.
  intros H. unfold core. pose proof (norm_lf_nonempty t H) as H1.
  assert (N : forall l, l <> [] -> nl_to_space l <> []) by (intros [|? ?] ?; [contradiction|discriminate]).
  assert (T : forall l, l <> [] -> tab_re l <> []) by (intros; apply tab_re_from_nonempty; auto).
  destruct (space_collapse m), (new_line_collapse m); auto using space_re_nonempty.
Qed.

(* idempotence of the processing of one text (text and returned flag), all five modes *)
Theorem process_text_idempotent m f t :
  process_text m f (fst (process_text m f t)) = process_text m f t.
Proof.
  destruct t as [|c0 r0]; [reflexivity|].
  assert (Hne : c0 :: r0 <> []) by discriminate. set (t := c0 :: r0) in *.
  rewrite (process_text_core m f t Hne).
  pose proof (core_nonempty m t Hne) as Cne. pose proof (core_cr_free m t) as Ccr.
  assert (Ctnf : m = WPreLine -> tnf false false (core m t)) by (intros ->; apply core_tnf).
  destruct (space_collapse m) eqn:SC; cbn [fst].
  - pose proof (core_snf m t SC) as Csnf.
    assert (Clf : new_line_collapse m = true -> lf_free (core m t)) by (apply core_lf_free).
    set (c := core m t) in *.
    destruct (f && has_prefix_sp c) eqn:LP.
    + apply andb_true_iff in LP as [-> HP].
      destruct c as [|a [|b r]] eqn:Ec; [contradiction| |].
      * (* the text was a single space *)
        cbn in HP. apply N.eqb_eq in HP. subst a. reflexivity.
      * cbn [tl]. assert (Hne2 : b :: r <> []) by discriminate.
        rewrite (process_text_core m true (b :: r) Hne2), SC.
        assert (FX : core m (b :: r) = b :: r).
        { apply core_fixpoint; auto.
          - inversion Ccr; auto.
          - intros H. specialize (Clf H). inversion Clf; auto.
          - intros _. apply (snf_tl (a :: b :: r)). exact Csnf.
          - intros H. apply (tnf_tl_sp (a :: b :: r)); auto. }
        rewrite FX.
        cbn in HP. apply N.eqb_eq in HP. subst a.
        cbn [snf] in Csnf. destruct Csnf as (_ & _ & (_ & Hb & _)).
        assert (has_prefix_sp (b :: r) = false).
        { cbn. destruct (N.eqb_spec b SP); auto. exfalso. apply Hb; auto. }
        rewrite H. cbn [andb]. f_equal.
        apply (has_suffix_sp_tl (SP :: b :: r)). cbn. lia.
    + rewrite (process_text_core m f c Cne), SC.
      rewrite (core_fixpoint m c); auto. fold c. rewrite LP. reflexivity.
  - rewrite (process_text_core m f (core m t) Cne), SC.
    rewrite (core_fixpoint m (core m t)); auto.
    + intros H. apply core_lf_free; auto.
    + intros H. congruence.
Qed.

(* ---------------------------------------------------------------- trees *)

Theorem pw_idempotent b : forall f, pw f (fst (pw f b)) = pw f b.
Proof.
  induction b as [m t| |ks IH] using inl_ind'; intros f.
  - cbn [pw]. destruct (process_text m f t) as [t' f'] eqn:E. cbn [fst pw].
    pose proof (process_text_idempotent m f t) as H. rewrite E in H. cbn [fst] in H. rewrite H. reflexivity.
  - reflexivity.
  - rewrite !pw_box.
    destruct (pw_list pw f ks) as [ks' f'] eqn:E. cbn [fst]. rewrite pw_box.
    assert (G : pw_list pw f ks' = (ks', f')).
    { revert f ks' f' E. induction IH as [|k r Hk Hr IHr]; intros f ks' f' E; cbn [pw_list] in E.
      - injection E as <- <-. reflexivity.
      - destruct k as [m t|kk|].
        + destruct (pw f (IText m t)) as [k' f1] eqn:E1. destruct (pw_list pw f1 r) as [r' f2] eqn:E2.
          injection E as <- <-. specialize (Hk f). rewrite E1 in Hk. cbn [fst] in Hk.
          cbn [pw] in E1. destruct (process_text m f t) as [t' g]. injection E1 as <- <-.
          cbn [pw_list]. rewrite Hk. rewrite (IHr _ _ _ E2). reflexivity.
        + destruct (pw f (IBox kk)) as [k' f1] eqn:E1. destruct (pw_list pw f1 r) as [r' f2] eqn:E2.
          injection E as <- <-. specialize (Hk f). rewrite E1 in Hk. cbn [fst] in Hk.
          rewrite pw_box in E1. destruct (pw_list pw f kk) as [kk' g]. injection E1 as <- <-.
          cbn [pw_list]. rewrite Hk. rewrite (IHr _ _ _ E2). reflexivity.
        + destruct (pw_list pw false r) as [r' f2] eqn:E2. injection E as <- <-.
          cbn [pw_list]. rewrite (IHr _ _ _ E2). reflexivity. }
    rewrite G. reflexivity.
Qed.

(* ================================================================== CSS Text 3, 4.1.1 (phase I) *)

Fixpoint take_ws3 (l : list rune) : list rune * list rune :=
  match l with
  | [] => ([], [])
  | c :: r => if is_ws3 c then let '(w, l') := take_ws3 r in (c :: w, l') else ([], l)
  end.

Lemma take_ws3_spec l : let '(w, l') := take_ws3 l in
  l = w ++ l' /\ forallb is_ws3 w = true /\
  match l' with [] => True | c :: _ => is_ws3 c = false end /\ (length l' <= length l)%nat.
Proof.
  induction l as [|c r IH]; cbn [take_ws3].
  - cbn. auto.
  - destruct (is_ws3 c) eqn:W.
    + destruct (take_ws3 r) as [w l']. destruct IH as (A & B & C & D).
      cbn. rewrite W, B. subst r. repeat split; auto; try (rewrite app_length in *; lia).
    + cbn. rewrite W. auto.
Qed.

Lemma ws3_cases c : is_ws3 c = true -> c = LF \/ is_blank c = true.
Proof.
  unfold is_ws3, is_blank. rewrite !orb_true_iff, !N.eqb_eq. tauto.
Qed.

Lemma not_ws3 c : is_ws3 c = false -> c <> LF /\ is_blank c = false.
Proof.
  unfold is_ws3, is_blank. rewrite !orb_false_iff, !N.eqb_neq. intros ((A & B) & C). repeat split; auto.
Qed.

Lemma tab_re_from_run w : forall pend a c r,
  forallb is_ws3 w = true -> is_ws3 c = false ->
  tab_re_from pend a (w ++ c :: r) = tab_re_from pend a w ++ c :: tab_re_from [] false r.
Proof.
  induction w as [|x w IH]; intros pend a c r Hw Hc.
  - cbn [app tab_re_from]. destruct (not_ws3 c Hc) as [H1 H2].
    destruct (N.eqb_spec c LF); [contradiction|]. rewrite H2. reflexivity.
  - cbn [forallb] in Hw. apply andb_true_iff in Hw as [Hx Hw].
    cbn [app tab_re_from]. destruct (ws3_cases x Hx) as [->|Hb].
    + cbn. f_equal. apply IH; auto.
    + destruct (N.eqb_spec x LF) as [->|_].
      * cbn. f_equal. apply IH; auto.
      * rewrite Hb. destruct a; apply IH; auto.
Qed.

Lemma tab_re_from_run_ws3 w : forall pend a,
  forallb is_ws3 pend = true -> forallb is_ws3 w = true ->
  forallb is_ws3 (tab_re_from pend a w) = true.
Proof.
  induction w as [|x w IH]; intros pend a Hp Hw; cbn [tab_re_from]; auto.
  cbn [forallb] in Hw. apply andb_true_iff in Hw as [Hx Hw].
  destruct (N.eqb_spec x LF) as [->|Hne].
  - cbn. apply IH; auto.
  - destruct (ws3_cases x Hx) as [->|Hb]; [contradiction|].
    rewrite Hb. destruct a; apply IH; auto. rewrite forallb_app, Hp. cbn. rewrite Hx. reflexivity.
Qed.

Lemma nl_to_space_app a b : nl_to_space (a ++ b) = nl_to_space a ++ nl_to_space b.
Proof. apply map_app. Qed.

Lemma nl_to_space_ws3_blank w : forallb is_ws3 w = true -> forallb is_blank (nl_to_space w) = true.
Proof.
  induction w as [|x w IH]; [reflexivity|]. cbn [forallb nl_to_space map]. rewrite andb_true_iff. intros [Hx Hw].
  apply andb_true_iff. split; [|apply IH; auto].
  destruct (N.eqb_spec x LF); [reflexivity|].
  destruct (ws3_cases x Hx) as [->|Hb]; [contradiction|]. exact Hb.
Qed.

Lemma space_re_from_blank_run b : forall rest,
  b <> [] -> forallb is_blank b = true ->
  space_re_from false (b ++ rest) = SP :: space_re_from true rest.
Proof.
  assert (G : forall bb rest, forallb is_blank bb = true -> space_re_from true (bb ++ rest) = space_re_from true rest).
  { induction bb as [|x bb IH]; intros rest Hb; cbn; auto.
    cbn in Hb. apply andb_true_iff in Hb as [Hx Hb]. rewrite Hx. apply IH; auto. }
  intros rest Hne Hb. destruct b as [|x b]; [contradiction|].
  cbn in Hb. apply andb_true_iff in Hb as [Hx Hb]. cbn [app space_re_from]. rewrite Hx. f_equal. apply G; auto.
Qed.

Lemma space_re_from_true_nonblank c r : is_blank c = false ->
  space_re_from true (c :: r) = space_re_from false (c :: r).
Proof. intros H. cbn. rewrite H. reflexivity. Qed.

Definition collapse_nw (x : list rune) : list rune := space_re (nl_to_space (tab_re x)).

Lemma collapse_nw_char c r : is_ws3 c = false -> collapse_nw (c :: r) = c :: collapse_nw r.
Proof.
  intros Hc. destruct (not_ws3 c Hc) as [H1 H2]. unfold collapse_nw, tab_re, space_re.
  cbn [tab_re_from]. destruct (N.eqb_spec c LF); [contradiction|]. rewrite H2. cbn [app nl_to_space map].
  destruct (N.eqb_spec c LF); [contradiction|]. cbn [space_re_from]. rewrite H2. reflexivity.
Qed.

Lemma tab_re_run_nonempty w : w <> [] -> tab_re_from [] false w <> [].
Proof. intros H. apply tab_re_from_nonempty. auto. Qed.

Theorem collapse_nw_spec x0 : collapses x0 (collapse_nw x0).
Proof.
  assert (G : forall n x, (length x <= n)%nat -> collapses x (collapse_nw x)).
  { induction n as [|n IH]; intros x Hn.
    - destruct x; [constructor|cbn in Hn; lia].
    - destruct x as [|c r]; [constructor|].
      destruct (is_ws3 c) eqn:W.
      + pose proof (take_ws3_spec (c :: r)) as H. destruct (take_ws3 (c :: r)) as [w l'] eqn:E.
        destruct H as (A & B & C & D).
        assert (Hw : w <> []).
        { cbn [take_ws3] in E. rewrite W in E. destruct (take_ws3 r). injection E as <- _. discriminate. }
        assert (Hl : (length l' <= n)%nat).
        { rewrite A in Hn. rewrite app_length in Hn. destruct w; [contradiction|]. cbn in Hn. lia. }
        rewrite A.
        assert (K : collapse_nw (w ++ l') = SP :: collapse_nw l').
        { unfold collapse_nw, tab_re, space_re. destruct l' as [|c' r'].
          - rewrite app_nil_r.
            pose proof (tab_re_from_run_ws3 w [] false eq_refl B) as T1.
            pose proof (tab_re_run_nonempty w Hw) as T2.
            pose proof (nl_to_space_ws3_blank _ T1) as N1.
            assert (N2 : nl_to_space (tab_re_from [] false w) <> []).
            { destruct (tab_re_from [] false w); [contradiction|discriminate]. }
            rewrite <- (app_nil_r (nl_to_space _)).
            rewrite space_re_from_blank_run; auto.
          - rewrite tab_re_from_run by auto.
            pose proof (tab_re_from_run_ws3 w [] false eq_refl B) as T1.
            pose proof (tab_re_run_nonempty w Hw) as T2.
            pose proof (nl_to_space_ws3_blank _ T1) as N1.
            assert (N2 : nl_to_space (tab_re_from [] false w) <> []).
            { destruct (tab_re_from [] false w); [contradiction|discriminate]. }
            rewrite nl_to_space_app. rewrite space_re_from_blank_run; auto. f_equal.
            destruct (not_ws3 c' C) as [H1 H2].
            cbn [nl_to_space map]. destruct (N.eqb_spec c' LF); [contradiction|].
            rewrite space_re_from_true_nonblank by auto.
            cbn [tab_re_from]. destruct (N.eqb_spec c' LF); [contradiction|]. rewrite H2.
            cbn [app nl_to_space map]. destruct (N.eqb_spec c' LF); [contradiction|]. reflexivity. }
        rewrite K. apply col_run; auto.
      + rewrite collapse_nw_char by auto. apply col_char; auto. apply IH. cbn in Hn. lia. }
  apply (G (length x0)). lia.
Qed.

Lemma collapses_nil_inv o : collapses [] o -> o = [].
Proof.
  intros H. remember (@nil rune) as x eqn:Ex. destruct H as [|c l out Hc Hl|w l out Hw Hws Hl Hr]; auto.
  - discriminate.
  - destruct w; [contradiction|discriminate].
Qed.

Lemma collapses_cons_inv c r o : collapses (c :: r) o ->
  (is_ws3 c = false /\ exists out, o = c :: out /\ collapses r out) \/
  (is_ws3 c = true /\ exists w l out, c :: r = w ++ l /\ w <> [] /\ forallb is_ws3 w = true /\
     match l with [] => True | c' :: _ => is_ws3 c' = false end /\ o = SP :: out /\ collapses l out).
Proof.
  intros H. remember (c :: r) as x eqn:Ex. destruct H as [|c' l out Hc Hl|w l out Hw Hws Hl Hr].
  - discriminate.
  - injection Ex as -> ->. left. eauto.
  - right. split.
    + destruct w as [|a w']; [contradiction|]. cbn in Ex. injection Ex as -> _.
      cbn in Hws. apply andb_true_iff in Hws as [Ha _]. exact Ha.
    + exists w, l, out. auto 10.
Qed.

Lemma ws3_run_unique w : forall l w' l', w ++ l = w' ++ l' ->
  forallb is_ws3 w = true -> forallb is_ws3 w' = true ->
  match l with [] => True | c :: _ => is_ws3 c = false end ->
  match l' with [] => True | c :: _ => is_ws3 c = false end -> w = w' /\ l = l'.
Proof.
  induction w as [|a w IHw]; intros l w' l' E Hw Hw' Hl Hl'.
  - destruct w' as [|a' w'']; [auto|]. cbn in E. subst l. cbn in Hw'. apply andb_true_iff in Hw' as [Ha _].
    cbn in Hl. congruence.
  - destruct w' as [|a' w''].
    + cbn in E. subst l'. cbn in Hw. apply andb_true_iff in Hw as [Ha _]. cbn in Hl'. congruence.
    + cbn in E. injection E as <- E. cbn in Hw, Hw'.
      apply andb_true_iff in Hw as [_ Hw]. apply andb_true_iff in Hw' as [_ Hw'].
      destruct (IHw _ _ _ E Hw Hw' Hl Hl') as [-> ->]. auto.
Qed.

(* the relation determines the result *)
Lemma collapses_functional x0 : forall o1 o2, collapses x0 o1 -> collapses x0 o2 -> o1 = o2.
Proof.
  assert (G : forall n x, (length x <= n)%nat -> forall o1 o2, collapses x o1 -> collapses x o2 -> o1 = o2).
  { induction n as [|n IH]; intros x Hn o1 o2 H1 H2.
    - destruct x; [|cbn in Hn; lia].
      rewrite (collapses_nil_inv _ H1), (collapses_nil_inv _ H2). reflexivity.
    - destruct x as [|c r].
      + rewrite (collapses_nil_inv _ H1), (collapses_nil_inv _ H2). reflexivity.
      + apply collapses_cons_inv in H1. apply collapses_cons_inv in H2.
        destruct H1 as [(W1 & out1 & -> & C1)|(W1 & w1 & l1 & out1 & E1 & N1 & A1 & B1 & -> & C1)];
        destruct H2 as [(W2 & out2 & -> & C2)|(W2 & w2 & l2 & out2 & E2 & N2 & A2 & B2 & -> & C2)];
        try congruence.
        * f_equal. apply (IH r); auto. cbn in Hn. lia.
        * rewrite E1 in E2. destruct (ws3_run_unique _ _ _ _ E2 A1 A2 B1 B2) as [-> ->]. f_equal.
          apply (IH l2); auto.
          assert (length (c :: r) = length (w2 ++ l2)) by (rewrite E1; reflexivity).
          rewrite app_length in H. destruct w2; [contradiction|]. cbn in *. lia. }
  intros o1 o2. apply (G (length x0)). lia.
Qed.

(* white-space: normal / nowrap: the processed text is the collapse of the
   (line-feed normalised) source, minus one leading space after a collapsible space *)
Theorem whitespace_spec_normal m f t :
  new_line_collapse m = true -> t <> [] ->
  exists out, collapses (norm_lf t) out /\
    process_text m f t = (if f && has_prefix_sp out then tl out else out, has_suffix_sp out).
Proof.
  intros H Hne. exists (core m t).
  assert (SC : space_collapse m = true) by (destruct m; cbn in *; congruence).
  split.
  - unfold core. rewrite SC, H. apply collapse_nw_spec.
  - rewrite (process_text_core m f t Hne), SC. reflexivity.
Qed.

(* white-space: pre / pre-wrap: only CRLF / CR are normalised to LF *)
Theorem whitespace_spec_pre m f t :
  space_collapse m = false -> t <> [] -> process_text m f t = (norm_lf t, false).
Proof.
  intros H Hne. rewrite (process_text_core m f t Hne), H. unfold core. rewrite H.
  destruct m; cbn in *; congruence || reflexivity.
Qed.

(* never two: in the collapsing modes no tab and no two adjacent spaces survive *)
Theorem whitespace_no_double_space m f t :
  space_collapse m = true -> snf false (fst (process_text m f t)).
Proof.
  intros H. destruct t as [|c r]; [exact I|]. assert (Hne : c :: r <> []) by discriminate.
  rewrite (process_text_core m f _ Hne), H. cbn [fst].
  pose proof (core_snf m (c :: r) H) as S.
  destruct (f && has_prefix_sp (core m (c :: r))); auto. apply snf_tl; auto.
Qed.


(* ================================================================== pre-line *)

Lemma trim_end_blanks p : forallb is_blank p = true -> trim_end p = [].
Proof.
  induction p as [|c r IH]; cbn; auto. rewrite andb_true_iff. intros [Hc Hr]. rewrite IH, Hc; auto.
Qed.

Lemma trim_end_nonblank c s : is_blank c = false -> trim_end (c :: s) = c :: trim_end s.
Proof. intros H. cbn [trim_end]. destruct (trim_end s); [rewrite H|]; reflexivity. Qed.

Lemma trim_end_app_nonblank p c s : is_blank c = false -> trim_end (p ++ c :: s) = p ++ c :: trim_end s.
Proof.
  intros H. induction p as [|x p IH]; cbn [app]; [apply trim_end_nonblank; auto|].
  cbn [trim_end]. rewrite IH. destruct p; reflexivity.
Qed.

Lemma split_lines_nonempty l : split_lines l <> [].
Proof.
  induction l as [|c r IH]; cbn; [discriminate|]. destruct (N.eqb c LF); [discriminate|].
  destruct (split_lines r); discriminate.
Qed.

Definition prepend (p : list rune) (segs : list (list rune)) : list (list rune) :=
  match segs with s :: ss => (p ++ s) :: ss | [] => [p] end.

Lemma join_lf_cons l r : r <> [] -> join_lf (l :: r) = l ++ LF :: join_lf r.
Proof. destruct r; [contradiction|reflexivity]. Qed.

Lemma trimmed_lines_nonempty a segs : segs <> [] -> trimmed_lines a segs <> [].
Proof. destruct segs as [|s [|s' r]]; cbn; try contradiction; discriminate. Qed.

Lemma trimmed_lines_cons2 a x y r :
  trimmed_lines a (x :: y :: r) = trim_end (if a then drop_blanks x else x) :: trimmed_lines true (y :: r).
Proof. reflexivity. Qed.

(* tab_re = cut at the line feeds, drop the blanks next to them *)
Lemma tab_re_from_lines x : forall pend after,
  forallb is_blank pend = true -> (after = true -> pend = []) ->
  tab_re_from pend after x = join_lf (trimmed_lines after (prepend pend (split_lines x))).
Proof.
  induction x as [|c r IH]; intros pend after Hp Ha; cbn [tab_re_from split_lines].
  - cbn. destruct after; [rewrite (Ha eq_refl); reflexivity|]. now rewrite app_nil_r.
  - pose proof (split_lines_nonempty r) as NE.
    destruct (split_lines r) as [|s ss] eqn:E; [contradiction|].
    destruct (N.eqb_spec c LF) as [->|Hc].
    + rewrite (IH [] true) by (auto; discriminate).
      cbn [prepend app]. rewrite app_nil_r. rewrite trimmed_lines_cons2.
      assert (TE : trim_end (if after then drop_blanks pend else pend) = []).
      { destruct after; [rewrite (Ha eq_refl); reflexivity|]. apply trim_end_blanks; auto. }
      rewrite TE. rewrite join_lf_cons by (apply trimmed_lines_nonempty; discriminate). reflexivity.
    + destruct (is_blank c) eqn:B.
      * destruct after.
        -- rewrite (Ha eq_refl). rewrite (IH [] true) by (auto; discriminate).
           cbn [prepend app]. destruct ss as [|s' ss'].
           ++ cbn [trimmed_lines drop_blanks]. rewrite B. reflexivity.
           ++ rewrite !trimmed_lines_cons2. cbn [drop_blanks]. rewrite B. reflexivity.
        -- rewrite (IH (pend ++ [c]) false); [|rewrite forallb_app, Hp; cbn; rewrite B; reflexivity|discriminate].
           cbn [prepend]. rewrite <- app_assoc. reflexivity.
      * rewrite (IH [] false) by (auto; discriminate). cbn [prepend app].
        assert (PRE : (if after then drop_blanks (pend ++ c :: s) else pend ++ c :: s) = pend ++ c :: s).
        { destruct after; auto. rewrite (Ha eq_refl). cbn. rewrite B. reflexivity. }
        destruct ss as [|s' ss'].
        -- cbn [trimmed_lines join_lf]. rewrite PRE. reflexivity.
        -- rewrite !trimmed_lines_cons2. rewrite PRE. rewrite trim_end_app_nonblank by auto.
           rewrite !join_lf_cons by (apply trimmed_lines_nonempty; discriminate).
           rewrite <- app_assoc. reflexivity.
Qed.

Lemma space_re_from_app_nonblank l : forall b c rest, is_blank c = false ->
  space_re_from b (l ++ c :: rest) = space_re_from b l ++ c :: space_re_from false rest.
Proof.
  induction l as [|x l IH]; intros b c rest Hc; cbn [app space_re_from].
  - rewrite Hc. reflexivity.
  - destruct (is_blank x); [destruct b|]; cbn [app]; rewrite IH by auto; reflexivity.
Qed.

Lemma space_re_join ls : space_re (join_lf ls) = join_lf (map space_re ls).
Proof.
  induction ls as [|l r IH]; [reflexivity|].
  destruct r as [|l' r']; [reflexivity|].
  rewrite join_lf_cons by discriminate. cbn [map]. rewrite (join_lf_cons (space_re l)) by (cbn; discriminate).
  unfold space_re at 1. rewrite space_re_from_app_nonblank by reflexivity.
  fold (space_re l). f_equal. f_equal. exact IH.
Qed.

Theorem whitespace_spec_preline t : core WPreLine t = preline_spec t.
Proof.
  unfold core, preline_spec. cbn [space_collapse new_line_collapse]. unfold tab_re.
  rewrite (tab_re_from_lines (norm_lf t) [] false) by (auto; discriminate).
  rewrite space_re_join. cbn [prepend].
  destruct (split_lines (norm_lf t)) as [|s ss] eqn:E; [exfalso; eapply split_lines_nonempty; eauto|].
  reflexivity.
Qed.
