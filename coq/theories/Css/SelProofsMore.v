(* Css/SelProofsMore.v -- lemmas added in the strengthening round:
   - :is/:not/:has weigh as their lexicographically greatest argument, whatever the size of the columns;
     no positional weight in any base decides Specificity.Less;
   - the parser never returns a pseudo-element inside the argument of a relative pseudo-class, at any depth. *)
From Verif Require Import Css.Sel Css.SelSpec Css.SelProofs Css.SelParse Css.SelRoundtrip Css.SelParseNormal.
From Coq Require Import ZArith NArith Lia List Bool Arith ZifyBool.
Import ListNotations.

Open Scope Z_scope.

Lemma spec_less_false_of_le x m : lex_le x m -> spec_less m x = false.
Proof.
  intros H. destruct (spec_less m x) eqn:E; [|reflexivity].
  apply spec_less_lex in E as [E N]. exfalso. apply N. apply lex_le_antisym; assumption.
Qed.

Theorem rel_specificity_max name g :
  (forall s, In s g -> spec_less (specificity (SRel name g)) (specificity s) = false) /\
  (g <> [] -> exists s, In s g /\ specificity (SRel name g) = specificity s).
Proof.
  cbn [specificity]. rewrite fold_left_max_map.
  destruct (fold_max_spec (map specificity g) spec_zero) as [H1 [H2 H3]]. cbv zeta in *. split.
  - intros s Hs. apply spec_less_false_of_le. apply H3. apply in_map. exact Hs.
  - intros Hg. destruct H1 as [H1|H1].
    + destruct g as [|s0 g0]; [contradiction|]. exists s0. split; [left; reflexivity|].
      rewrite H1.
      assert (Hle : lex_le (specificity s0) spec_zero) by (rewrite <- H1; apply H3; left; reflexivity).
      pose proof (specificity_nonneg s0) as Hnn. unfold lex_le, nonneg3, spec_zero in *. simpl in *.
      apply spec3_eq; simpl; lia.
    + apply in_map_iff in H1 as [s' [E Hs']]. exists s'. split; [exact Hs' | symmetry; exact E].
Qed.

(* for every base B > 0 there are two triples with columns <= B which the packed weight does not order as Less does *)
Theorem spec_less_not_packed : forall B, 0 < B ->
  exists x y, nonneg3 x /\ nonneg3 y /\ sp_a x <= B /\ sp_b x <= B /\ sp_c x <= B /\ sp_a y <= B /\ sp_b y <= B /\ sp_c y <= B /\
    spec_less x y = true /\ (packed_weight B x <? packed_weight B y) = false.
Proof.
  intros B HB. exists (S3 0 0 B), (S3 0 1 0). unfold nonneg3, packed_weight, spec_less. cbn [sp_a sp_b sp_c].
  assert (E : ((0 * B + 0) * B + B <? (0 * B + 1) * B + 0) = false) by (apply Z.ltb_ge; lia).
  rewrite E. repeat split; try lia; reflexivity.
Qed.

(* below the base the packed weight is right: the defect needs a column >= B *)
Theorem spec_less_packed_below : forall B x y, nonneg3 x -> nonneg3 y ->
  sp_b x < B -> sp_c x < B -> sp_b y < B -> sp_c y < B ->
  spec_less x y = (packed_weight B x <? packed_weight B y).
Proof.
  intros B [a b c] [a' b' c'] [Ha [Hb Hc]] [Ha' [Hb' Hc']]. unfold packed_weight, spec_less. simpl in *. intros.
  destruct (a <? a') eqn:E1; [symmetry; apply Z.ltb_lt; nia|].
  destruct (a >? a') eqn:E2; [symmetry; apply Z.ltb_ge; nia|].
  assert (a = a') by lia. subst a'.
  destruct (b <? b') eqn:E3; [symmetry; apply Z.ltb_lt; nia|].
  destruct (b >? b') eqn:E4; [symmetry; apply Z.ltb_ge; nia|].
  assert (b = b') by lia. subst b'.
  destruct (c <? c') eqn:E5; [symmetry; apply Z.ltb_lt; nia | symmetry; apply Z.ltb_ge; nia].
Qed.

Close Scope Z_scope.

(* ---- pseudo-elements inside relative pseudo-classes *)

Lemma forallb_impl {A} (f g : A -> bool) l :
  Forall (fun x => f x = true -> g x = true) l -> forallb f l = true -> forallb g l = true.
Proof.
  induction 1 as [|x l Hx _ IH]; simpl; [auto|]. intros H. apply andb_true_iff in H as [H1 H2].
  rewrite (Hx H1), (IH H2). reflexivity.
Qed.

Lemma normal_false_pe_free : forall x, normal false x = true -> pe_free x = true.
Proof.
  induction x as [x Hx | name g IH | sels pe IH | a c b IHa IHb] using sel_ind'; intros H.
  - destruct x; try contradiction; reflexivity.
  - cbn [normal pe_free] in *. destruct g as [|s0 g0]; [discriminate|]. revert H. apply forallb_impl. exact IH.
  - cbn [normal pe_free] in *. destruct pe; [|simpl in H; discriminate].
    apply andb_true_iff in H as [_ H]. destruct sels as [|x r]; [reflexivity|].
    apply andb_true_iff in H as [H Hr]. apply andb_true_iff in H as [_ Hx].
    inversion IH as [|? ? IHx IHr]; subst. cbn [forallb]. rewrite (IHx Hx). simpl.
    revert Hr. apply forallb_impl. revert IHr. apply Forall_impl. intros y Hy Hn.
    apply andb_true_iff in Hn as [_ Hn]. exact (Hy Hn).
  - cbn [normal pe_free] in *. apply andb_true_iff in H as [H _]. apply andb_true_iff in H as [H1 H2]. rewrite (IHa H1). simpl.
    destruct b; try (apply IHb; exact H2). discriminate.
Qed.

Lemma normal_rel_args_pe_free : forall x a, normal a x = true -> rel_args_pe_free x = true.
Proof.
  induction x as [x Hx | name g IH | sels pe IH | a c b IHa IHb] using sel_ind'; intros al H.
  - destruct x; try contradiction; reflexivity.
  - cbn [normal rel_args_pe_free] in *. destruct g as [|s0 g0]; [discriminate|]. revert H. apply forallb_impl.
    apply Forall_forall. intros y _. apply normal_false_pe_free.
  - cbn [normal rel_args_pe_free] in *. apply andb_true_iff in H as [_ H]. destruct sels as [|x r]; [reflexivity|].
    apply andb_true_iff in H as [H Hr]. apply andb_true_iff in H as [_ Hx].
    inversion IH as [|? ? IHx IHr]; subst. cbn [forallb]. rewrite (IHx false Hx). simpl.
    revert Hr. apply forallb_impl. revert IHr. apply Forall_impl. intros y Hy Hn.
    apply andb_true_iff in Hn as [_ Hn]. exact (Hy false Hn).
  - cbn [normal rel_args_pe_free] in *. apply andb_true_iff in H as [H _]. apply andb_true_iff in H as [H1 H2]. rewrite (IHa al H1). simpl.
    destruct b; try (apply (IHb al); exact H2). discriminate.
Qed.

Theorem parse_no_pe_in_relative : forall (s : str) (g : list sel),
  parse_group s = Ok (Some g) -> forallb rel_args_pe_free g = true.
Proof.
  intros s g H. apply parse_group_normal in H. unfold normal_group in H. destruct g as [|x r]; [discriminate|].
  revert H. apply forallb_impl. apply Forall_forall. intros y _. apply normal_rel_args_pe_free.
Qed.
