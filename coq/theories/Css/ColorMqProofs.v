(* Css/ColorMqProofs.v -- totality of the colour parser and media query parser models (C07). *)
From Verif Require Import Base.GoSem Base.GoStrings Base.GoStringsProofs Css.Urls Css.PageSel Css.ColorMq.
From Coq Require Import List ZArith NArith Bool Lia ZifyBool ZifyNat ZifyN.
Import ListNotations.
Open Scope Z_scope.
Ltac Zify.zify_post_hook ::= Z.to_euclidean_division_equations.

Lemma pcs_loop_total fuel filtered i others :
  Z.rem (len filtered) 2 = 1 -> Z.rem i 2 = 1 -> 0 <= i <= len filtered + 1 ->
  len filtered + 1 - i < Z.of_nat fuel ->
  exists r, pcs_loop fuel filtered i others = Ok r.
Proof.
  intros HL. revert i others. induction fuel as [|f IH]; intros i others Hi Hi0 Hf.
  - lia.
  - cbn [pcs_loop]. destruct (i <? len filtered) eqn:E; [|eauto].
    destruct (index_ok 801 filtered i ltac:(lia)) as [t Ht]. rewrite Ht. cbn [bind].
    destruct (index_ok 802 filtered (i + 1) ltac:(lia)) as [n Hn]. rewrite Hn. cbn [bind].
    destruct (negb (is_comma t)); [eauto|]. apply IH; lia.
Qed.

Theorem parse_comma_separated_total tokens : exists r, parse_comma_separated tokens = Ok r.
Proof.
  unfold parse_comma_separated. set (filtered := remove_whitespace tokens).
  destruct (Z.rem (len filtered) 2 =? 1) eqn:E; [|eauto].
  pose proof (len_nonneg filtered).
  destruct (index_ok 800 filtered 0 ltac:(lia)) as [t Ht]. rewrite Ht. cbn [bind].
  apply pcs_loop_total; try lia; try reflexivity. unfold len. lia.
Qed.

Lemma parse_alpha_total args : exists r, parse_alpha args = Ok r.
Proof.
  unfold parse_alpha. destruct (len args =? 1) eqn:E; [|eauto].
  destruct (index_ok 813 args 0 ltac:(lia)) as [t Ht]. rewrite Ht. cbn [bind]. eauto.
Qed.

Lemma parse_rgb_total args : exists r, parse_rgb args = Ok r.
Proof.
  unfold parse_rgb. destruct (len args =? 3) eqn:E; cbn [negb]; [|eauto].
  destruct (index_ok 807 args 0 ltac:(lia)) as [r Hr]. rewrite Hr. cbn [bind].
  destruct (index_ok 808 args 1 ltac:(lia)) as [g Hg]. rewrite Hg. cbn [bind].
  destruct (index_ok 809 args 2 ltac:(lia)) as [b Hb]. rewrite Hb. cbn [bind].
  destruct (is_int_number r && is_int_number g && is_int_number b); eauto.
Qed.

Lemma parse_hsl_total args : exists r, parse_hsl args = Ok r.
Proof.
  unfold parse_hsl. destruct (len args =? 3) eqn:E; cbn [negb]; [|eauto].
  destruct (index_ok 810 args 0 ltac:(lia)) as [r Hr]. rewrite Hr. cbn [bind].
  destruct (index_ok 811 args 1 ltac:(lia)) as [g Hg]. rewrite Hg. cbn [bind].
  destruct (index_ok 812 args 2 ltac:(lia)) as [b Hb]. rewrite Hb. cbn [bind]. eauto.
Qed.

Lemma with_alpha_total s1 s2 args f :
  (forall l, exists r, f l = Ok r) -> exists r, with_alpha s1 s2 args f = Ok r.
Proof.
  intros Hf. unfold with_alpha. destruct (len args <? 3) eqn:E; [eauto|].
  rewrite slice_from_ok by lia. cbn [bind].
  destruct (parse_alpha_total (skipn (Z.to_nat 3) args)) as [a Ha]. rewrite Ha. cbn [bind].
  destruct a; [|eauto].
  rewrite slice_to_ok by lia. cbn [bind].
  destruct (Hf (firstn (Z.to_nat 3) args)) as [ok Hok]. rewrite Hok. cbn [bind]. eauto.
Qed.

(* the explicit panic of mustParseHexa is unreachable: the regular expression only lets hex digits through *)
Lemma hash_groups_ok v :
  hash_matches v = true ->
  (fix all (gs : list (list N)) : res unit :=
     match gs with
     | [] => Ok tt
     | g :: r => let* _ := must_parse_hexa g in all r
     end) (hash_groups v) = Ok tt.
Proof.
  unfold hash_matches. intros H. apply andb_prop in H as [Hl Hh].
  destruct v as [|a [|b [|c [|d [|e [|f [|g v]]]]]]]; cbn in Hl; try discriminate.
  - cbn in Hh. repeat (apply andb_prop in Hh as [?Hx Hh]).
    cbn [hash_groups]. unfold must_parse_hexa. cbn [forallb list_eqb].
    repeat match goal with Hx : is_hex _ = true |- _ => rewrite Hx; clear Hx end. reflexivity.
  - cbn in Hh. repeat (apply andb_prop in Hh as [?Hx Hh]).
    cbn [hash_groups]. unfold must_parse_hexa. cbn [forallb list_eqb].
    repeat match goal with Hx : is_hex _ = true |- _ => rewrite Hx; clear Hx end. reflexivity.
Qed.

Theorem parse_color_total t : exists r, parse_color t = Ok r.
Proof.
  destruct t; cbn [parse_color]; eauto.
  - (* function *)
    destruct (parse_comma_separated_total args) as [a Ha]. rewrite Ha. cbn [bind].
    destruct a as [a|]; [|eauto].
    destruct (len a =? 0); [eauto|].
    destruct (list_eqb (ascii_lower name) s_rgb).
    { destruct (parse_rgb_total a) as [ok Hok]. rewrite Hok. cbn [bind]. eauto. }
    destruct (list_eqb (ascii_lower name) s_rgba); [apply with_alpha_total; exact parse_rgb_total|].
    destruct (list_eqb (ascii_lower name) s_hsl).
    { destruct (parse_hsl_total a) as [ok Hok]. rewrite Hok. cbn [bind]. eauto. }
    destruct (list_eqb (ascii_lower name) s_hsla); [apply with_alpha_total; exact parse_hsl_total|].
    eauto.
  - (* hash *)
    destruct (hash_matches v) eqn:E; [|eauto].
    rewrite (hash_groups_ok v E). cbn [bind]. eauto.
Qed.

(* ------------------------------------------------------------------ media queries *)
Lemma mq_parts_total parts media : exists r, mq_parts parts media = Ok r.
Proof.
  revert media. induction parts as [|part r IH]; intros media; cbn [mq_parts]; [eauto|].
  destruct (len part =? 1) eqn:E; [|eauto].
  destruct (index_ok 820 part 0 ltac:(lia)) as [t Ht]. rewrite Ht. cbn [bind].
  destruct t; eauto.
Qed.

Theorem parse_media_query_total tokens : exists r, parse_media_query tokens = Ok r.
Proof.
  unfold parse_media_query. destruct (len (remove_whitespace tokens) =? 0); [eauto|].
  apply mq_parts_total.
Qed.

Theorem import_media_total prelude : exists r, import_media prelude = Ok r.
Proof.
  unfold import_media. set (tokens := remove_whitespace prelude).
  destruct (len tokens >? 0) eqn:E; [|eauto].
  destruct (index_ok 821 tokens 0 ltac:(lia)) as [t Ht]. rewrite Ht. cbn [bind].
  rewrite slice_from_ok by lia. cbn [bind]. apply parse_media_query_total.
Qed.

Example mq_print_screen :
  parse_media_query [PIdent [80; 114; 105; 110; 116]%N; PWs; PLit s_comma; PIdent [115]%N]
  = Ok (Some [[112; 114; 105; 110; 116]%N; [115]%N]).
Proof. reflexivity. Qed.
Example mq_invalid : parse_media_query [PLit s_comma] = Ok None.
Proof. reflexivity. Qed.
Example color_rgba_ok :
  parse_color (PFunc s_rgba [PNumber true 1 [49]%N; PLit s_comma; PNumber true 2 [50]%N; PLit s_comma;
                             PNumber true 3 [51]%N; PLit s_comma; PNumber false 0 [46; 53]%N]) = Ok ColRGBA.
Proof. reflexivity. Qed.
Example color_rgba_short : parse_color (PFunc s_rgba [PNumber true 1 [49]%N]) = Ok ColInvalid.
Proof. reflexivity. Qed.
