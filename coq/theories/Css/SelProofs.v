(* Css/SelProofs.v -- the model of Css/Sel.v meets the specification of
   Css/SelSpec.v: string predicates, an+b arithmetic, structural counting,
   combinators, and the main theorem matches_spec; specificity. *)
From Verif Require Import Css.Sel Css.SelSpec.
From Coq Require Import ZArith NArith Lia List Bool Arith ZifyBool ZifyNat ZifyN.
Import ListNotations.

(* ------------------------------------------------------------------ strings *)

Lemma str_eqb_eq a b : str_eqb a b = true <-> a = b.
Proof.
  revert b; induction a as [|x a IH]; intros [|y b]; simpl; split; intros H; try discriminate; try reflexivity.
  - apply andb_true_iff in H as [H1 H2]. apply N.eqb_eq in H1. apply IH in H2. congruence.
  - injection H as -> ->. rewrite N.eqb_refl. simpl. apply IH. reflexivity.
Qed.
Lemma str_eqb_refl a : str_eqb a a = true.
Proof. apply str_eqb_eq. reflexivity. Qed.
Lemma str_eqb_neq a b : str_eqb a b = false <-> a <> b.
Proof.
  split.
  - intros H E. apply str_eqb_eq in E. congruence.
  - intros H. destruct (str_eqb a b) eqn:E; [|reflexivity]. apply str_eqb_eq in E. contradiction.
Qed.

Lemma lower_ascii c : lower c = ascii_lower c.
Proof. reflexivity. Qed.

Lemma map_lower_Forall2 x y :
  map lower x = map lower y <-> Forall2 (fun a b => ascii_lower a = ascii_lower b) x y.
Proof.
  revert y; induction x as [|a x IH]; intros [|b y]; simpl; split; intros H; try discriminate; try constructor;
    try (inversion H; fail).
  - injection H as H1 H2. exact H1.
  - injection H as H1 H2. apply IH. exact H2.
  - inversion H; subst. f_equal; [assumption | apply IH; assumption].
Qed.

Lemma veq_spec ic a b : veq ic a b = true <-> eq_mod_case ic a b.
Proof.
  unfold veq, eq_mod_case, fold_case, to_lower. destruct ic.
  - rewrite str_eqb_eq. apply map_lower_Forall2.
  - apply str_eqb_eq.
Qed.

Lemma eq_mod_case_fold ic a b : eq_mod_case ic a b <-> fold_case ic a = fold_case ic b.
Proof.
  unfold eq_mod_case, fold_case, to_lower. destruct ic; [symmetry; apply map_lower_Forall2 | tauto].
Qed.

Lemma eq_mod_case_length ic a b : eq_mod_case ic a b -> length a = length b.
Proof.
  intros H. apply eq_mod_case_fold in H. unfold fold_case, to_lower in H. destruct ic.
  - apply (f_equal (@length N)) in H. rewrite !map_length in H. exact H.
  - congruence.
Qed.

Lemma fold_case_app ic a b : fold_case ic (a ++ b) = fold_case ic a ++ fold_case ic b.
Proof. unfold fold_case, to_lower. destruct ic; [apply map_app | reflexivity]. Qed.

Lemma fold_case_split ic s x y : fold_case ic s = x ++ y ->
  exists s1 s2, s = s1 ++ s2 /\ fold_case ic s1 = x /\ fold_case ic s2 = y.
Proof.
  unfold fold_case, to_lower. destruct ic.
  - apply map_eq_app.
  - intros ->. eauto.
Qed.

Lemma has_prefix_spec s pre : has_prefix s pre = true <-> exists rest, s = pre ++ rest.
Proof.
  revert s; induction pre as [|x pre IH]; intros s; simpl.
  - split; [intros _; exists s; reflexivity | reflexivity].
  - destruct s as [|y s].
    + split; [discriminate | intros [r H]; discriminate].
    + rewrite andb_true_iff, N.eqb_eq, IH. split.
      * intros [-> [r ->]]. eauto.
      * intros [r H]. injection H as -> ->. eauto.
Qed.

Lemma contains_spec s sub : contains s sub = true <-> exists pre post, s = pre ++ sub ++ post.
Proof.
  induction s as [|c s IH]; simpl.
  - rewrite orb_false_r, has_prefix_spec. split.
    + intros [r H]. exists [], r. exact H.
    + intros [pre [post H]]. destruct pre; [eauto | discriminate].
  - rewrite orb_true_iff, has_prefix_spec, IH. split.
    + intros [[r H] | [pre [post H]]].
      * exists [], r. exact H.
      * exists (c :: pre), post. simpl. congruence.
    + intros [pre [post H]]. destruct pre as [|x pre].
      * left. eauto.
      * right. injection H as -> H. eauto.
Qed.

Lemma has_suffix_spec s suf : has_suffix s suf = true <-> exists rest, s = rest ++ suf.
Proof.
  unfold has_suffix. rewrite andb_true_iff, str_eqb_eq. split.
  - intros [Hl H]. apply Nat.leb_le in Hl. exists (firstn (length s - length suf) s).
    rewrite <- (firstn_skipn (length s - length suf) s) at 1. rewrite H. reflexivity.
  - intros [r ->]. rewrite app_length. split; [apply Nat.leb_le; lia|].
    replace (length r + length suf - length suf)%nat with (length r) by lia.
    rewrite skipn_app, skipn_all, Nat.sub_diag. reflexivity.
Qed.

Lemma prefix_spec ic v val :
  has_prefix (fold_case ic v) (fold_case ic val) = true <-> exists w rest, v = w ++ rest /\ eq_mod_case ic w val.
Proof.
  rewrite has_prefix_spec. split.
  - intros [r H]. apply fold_case_split in H as [w [rest [-> [H1 H2]]]].
    exists w, rest. split; [reflexivity|]. apply eq_mod_case_fold. exact H1.
  - intros [w [rest [-> H]]]. apply eq_mod_case_fold in H. rewrite fold_case_app, H. eauto.
Qed.

Lemma suffix_spec ic v val :
  has_suffix (fold_case ic v) (fold_case ic val) = true <-> exists rest w, v = rest ++ w /\ eq_mod_case ic w val.
Proof.
  rewrite has_suffix_spec. split.
  - intros [r H]. apply fold_case_split in H as [rest [w [-> [H1 H2]]]].
    exists rest, w. split; [reflexivity|]. apply eq_mod_case_fold. exact H2.
  - intros [rest [w [-> H]]]. apply eq_mod_case_fold in H. rewrite fold_case_app, H. eauto.
Qed.

Lemma substr_spec ic v val :
  contains (fold_case ic v) (fold_case ic val) = true <->
  exists pre w post, v = pre ++ w ++ post /\ eq_mod_case ic w val.
Proof.
  rewrite contains_spec. split.
  - intros [pre [post H]]. apply fold_case_split in H as [pre' [r [-> [H1 H2]]]].
    apply fold_case_split in H2 as [w [post' [-> [H2 H3]]]].
    exists pre', w, post'. split; [reflexivity|]. apply eq_mod_case_fold. exact H2.
  - intros [pre [w [post [-> H]]]]. apply eq_mod_case_fold in H. rewrite !fold_case_app, H. eauto.
Qed.

(* white space *)
Lemma is_space_ws c : is_space c = true <-> ws c.
Proof.
  unfold is_space, ws. rewrite !orb_true_iff, !N.eqb_eq. tauto.
Qed.
Lemma is_space_lower c : is_space (lower c) = is_space c.
Proof.
  unfold lower. destruct ((65 <=? c)%N && (c <=? 90)%N) eqn:E; [|reflexivity].
  unfold is_space. destruct (N.eqb_spec c 32), (N.eqb_spec c 9), (N.eqb_spec c 13), (N.eqb_spec c 10), (N.eqb_spec c 12); try lia.
Qed.

Definition no_ws (s : str) : Prop := forall c, In c s -> ~ ws c.

Lemma eq_mod_case_no_ws ic a b : eq_mod_case ic a b -> no_ws b -> no_ws a.
Proof.
  unfold eq_mod_case. destruct ic; [|intros ->; auto].
  intros H. induction H as [|x y a b Hxy H IH]; intros Hb c Hc; [destruct Hc|].
  destruct Hc as [->|Hc].
  - intros Hw. apply (Hb y (or_introl eq_refl)). apply is_space_ws. apply is_space_ws in Hw.
    rewrite <- is_space_lower, lower_ascii, <- Hxy, <- lower_ascii, is_space_lower. exact Hw.
  - apply IH; [|exact Hc]. intros z Hz. apply Hb. right. exact Hz.
Qed.

Lemma eq_mod_case_nil ic a : eq_mod_case ic a [] -> a = [].
Proof. intros H. apply eq_mod_case_length in H. destruct a; [reflexivity | discriminate]. Qed.

(* a word w without white space inside `x ++ c :: y` with c white space lies in x or in y *)
Lemma word_split (x y pre w post : str) c :
  ws c -> no_ws w -> x ++ c :: y = pre ++ w ++ post ->
  (exists t, x = pre ++ w ++ t /\ post = t ++ c :: y) \/ (exists t, pre = x ++ c :: t /\ y = t ++ w ++ post).
Proof.
  intros Hc Hw H. apply app_eq_app in H as [l [[H1 H2] | [H1 H2]]].
  - (* x = pre ++ l, w ++ post = l ++ c :: y *)
    apply app_eq_app in H2 as [l2 [[H3 H4] | [H3 H4]]].
    + (* w = l ++ l2, c :: y = l2 ++ post *)
      destruct l2 as [|z l2].
      * simpl in H4. rewrite app_nil_r in H3. subst. left. exists []. rewrite app_nil_r. split; reflexivity.
      * injection H4 as <- H4. exfalso. apply (Hw c); [|exact Hc]. subst w. apply in_or_app. right. left. reflexivity.
    + (* l = w ++ l2, post = l2 ++ c :: y *)
      left. exists l2. subst. split; reflexivity.
  - (* pre = x ++ l, c :: y = l ++ w ++ post *)
    destruct l as [|z l].
    + simpl in H2. rewrite app_nil_r in H1. subst pre.
      destruct w as [|z w].
      * left. exists []. simpl. rewrite app_nil_r. split; [reflexivity | symmetry; exact H2].
      * injection H2 as <- H2. exfalso. apply (Hw c); [left; reflexivity | exact Hc].
    + injection H2 as <- H2. right. exists l. split; assumption.
Qed.

Lemma no_ws_app a b : no_ws (a ++ b) <-> no_ws a /\ no_ws b.
Proof.
  unfold no_ws. split.
  - intros H. split; intros c Hc; apply H; apply in_or_app; auto.
  - intros [Ha Hb] c Hc. apply in_app_or in Hc as [Hc|Hc]; auto.
Qed.

Lemma ends_word_no_ws pre : ends_word pre -> no_ws pre -> pre = [].
Proof.
  intros [->|[pre' [c [-> Hc]]]] H; [reflexivity|].
  exfalso. apply (H c); [apply in_or_app; right; left; reflexivity | exact Hc].
Qed.
Lemma starts_word_no_ws post : starts_word post -> no_ws post -> post = [].
Proof.
  intros [->|[c [post' [-> Hc]]]] H; [reflexivity|].
  exfalso. apply (H c); [left; reflexivity | exact Hc].
Qed.

Lemma match_include_loop_spec ic val : val <> [] -> no_ws val ->
  forall s cur, no_ws cur ->
  (match_include_loop ic val cur s = true <->
   exists pre w post, rev cur ++ s = pre ++ w ++ post /\ eq_mod_case ic w val /\ ends_word pre /\ starts_word post).
Proof.
  intros Hne Hval. induction s as [|c s IH]; intros cur Hcur; simpl.
  - rewrite app_nil_r. assert (Hrc : no_ws (rev cur)) by (intros x Hx; apply Hcur; apply in_rev; exact Hx).
    split.
    + intros H. destruct cur as [|x cur]; [discriminate|]. apply veq_spec in H.
      exists [], (rev (x :: cur)), []. rewrite app_nil_r. simpl. repeat split; try (left; reflexivity). exact H.
    + intros [pre [w [post [E [Hw [Hp Hq]]]]]].
      rewrite E in Hrc. apply no_ws_app in Hrc as [H1 H2]. apply no_ws_app in H2 as [H2 H3].
      apply ends_word_no_ws in Hp; [|exact H1]. apply starts_word_no_ws in Hq; [|exact H3]. subst pre post.
      simpl in E. rewrite app_nil_r in E. subst w.
      destruct cur as [|x cur].
      * simpl in Hw. apply eq_mod_case_length in Hw. destruct val; [contradiction | discriminate].
      * apply veq_spec. exact Hw.
  - assert (Hrc : no_ws (rev cur)) by (intros x Hx; apply Hcur; apply in_rev; exact Hx).
    destruct (is_space c) eqn:Ec.
    + apply is_space_ws in Ec. rewrite orb_true_iff, veq_spec, (IH [] (fun _ F => match F with end)). simpl. split.
      * intros [H | [pre [w [post [E [Hw [Hp Hq]]]]]]].
        -- exists [], (rev cur), (c :: s). simpl. repeat split; [exact H | left; reflexivity | right; eauto].
        -- exists (rev cur ++ c :: pre), w, post. rewrite E, <- app_assoc. simpl. repeat split; [exact Hw | | exact Hq].
           right. destruct Hp as [->|[pre' [z [-> Hz]]]].
           ++ exists (rev cur), c. split; [reflexivity | exact Ec].
           ++ exists (rev cur ++ c :: pre'), z. rewrite <- app_assoc. split; [reflexivity | exact Hz].
      * intros [pre [w [post [E [Hw [Hp Hq]]]]]].
        assert (Hww : no_ws w) by (eapply eq_mod_case_no_ws; eassumption).
        apply word_split in E as [[t [E1 E2]] | [t [E1 E2]]]; [| |exact Ec|exact Hww].
        -- left. rewrite E1 in Hrc. apply no_ws_app in Hrc as [H1 H2]. apply no_ws_app in H2 as [H2 H3].
           apply ends_word_no_ws in Hp; [|exact H1]. subst pre. simpl in E1.
           destruct t as [|z t].
           ++ rewrite app_nil_r in E1. subst w. exact Hw.
           ++ exfalso. destruct Hq as [Hq|[z' [post' [Hq Hz]]]]; [subst post; discriminate|].
              rewrite Hq in E2. injection E2 as -> _. apply (H3 z); [left; reflexivity | exact Hz].
        -- right. exists t, w, post. repeat split; [exact E2 | exact Hw | | exact Hq].
           destruct t as [|z t] using rev_ind; [left; reflexivity|]. right.
           destruct Hp as [Hp|[pre' [z' [Hp Hz]]]]; [subst pre; destruct (rev cur); discriminate|].
           rewrite Hp in E1. replace (rev cur ++ c :: t ++ [z]) with ((rev cur ++ c :: t) ++ [z]) in E1 by (rewrite <- app_assoc; reflexivity).
           apply app_inj_tail in E1 as [_ ->]. eauto.
    + assert (Hc : ~ ws c) by (intros W; apply is_space_ws in W; congruence).
      rewrite (IH (c :: cur)).
      * simpl. rewrite <- app_assoc. simpl. tauto.
      * intros x [<-|Hx]; [exact Hc | apply Hcur; exact Hx].
Qed.

Lemma no_ws_dec (s : str) : no_ws s \/ exists c, In c s /\ ws c.
Proof.
  induction s as [|x s IH].
  - left. intros c [].
  - destruct (is_space x) eqn:E.
    + right. exists x. split; [left; reflexivity | apply is_space_ws; exact E].
    + destruct IH as [IH|[c [Hc Hw]]].
      * left. intros c [<-|Hc]; [intros W; apply is_space_ws in W; congruence | apply IH; exact Hc].
      * right. exists c. split; [right; exact Hc | exact Hw].
Qed.

(* the loop never matches a value containing white space: segments have none *)
Lemma match_include_loop_ws ic val : (exists c, In c val /\ ws c) ->
  forall s cur, no_ws cur -> match_include_loop ic val cur s = false.
Proof.
  intros [c0 [Hc0 Hw0]]. 
  assert (Hno : forall w, no_ws w -> veq ic w val = false).
  { intros w Hw. destruct (veq ic w val) eqn:E; [|reflexivity]. apply veq_spec in E.
    exfalso. 
    assert (Hv : no_ws val).
    { unfold eq_mod_case in E. destruct ic; [|subst; exact Hw].
      eapply eq_mod_case_no_ws with (ic := true); [|exact Hw]. unfold eq_mod_case.
      clear -E. induction E; constructor; [symmetry; assumption | assumption]. }
    apply (Hv c0 Hc0 Hw0). }
  induction s as [|c s IH]; intros cur Hcur; simpl.
  - destruct cur; [reflexivity|]. apply Hno. intros x Hx. apply Hcur. apply in_rev. exact Hx.
  - destruct (is_space c) eqn:Ec.
    + rewrite Hno, (IH []); [reflexivity | intros _ [] | intros x Hx; apply Hcur; apply in_rev; exact Hx].
    + apply IH. intros x [<-|Hx]; [intros W; apply is_space_ws in W; congruence | apply Hcur; exact Hx].
Qed.

Lemma match_include_spec ic val v : match_include val v ic = true <-> v_includes ic v val.
Proof.
  unfold match_include, v_includes. destruct val as [|c0 val0] eqn:Ev.
  - split; [discriminate | intros [H _]; contradiction].
  - rewrite <- Ev. assert (Hne : val <> []) by (subst; discriminate).
    destruct (no_ws_dec val) as [Hn|Hw].
    + rewrite (match_include_loop_spec ic val Hne Hn v [] (fun _ F => match F with end)). simpl.
      split; [intros H; repeat split; assumption | intros [_ [_ H]]; exact H].
    + rewrite (match_include_loop_ws ic val Hw v [] (fun _ F => match F with end)).
      split; [discriminate|]. intros [_ [Hn _]]. destruct Hw as [c [Hc W]]. exfalso. exact (Hn c Hc W).
Qed.

(* ------------------------------------------------------------------ attributes *)

Lemma is_elem_iff n : is_elem n = true <-> ntype_of n = TElement.
Proof. unfold is_elem. destruct (ntype_of n); split; congruence. Qed.

Lemma match_attribute_spec n key f P : (forall v, f v = true <-> P v) ->
  (match_attribute n key f = true <-> ntype_of n = TElement /\ attribute n key P).
Proof.
  intros HfP. unfold match_attribute, attribute. rewrite andb_true_iff, is_elem_iff, existsb_exists.
  split; intros [He [a [Ha H]]]; (split; [exact He|]); exists a; (split; [exact Ha|]).
  - apply andb_true_iff in H as [H1 H2]. apply str_eqb_eq in H1. apply HfP in H2. auto.
  - destruct H as [H1 H2]. apply andb_true_iff. split; [apply str_eqb_eq; exact H1 | apply HfP; exact H2].
Qed.

(* a string that strings.TrimSpace reduces to "" consists of ASCII white space and bytes >= 128 *)
Lemma go_blank_bytes : forall m v, (length v <= m)%nat -> go_blank v = true ->
  forall c, In c v -> go_space_ascii c = true \/ (128 <= c)%N.
Proof.
  induction m as [|m IH]; intros v Hl Hb c Hc.
  - destruct v; [destruct Hc | simpl in Hl; lia].
  - destruct v as [|c1 r]; [destruct Hc|]. simpl in Hb, Hl.
    destruct (go_space_ascii c1) eqn:E1.
    + destruct Hc as [<-|Hc]; [left; exact E1 | apply (IH r); [lia | exact Hb | exact Hc]].
    + destruct r as [|c2 r2]; [discriminate|]. simpl in Hl.
      destruct (N.eqb_spec c1 194) as [->|N1].
      * apply andb_true_iff in Hb as [H2 Hb].
        destruct Hc as [<-|[<-|Hc]]; [right; lia | right; lia | apply (IH r2); [lia | exact Hb | exact Hc]].
      * destruct r2 as [|c3 r3]; [discriminate|]. simpl in Hl.
        assert (H3 : (128 <= c1 /\ 128 <= c2 /\ 128 <= c3)%N /\ go_blank r3 = true).
        { destruct (N.eqb_spec c1 225) as [->|N2]; [split; [lia|]; apply andb_true_iff in Hb; apply Hb|].
          destruct (N.eqb_spec c1 226) as [->|N3]; [split; [lia|]; apply andb_true_iff in Hb; apply Hb|].
          destruct (N.eqb_spec c1 227) as [->|N4]; [split; [lia|]; apply andb_true_iff in Hb; apply Hb|].
          discriminate. }
        destruct H3 as [[G1 [G2 G3]] Hb3].
        destruct Hc as [<-|[<-|[<-|Hc]]]; [right; exact G1 | right; exact G2 | right; exact G3 |].
        apply (IH r3); [lia | exact Hb3 | exact Hc].
Qed.

Lemma eq_mod_case_in ic w val c : eq_mod_case ic w val -> In c val ->
  exists x, In x w /\ (x = c \/ ascii_lower x = ascii_lower c).
Proof.
  unfold eq_mod_case. destruct ic.
  - intros H. induction H as [|x y w val Hxy H IH]; intros Hc; [destruct Hc|].
    destruct Hc as [->|Hc].
    + exists x. split; [left; reflexivity | right; exact Hxy].
    + destruct (IH Hc) as [z [Hz Hzc]]. exists z. split; [right; exact Hz | exact Hzc].
  - intros -> Hc. exists c. auto.
Qed.

Lemma blank_no_visible ic v val pre w post :
  go_blank v = true -> val_visible val -> v = pre ++ w ++ post -> eq_mod_case ic w val -> False.
Proof.
  intros Hb [c [Hc [Hlt Hsp]]] -> Hw.
  destruct (eq_mod_case_in _ _ _ _ Hw Hc) as [x [Hx Hxc]].
  assert (Hin : In x (pre ++ w ++ post)) by (apply in_or_app; right; apply in_or_app; left; exact Hx).
  pose proof (go_blank_bytes _ _ (le_n _) Hb x Hin) as Hxb.
  unfold go_space_ascii in *. unfold ascii_lower in Hxc.
  destruct Hxc as [->|Hxc]; [lia|].
  destruct ((65 <=? x)%N && (x <=? 90)%N) eqn:E1, ((65 <=? c)%N && (c <=? 90)%N) eqn:E2; lia.
Qed.

(* the three substring operators, for one attribute value v.
   `ok`: the attribute value is not a non-empty blank string, or the selector value is visible *)
Definition blank_case_ok (v val : str) : Prop := (go_blank v = true -> v = []) \/ val = [] \/ val_visible val.

Lemma w_nonempty ic w val : val <> [] -> eq_mod_case ic w val -> w <> [].
Proof. intros Hv H ->. apply eq_mod_case_length in H. destruct val; [contradiction | discriminate]. Qed.

Lemma op_prefix_spec ic v val : blank_case_ok v val ->
  (match val with [] => false | _ => if go_blank v then false else has_prefix (fold_case ic v) (fold_case ic val) end = true
   <-> v_prefix ic v val).
Proof.
  intros Hok. unfold v_prefix. destruct val as [|c0 val0] eqn:Ev; [split; [discriminate | intros [H _]; contradiction]|].
  rewrite <- Ev in *. assert (Hne : val <> []) by (subst; discriminate).
  destruct (go_blank v) eqn:Eb.
  - split; [discriminate|]. intros [_ [w [rest [E Hw]]]]. exfalso.
    destruct Hok as [H|[H|H]]; [| contradiction |].
    + rewrite (H Eb) in E. symmetry in E. apply app_eq_nil in E as [E _]. exact (w_nonempty _ _ _ Hne Hw E).
    + apply (blank_no_visible ic v val [] w rest Eb H E Hw).
  - rewrite prefix_spec. tauto.
Qed.

Lemma op_suffix_spec ic v val : blank_case_ok v val ->
  (match val with [] => false | _ => if go_blank v then false else has_suffix (fold_case ic v) (fold_case ic val) end = true
   <-> v_suffix ic v val).
Proof.
  intros Hok. unfold v_suffix. destruct val as [|c0 val0] eqn:Ev; [split; [discriminate | intros [H _]; contradiction]|].
  rewrite <- Ev in *. assert (Hne : val <> []) by (subst; discriminate).
  destruct (go_blank v) eqn:Eb.
  - split; [discriminate|]. intros [_ [rest [w [E Hw]]]]. exfalso.
    destruct Hok as [H|[H|H]]; [| contradiction |].
    + rewrite (H Eb) in E. symmetry in E. apply app_eq_nil in E as [_ E]. exact (w_nonempty _ _ _ Hne Hw E).
    + apply (blank_no_visible ic v val rest w [] Eb H); [rewrite app_nil_r; exact E | exact Hw].
  - rewrite suffix_spec. tauto.
Qed.

Lemma op_substr_spec ic v val : blank_case_ok v val ->
  (match val with [] => false | _ => if go_blank v then false else contains (fold_case ic v) (fold_case ic val) end = true
   <-> v_substr ic v val).
Proof.
  intros Hok. unfold v_substr. destruct val as [|c0 val0] eqn:Ev; [split; [discriminate | intros [H _]; contradiction]|].
  rewrite <- Ev in *. assert (Hne : val <> []) by (subst; discriminate).
  destruct (go_blank v) eqn:Eb.
  - split; [discriminate|]. intros [_ [pre [w [post [E Hw]]]]]. exfalso.
    destruct Hok as [H|[H|H]]; [| contradiction |].
    + rewrite (H Eb) in E. symmetry in E. apply app_eq_nil in E as [_ E]. apply app_eq_nil in E as [E _].
      exact (w_nonempty _ _ _ Hne Hw E).
    + apply (blank_no_visible ic v val pre w post Eb H E Hw).
  - rewrite substr_spec. tauto.
Qed.

Lemma op_dash_spec ic v val :
  (if veq ic v val then true
   else if (length v <=? length val)%nat then false
   else N.eqb (nth (length val) v 0%N) c_dash && veq ic (firstn (length val) v) val) = true
  <-> v_dash ic v val.
Proof.
  unfold v_dash. destruct (veq ic v val) eqn:E.
  - apply veq_spec in E. tauto.
  - assert (Hn : ~ eq_mod_case ic v val) by (intros H; apply veq_spec in H; congruence).
    destruct (Nat.leb_spec (length v) (length val)) as [Hl|Hl].
    + split; [discriminate|]. intros [H|[w [rest [-> Hw]]]]; [contradiction|].
      apply eq_mod_case_length in Hw. rewrite app_length in Hl. simpl in Hl. lia.
    + rewrite andb_true_iff, N.eqb_eq, veq_spec. split.
      * intros [H1 H2]. right. exists (firstn (length val) v), (skipn (S (length val)) v). split; [|exact H2].
        rewrite <- (firstn_skipn (length val) v) at 1. f_equal.
        assert (Hs : (length val < length v)%nat) by lia.
        clear -H1 Hs. revert v H1 Hs. generalize (length val) as m.
        induction m as [|m IH]; intros [|x v] H1 Hs; simpl in *; try lia.
        -- subst. reflexivity.
        -- apply IH; [exact H1 | lia].
      * intros [H|[w [rest [-> Hw]]]]; [contradiction|].
        pose proof (eq_mod_case_length _ _ _ Hw) as Hlw. rewrite <- Hlw. split.
        -- rewrite app_nth2, Nat.sub_diag by lia. reflexivity.
        -- rewrite firstn_app, Nat.sub_diag, firstn_all. simpl. rewrite app_nil_r. exact Hw.
Qed.

(* ------------------------------------------------------------------ an+b and sibling counting *)

Open Scope Z_scope.

(* Go's truncating % and / decide An+B *)
Lemma nth_arith : forall a b i : Z, a <> 0 ->
  (Z.rem (i - b) a = 0 /\ Z.quot (i - b) a >= 0) <-> exists n, 0 <= n /\ i = a * n + b.
Proof.
  intros a b i Ha. split.
  - intros [Hr Hq]. exists (Z.quot (i - b) a). split; [lia|].
    pose proof (Z.quot_rem' (i - b) a). lia.
  - intros [n [Hn Hi]]. subst i. replace (a * n + b - b) with (n * a) by lia.
    rewrite Z.rem_mul, Z.quot_mul by assumption. lia.
Qed.

Lemma nth_arith0 : forall b i : Z, i - b = 0 <-> anb_ok 0 b i.
Proof.
  intros b i. unfold anb_ok. split.
  - intros H. exists 0. lia.
  - intros [n [_ H]]. lia.
Qed.

Lemma counts_counted ofType n c : counts ofType (data_of n) c = true <-> counted ofType n c.
Proof.
  unfold counts, counted. rewrite andb_true_iff, is_elem_iff, orb_true_iff, negb_true_iff, str_eqb_eq.
  destruct ofType; intuition congruence.
Qed.

Lemma count_kids_nonneg ofType tag l : 0 <= count_kids ofType tag l.
Proof. induction l as [|c l IH]; simpl; [lia|]. destruct (counts ofType tag c); lia. Qed.

Lemma count_kids_app ofType tag l1 l2 :
  count_kids ofType tag (l1 ++ l2) = count_kids ofType tag l1 + count_kids ofType tag l2.
Proof. induction l1 as [|c l IH]; simpl; [reflexivity|]. rewrite IH. lia. Qed.

Lemma count_kids_cons ofType tag c l :
  count_kids ofType tag (c :: l) = (if counts ofType tag c then 1 else 0) + count_kids ofType tag l.
Proof. reflexivity. Qed.

Lemma count_kids_rev ofType tag l : count_kids ofType tag (rev l) = count_kids ofType tag l.
Proof. induction l as [|c l IH]; simpl; [reflexivity|]. rewrite count_kids_app, IH. simpl. lia. Qed.

Lemma count_kids_count ofType n l k :
  count (counted ofType n) l k <-> Z.of_nat k = count_kids ofType (data_of n) l.
Proof.
  revert k. induction l as [|c l IH]; intros k; simpl.
  - split; [intros H; inversion H; reflexivity | intros H; assert (k = 0%nat) by lia; subst; constructor].
  - pose proof (count_kids_nonneg ofType (data_of n) l) as Hnn.
    destruct (counts ofType (data_of n) c) eqn:E.
    + apply counts_counted in E. split.
      * intros H. inversion H; subst; [|contradiction]. apply IH in H4. lia.
      * intros H. destruct k as [|k]; [lia|]. apply count_yes; [exact E | apply IH; lia].
    + assert (Hn : ~ counted ofType n c) by (intros H; apply counts_counted in H; congruence). split.
      * intros H. inversion H; subst; [contradiction|]. apply IH in H4. lia.
      * intros H. apply count_no; [exact Hn | apply IH; lia].
Qed.

Lemma nth_error_firstn_S {A} (l : list A) k x : nth_error l k = Some x -> firstn (S k) l = firstn k l ++ [x].
Proof.
  revert l; induction k as [|k IH]; intros [|y l] H; simpl in *; try discriminate.
  - injection H as ->. reflexivity.
  - f_equal. apply IH. exact H.
Qed.

Lemma nth_error_split3 {A} (l : list A) k x : nth_error l k = Some x -> l = firstn k l ++ x :: skipn (S k) l.
Proof.
  revert l; induction k as [|k IH]; intros [|y l] H; simpl in *; try discriminate.
  - injection H as ->. reflexivity.
  - f_equal. apply IH. exact H.
Qed.

Section Nth.
Variables (ofType : bool) (n : node) (kids : list node) (k : nat).
Hypothesis Hk : nth_error kids k = Some n.
Hypothesis He : is_elem n = true.

Let tag := data_of n.
Let before := count_kids ofType tag (firstn k kids).
Let after := count_kids ofType tag (skipn (S k) kids).

Lemma counts_self : counts ofType tag n = true.
Proof. unfold counts, tag. rewrite He, str_eqb_refl. destruct ofType; reflexivity. Qed.

Lemma count_upto : count_kids ofType tag (firstn (S k) kids) = before + 1.
Proof.
  rewrite (nth_error_firstn_S _ _ _ Hk), count_kids_app. simpl. rewrite counts_self. unfold before. lia.
Qed.
Lemma count_total : count_kids ofType tag kids = before + 1 + after.
Proof.
  rewrite (nth_error_split3 _ _ _ Hk) at 1. rewrite count_kids_app, count_kids_cons, counts_self. unfold before, after. lia.
Qed.

(* general path: pseudo_classes.go nthChildMatch *)
Lemma nth_child_match_spec a b last :
  nth_child_match a b last ofType n kids k = true <->
  anb_ok a b ((if last then after else before) + 1).
Proof.
  unfold nth_child_match. rewrite He. simpl negb. cbv iota. fold tag. rewrite count_upto, count_total.
  set (pos := (if last then after else before) + 1).
  replace (if last then before + 1 + after - (before + 1) + 1 else before + 1) with pos by (unfold pos; destruct last; lia).
  destruct (Z.eqb_spec a 0) as [->|Ha].
  - rewrite Z.eqb_eq. apply nth_arith0.
  - rewrite andb_true_iff, Z.eqb_eq, Z.geb_le. rewrite <- (nth_arith a b pos Ha). lia.
Qed.

(* fast path: simpleNthChildMatch's loop, started at sibling j with `cnt` counted so far *)
Lemma simple_nth_loop_spec b : forall l j cnt, (j <= k)%nat -> nth_error l (k - j) = Some n ->
  simple_nth_loop b ofType tag l j k cnt = (cnt + count_kids ofType tag (firstn (S (k - j)) l) =? b).
Proof.
  induction l as [|c l IH]; intros j cnt Hj Hn.
  - destruct (k - j)%nat; discriminate.
  - simpl simple_nth_loop. destruct (Nat.eqb_spec j k) as [->|Hjk].
    + rewrite Nat.sub_diag in *. simpl in Hn. injection Hn as ->. rewrite counts_self. simpl.
      rewrite ?counts_self. first [reflexivity | f_equal; lia].
    + assert (Hlt : (j < k)%nat) by lia.
      destruct (k - j)%nat as [|m] eqn:Em; [lia|]. simpl in Hn.
      assert (Em' : (k - S j)%nat = m) by lia.
      change (firstn (S (S m)) (c :: l)) with (c :: firstn (S m) l). rewrite count_kids_cons.
      destruct (counts ofType tag c) eqn:Ec; simpl negb; cbv iota.
      * assert (Hpos : 1 <= count_kids ofType tag (firstn (S m) l)).
        { rewrite (nth_error_firstn_S _ _ _ Hn), count_kids_app. simpl. rewrite counts_self.
          pose proof (count_kids_nonneg ofType tag (firstn m l)). lia. }
        destruct (Z.geb_spec (cnt + 1) b) as [Hge|Hge].
        -- symmetry. apply Z.eqb_neq. lia.
        -- rewrite IH; [|lia|rewrite Em'; exact Hn]. rewrite Em'. f_equal. lia.
      * rewrite IH; [|lia|rewrite Em'; exact Hn]. rewrite Em'. f_equal. 
Qed.

Lemma simple_nth_child_match_spec b :
  simple_nth_child_match b ofType n kids k = (before + 1 =? b).
Proof.
  unfold simple_nth_child_match. rewrite He. simpl negb. cbv iota. fold tag.
  rewrite simple_nth_loop_spec; [|lia|rewrite Nat.sub_0_r; exact Hk].
  rewrite Nat.sub_0_r, count_upto. reflexivity.
Qed.

End Nth.

Lemma nth_error_middle {A} (a : list A) x b : nth_error (a ++ x :: b) (length a) = Some x.
Proof. induction a; simpl; auto. Qed.
Lemma firstn_middle {A} (a : list A) x b : firstn (length a) (a ++ x :: b) = a.
Proof. induction a; simpl; [reflexivity | f_equal; assumption]. Qed.

Lemma simple_nth_last_child_match_spec ofType n kids k b :
  nth_error kids k = Some n -> is_elem n = true ->
  simple_nth_last_child_match b ofType n kids k =
  (count_kids ofType (data_of n) (skipn (S k) kids) + 1 =? b).
Proof.
  intros Hk He. unfold simple_nth_last_child_match. rewrite He. simpl negb. cbv iota.
  pose proof (nth_error_split3 _ _ _ Hk) as Hs.
  set (A := firstn k kids) in *. set (B := skipn (S k) kids) in *.
  assert (HlA : length A = k).
  { unfold A. apply firstn_length_le. apply Nat.lt_le_incl. apply nth_error_Some. congruence. }
  assert (Hk' : (length kids - 1 - k)%nat = length (rev B)).
  { rewrite Hs, app_length, rev_length. simpl. lia. }
  assert (Hr : rev kids = rev B ++ n :: rev A).
  { rewrite Hs, rev_app_distr. simpl. rewrite <- app_assoc. reflexivity. }
  rewrite Hk', Hr.
  rewrite (simple_nth_loop_spec ofType n [] (length (rev B)) He b);
    [|lia|rewrite Nat.sub_0_r; apply nth_error_middle].
  rewrite Nat.sub_0_r, (nth_error_firstn_S _ _ _ (nth_error_middle (rev B) n (rev A))), firstn_middle.
  rewrite count_kids_app, count_kids_rev. simpl. rewrite (counts_self ofType n [] 0%nat He). first [reflexivity | f_equal; lia].
Qed.

(* the fast paths (a = 0) agree with the general an+b path *)
Lemma simple_nth_eq ofType n kids k b : nth_error kids k = Some n ->
  simple_nth_child_match b ofType n kids k = nth_child_match 0 b false ofType n kids k /\
  simple_nth_last_child_match b ofType n kids k = nth_child_match 0 b true ofType n kids k.
Proof.
  intros Hk. destruct (is_elem n) eqn:He.
  - split.
    + rewrite (simple_nth_child_match_spec ofType n kids k Hk He b).
      apply Bool.eq_iff_eq_true.
      rewrite (nth_child_match_spec ofType n kids k Hk He 0 b false), Z.eqb_eq, <- nth_arith0. lia.
    + rewrite (simple_nth_last_child_match_spec ofType n kids k b Hk He).
      apply Bool.eq_iff_eq_true.
      rewrite (nth_child_match_spec ofType n kids k Hk He 0 b true), Z.eqb_eq, <- nth_arith0. lia.
  - unfold simple_nth_child_match, simple_nth_last_child_match, nth_child_match. rewrite He. simpl. split; reflexivity.
Qed.
