(* Css/SelProofs.v -- the model of Css/Sel.v meets the specification of
   Css/SelSpec.v: string predicates, an+b arithmetic, structural counting,
   combinators, and the main theorem matches_spec; specificity. *)
From Verif Require Import Css.Sel Css.SelSpec Css.SelWitness.
From Coq Require Import ZArith NArith Lia List Bool Arith ZifyBool ZifyNat ZifyN.
Import ListNotations.

(* ------------------------------------------------------------------ strings *)

Lemma str_eqb_eq a b : str_eqb a b = true <-> a = b.
Proof.
  revert b; induction a as [|x a IH]; intros [|y b]; simpl; split; intros H; try discriminate; try reflexivity.
  - apply andb_true_iff in H as [H1 H2]. apply N.eqb_eq in H1. apply IH in H2. congruence.
  - injection H as -> ->. rewrite N.eqb_refl. simpl. apply IH. reflexivity.
Qed.
Lemma str_eqb_refl a : str_eqb a a = true.
Proof. apply str_eqb_eq. reflexivity. Qed.
Lemma str_eqb_neq a b : str_eqb a b = false <-> a <> b.
Proof.
  split.
  - intros H E. apply str_eqb_eq in E. congruence.
  - intros H. destruct (str_eqb a b) eqn:E; [|reflexivity]. apply str_eqb_eq in E. contradiction.
Qed.

Lemma lower_ascii c : lower c = ascii_lower c.
Proof. reflexivity. Qed.

Lemma map_lower_Forall2 x y :
  map lower x = map lower y <-> Forall2 (fun a b => ascii_lower a = ascii_lower b) x y.
Proof.
  revert y; induction x as [|a x IH]; intros [|b y]; simpl; split; intros H; try discriminate; try constructor;
    try (inversion H; fail).
  - injection H as H1 H2. exact H1.
  - injection H as H1 H2. apply IH. exact H2.
  - inversion H; subst. f_equal; [assumption | apply IH; assumption].
Qed.

Lemma veq_spec ic a b : veq ic a b = true <-> eq_mod_case ic a b.
Proof.
  unfold veq, eq_mod_case, fold_case, to_lower. destruct ic.
  - rewrite str_eqb_eq. apply map_lower_Forall2.
  - apply str_eqb_eq.
Qed.

Lemma eq_mod_case_fold ic a b : eq_mod_case ic a b <-> fold_case ic a = fold_case ic b.
Proof.
  unfold eq_mod_case, fold_case, to_lower. destruct ic; [symmetry; apply map_lower_Forall2 | tauto].
Qed.

Lemma eq_mod_case_length ic a b : eq_mod_case ic a b -> length a = length b.
Proof.
  intros H. apply eq_mod_case_fold in H. unfold fold_case, to_lower in H. destruct ic.
  - apply (f_equal (@length N)) in H. rewrite !map_length in H. exact H.
  - congruence.
Qed.

Lemma fold_case_app ic a b : fold_case ic (a ++ b) = fold_case ic a ++ fold_case ic b.
Proof. unfold fold_case, to_lower. destruct ic; [apply map_app | reflexivity]. Qed.

Lemma fold_case_split ic s x y : fold_case ic s = x ++ y ->
  exists s1 s2, s = s1 ++ s2 /\ fold_case ic s1 = x /\ fold_case ic s2 = y.
Proof.
  unfold fold_case, to_lower. destruct ic.
  - apply map_eq_app.
  - intros ->. eauto.
Qed.

Lemma has_prefix_spec s pre : has_prefix s pre = true <-> exists rest, s = pre ++ rest.
Proof.
  revert s; induction pre as [|x pre IH]; intros s; simpl.
  - split; [intros _; exists s; reflexivity | reflexivity].
  - destruct s as [|y s].
    + split; [discriminate | intros [r H]; discriminate].
    + rewrite andb_true_iff, N.eqb_eq, IH. split.
      * intros [-> [r ->]]. eauto.
      * intros [r H]. injection H as -> ->. eauto.
Qed.

Lemma contains_spec s sub : contains s sub = true <-> exists pre post, s = pre ++ sub ++ post.
Proof.
  induction s as [|c s IH]; simpl.
  - rewrite orb_false_r, has_prefix_spec. split.
    + intros [r H]. exists [], r. exact H.
    + intros [pre [post H]]. destruct pre; [eauto | discriminate].
  - rewrite orb_true_iff, has_prefix_spec, IH. split.
    + intros [[r H] | [pre [post H]]].
      * exists [], r. exact H.
      * exists (c :: pre), post. simpl. congruence.
    + intros [pre [post H]]. destruct pre as [|x pre].
      * left. eauto.
      * right. injection H as -> H. eauto.
Qed.

Lemma has_suffix_spec s suf : has_suffix s suf = true <-> exists rest, s = rest ++ suf.
Proof.
  unfold has_suffix. rewrite andb_true_iff, str_eqb_eq. split.
  - intros [Hl H]. apply Nat.leb_le in Hl. exists (firstn (length s - length suf) s).
    rewrite <- (firstn_skipn (length s - length suf) s) at 1. rewrite H. reflexivity.
  - intros [r ->]. rewrite app_length. split; [apply Nat.leb_le; lia|].
    replace (length r + length suf - length suf)%nat with (length r) by lia.
    rewrite skipn_app, skipn_all, Nat.sub_diag. reflexivity.
Qed.

Lemma prefix_spec ic v val :
  has_prefix (fold_case ic v) (fold_case ic val) = true <-> exists w rest, v = w ++ rest /\ eq_mod_case ic w val.
Proof.
  rewrite has_prefix_spec. split.
  - intros [r H]. apply fold_case_split in H as [w [rest [-> [H1 H2]]]].
    exists w, rest. split; [reflexivity|]. apply eq_mod_case_fold. exact H1.
  - intros [w [rest [-> H]]]. apply eq_mod_case_fold in H. rewrite fold_case_app, H. eauto.
Qed.

Lemma suffix_spec ic v val :
  has_suffix (fold_case ic v) (fold_case ic val) = true <-> exists rest w, v = rest ++ w /\ eq_mod_case ic w val.
Proof.
  rewrite has_suffix_spec. split.
  - intros [r H]. apply fold_case_split in H as [rest [w [-> [H1 H2]]]].
    exists rest, w. split; [reflexivity|]. apply eq_mod_case_fold. exact H2.
  - intros [rest [w [-> H]]]. apply eq_mod_case_fold in H. rewrite fold_case_app, H. eauto.
Qed.

Lemma substr_spec ic v val :
  contains (fold_case ic v) (fold_case ic val) = true <->
  exists pre w post, v = pre ++ w ++ post /\ eq_mod_case ic w val.
Proof.
  rewrite contains_spec. split.
  - intros [pre [post H]]. apply fold_case_split in H as [pre' [r [-> [H1 H2]]]].
    apply fold_case_split in H2 as [w [post' [-> [H2 H3]]]].
    exists pre', w, post'. split; [reflexivity|]. apply eq_mod_case_fold. exact H2.
  - intros [pre [w [post [-> H]]]]. apply eq_mod_case_fold in H. rewrite !fold_case_app, H. eauto.
Qed.

(* white space *)
Lemma is_space_ws c : is_space c = true <-> ws c.
Proof.
  unfold is_space, ws. rewrite !orb_true_iff, !N.eqb_eq. tauto.
Qed.
Lemma is_space_lower c : is_space (lower c) = is_space c.
Proof.
  unfold lower. destruct ((65 <=? c)%N && (c <=? 90)%N) eqn:E; [|reflexivity].
  unfold is_space. destruct (N.eqb_spec c 32), (N.eqb_spec c 9), (N.eqb_spec c 13), (N.eqb_spec c 10), (N.eqb_spec c 12); try lia.
Qed.

Definition no_ws (s : str) : Prop := forall c, In c s -> ~ ws c.

Lemma eq_mod_case_no_ws ic a b : eq_mod_case ic a b -> no_ws b -> no_ws a.
Proof.
  unfold eq_mod_case. destruct ic; [|intros ->; auto].
  intros H. induction H as [|x y a b Hxy H IH]; intros Hb c Hc; [destruct Hc|].
  destruct Hc as [->|Hc].
  - intros Hw. apply (Hb y (or_introl eq_refl)). apply is_space_ws. apply is_space_ws in Hw.
    rewrite <- is_space_lower, lower_ascii, <- Hxy, <- lower_ascii, is_space_lower. exact Hw.
  - apply IH; [|exact Hc]. intros z Hz. apply Hb. right. exact Hz.
Qed.

Lemma eq_mod_case_nil ic a : eq_mod_case ic a [] -> a = [].
Proof. intros H. apply eq_mod_case_length in H. destruct a; [reflexivity | discriminate]. Qed.

(* a word w without white space inside `x ++ c :: y` with c white space lies in x or in y *)
Lemma word_split (x y pre w post : str) c :
  ws c -> no_ws w -> x ++ c :: y = pre ++ w ++ post ->
  (exists t, x = pre ++ w ++ t /\ post = t ++ c :: y) \/ (exists t, pre = x ++ c :: t /\ y = t ++ w ++ post).
Proof.
  intros Hc Hw H. apply app_eq_app in H as [l [[H1 H2] | [H1 H2]]].
  - (* x = pre ++ l, w ++ post = l ++ c :: y *)
    apply app_eq_app in H2 as [l2 [[H3 H4] | [H3 H4]]].
    + (* w = l ++ l2, c :: y = l2 ++ post *)
      destruct l2 as [|z l2].
      * simpl in H4. rewrite app_nil_r in H3. subst. left. exists []. rewrite app_nil_r. split; reflexivity.
      * injection H4 as <- H4. exfalso. apply (Hw c); [|exact Hc]. subst w. apply in_or_app. right. left. reflexivity.
    + (* l = w ++ l2, post = l2 ++ c :: y *)
      left. exists l2. subst. split; reflexivity.
  - (* pre = x ++ l, c :: y = l ++ w ++ post *)
    destruct l as [|z l].
    + simpl in H2. rewrite app_nil_r in H1. subst pre.
      destruct w as [|z w].
      * left. exists []. simpl. rewrite app_nil_r. split; [reflexivity | symmetry; exact H2].
      * injection H2 as <- H2. exfalso. apply (Hw c); [left; reflexivity | exact Hc].
    + injection H2 as <- H2. right. exists l. split; assumption.
Qed.

Lemma no_ws_app a b : no_ws (a ++ b) <-> no_ws a /\ no_ws b.
Proof.
  unfold no_ws. split.
  - intros H. split; intros c Hc; apply H; apply in_or_app; auto.
  - intros [Ha Hb] c Hc. apply in_app_or in Hc as [Hc|Hc]; auto.
Qed.

Lemma ends_word_no_ws pre : ends_word pre -> no_ws pre -> pre = [].
Proof.
  intros [->|[pre' [c [-> Hc]]]] H; [reflexivity|].
  exfalso. apply (H c); [apply in_or_app; right; left; reflexivity | exact Hc].
Qed.
Lemma starts_word_no_ws post : starts_word post -> no_ws post -> post = [].
Proof.
  intros [->|[c [post' [-> Hc]]]] H; [reflexivity|].
  exfalso. apply (H c); [left; reflexivity | exact Hc].
Qed.

Lemma match_include_loop_spec ic val : val <> [] -> no_ws val ->
  forall s cur, no_ws cur ->
  (match_include_loop ic val cur s = true <->
   exists pre w post, rev cur ++ s = pre ++ w ++ post /\ eq_mod_case ic w val /\ ends_word pre /\ starts_word post).
Proof.
  intros Hne Hval. induction s as [|c s IH]; intros cur Hcur; simpl.
  - rewrite app_nil_r. assert (Hrc : no_ws (rev cur)) by (intros x Hx; apply Hcur; apply in_rev; exact Hx).
    split.
    + intros H. destruct cur as [|x cur]; [discriminate|]. apply veq_spec in H.
      exists [], (rev (x :: cur)), []. rewrite app_nil_r. simpl. repeat split; try (left; reflexivity). exact H.
    + intros [pre [w [post [E [Hw [Hp Hq]]]]]].
      rewrite E in Hrc. apply no_ws_app in Hrc as [H1 H2]. apply no_ws_app in H2 as [H2 H3].
      apply ends_word_no_ws in Hp; [|exact H1]. apply starts_word_no_ws in Hq; [|exact H3]. subst pre post.
      simpl in E. rewrite app_nil_r in E. subst w.
      destruct cur as [|x cur].
      * simpl in Hw. apply eq_mod_case_length in Hw. destruct val; [contradiction | discriminate].
      * apply veq_spec. exact Hw.
  - assert (Hrc : no_ws (rev cur)) by (intros x Hx; apply Hcur; apply in_rev; exact Hx).
    destruct (is_space c) eqn:Ec.
    + apply is_space_ws in Ec. rewrite orb_true_iff, veq_spec, (IH [] (fun _ F => match F with end)). simpl. split.
      * intros [H | [pre [w [post [E [Hw [Hp Hq]]]]]]].
        -- exists [], (rev cur), (c :: s). simpl. repeat split; [exact H | left; reflexivity | right; eauto].
        -- exists (rev cur ++ c :: pre), w, post. rewrite E, <- app_assoc. simpl. repeat split; [exact Hw | | exact Hq].
           right. destruct Hp as [->|[pre' [z [-> Hz]]]].
           ++ exists (rev cur), c. split; [reflexivity | exact Ec].
           ++ exists (rev cur ++ c :: pre'), z. rewrite <- app_assoc. split; [reflexivity | exact Hz].
      * intros [pre [w [post [E [Hw [Hp Hq]]]]]].
        assert (Hww : no_ws w) by (eapply eq_mod_case_no_ws; eassumption).
        apply word_split in E as [[t [E1 E2]] | [t [E1 E2]]]; [| |exact Ec|exact Hww].
        -- left. rewrite E1 in Hrc. apply no_ws_app in Hrc as [H1 H2]. apply no_ws_app in H2 as [H2 H3].
           apply ends_word_no_ws in Hp; [|exact H1]. subst pre. simpl in E1.
           destruct t as [|z t].
           ++ rewrite app_nil_r in E1. subst w. exact Hw.
           ++ exfalso. destruct Hq as [Hq|[z' [post' [Hq Hz]]]]; [subst post; discriminate|].
              rewrite Hq in E2. injection E2 as -> _. apply (H3 z); [left; reflexivity | exact Hz].
        -- right. exists t, w, post. repeat split; [exact E2 | exact Hw | | exact Hq].
           destruct t as [|z t] using rev_ind; [left; reflexivity|]. right.
           destruct Hp as [Hp|[pre' [z' [Hp Hz]]]]; [subst pre; destruct (rev cur); discriminate|].
           rewrite Hp in E1. replace (rev cur ++ c :: t ++ [z]) with ((rev cur ++ c :: t) ++ [z]) in E1 by (rewrite <- app_assoc; reflexivity).
           apply app_inj_tail in E1 as [_ ->]. eauto.
    + assert (Hc : ~ ws c) by (intros W; apply is_space_ws in W; congruence).
      rewrite (IH (c :: cur)).
      * simpl. rewrite <- app_assoc. simpl. tauto.
      * intros x [<-|Hx]; [exact Hc | apply Hcur; exact Hx].
Qed.

Lemma no_ws_dec (s : str) : no_ws s \/ exists c, In c s /\ ws c.
Proof.
  induction s as [|x s IH].
  - left. intros c [].
  - destruct (is_space x) eqn:E.
    + right. exists x. split; [left; reflexivity | apply is_space_ws; exact E].
    + destruct IH as [IH|[c [Hc Hw]]].
      * left. intros c [<-|Hc]; [intros W; apply is_space_ws in W; congruence | apply IH; exact Hc].
      * right. exists c. split; [right; exact Hc | exact Hw].
Qed.

(* the loop never matches a value containing white space: segments have none *)
Lemma match_include_loop_ws ic val : (exists c, In c val /\ ws c) ->
  forall s cur, no_ws cur -> match_include_loop ic val cur s = false.
Proof.
  intros [c0 [Hc0 Hw0]]. 
  assert (Hno : forall w, no_ws w -> veq ic w val = false).
  { intros w Hw. destruct (veq ic w val) eqn:E; [|reflexivity]. apply veq_spec in E.
    exfalso. 
    assert (Hv : no_ws val).
    { unfold eq_mod_case in E. destruct ic; [|subst; exact Hw].
      eapply eq_mod_case_no_ws with (ic := true); [|exact Hw]. unfold eq_mod_case.
      clear -E. induction E; constructor; [symmetry; assumption | assumption]. }
    apply (Hv c0 Hc0 Hw0). }
  induction s as [|c s IH]; intros cur Hcur; simpl.
  - destruct cur; [reflexivity|]. apply Hno. intros x Hx. apply Hcur. apply in_rev. exact Hx.
  - destruct (is_space c) eqn:Ec.
    + rewrite Hno, (IH []); [reflexivity | intros _ [] | intros x Hx; apply Hcur; apply in_rev; exact Hx].
    + apply IH. intros x [<-|Hx]; [intros W; apply is_space_ws in W; congruence | apply Hcur; exact Hx].
Qed.

Lemma match_include_spec ic val v : match_include val v ic = true <-> v_includes ic v val.
Proof.
  unfold match_include, v_includes. destruct val as [|c0 val0] eqn:Ev.
  - split; [discriminate | intros [H _]; contradiction].
  - rewrite <- Ev. assert (Hne : val <> []) by (subst; discriminate).
    destruct (no_ws_dec val) as [Hn|Hw].
    + rewrite (match_include_loop_spec ic val Hne Hn v [] (fun _ F => match F with end)). simpl.
      split; [intros H; repeat split; assumption | intros [_ [_ H]]; exact H].
    + rewrite (match_include_loop_ws ic val Hw v [] (fun _ F => match F with end)).
      split; [discriminate|]. intros [_ [Hn _]]. destruct Hw as [c [Hc W]]. exfalso. exact (Hn c Hc W).
Qed.

(* ------------------------------------------------------------------ attributes *)

Lemma is_elem_iff n : is_elem n = true <-> ntype_of n = TElement.
Proof. unfold is_elem. destruct (ntype_of n); split; congruence. Qed.

Lemma match_attribute_spec n key f P : (forall v, f v = true <-> P v) ->
  (match_attribute n key f = true <-> ntype_of n = TElement /\ attribute n key P).
Proof.
  intros HfP. unfold match_attribute, attribute. rewrite andb_true_iff, is_elem_iff, existsb_exists.
  split; intros [He [a [Ha H]]]; (split; [exact He|]); exists a; (split; [exact Ha|]).
  - apply andb_true_iff in H as [H1 H2]. apply str_eqb_eq in H1. apply HfP in H2. auto.
  - destruct H as [H1 H2]. apply andb_true_iff. split; [apply str_eqb_eq; exact H1 | apply HfP; exact H2].
Qed.

(* a string that strings.TrimSpace reduces to "" consists of ASCII white space and bytes >= 128 *)
Lemma go_blank_bytes : forall m v, (length v <= m)%nat -> go_blank v = true ->
  forall c, In c v -> go_space_ascii c = true \/ (128 <= c)%N.
Proof.
  induction m as [|m IH]; intros v Hl Hb c Hc.
  - destruct v; [destruct Hc | simpl in Hl; lia].
  - destruct v as [|c1 r]; [destruct Hc|]. simpl in Hb, Hl.
    destruct (go_space_ascii c1) eqn:E1.
    + destruct Hc as [<-|Hc]; [left; exact E1 | apply (IH r); [lia | exact Hb | exact Hc]].
    + destruct r as [|c2 r2]; [discriminate|]. simpl in Hl.
      destruct (N.eqb_spec c1 194) as [->|N1].
      * apply andb_true_iff in Hb as [H2 Hb].
        destruct Hc as [<-|[<-|Hc]]; [right; lia | right; lia | apply (IH r2); [lia | exact Hb | exact Hc]].
      * destruct r2 as [|c3 r3]; [discriminate|]. simpl in Hl.
        assert (H3 : (128 <= c1 /\ 128 <= c2 /\ 128 <= c3)%N /\ go_blank r3 = true).
        { destruct (N.eqb_spec c1 225) as [->|N2]; [split; [lia|]; apply andb_true_iff in Hb; apply Hb|].
          destruct (N.eqb_spec c1 226) as [->|N3]; [split; [lia|]; apply andb_true_iff in Hb; apply Hb|].
          destruct (N.eqb_spec c1 227) as [->|N4]; [split; [lia|]; apply andb_true_iff in Hb; apply Hb|].
          discriminate. }
        destruct H3 as [[G1 [G2 G3]] Hb3].
        destruct Hc as [<-|[<-|[<-|Hc]]]; [right; exact G1 | right; exact G2 | right; exact G3 |].
        apply (IH r3); [lia | exact Hb3 | exact Hc].
Qed.

Lemma eq_mod_case_in ic w val c : eq_mod_case ic w val -> In c val ->
  exists x, In x w /\ (x = c \/ ascii_lower x = ascii_lower c).
Proof.
  unfold eq_mod_case. destruct ic.
  - intros H. induction H as [|x y w val Hxy H IH]; intros Hc; [destruct Hc|].
    destruct Hc as [->|Hc].
    + exists x. split; [left; reflexivity | right; exact Hxy].
    + destruct (IH Hc) as [z [Hz Hzc]]. exists z. split; [right; exact Hz | exact Hzc].
  - intros -> Hc. exists c. auto.
Qed.

Lemma blank_no_visible ic v val pre w post :
  go_blank v = true -> val_visible val -> v = pre ++ w ++ post -> eq_mod_case ic w val -> False.
Proof.
  intros Hb [c [Hc [Hlt Hsp]]] -> Hw.
  destruct (eq_mod_case_in _ _ _ _ Hw Hc) as [x [Hx Hxc]].
  assert (Hin : In x (pre ++ w ++ post)) by (apply in_or_app; right; apply in_or_app; left; exact Hx).
  pose proof (go_blank_bytes _ _ (le_n _) Hb x Hin) as Hxb.
  unfold go_space_ascii in *. unfold ascii_lower in Hxc.
  destruct Hxc as [->|Hxc]; [lia|].
  destruct ((65 <=? x)%N && (x <=? 90)%N) eqn:E1, ((65 <=? c)%N && (c <=? 90)%N) eqn:E2; lia.
Qed.

(* the three substring operators, for one attribute value v.
   `ok`: the attribute value is not a non-empty blank string, or the selector value is visible *)
Definition blank_case_ok (v val : str) : Prop := (go_blank v = true -> v = []) \/ val = [] \/ val_visible val.

Lemma w_nonempty ic w val : val <> [] -> eq_mod_case ic w val -> w <> [].
Proof. intros Hv H ->. apply eq_mod_case_length in H. destruct val; [contradiction | discriminate]. Qed.

Lemma op_prefix_spec ic v val : blank_case_ok v val ->
  (match val with [] => false | _ => if go_blank v then false else has_prefix (fold_case ic v) (fold_case ic val) end = true
   <-> v_prefix ic v val).
Proof.
  intros Hok. unfold v_prefix. destruct val as [|c0 val0] eqn:Ev; [split; [discriminate | intros [H _]; contradiction]|].
  rewrite <- Ev in *. assert (Hne : val <> []) by (subst; discriminate).
  destruct (go_blank v) eqn:Eb.
  - split; [discriminate|]. intros [_ [w [rest [E Hw]]]]. exfalso.
    destruct Hok as [H|[H|H]]; [| contradiction |].
    + rewrite (H Eb) in E. symmetry in E. apply app_eq_nil in E as [E _]. exact (w_nonempty _ _ _ Hne Hw E).
    + apply (blank_no_visible ic v val [] w rest Eb H E Hw).
  - rewrite prefix_spec. tauto.
Qed.

Lemma op_suffix_spec ic v val : blank_case_ok v val ->
  (match val with [] => false | _ => if go_blank v then false else has_suffix (fold_case ic v) (fold_case ic val) end = true
   <-> v_suffix ic v val).
Proof.
  intros Hok. unfold v_suffix. destruct val as [|c0 val0] eqn:Ev; [split; [discriminate | intros [H _]; contradiction]|].
  rewrite <- Ev in *. assert (Hne : val <> []) by (subst; discriminate).
  destruct (go_blank v) eqn:Eb.
  - split; [discriminate|]. intros [_ [rest [w [E Hw]]]]. exfalso.
    destruct Hok as [H|[H|H]]; [| contradiction |].
    + rewrite (H Eb) in E. symmetry in E. apply app_eq_nil in E as [_ E]. exact (w_nonempty _ _ _ Hne Hw E).
    + apply (blank_no_visible ic v val rest w [] Eb H); [rewrite app_nil_r; exact E | exact Hw].
  - rewrite suffix_spec. tauto.
Qed.

Lemma op_substr_spec ic v val : blank_case_ok v val ->
  (match val with [] => false | _ => if go_blank v then false else contains (fold_case ic v) (fold_case ic val) end = true
   <-> v_substr ic v val).
Proof.
  intros Hok. unfold v_substr. destruct val as [|c0 val0] eqn:Ev; [split; [discriminate | intros [H _]; contradiction]|].
  rewrite <- Ev in *. assert (Hne : val <> []) by (subst; discriminate).
  destruct (go_blank v) eqn:Eb.
  - split; [discriminate|]. intros [_ [pre [w [post [E Hw]]]]]. exfalso.
    destruct Hok as [H|[H|H]]; [| contradiction |].
    + rewrite (H Eb) in E. symmetry in E. apply app_eq_nil in E as [_ E]. apply app_eq_nil in E as [E _].
      exact (w_nonempty _ _ _ Hne Hw E).
    + apply (blank_no_visible ic v val pre w post Eb H E Hw).
  - rewrite substr_spec. tauto.
Qed.

Lemma op_dash_spec ic v val :
  (if veq ic v val then true
   else if (length v <=? length val)%nat then false
   else N.eqb (nth (length val) v 0%N) c_dash && veq ic (firstn (length val) v) val) = true
  <-> v_dash ic v val.
Proof.
  unfold v_dash. destruct (veq ic v val) eqn:E.
  - apply veq_spec in E. tauto.
  - assert (Hn : ~ eq_mod_case ic v val) by (intros H; apply veq_spec in H; congruence).
    destruct (Nat.leb_spec (length v) (length val)) as [Hl|Hl].
    + split; [discriminate|]. intros [H|[w [rest [-> Hw]]]]; [contradiction|].
      apply eq_mod_case_length in Hw. rewrite app_length in Hl. simpl in Hl. lia.
    + rewrite andb_true_iff, N.eqb_eq, veq_spec. split.
      * intros [H1 H2]. right. exists (firstn (length val) v), (skipn (S (length val)) v). split; [|exact H2].
        rewrite <- (firstn_skipn (length val) v) at 1. f_equal.
        assert (Hs : (length val < length v)%nat) by lia.
        clear -H1 Hs. revert v H1 Hs. generalize (length val) as m.
        induction m as [|m IH]; intros [|x v] H1 Hs; simpl in *; try lia.
        -- subst. reflexivity.
        -- apply IH; [exact H1 | lia].
      * intros [H|[w [rest [-> Hw]]]]; [contradiction|].
        pose proof (eq_mod_case_length _ _ _ Hw) as Hlw. rewrite <- Hlw. split.
        -- rewrite app_nth2, Nat.sub_diag by lia. reflexivity.
        -- rewrite firstn_app, Nat.sub_diag, firstn_all. simpl. rewrite app_nil_r. exact Hw.
Qed.

(* ------------------------------------------------------------------ an+b and sibling counting *)

Open Scope Z_scope.

(* Go's truncating % and / decide An+B *)
Lemma nth_arith : forall a b i : Z, a <> 0 ->
  (Z.rem (i - b) a = 0 /\ Z.quot (i - b) a >= 0) <-> exists n, 0 <= n /\ i = a * n + b.
Proof.
  intros a b i Ha. split.
  - intros [Hr Hq]. exists (Z.quot (i - b) a). split; [lia|].
    pose proof (Z.quot_rem' (i - b) a). lia.
  - intros [n [Hn Hi]]. subst i. replace (a * n + b - b) with (n * a) by lia.
    rewrite Z.rem_mul, Z.quot_mul by assumption. lia.
Qed.

Lemma nth_arith0 : forall b i : Z, i - b = 0 <-> anb_ok 0 b i.
Proof.
  intros b i. unfold anb_ok. split.
  - intros H. exists 0. lia.
  - intros [n [_ H]]. lia.
Qed.

Lemma counts_counted ofType n c : counts ofType (data_of n) c = true <-> counted ofType n c.
Proof.
  unfold counts, counted. rewrite andb_true_iff, is_elem_iff, orb_true_iff, negb_true_iff, str_eqb_eq.
  destruct ofType; intuition congruence.
Qed.

Lemma count_kids_nonneg ofType tag l : 0 <= count_kids ofType tag l.
Proof. induction l as [|c l IH]; simpl; [lia|]. destruct (counts ofType tag c); lia. Qed.

Lemma count_kids_app ofType tag l1 l2 :
  count_kids ofType tag (l1 ++ l2) = count_kids ofType tag l1 + count_kids ofType tag l2.
Proof. induction l1 as [|c l IH]; simpl; [reflexivity|]. rewrite IH. lia. Qed.

Lemma count_kids_cons ofType tag c l :
  count_kids ofType tag (c :: l) = (if counts ofType tag c then 1 else 0) + count_kids ofType tag l.
Proof. reflexivity. Qed.

Lemma count_kids_rev ofType tag l : count_kids ofType tag (rev l) = count_kids ofType tag l.
Proof. induction l as [|c l IH]; simpl; [reflexivity|]. rewrite count_kids_app, IH. simpl. lia. Qed.

Lemma count_kids_count ofType n l k :
  count (counted ofType n) l k <-> Z.of_nat k = count_kids ofType (data_of n) l.
Proof.
  revert k. induction l as [|c l IH]; intros k; simpl.
  - split; [intros H; inversion H; reflexivity | intros H; assert (k = 0%nat) by lia; subst; constructor].
  - pose proof (count_kids_nonneg ofType (data_of n) l) as Hnn.
    destruct (counts ofType (data_of n) c) eqn:E.
    + apply counts_counted in E. split.
      * intros H. inversion H; subst; [|contradiction]. apply IH in H4. lia.
      * intros H. destruct k as [|k]; [lia|]. apply count_yes; [exact E | apply IH; lia].
    + assert (Hn : ~ counted ofType n c) by (intros H; apply counts_counted in H; congruence). split.
      * intros H. inversion H; subst; [contradiction|]. apply IH in H4. lia.
      * intros H. apply count_no; [exact Hn | apply IH; lia].
Qed.

Lemma nth_error_firstn_S {A} (l : list A) k x : nth_error l k = Some x -> firstn (S k) l = firstn k l ++ [x].
Proof.
  revert l; induction k as [|k IH]; intros [|y l] H; simpl in *; try discriminate.
  - injection H as ->. reflexivity.
  - f_equal. apply IH. exact H.
Qed.

Lemma nth_error_split3 {A} (l : list A) k x : nth_error l k = Some x -> l = firstn k l ++ x :: skipn (S k) l.
Proof.
  revert l; induction k as [|k IH]; intros [|y l] H; simpl in *; try discriminate.
  - injection H as ->. reflexivity.
  - f_equal. apply IH. exact H.
Qed.

Section Nth.
Variables (ofType : bool) (n : node) (kids : list node) (k : nat).
Hypothesis Hk : nth_error kids k = Some n.
Hypothesis He : is_elem n = true.

Let tag := data_of n.
Let before := count_kids ofType tag (firstn k kids).
Let after := count_kids ofType tag (skipn (S k) kids).

Lemma counts_self : counts ofType tag n = true.
Proof. unfold counts, tag. rewrite He, str_eqb_refl. destruct ofType; reflexivity. Qed.

Lemma count_upto : count_kids ofType tag (firstn (S k) kids) = before + 1.
Proof.
  rewrite (nth_error_firstn_S _ _ _ Hk), count_kids_app. simpl. rewrite counts_self. unfold before. lia.
Qed.
Lemma count_total : count_kids ofType tag kids = before + 1 + after.
Proof.
  rewrite (nth_error_split3 _ _ _ Hk) at 1. rewrite count_kids_app, count_kids_cons, counts_self. unfold before, after. lia.
Qed.

(* general path: pseudo_classes.go nthChildMatch *)
Lemma nth_child_match_spec a b last :
  nth_child_match a b last ofType n kids k = true <->
  anb_ok a b ((if last then after else before) + 1).
Proof.
  unfold nth_child_match. rewrite He. simpl negb. cbv iota. fold tag. rewrite count_upto, count_total.
  set (pos := (if last then after else before) + 1).
  replace (if last then before + 1 + after - (before + 1) + 1 else before + 1) with pos by (unfold pos; destruct last; lia).
  destruct (Z.eqb_spec a 0) as [->|Ha].
  - rewrite Z.eqb_eq. apply nth_arith0.
  - rewrite andb_true_iff, Z.eqb_eq, Z.geb_le. rewrite <- (nth_arith a b pos Ha). lia.
Qed.

(* fast path: simpleNthChildMatch's loop, started at sibling j with `cnt` counted so far *)
Lemma simple_nth_loop_spec b : forall l j cnt, (j <= k)%nat -> nth_error l (k - j) = Some n ->
  simple_nth_loop b ofType tag l j k cnt = (cnt + count_kids ofType tag (firstn (S (k - j)) l) =? b).
Proof.
  induction l as [|c l IH]; intros j cnt Hj Hn.
  - destruct (k - j)%nat; discriminate.
  - simpl simple_nth_loop. destruct (Nat.eqb_spec j k) as [->|Hjk].
    + rewrite Nat.sub_diag in *. simpl in Hn. injection Hn as ->. rewrite counts_self. simpl.
      rewrite ?counts_self. first [reflexivity | f_equal; lia].
    + assert (Hlt : (j < k)%nat) by lia.
      destruct (k - j)%nat as [|m] eqn:Em; [lia|]. simpl in Hn.
      assert (Em' : (k - S j)%nat = m) by lia.
      change (firstn (S (S m)) (c :: l)) with (c :: firstn (S m) l). rewrite count_kids_cons.
      destruct (counts ofType tag c) eqn:Ec; simpl negb; cbv iota.
      * assert (Hpos : 1 <= count_kids ofType tag (firstn (S m) l)).
        { rewrite (nth_error_firstn_S _ _ _ Hn), count_kids_app. simpl. rewrite counts_self.
          pose proof (count_kids_nonneg ofType tag (firstn m l)). lia. }
        destruct (Z.geb_spec (cnt + 1) b) as [Hge|Hge].
        -- symmetry. apply Z.eqb_neq. lia.
        -- rewrite IH; [|lia|rewrite Em'; exact Hn]. rewrite Em'. f_equal. lia.
      * rewrite IH; [|lia|rewrite Em'; exact Hn]. rewrite Em'. f_equal. 
Qed.

Lemma simple_nth_child_match_spec b :
  simple_nth_child_match b ofType n kids k = (before + 1 =? b).
Proof.
  unfold simple_nth_child_match. rewrite He. simpl negb. cbv iota. fold tag.
  rewrite simple_nth_loop_spec; [|lia|rewrite Nat.sub_0_r; exact Hk].
  rewrite Nat.sub_0_r, count_upto. reflexivity.
Qed.

End Nth.

Lemma nth_error_middle {A} (a : list A) x b : nth_error (a ++ x :: b) (length a) = Some x.
Proof. induction a; simpl; auto. Qed.
Lemma firstn_middle {A} (a : list A) x b : firstn (length a) (a ++ x :: b) = a.
Proof. induction a; simpl; [reflexivity | f_equal; assumption]. Qed.

Lemma simple_nth_last_child_match_spec ofType n kids k b :
  nth_error kids k = Some n -> is_elem n = true ->
  simple_nth_last_child_match b ofType n kids k =
  (count_kids ofType (data_of n) (skipn (S k) kids) + 1 =? b).
Proof.
  intros Hk He. unfold simple_nth_last_child_match. rewrite He. simpl negb. cbv iota.
  pose proof (nth_error_split3 _ _ _ Hk) as Hs.
  set (A := firstn k kids) in *. set (B := skipn (S k) kids) in *.
  assert (HlA : length A = k).
  { unfold A. apply firstn_length_le. apply Nat.lt_le_incl. apply nth_error_Some. congruence. }
  assert (Hk' : (length kids - 1 - k)%nat = length (rev B)).
  { rewrite Hs, app_length, rev_length. simpl. lia. }
  assert (Hr : rev kids = rev B ++ n :: rev A).
  { rewrite Hs, rev_app_distr. simpl. rewrite <- app_assoc. reflexivity. }
  rewrite Hk', Hr.
  rewrite (simple_nth_loop_spec ofType n [] (length (rev B)) He b);
    [|lia|rewrite Nat.sub_0_r; apply nth_error_middle].
  rewrite Nat.sub_0_r, (nth_error_firstn_S _ _ _ (nth_error_middle (rev B) n (rev A))), firstn_middle.
  rewrite count_kids_app, count_kids_rev. simpl. rewrite (counts_self ofType n [] 0%nat He). first [reflexivity | f_equal; lia].
Qed.

(* the fast paths (a = 0) agree with the general an+b path *)
Lemma simple_nth_eq ofType n kids k b : nth_error kids k = Some n ->
  simple_nth_child_match b ofType n kids k = nth_child_match 0 b false ofType n kids k /\
  simple_nth_last_child_match b ofType n kids k = nth_child_match 0 b true ofType n kids k.
Proof.
  intros Hk. destruct (is_elem n) eqn:He.
  - split.
    + rewrite (simple_nth_child_match_spec ofType n kids k Hk He b).
      apply Bool.eq_iff_eq_true.
      rewrite (nth_child_match_spec ofType n kids k Hk He 0 b false), Z.eqb_eq, <- nth_arith0. lia.
    + rewrite (simple_nth_last_child_match_spec ofType n kids k b Hk He).
      apply Bool.eq_iff_eq_true.
      rewrite (nth_child_match_spec ofType n kids k Hk He 0 b true), Z.eqb_eq, <- nth_arith0. lia.
  - unfold simple_nth_child_match, simple_nth_last_child_match, nth_child_match. rewrite He. simpl. split; reflexivity.
Qed.

Close Scope Z_scope.

(* ------------------------------------------------------------------ induction over selectors *)

Lemma sel_ind' (P : sel -> Prop)
  (Hleaf : forall s, match s with SRel _ _ | SCompound _ _ | SCombined _ _ _ => False | _ => True end -> P s)
  (Hrel : forall name g, Forall P g -> P (SRel name g))
  (Hcomp : forall sels pe, Forall P sels -> P (SCompound sels pe))
  (Hcomb : forall a c b, P a -> P b -> P (SCombined a c b)) : forall s, P s.
Proof.
  fix IH 1. intros s. destruct s; try (apply Hleaf; exact I).
  - apply Hrel. induction g; constructor; [apply IH | assumption].
  - apply Hcomp. induction sels; constructor; [apply IH | assumption].
  - apply Hcomb; apply IH.
Qed.

Lemma node_ind' (P : node -> Prop)
  (H : forall ty data attrs kids, Forall P kids -> P (Node ty data attrs kids)) : forall n, P n.
Proof.
  fix IH 1. intros [ty data attrs kids]. apply H. induction kids; constructor; [apply IH | assumption].
Qed.

(* ------------------------------------------------------------------ tree navigation *)

Section Tree.
Variable d : node.

Lemma elem_at_iff p : elem_at d p = true <-> is_element d p.
Proof.
  unfold elem_at, get, is_element, element. destruct (node_at d p) as [n|].
  - rewrite is_elem_iff. split; [intros H; exists n; auto | intros [n' [E H]]; injection E as <-; exact H].
  - split; [discriminate | intros [n' [E _]]; discriminate].
Qed.

Lemma node_at_cons k q : node_at d (k :: q) = match node_at d q with Some n => nth_error (kids_of n) k | None => None end.
Proof. reflexivity. Qed.

Lemma node_at_parent k q c : node_at d (k :: q) = Some c ->
  exists par, node_at d q = Some par /\ nth_error (kids_of par) k = Some c.
Proof. rewrite node_at_cons. destruct (node_at d q) as [par|]; [eauto | discriminate]. Qed.

(* a valid path has valid suffixes *)
Lemma node_at_app l q c : node_at d (l ++ q) = Some c -> exists n, node_at d q = Some n.
Proof.
  revert c; induction l as [|k l IH]; intros c H; simpl in *; [eauto|].
  destruct (node_at d (l ++ q)) as [n|] eqn:E; [|discriminate]. eapply IH. reflexivity.
Qed.

(* ---- combinators over arbitrary matchers *)
Variable m : path -> bool.

Lemma any_ancestor_spec p : any_ancestor m p = true <-> exists q, ancestor q p /\ m q = true.
Proof.
  induction p as [|k p IH]; simpl.
  - split; [discriminate|]. intros [q [[l [Hl E]] _]]. destruct l; [contradiction | discriminate].
  - rewrite orb_true_iff, IH. split.
    + intros [H | [q [[l [Hl E]] H]]].
      * exists p. split; [exists [k]; split; [discriminate | reflexivity] | exact H].
      * exists q. split; [exists (k :: l); split; [discriminate | simpl; congruence] | exact H].
    + intros [q [[l [Hl E]] H]]. destruct l as [|x l]; [contradiction|]. injection E as -> E.
      destruct l as [|y l].
      * left. simpl in E. subst. exact H.
      * right. exists q. split; [exists (y :: l); split; [discriminate | exact E] | exact H].
Qed.

Lemma any_prev_spec q k : any_prev m q k = true <-> exists j, j < k /\ m (j :: q) = true.
Proof.
  induction k as [|k IH]; simpl.
  - split; [discriminate | intros [j [H _]]; lia].
  - rewrite orb_true_iff, IH. split.
    + intros [H | [j [Hj H]]]; [exists k; split; [lia | exact H] | exists j; split; [lia | exact H]].
    + intros [j [Hj H]]. destruct (Nat.eq_dec j k) as [->|Hn]; [left; exact H | right; exists j; split; [lia | exact H]].
Qed.

Definition skippable (p : path) : Prop := exists s, node_at d p = Some s /\ (is_text s || is_comment s) = true.

Lemma adjacent_loop_S q k : adjacent_loop d m q (S k) =
  match node_at d (k :: q) with
  | Some s => if is_text s || is_comment s then adjacent_loop d m q k else m (k :: q)
  | None => false
  end.
Proof. reflexivity. Qed.

Lemma adjacent_loop_spec q k : adjacent_loop d m q k = true <->
  exists j, j < k /\ m (j :: q) = true /\
            (exists s, node_at d (j :: q) = Some s /\ (is_text s || is_comment s) = false) /\
            forall i, j < i < k -> skippable (i :: q).
Proof.
  induction k as [|k IH].
  - simpl. split; [discriminate | intros [j [H _]]; lia].
  - rewrite adjacent_loop_S. destruct (node_at d (k :: q)) as [s|] eqn:Es.
    + destruct (is_text s || is_comment s) eqn:Et.
      * rewrite IH. split.
        -- intros [j [Hj [Hm [Hs Hb]]]]. exists j. repeat split; [lia | exact Hm | exact Hs |].
           intros i Hi. destruct (Nat.eq_dec i k) as [->|Hn]; [exists s; auto | apply Hb; lia].
        -- intros [j [Hj [Hm [[s' [Hs' Ht']] Hb]]]].
           assert (j <> k) by (intros ->; congruence).
           exists j. repeat split; [lia | exact Hm | eauto | intros i Hi; apply Hb; lia].
      * split.
        -- intros Hm. exists k. repeat split; [lia | exact Hm | eauto | intros i Hi; lia].
        -- intros [j [Hj [Hm [Hs Hb]]]]. destruct (Nat.eq_dec j k) as [->|Hn]; [exact Hm|].
           destruct (Hb k) as [s' [Hs' Ht']]; [lia|]. congruence.
    + split; [discriminate|]. intros [j [Hj [Hm [[s' [Hs' Ht']] Hb]]]].
      destruct (Nat.eq_dec j k) as [->|Hn]; [congruence|].
      destruct (Hb k) as [s'' [Hs'' _]]; [lia|]. congruence.
Qed.

Lemma has_child_match_spec n p : has_child_match m n p = true <->
  exists k, k < length (kids_of n) /\ m (k :: p) = true.
Proof.
  unfold has_child_match. rewrite existsb_exists. split; intros [k [H1 H2]]; exists k; (split; [|exact H2]).
  - apply in_seq in H1. lia.
  - apply in_seq. lia.
Qed.

(* q is reached from p by going down through element nodes *)
Inductive reach (p : path) : path -> Prop :=
| reach_child k c : node_at d (k :: p) = Some c -> reach p (k :: p)
| reach_step k q n c : reach p q -> node_at d q = Some n -> is_elem n = true ->
                       node_at d (k :: q) = Some c -> reach p (k :: q).

Lemma reach_down k p c q : node_at d (k :: p) = Some c -> is_elem c = true -> reach (k :: p) q -> reach p q.
Proof.
  intros Hc He H. induction H as [k' c' H | k' q n c' H IH Hn Hen Hc'].
  - eapply reach_step; [eapply reach_child; exact Hc | exact Hc | exact He | exact H].
  - eapply reach_step; [exact IH | exact Hn | exact Hen | exact Hc'].
Qed.

Lemma reach_inv p q : reach p q ->
  (exists k c, q = k :: p /\ node_at d q = Some c) \/
  (exists k c, node_at d (k :: p) = Some c /\ is_elem c = true /\ reach (k :: p) q).
Proof.
  intros H. induction H as [k c H | k q n c H IH Hn Hen Hc].
  - left. eauto.
  - right. destruct IH as [[k0 [c0 [-> Hc0]]] | [k0 [c0 [Hc0 [He0 Hr]]]]].
    + exists k0, n. repeat split; [exact Hn | exact Hen | eapply reach_child; exact Hc].
    + exists k0, c0. repeat split; [exact Hc0 | exact He0 | eapply reach_step; eauto].
Qed.

Lemma has_descendant_match_spec : forall n p, node_at d p = Some n ->
  (has_descendant_match m n p = true <-> exists q, reach p q /\ m q = true).
Proof.
  induction n as [ty data attrs kids IHk] using node_ind'. intros p Hp.
  simpl has_descendant_match.
  assert (Hgo : forall l k0,
     (forall i c, nth_error l i = Some c -> node_at d ((k0 + i) :: p) = Some c) ->
     Forall (fun c => forall p, node_at d p = Some c ->
                      (has_descendant_match m c p = true <-> exists q, reach p q /\ m q = true)) l ->
     ((fix go (l : list node) (k : nat) {struct l} : bool :=
         match l with
         | [] => false
         | c :: r => (m (k :: p) || (is_elem c && has_descendant_match m c (k :: p))) || go r (S k)
         end) l k0 = true
      <-> exists i c, nth_error l i = Some c /\
            (m ((k0 + i) :: p) = true \/ (is_elem c = true /\ exists q, reach ((k0 + i) :: p) q /\ m q = true)))).
  { induction l as [|c r IHr]; intros k0 Hv HF.
    - split; [discriminate | intros [i [c [H _]]]; destruct i; discriminate].
    - inversion HF as [|? ? Hc HFr]; subst.
      pose proof (Hv 0 c eq_refl) as Hc0. rewrite Nat.add_0_r in Hc0.
      rewrite !orb_true_iff, andb_true_iff, (Hc _ Hc0), (IHr (S k0)); [| |exact HFr].
      + split.
        * intros [[H | H] | [i [c' [Hi H]]]].
          -- exists 0, c. rewrite Nat.add_0_r. auto.
          -- exists 0, c. rewrite Nat.add_0_r. auto.
          -- exists (S i), c'. rewrite Nat.add_succ_r. auto.
        * intros [[|i] [c' [Hi H]]].
          -- simpl in Hi. injection Hi as <-. rewrite Nat.add_0_r in H. left. tauto.
          -- right. exists i, c'. rewrite Nat.add_succ_r in H. auto.
      + intros i c' Hi. rewrite Nat.add_succ_l, <- Nat.add_succ_r. apply Hv. exact Hi. }
  rewrite (Hgo kids 0); [| |exact IHk].
  - split.
    + intros [i [c [Hi [H | [He [q [Hr Hq]]]]]]].
      * exists (i :: p). split; [|exact H]. eapply reach_child. rewrite node_at_cons, Hp. exact Hi.
      * exists q. split; [|exact Hq]. eapply reach_down; [rewrite node_at_cons, Hp; exact Hi | exact He | exact Hr].
    + intros [q [Hr Hq]]. apply reach_inv in Hr as [[k [c [-> Hc]]] | [k [c [Hc [He Hr]]]]].
      * exists k, c. split; [rewrite node_at_cons, Hp in Hc; exact Hc | left; exact Hq].
      * exists k, c. split; [rewrite node_at_cons, Hp in Hc; exact Hc | right; eauto].
  - intros i c Hi. change (0 + i) with i. rewrite node_at_cons, Hp. exact Hi.
Qed.

End Tree.

(* ------------------------------------------------------------------ the model matches elements only *)

Section Main.
Variable d : node.

Ltac kill E H :=
  unfold attr_match, match_attribute, has_attr, atom_is, is_link_atom, is_group_atom, is_control_atom,
         empty_match, checked_match, simple_nth_child_match, simple_nth_last_child_match,
         nth_child_match, lang_own in H;
  rewrite ?E in H; simpl in H; try discriminate H.

Lemma matches_elem : forall s p, matches d s p = true -> elem_at d p = true.
Proof.
  induction s as [s Hs | name g IH | sels pe IH | a c b IHa IHb] using sel_ind'; intros p H.
  - unfold elem_at, get.
    destruct s; try contradiction; cbn [matches] in H;
      unfold nth_match, only_match, enabled_match, disabled_match, get in H.
    all: try (destruct p as [|k0 q0]; cbn [lang_match] in H; unfold get in H).
    all: try (destruct (node_at d (k0 :: q0)) as [n|] eqn:En; [|discriminate H]).
    all: try (destruct (node_at d []) as [n|] eqn:En; [|discriminate H]).
    all: try (destruct (node_at d p) as [n|] eqn:En; [|discriminate H]).
    all: destruct (is_elem n) eqn:E; [reflexivity|].
    all: try (destruct op).
    all: try (destruct (node_at d q0); [|discriminate H]).
    all: try (destruct (a =? 0)%Z; [destruct last|]).
    all: kill E H.
    all: kill E H.
  - cbn [matches] in H. unfold elem_at, get in *. destruct (node_at d p) as [n|]; [|discriminate H].
    destruct (is_elem n); [reflexivity | discriminate H].
  - cbn [matches] in H. destruct sels as [|s1 r]; [exact H|].
    cbn [forallb] in H. apply andb_true_iff in H as [H _]. inversion IH; subst. auto.
  - cbn [matches] in H. destruct c; unfold descendant_match, child_match, sibling_match in H;
      apply andb_true_iff in H as [H _]; auto.
Qed.

Lemma matches_valid s p : matches d s p = true -> exists n, element d p n.
Proof. intros H. apply matches_elem in H. apply elem_at_iff in H. exact H. Qed.

(* ------------------------------------------------------------------ model = specification *)

Hypothesis Hwf : dom_wf d.

Lemma ex_eq_l {A} (p : A) (R : Prop) : (exists q, q = p /\ R) <-> R.
Proof. split; [intros [q [_ H]]; exact H | intros H; exists p; auto]. Qed.

Lemma leaf_iff p (b : bool) (B : node -> Prop) :
  (forall n, node_at d p = Some n -> (b = true <-> ntype_of n = TElement /\ B n)) ->
  (node_at d p = None -> b = false) ->
  (b = true <-> exists q, q = p /\ exists n, element d p n /\ B n).
Proof.
  intros Hs Hn. rewrite ex_eq_l. unfold element. destruct (node_at d p) as [n|] eqn:En.
  - rewrite (Hs n eq_refl). split.
    + intros [H1 H2]. exists n. auto.
    + intros [n' [[E H1] H2]]. injection E as <-. auto.
  - rewrite (Hn eq_refl). split; [discriminate | intros [n' [[E _] _]]; discriminate].
Qed.

Lemma attr_exists_spec n key f P :
  (forall a, In a (attrs_of n) -> (f (aval a) = true <-> P (aval a))) ->
  (existsb (fun a => str_eqb (akey a) key && f (aval a)) (attrs_of n) = true <-> attribute n key P).
Proof.
  intros HfP. unfold attribute. rewrite existsb_exists.
  split; intros [a [Ha H]]; exists a; (split; [exact Ha|]).
  - apply andb_true_iff in H as [H1 H2]. apply str_eqb_eq in H1. apply (HfP a Ha) in H2. auto.
  - destruct H as [H1 H2]. apply andb_true_iff. split; [apply str_eqb_eq; exact H1 | apply (HfP a Ha); exact H2].
Qed.

Lemma match_attribute_spec' n key f P :
  (forall a, In a (attrs_of n) -> (f (aval a) = true <-> P (aval a))) ->
  (match_attribute n key f = true <-> ntype_of n = TElement /\ attribute n key P).
Proof.
  intros HfP. unfold match_attribute. rewrite andb_true_iff, is_elem_iff, (attr_exists_spec n key f P HfP). tauto.
Qed.

Lemma some_of_map (g : list sel) (K : rel -> Prop) :
  some_of (map (sma d) g) K <-> exists s', In s' g /\ K (sma d s').
Proof.
  unfold some_of. split.
  - intros [m [Hm HK]]. apply in_map_iff in Hm as [s' [<- Hs']]. eauto.
  - intros [s' [Hs' HK]]. exists (sma d s'). split; [apply in_map; exact Hs' | exact HK].
Qed.
Lemma each_of_map (g : list sel) (K : rel -> Prop) :
  each_of (map (sma d) g) K <-> forall s', In s' g -> K (sma d s').
Proof.
  unfold each_of. split.
  - intros H s' Hs'. apply H. apply in_map. exact Hs'.
  - intros H m Hm. apply in_map_iff in Hm as [s' [<- Hs']]. auto.
Qed.

Lemma everywhere_here P s : everywhere P s -> P s.
Proof. destruct s; simpl; tauto. Qed.
Lemma everywhere_rel P name g s' : everywhere P (SRel name g) -> In s' g -> everywhere P s'.
Proof. simpl. intros [_ H] Hs'. apply H. apply (in_map (everywhere P)). exact Hs'. Qed.
Lemma everywhere_compound P sels pe s' : everywhere P (SCompound sels pe) -> In s' sels -> everywhere P s'.
Proof. simpl. intros [_ H] Hs'. apply H. apply (in_map (everywhere P)). exact Hs'. Qed.
Lemma everywhere_combined P a c b : everywhere P (SCombined a c b) -> everywhere P a /\ everywhere P b.
Proof. simpl. tauto. Qed.

Lemma sma_plain s p q : match s with SCombined _ _ _ => False | _ => True end -> sma d s p q -> q = p.
Proof. destruct s; simpl; try contradiction; intros _ [H _]; exact H. Qed.

(* under dom_wf, the descendants reached through element nodes are all the descendants *)
Lemma reach_ancestor p q : reach d p q <-> (ancestor p q /\ exists c, node_at d q = Some c).
Proof.
  split.
  - intros H. induction H as [k c H | k q n c H IH Hn Hen Hc].
    + split; [exists [k]; split; [discriminate | reflexivity] | eauto].
    + destruct IH as [[l [Hl ->]] _]. split; [exists (k :: l); split; [discriminate | reflexivity] | eauto].
  - intros [[l [Hl ->]] [c Hc]]. revert c Hc. induction l as [|k l IH]; intros c Hc; [contradiction|].
    destruct l as [|k2 l].
    + eapply reach_child. exact Hc.
    + change ((k :: k2 :: l) ++ p) with (k :: (k2 :: l) ++ p) in *.
      destruct (node_at_parent d _ _ _ Hc) as [par [Hpar Hk]].
      eapply reach_step; [apply (IH ltac:(discriminate) par Hpar) | exact Hpar | | exact Hc].
      destruct (wf_leaves d Hwf _ _ Hpar) as [E | E].
      * intros E2. rewrite E2 in Hk. destruct k; discriminate.
      * discriminate.
      * apply is_elem_iff. exact E.
Qed.

Lemma host_case s p :
  matches d s p = true <-> exists q, q = p /\ exists n, element d p n /\ matches d s p = true.
Proof.
  rewrite ex_eq_l. split.
  - intros H. destruct (matches_valid s p H) as [n Hn]. eauto.
  - intros [n [_ H]]. exact H.
Qed.

Lemma combined_split a c b p :
  spec_matches d (SCombined a c b) p <->
  spec_matches d b p /\ exists r, combinator_rel d c r p /\ spec_matches d a r.
Proof.
  unfold spec_matches. cbn [sma]. split.
  - intros [q [Hb [r [Hr Ha]]]]. split; [exact Hb | exists r; split; [exact Hr | exists q; exact Ha]].
  - intros [Hb [r [Hr [q Ha]]]]. exists q. split; [exact Hb | exists r; split; [exact Hr | exact Ha]].
Qed.

Lemma element_not_skippable p n : element d p n -> ~ skippable d p.
Proof.
  intros [En Ht] [s [Es Hs]]. rewrite En in Es. injection Es as <-.
  unfold is_text, is_comment in Hs. rewrite Ht in Hs. discriminate.
Qed.

Theorem matches_spec_aux : forall s,
  everywhere has_args_compound s -> (doc_attrs_not_blank d \/ everywhere substr_val_ok s) ->
  forall p, matches d s p = true <-> spec_matches d s p.
Proof.
  induction s as [s Hs | name g IH | sels pe IH | a c b IHa IHb] using sel_ind'; intros Hhas Hblank p.
  - (* simple selectors *)
    unfold spec_matches.
    destruct s; try contradiction; cbn [sma]; try apply host_case; cbn [matches]; unfold get.
    + (* tag *) apply leaf_iff; [intros n En; rewrite En | intros ->; reflexivity].
      rewrite andb_true_iff, is_elem_iff, str_eqb_eq. tauto.
    + (* class *) apply leaf_iff; [intros n En; rewrite En | intros ->; reflexivity].
      apply match_attribute_spec'. intros a _. apply match_include_spec.
    + (* id *) apply leaf_iff; [intros n En; rewrite En | intros ->; reflexivity].
      apply match_attribute_spec'. intros a _. apply str_eqb_eq.
    + (* attribute *) apply leaf_iff; [intros n En; rewrite En | intros ->; reflexivity].
      assert (Hb : forall a, In a (attrs_of n) -> match op with OpPrefix | OpSuffix | OpSubstr => blank_case_ok (aval a) val | _ => True end).
      { intros a Ha. destruct op; try exact I.
        all: destruct Hblank as [Hd | Hv]; [left; apply (Hd p n a En Ha) | right; apply everywhere_here in Hv; exact Hv]. }
      destruct op; cbn [attr_match].
      * apply match_attribute_spec'. intros a _. tauto.
      * apply match_attribute_spec'. intros a _. apply veq_spec.
      * rewrite andb_true_iff, is_elem_iff, negb_true_iff, <- not_true_iff_false,
          (attr_exists_spec n key (fun v => veq icase v val) (fun v => eq_mod_case icase v val)); [tauto|].
        intros a _. apply veq_spec.
      * apply match_attribute_spec'. intros a _. apply match_include_spec.
      * apply match_attribute_spec'. intros a _. apply op_dash_spec.
      * apply match_attribute_spec'. intros a Ha. apply op_prefix_spec. apply (Hb a Ha).
      * apply match_attribute_spec'. intros a Ha. apply op_suffix_spec. apply (Hb a Ha).
      * apply match_attribute_spec'. intros a Ha. apply op_substr_spec. apply (Hb a Ha).
    + (* nth *)
      unfold nth_match, get. apply leaf_iff; [|intros ->; reflexivity].
      intros n En. rewrite En. destruct p as [|k q].
      { split; [discriminate|]. intros [_ [k [q [par [others [E _]]]]]]. discriminate. }
      destruct (node_at_parent d _ _ _ En) as [par [Hpar Hk]]. rewrite Hpar.
      destruct (simple_nth_eq ofType n (kids_of par) k b Hk) as [S1 S2].
      assert (Hgen : (if (a =? 0)%Z
                      then if last then simple_nth_last_child_match b ofType n (kids_of par) k
                           else simple_nth_child_match b ofType n (kids_of par) k
                      else nth_child_match a b last ofType n (kids_of par) k)
                     = nth_child_match a b last ofType n (kids_of par) k).
      { destruct (Z.eqb_spec a 0) as [->|]; [destruct last; [exact S2 | exact S1] | reflexivity]. }
      rewrite Hgen. destruct (is_elem n) eqn:He.
      * rewrite (nth_child_match_spec ofType n (kids_of par) k Hk He a b last). unfold nth_position. split.
        -- intros H. split; [apply is_elem_iff; exact He|].
           exists k, q, par,
             (Z.to_nat (if last then count_kids ofType (data_of n) (skipn (S k) (kids_of par))
                        else count_kids ofType (data_of n) (firstn k (kids_of par)))).
           split; [reflexivity|]. split; [exact Hpar|].
           rewrite Z2Nat.id by (destruct last; apply count_kids_nonneg). split; [|exact H].
           apply count_kids_count. rewrite Z2Nat.id by (destruct last; apply count_kids_nonneg).
           destruct last; reflexivity.
        -- intros [_ [k' [q' [par' [others [E [Hpar' [Hcnt Hok]]]]]]]]. injection E as <- <-.
           rewrite Hpar in Hpar'. injection Hpar' as <-. apply count_kids_count in Hcnt.
           destruct last; rewrite <- Hcnt; exact Hok.
      * unfold nth_child_match. rewrite He. simpl. split; [discriminate|].
        intros [Ht _]. apply is_elem_iff in Ht. congruence.
    + (* only *)
      unfold only_match, get. apply leaf_iff; [|intros ->; reflexivity].
      intros n En. rewrite En. destruct p as [|k q].
      { split; [discriminate|]. intros [_ [k [q [par [E _]]]]]. discriminate. }
      destruct (node_at_parent d _ _ _ En) as [par [Hpar Hk]]. rewrite Hpar.
      destruct (is_elem n) eqn:He; simpl negb; cbv iota.
      * rewrite Z.eqb_eq, (count_total ofType n (kids_of par) k Hk He). unfold only_position.
        pose proof (count_kids_nonneg ofType (data_of n) (firstn k (kids_of par))) as N1.
        pose proof (count_kids_nonneg ofType (data_of n) (skipn (S k) (kids_of par))) as N2.
        split.
        -- intros H. split; [apply is_elem_iff; exact He|]. exists k, q, par.
           split; [reflexivity|]. split; [exact Hpar|]. split; apply count_kids_count; lia.
        -- intros [_ [k' [q' [par' [E [Hpar' [C1 C2]]]]]]]. injection E as <- <-.
           rewrite Hpar in Hpar'. injection Hpar' as <-.
           apply count_kids_count in C1. apply count_kids_count in C2. lia.
      * split; [discriminate|]. intros [Ht _]. apply is_elem_iff in Ht. congruence.
    + (* empty *) apply leaf_iff; [intros n En; rewrite En | intros ->; reflexivity].
      unfold empty_match, empty_element. rewrite andb_true_iff, is_elem_iff, forallb_forall.
      split; intros [Ht H]; (split; [exact Ht|]); intros c Hc; specialize (H c Hc).
      * destruct (ntype_of c); try discriminate H; (split; [discriminate|]); try discriminate.
        intros _ ch Hch. unfold doc_blank in H. rewrite forallb_forall in H. apply is_space_ws. apply H. exact Hch.
      * destruct H as [H1 H2]. destruct (ntype_of c); try reflexivity; [contradiction|].
        unfold doc_blank. apply forallb_forall. intros ch Hch. apply is_space_ws. apply H2; [reflexivity | exact Hch].
    + (* root *) apply leaf_iff; [intros n En; rewrite En | intros ->; reflexivity].
      unfold atom_is. rewrite andb_true_iff, is_elem_iff, str_eqb_eq.
      split; intros [Ht H]; (split; [exact Ht|]); apply (wf_html d Hwf p n En Ht); exact H.
    + (* never *) rewrite ex_eq_l. split; [discriminate | intros [n [_ []]]].
  - (* :is :not :has :haschild *)
    unfold spec_matches. cbn [sma matches]. unfold get.
    assert (IH' : forall s', In s' g -> forall p, matches d s' p = true <-> spec_matches d s' p).
    { intros s' Hs'. rewrite Forall_forall in IH. apply (IH s' Hs').
      - eapply everywhere_rel; eauto.
      - destruct Hblank as [H|H]; [left; exact H | right; eapply everywhere_rel; eauto]. }
    apply leaf_iff; [intros n En; rewrite En | intros ->; reflexivity].
    destruct (is_elem n) eqn:He; simpl negb; cbv iota.
    2: { split; [discriminate | intros [Ht _]; apply is_elem_iff in Ht; congruence]. }
    assert (Ht : ntype_of n = TElement) by (apply is_elem_iff; exact He).
    destruct name.
    + rewrite existsb_exists, some_of_map. split.
      * intros [s' [Hs' H]]. split; [exact Ht|]. exists s'. split; [exact Hs'|]. apply (IH' s' Hs'). exact H.
      * intros [_ [s' [Hs' H]]]. exists s'. split; [exact Hs' | apply (IH' s' Hs'); exact H].
    + rewrite negb_true_iff, <- not_true_iff_false, existsb_exists, some_of_map. split.
      * intros H. split; [exact Ht|]. intros [s' [Hs' H']]. apply H. exists s'.
        split; [exact Hs' | apply (IH' s' Hs'); exact H'].
      * intros [_ H] [s' [Hs' H']]. apply H. exists s'. split; [exact Hs' | apply (IH' s' Hs'); exact H'].
    + pose proof (everywhere_here _ _ Hhas) as Hplain. simpl in Hplain.
      rewrite (has_descendant_match_spec d _ n p En), some_of_map. split.
      * intros [q [Hr Hq]]. split; [exact Ht|]. apply existsb_exists in Hq as [s' [Hs' H]].
        apply (IH' s' Hs') in H as [q' H]. exists s'. split; [exact Hs'|]. exists q, q'. split; [exact H|].
        assert (q' = q) by (eapply sma_plain; [apply (Hplain s' Hs') | exact H]). subst q'.
        apply reach_ancestor in Hr. apply Hr.
      * intros [_ [s' [Hs' [p' [q' [H Ha]]]]]].
        assert (q' = p') by (eapply sma_plain; [apply (Hplain s' Hs') | exact H]). subst q'.
        assert (Hm : matches d s' p' = true) by (apply (IH' s' Hs'); exists p'; exact H).
        exists p'. split.
        -- apply reach_ancestor. split; [exact Ha|]. destruct (matches_valid s' p' Hm) as [c [Hc _]]. eauto.
        -- apply existsb_exists. exists s'. auto.
    + rewrite has_child_match_spec, some_of_map. split.
      * intros [k [Hk Hq]]. split; [exact Ht|]. apply existsb_exists in Hq as [s' [Hs' H]].
        apply (IH' s' Hs') in H as [q' H]. exists s'. split; [exact Hs'|]. exists k, q'. exact H.
      * intros [_ [s' [Hs' [k [q' H]]]]].
        assert (Hm : matches d s' (k :: p) = true) by (apply (IH' s' Hs'); exists q'; exact H).
        exists k. split.
        -- destruct (matches_valid s' (k :: p) Hm) as [c [Hc _]]. rewrite node_at_cons, En in Hc.
           apply nth_error_Some. congruence.
        -- apply existsb_exists. exists s'. auto.
  - (* compound *)
    unfold spec_matches. cbn [sma matches].
    assert (IH' : forall s', In s' sels -> forall p, matches d s' p = true <-> spec_matches d s' p).
    { intros s' Hs'. rewrite Forall_forall in IH. apply (IH s' Hs').
      - eapply everywhere_compound; eauto.
      - destruct Hblank as [H|H]; [left; exact H | right; eapply everywhere_compound; eauto]. }
    rewrite ex_eq_l. destruct sels as [|s1 r].
    + rewrite elem_at_iff. unfold is_element. split.
      * intros [n H]. exists n. split; [exact H | intros m []].
      * intros [n [H _]]. eauto.
    + rewrite forallb_forall. split.
      * intros H. destruct (matches_valid s1 p (H s1 (or_introl eq_refl))) as [n Hn]. exists n.
        split; [exact Hn|]. apply each_of_map. intros s' Hs'. apply (IH' s' Hs'). apply H. exact Hs'.
      * intros [n [Hn H]] s' Hs'. rewrite each_of_map in H. apply (IH' s' Hs'). apply H. exact Hs'.
  - (* combinators *)
    apply everywhere_combined in Hhas as [Hha Hhb].
    assert (Hba : doc_attrs_not_blank d \/ everywhere substr_val_ok a)
      by (destruct Hblank as [H|H]; [left; exact H | right; apply everywhere_combined in H; apply H]).
    assert (Hbb : doc_attrs_not_blank d \/ everywhere substr_val_ok b)
      by (destruct Hblank as [H|H]; [left; exact H | right; apply everywhere_combined in H; apply H]).
    specialize (IHa Hha Hba). specialize (IHb Hhb Hbb).
    rewrite combined_split. cbn [matches]. destruct c; cbn [combinator_rel].
    + unfold descendant_match. rewrite andb_true_iff, any_ancestor_spec, IHb. split.
      * intros [Hb [q [Hq Ha]]]. split; [exact Hb|]. exists q. split; [exact Hq | apply IHa; exact Ha].
      * intros [Hb [q [Hq Ha]]]. split; [exact Hb|]. exists q. split; [exact Hq | apply IHa; exact Ha].
    + unfold child_match, parent. rewrite andb_true_iff, IHb. split.
      * intros [Hb Ha]. split; [exact Hb|]. destruct p as [|k q]; [discriminate|].
        exists q. split; [exists k; reflexivity | apply IHa; exact Ha].
      * intros [Hb [q [[k ->] Ha]]]. split; [exact Hb | apply IHa; exact Ha].
    + unfold sibling_match. rewrite andb_true_iff, IHb. split.
      * intros [Hb Ha]. split; [exact Hb|]. destruct p as [|k q]; [discriminate|].
        apply adjacent_loop_spec in Ha as [j [Hj [Hm [[s [Es Hs]] Hbetween]]]].
        exists (j :: q). split; [|apply IHa; exact Hm].
        exists j, k, q. repeat split; try reflexivity; [exact Hj | apply (matches_valid a _ Hm) |].
        intros i Hi [c Hc]. exact (element_not_skippable _ _ Hc (Hbetween i Hi)).
      * intros [Hb [r [[j [k [q [-> [-> [Hj [[e [Ee Ete]] Hbetween]]]]]]] Ha]]]. split; [exact Hb|].
        apply adjacent_loop_spec. exists j. repeat split; [exact Hj | apply IHa; exact Ha | |].
        -- exists e. split; [exact Ee|]. unfold is_text, is_comment. rewrite Ete. reflexivity.
        -- intros i Hi.
           destruct Hb as [qb Hb]. 
           assert (Hv : exists c, node_at d (k :: q) = Some c).
           { assert (Hm : matches d b (k :: q) = true) by (apply IHb; exists qb; exact Hb).
             destruct (matches_valid b _ Hm) as [c [Hc _]]. eauto. }
           destruct Hv as [c Hc]. destruct (node_at_parent d _ _ _ Hc) as [par [Hpar Hk]].
           assert (Hi' : (i < length (kids_of par))%nat).
           { assert (k < length (kids_of par))%nat by (apply nth_error_Some; congruence). lia. }
           destruct (nth_error (kids_of par) i) as [ci|] eqn:Eci; [|apply nth_error_None in Eci; lia].
           assert (Hci : node_at d (i :: q) = Some ci) by (rewrite node_at_cons, Hpar; exact Eci).
           exists ci. split; [exact Hci|].
           destruct (wf_doctype d Hwf q j i ci e) as [T|[T|T]]; try assumption; try lia.
           ++ exfalso. apply (Hbetween i Hi). exists ci. split; assumption.
           ++ unfold is_text. rewrite T. reflexivity.
           ++ unfold is_text, is_comment. rewrite T. reflexivity.
    + unfold sibling_match. rewrite andb_true_iff, IHb. unfold earlier_sibling. split.
      * intros [Hb Ha]. split; [exact Hb|]. destruct p as [|k q]; [discriminate|].
        apply any_prev_spec in Ha as [j [Hj Hm]]. exists (j :: q).
        split; [exists j, k, q; auto | apply IHa; exact Hm].
      * intros [Hb [r [[j [k [q [-> [-> Hj]]]]] Ha]]]. split; [exact Hb|].
        apply any_prev_spec. exists j. split; [exact Hj | apply IHa; exact Ha].
Qed.

(* matches_spec: on every tree with the invariants of html.Parse, for every selector
   outside the two stated deviations, and every node: the code's answer is the
   Selectors-4 relation *)
Theorem matches_spec : forall s p, sel_supported d s ->
  (matches d s p = true <-> spec_matches d s p).
Proof. intros s p [H1 H2]. apply matches_spec_aux; assumption. Qed.

Theorem matches_group_spec : forall g p, (forall s, In s g -> sel_supported d s) ->
  (matches_group d g p = true <-> spec_matches_group d g p).
Proof.
  intros g p H. unfold matches_group, spec_matches_group. rewrite existsb_exists.
  split; intros [s [Hs Hm]]; exists s; (split; [exact Hs|]); apply (matches_spec s p (H s Hs)); exact Hm.
Qed.

End Main.

(* ------------------------------------------------------------------ the boolean tree check implies dom_wf *)

Lemma wf_node_unfold pe n :
  wf_node pe n =
  (if is_elem n then Bool.eqb (str_eqb (data_of n) s_html) (negb pe) else true) &&
  (match kids_of n with [] => true | _ => is_elem n end) &&
  sib_ok false (kids_of n) && forallb (wf_node (is_elem n)) (kids_of n).
Proof.
  destruct n as [ty data attrs kids]. simpl. f_equal.
  all: try (induction kids as [|c r IH]; simpl; [reflexivity | f_equal; exact IH]).
Qed.

Lemma sib_ok_spec : forall l seen, sib_ok seen l = true ->
  forall j k e c, j < k -> nth_error l j = Some e -> is_elem e = true -> nth_error l k = Some c ->
  (is_elem c || is_text c || is_comment c) = true.
Proof.
  assert (Hseen : forall l c k, sib_ok true l = true -> nth_error l k = Some c ->
                  (is_elem c || is_text c || is_comment c) = true).
  { induction l as [|x l IH]; intros c k H Hk; [destruct k; discriminate|].
    simpl in H. apply andb_true_iff in H as [H1 H2]. destruct k as [|k]; simpl in Hk.
    - injection Hk as <-. exact H1.
    - eapply IH; eauto. }
  induction l as [|x l IH]; intros seen H j k e c Hjk Hj He Hk; [destruct j; discriminate|].
  simpl in H. apply andb_true_iff in H as [H1 H2].
  destruct k as [|k]; [lia|]. simpl in Hk. destruct j as [|j]; simpl in Hj.
  - injection Hj as <-. rewrite He, orb_true_r in H2. eapply Hseen; eauto.
  - eapply IH; [exact H2 | | exact Hj | exact He | exact Hk]. lia.
Qed.

Section WfSound.
Variable d : node.
Hypothesis Hb : dom_wfb d = true.

Lemma wfb_root : ntype_of d = TDocument.
Proof. unfold dom_wfb in Hb. destruct (ntype_of d); try discriminate. reflexivity. Qed.

Lemma wfb_node : forall p k n, node_at d (k :: p) = Some n -> wf_node (elem_at d p) n = true.
Proof.
  induction p as [|k0 q IH]; intros k n Hn.
  - unfold elem_at, get. simpl in *. unfold dom_wfb in Hb. pose proof wfb_root as Hr. rewrite Hr in Hb.
    apply andb_true_iff in Hb as [_ Hall]. rewrite forallb_forall in Hall.
    unfold is_elem. rewrite Hr. apply Hall. eapply nth_error_In. exact Hn.
  - destruct (node_at_parent d _ _ _ Hn) as [par [Hpar Hk]].
    pose proof (IH k0 par Hpar) as Hw. rewrite wf_node_unfold in Hw.
    apply andb_true_iff in Hw as [_ Hall]. rewrite forallb_forall in Hall.
    unfold elem_at, get. rewrite Hpar. apply Hall. eapply nth_error_In. exact Hk.
Qed.

Lemma wfb_sibs : forall q par, node_at d q = Some par -> sib_ok false (kids_of par) = true.
Proof.
  intros [|k q] par Hpar.
  - simpl in Hpar. injection Hpar as <-. unfold dom_wfb in Hb. rewrite wfb_root in Hb.
    apply andb_true_iff in Hb as [H _]. exact H.
  - pose proof (wfb_node q k par Hpar) as Hw. rewrite wf_node_unfold in Hw.
    apply andb_true_iff in Hw as [Hw _]. apply andb_true_iff in Hw as [_ Hw]. exact Hw.
Qed.

Theorem dom_wfb_sound : dom_wf d.
Proof.
  constructor.
  - exact wfb_root.
  - intros p n Hn Ht. destruct p as [|k q].
    + simpl in Hn. injection Hn as <-. rewrite wfb_root in Ht. discriminate.
    + pose proof (wfb_node q k n Hn) as Hw. rewrite wf_node_unfold in Hw.
      apply andb_true_iff in Hw as [Hw _]. apply andb_true_iff in Hw as [Hw _]. apply andb_true_iff in Hw as [Hw _].
      assert (He : is_elem n = true) by (apply is_elem_iff; exact Ht). rewrite He in Hw.
      apply Bool.eqb_prop in Hw. unfold root_element, parent. split.
      * intros Hd q' [k' E] Hq'. injection E as <- <-. apply elem_at_iff in Hq'.
        rewrite Hq' in Hw. simpl in Hw. apply str_eqb_neq in Hw. contradiction.
      * intros Hr. destruct (elem_at d q) eqn:Eq.
        -- exfalso. apply (Hr q); [exists k; reflexivity | apply elem_at_iff; exact Eq].
        -- simpl in Hw. apply str_eqb_eq. exact Hw.
  - intros p n Hn Hk. destruct p as [|k q]; [left; reflexivity | right].
    pose proof (wfb_node q k n Hn) as Hw. rewrite wf_node_unfold in Hw.
    apply andb_true_iff in Hw as [Hw _]. apply andb_true_iff in Hw as [Hw _]. apply andb_true_iff in Hw as [_ Hw].
    destruct (kids_of n); [contradiction | apply is_elem_iff; exact Hw].
  - intros q j k c e Hjk He Hte Hc.
    destruct (node_at_parent d _ _ _ He) as [par [Hpar Hj]].
    destruct (node_at_parent d _ _ _ Hc) as [par' [Hpar' Hk]]. rewrite Hpar in Hpar'. injection Hpar' as <-.
    pose proof (sib_ok_spec _ _ (wfb_sibs q par Hpar) j k e c Hjk Hj (proj2 (is_elem_iff e) Hte) Hk) as H.
    unfold is_elem, is_text, is_comment in H. destruct (ntype_of c); try discriminate; auto.
Qed.
End WfSound.

(* ------------------------------------------------------------------ specificity *)

Open Scope Z_scope.

Lemma spec3_eq x y : sp_a x = sp_a y -> sp_b x = sp_b y -> sp_c x = sp_c y -> x = y.
Proof. destruct x, y; simpl; intros; subst; reflexivity. Qed.

Lemma spec_add_plus3 x y : spec_add x y = plus3 x y.
Proof. reflexivity. Qed.

Definition nonneg3 (x : spec3) : Prop := 0 <= sp_a x /\ 0 <= sp_b x /\ 0 <= sp_c x.

Lemma spec_less_lex x y : spec_less x y = true <-> lex_le x y /\ x <> y.
Proof.
  unfold spec_less, lex_le. destruct x as [a b c], y as [a' b' c']; simpl.
  destruct (Z.ltb_spec a a') as [La|La]; [split; [intros _; split; [lia | intros E; injection E; lia] | reflexivity]|].
  destruct (Z.gtb_spec a a') as [Ga|Ga]; [split; [discriminate | intros [Hle _]; lia]|].
  destruct (Z.ltb_spec b b') as [Lb|Lb]; [split; [intros _; split; [lia | intros E; injection E; lia] | reflexivity]|].
  destruct (Z.gtb_spec b b') as [Gb|Gb]; [split; [discriminate | intros [Hle _]; lia]|].
  destruct (Z.ltb_spec c c') as [Lc|Lc]; [split; [intros _; split; [lia | intros E; injection E; lia] | reflexivity]|].
  split; [discriminate|]. intros [Hle Hne]. exfalso. apply Hne. f_equal; lia.
Qed.

Lemma lex_le_refl x : lex_le x x.
Proof. unfold lex_le. lia. Qed.
Lemma lex_le_trans x y z : lex_le x y -> lex_le y z -> lex_le x z.
Proof. unfold lex_le. lia. Qed.
Lemma lex_le_total x y : lex_le x y \/ lex_le y x.
Proof. unfold lex_le. lia. Qed.
Lemma lex_le_antisym x y : lex_le x y -> lex_le y x -> x = y.
Proof. unfold lex_le. intros H1 H2. apply spec3_eq; lia. Qed.

(* the comparison used by the cascade is a strict total order *)
Theorem specificity_order_total :
  (forall x, spec_less x x = false) /\
  (forall x y z, spec_less x y = true -> spec_less y z = true -> spec_less x z = true) /\
  (forall x y, spec_less x y = true \/ x = y \/ spec_less y x = true) /\
  (forall x y, spec_less x y = true -> spec_less y x = false).
Proof.
  repeat split.
  - intros x. apply not_true_iff_false. intros H. apply spec_less_lex in H as [_ H]. apply H. reflexivity.
  - intros x y z H1 H2. apply spec_less_lex in H1 as [H1 N1]. apply spec_less_lex in H2 as [H2 N2].
    apply spec_less_lex. split; [eapply lex_le_trans; eassumption|].
    intros ->. apply N1. apply lex_le_antisym; assumption.
  - intros x y. destruct (lex_le_total x y) as [H|H].
    + destruct (spec_less x y) eqn:E; [left; reflexivity|]. right. left.
      destruct (lex_le_total y x) as [H'|H']; [apply lex_le_antisym; assumption|].
      apply lex_le_antisym; [exact H|]. 
      destruct (spec_less y x) eqn:E'; [apply spec_less_lex in E'; apply E' | ].
      unfold lex_le, spec_less in *. destruct x, y; simpl in *.
      repeat match goal with H : context [Z.ltb ?a ?b] |- _ => destruct (Z.ltb_spec a b) end;
      repeat match goal with H : context [Z.gtb ?a ?b] |- _ => destruct (Z.gtb_spec a b) end; try discriminate; lia.
    + destruct (spec_less y x) eqn:E; [right; right; reflexivity|]. right. left.
      unfold lex_le, spec_less in *. destruct x, y; simpl in *.
      repeat match goal with H : context [Z.ltb ?a ?b] |- _ => destruct (Z.ltb_spec a b) end;
      repeat match goal with H : context [Z.gtb ?a ?b] |- _ => destruct (Z.gtb_spec a b) end; try discriminate; f_equal; lia.
  - intros x y H. apply not_true_iff_false. intros H'.
    apply spec_less_lex in H as [H N]. apply spec_less_lex in H' as [H' _]. apply N. apply lex_le_antisym; assumption.
Qed.

Lemma nonneg_plus x y : nonneg3 x -> nonneg3 y -> nonneg3 (plus3 x y).
Proof. unfold nonneg3. destruct x, y; simpl. lia. Qed.

Definition max_step (mx n : spec3) : spec3 := if spec_less mx n then n else mx.

Lemma fold_max_spec : forall (l : list spec3) (acc : spec3),
  let m := fold_left max_step l acc in
  (m = acc \/ In m l) /\ lex_le acc m /\ forall x, In x l -> lex_le x m.
Proof.
  induction l as [|n l IH]; intros acc; simpl.
  - repeat split; [left; reflexivity | apply lex_le_refl | intros x []].
  - destruct (IH (max_step acc n)) as [H1 [H2 H3]].
    assert (Hacc : lex_le acc (max_step acc n) /\ lex_le n (max_step acc n) /\ (max_step acc n = acc \/ max_step acc n = n)).
    { unfold max_step. destruct (spec_less acc n) eqn:E.
      - apply spec_less_lex in E as [E _]. repeat split; [exact E | apply lex_le_refl | right; reflexivity].
      - repeat split; [apply lex_le_refl | | left; reflexivity].
        destruct (lex_le_total n acc) as [H|H]; [exact H|].
        assert (n = acc). { destruct (specificity_order_total) as [_ [_ [T _]]]. destruct (T acc n) as [T1|[T1|T1]]; [congruence | auto |].
          apply spec_less_lex in T1 as [T1 _]. apply lex_le_antisym; assumption. }
        subst. apply lex_le_refl. }
    destruct Hacc as [A1 [A2 A3]]. repeat split.
    + destruct H1 as [H1|H1]; [|right; right; exact H1]. rewrite H1. destruct A3 as [->| ->]; [left; reflexivity | right; left; reflexivity].
    + eapply lex_le_trans; eassumption.
    + intros x [<-|Hx]; [eapply lex_le_trans; eassumption | apply H3; exact Hx].
Qed.

Lemma fold_left_max_map g acc :
  fold_left (fun mx s' => let n := specificity s' in if spec_less mx n then n else mx) g acc
  = fold_left max_step (map specificity g) acc.
Proof. revert acc; induction g as [|s g IH]; intros acc; simpl; [reflexivity | apply IH]. Qed.

Lemma fold_left_add_map sels acc :
  fold_left (fun out s' => spec_add out (specificity s')) sels acc
  = plus3 acc (fold_right plus3 (S3 0 0 0) (map specificity sels)).
Proof.
  revert acc; induction sels as [|s sels IH]; intros acc; simpl.
  - apply spec3_eq; simpl; lia.
  - rewrite IH. apply spec3_eq; simpl; lia.
Qed.

Lemma specificity_nonneg : forall s, nonneg3 (specificity s).
Proof.
  induction s as [s Hs | name g IH | sels pe IH | a c b IHa IHb] using sel_ind'.
  - destruct s; try contradiction; simpl; unfold nonneg3; simpl; lia.
  - simpl. rewrite fold_left_max_map.
    destruct (fold_max_spec (map specificity g) spec_zero) as [[H|H] _].
    + rewrite H. unfold nonneg3, spec_zero; simpl; lia.
    + apply in_map_iff in H as [s' [<- Hs']]. rewrite Forall_forall in IH. apply IH. exact Hs'.
  - simpl. rewrite fold_left_add_map.
    assert (H : nonneg3 (fold_right plus3 (S3 0 0 0) (map specificity sels))).
    { induction IH as [|s sels Hs _ IH']; simpl; [unfold nonneg3; simpl; lia | apply nonneg_plus; assumption]. }
    destruct pe; repeat apply nonneg_plus; try exact H; unfold nonneg3, spec_zero; simpl; lia.
  - simpl. apply nonneg_plus; assumption.
Qed.

Theorem specificity_spec : forall s, has_specificity s (specificity s).
Proof.
  induction s as [s Hs | name g IH | sels pe IH | a c b IHa IHb] using sel_ind'.
  - destruct s; try contradiction; simpl; try constructor; try exact I.
  - simpl. rewrite fold_left_max_map. apply (hs_rel name g (map specificity g)).
    + induction IH; simpl; constructor; assumption.
    + destruct (fold_max_spec (map specificity g) spec_zero) as [[H|H] [H2 H3]].
      * destruct g as [|s0 g0]; [left; split; [reflexivity | exact H]|]. right. split; [|exact H3].
        (* the maximum is the initial (0,0,0): every argument has specificity (0,0,0) *)
        rewrite H. simpl. left.
        assert (Hle : lex_le (specificity s0) spec_zero) by (rewrite <- H; apply H3; left; reflexivity).
        pose proof (specificity_nonneg s0) as Hnn. unfold lex_le, nonneg3, spec_zero in *. simpl in *.
        apply spec3_eq; simpl; lia.
      * right. split; [exact H | exact H3].
  - simpl. rewrite fold_left_add_map.
    replace (match pe with [] => plus3 spec_zero (fold_right plus3 (S3 0 0 0) (map specificity sels))
                         | _ :: _ => spec_add (plus3 spec_zero (fold_right plus3 (S3 0 0 0) (map specificity sels))) (S3 0 0 1) end)
      with (plus3 (fold_right plus3 (S3 0 0 0) (map specificity sels)) (match pe with [] => S3 0 0 0 | _ => S3 0 0 1 end)).
    + apply hs_compound. induction IH; simpl; constructor; assumption.
    + destruct pe; apply spec3_eq; simpl; lia.
  - simpl. apply hs_combined; assumption.
Qed.

(* has_specificity determines the triple (up to the choice among equal maxima): the relation is functional *)
Lemma most_specific_unique l m m' : most_specific l m -> most_specific l m' -> m = m'.
Proof.
  intros [[-> ->]|[H1 H2]] [[E ->]|[H1' H2']]; try reflexivity; try (subst; destruct H1; fail); try (destruct H1'; fail).
  apply lex_le_antisym; auto.
Qed.

Lemma Forall2_unique {A B} (R : A -> B -> Prop) (g : list A) :
  Forall (fun s => forall x y, R s x -> R s y -> x = y) g ->
  forall l l', Forall2 R g l -> Forall2 R g l' -> l = l'.
Proof.
  intros IH. induction IH as [|s0 g0 Hs0 _ IHg]; intros l l' F F'; inversion F; inversion F'; subst; [reflexivity|].
  f_equal; [eapply Hs0; eassumption | apply IHg; assumption].
Qed.

Theorem has_specificity_unique : forall s x y, has_specificity s x -> has_specificity s y -> x = y.
Proof.
  induction s as [s Hs | name g IH | sels pe IH | a c b IHa IHb] using sel_ind'; intros x y Hx Hy.
  - destruct s; try contradiction; inversion Hx; inversion Hy; subst; try reflexivity; try contradiction.
  - inversion Hx as [| | | |? ? l m F M| ? Hp | |]; subst; [|contradiction].
    inversion Hy as [| | | |? ? l' m' F' M'| ? Hp | |]; subst; [|contradiction].
    assert (l = l') by (eapply Forall2_unique; eassumption).
    subst. eapply most_specific_unique; eassumption.
  - inversion Hx as [| | | | | ? Hp |? ? l F|]; subst; [contradiction|].
    inversion Hy as [| | | | | ? Hp |? ? l' F'|]; subst; [contradiction|].
    assert (l = l') by (eapply Forall2_unique; eassumption).
    subst. reflexivity.
  - inversion Hx; subst; [contradiction|]. inversion Hy; subst; [contradiction|].
    f_equal; [apply IHa | apply IHb]; assumption.
Qed.

Close Scope Z_scope.

(* ------------------------------------------------------------------ the two deviations are real *)

(* the witnesses are defined in Css/SelWitness.v (the correspondence check replays them on /repo) *)
Lemma w_below_aux : forall l n, node_at w_doc1 (l ++ w_path1) = Some n ->
  (l = [] /\ n = w_div) \/ (l = [0] /\ n = w_p).
Proof.
  induction l as [|k l IH]; intros m Hm.
  - left. cbv in Hm. injection Hm as <-. auto.
  - change ((k :: l) ++ w_path1) with (k :: l ++ w_path1) in Hm. rewrite node_at_cons in Hm.
    destruct (node_at w_doc1 (l ++ w_path1)) as [par|] eqn:E; [|discriminate].
    destruct (IH par eq_refl) as [[-> ->]|[-> ->]].
    + right. cbv [w_div kids_of] in Hm. destruct k as [|k]; [cbv in Hm; injection Hm as <-; auto | destruct k; discriminate].
    + cbv [w_p kids_of] in Hm. destruct k; discriminate.
Qed.

Lemma w_below l n : l <> [] -> node_at w_doc1 (l ++ w_path1) = Some n -> n = w_p.
Proof.
  intros Hl Hn. destruct (w_below_aux l n Hn) as [[-> _]|[_ ->]]; [contradiction | reflexivity].
Qed.

(* :has() with a combinator in its argument: the code answers true where Selectors 4 says false *)
Theorem has_relative_refuted :
  dom_wf w_doc1 /\ matches w_doc1 w_sel1 w_path1 = true /\ ~ spec_matches w_doc1 w_sel1 w_path1.
Proof.
  split; [apply dom_wfb_sound; vm_compute; reflexivity|].
  split; [vm_compute; reflexivity|].
  intros [q H]. unfold w_sel1 in H. cbn [sma] in H. destruct H as [_ [n [_ H]]].
  pose proof (proj1 (each_of_map w_doc1 _ _) H) as H'. clear H. rename H' into H. specialize (H (SRel RHas [SCombined (STag t_section) CDesc (STag t_p)]) (or_intror (or_introl eq_refl))).
  destruct H as [q' H]. cbn [sma] in H. destruct H as [_ [n' [_ H]]].
  apply (proj1 (some_of_map w_doc1 _ _)) in H. destruct H as [s' [[<-|[]] H]]. destruct H as [p' [q'' [H Ha]]].
  cbn [sma] in H. destruct H as [_ [r [_ [Hq [m [[Hm _] Hd]]]]]]. subst r.
  destruct Ha as [l [Hl ->]]. pose proof (w_below l m Hl Hm) as ->. discriminate Hd.
Qed.

(* a blank attribute value: the code answers false where Selectors 4 says true *)
Theorem blank_attr_refuted :
  dom_wf w_doc2 /\ matches w_doc2 w_sel2 w_path2 = false /\ spec_matches w_doc2 w_sel2 w_path2.
Proof.
  split; [apply dom_wfb_sound; vm_compute; reflexivity|].
  split; [vm_compute; reflexivity|].
  exists w_path2. unfold w_sel2. cbn [sma]. split; [reflexivity|].
  exists (Node TElement s_html [Attr t_title [32; 32]%N] [Node TElement t_head [] []; Node TElement t_body [] []]). split; [split; reflexivity|].
  exists (Attr t_title [32; 32]%N). split; [left; reflexivity|]. split; [reflexivity|].
  split; [discriminate|]. exists [32%N], [32%N]. split; reflexivity.
Qed.

(* the hypotheses of matches_spec are inhabited by a non-trivial case *)
Example matches_spec_inhabited :
  dom_wf w_doc1 /\ sel_supported w_doc1 (SCombined (STag t_section) CDesc (SCompound [STag t_p; SNth (-1) 1 false false] [])) /\
  matches w_doc1 (SCombined (STag t_section) CDesc (SCompound [STag t_p; SNth (-1) 1 false false] [])) (0 :: w_path1) = true.
Proof.
  split; [apply dom_wfb_sound; vm_compute; reflexivity|]. split; [|vm_compute; reflexivity].
  split.
  - simpl. repeat split; try exact I; intros x [<-|[<-|[]]]; simpl; auto.
  - right. simpl. repeat split; try exact I; intros x [<-|[<-|[]]]; simpl; auto.
Qed.
