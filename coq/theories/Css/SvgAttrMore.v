(* Css/SvgAttrMore.v -- correctness laws of the (already total) SVG attribute parsers of Css/SvgAttr.v (C07):
   what they return on success is determined by the input. *)
From Verif Require Import Base.GoSem Base.GoStrings Base.GoStringsProofs Css.SvgAttr.
From Coq Require Import List ZArith NArith Bool Lia ZifyBool ZifyNat ZifyN.
Import ListNotations.
Open Scope Z_scope.

(* parseFontWeight: the weight is 400, 700, or exactly the integer Atoi read from the attribute *)
Lemma parse_font_weight_result s v :
  parse_font_weight s = Ok v -> v = 400 \/ v = 700 \/ atoi s = Some v.
Proof.
  unfold parse_font_weight. intros H.
  destruct (list_eqb s s_normal); [inversion H; auto|].
  destruct (list_eqb s s_bold); [inversion H; auto|].
  destruct (atoi s) as [w|]; inversion H; auto.
Qed.

(* parseValue: the empty Value{} is returned exactly for blank input *)
Lemma parse_value_none_iff s :
  parse_value s = Ok None <-> list_eqb (trim_space s) [] = true.
Proof.
  unfold parse_value. destruct (list_eqb (trim_space s) []); split; intros H; try reflexivity; discriminate.
Qed.

(* parseOpacity: a non-blank value without a trailing '%' is handed to ParseFloat unchanged (trimmed), never as a percentage *)
Lemma parse_opacity_plain value :
  list_eqb (trim_space value) [] = false -> has_suffix (trim_space value) [37%N] = false ->
  parse_opacity value = Ok (Some (false, trim_space value)).
Proof. unfold parse_opacity. intros H1 H2. rewrite H1, H2. reflexivity. Qed.

(* parseOpacity: the default (None) is returned exactly for blank input *)
Lemma parse_opacity_none_iff value :
  parse_opacity value = Ok None <-> list_eqb (trim_space value) [] = true.
Proof.
  unfold parse_opacity. destruct (list_eqb (trim_space value) []); split; intros H; try reflexivity; try discriminate.
  destruct (has_suffix (trim_space value) [37%N]); [|discriminate].
  destruct (slice_to 769 (trim_space value) (len (trim_space value) - 1)); cbn [bind] in H; discriminate.
Qed.

(* newPainter: a colour painter carries exactly the trimmed attribute, and only when it is not a url( reference *)
Lemma new_painter_color attr c :
  new_painter attr = Ok (PaintColor c) -> c = trim_space attr /\ has_prefix (trim_space attr) s_url_open = false.
Proof.
  unfold new_painter. intros H.
  destruct (list_eqb (trim_space attr) [] || list_eqb (trim_space attr) s_none); [discriminate|].
  destruct (has_prefix (trim_space attr) s_url_open); [|inversion H; auto].
  destruct (negb (index_byte (trim_space attr) 41 =? -1)); [|discriminate].
  repeat match type of H with context [bind ?x _] => destruct x; cbn [bind] in H; try discriminate end.
Qed.
