(* Css/C01RefChain.v -- model (no proofs) of two name-following loops of /repo whose
   termination rests on a "seen" discipline, for C01 (rendering terminates):

   * css/counters/counters.go 27-62 extendsChain: the chain of `system: extends`
     of a counter style; the loop stops when the extended name is ALREADY IN THE
     CHAIN (or undefined).
   * svg/tree.go 157-175 inheritElement: a gradient / pattern inherits the
     attributes of the element its href names, recursively; the href of a node is
     DELETED BEFORE the recursion, so a second visit finds no href.

   Names / ids are numbers; the style sheet / the svg defs are tables indexed by
   them.  The variants `_start_only` and `_delete_after` are the loops without
   their discipline (the test looks at the starting style only / the href is
   deleted after the recursion): Css/C01RefChainProofs.v shows that they do not
   terminate on a rho-shaped / cyclic reference graph. *)
From Verif Require Import Base.GoSem.
From Coq Require Import List Arith Bool.
Import ListNotations.

(* ------------------------------------------------------------------ *)
(* extendsChain *)

Section ExtendsChain.
  (* ext n = Some m: style n is defined with `system: extends m`; defined n: there is
     a rule for n (counters.go 30 `c[...].System`, 42 `c[name]`) *)
  Variable ext : nat -> option nat.
  Variable defined : nat -> bool.

  Definition mem (n : nat) (l : list nat) : bool := existsb (Nat.eqb n) l.

  (* chain[:seenAt+1]: the prefix up to and including the first occurrence of n *)
  Fixpoint upto (n : nat) (l : list nat) : list nat :=
    match l with
    | [] => []
    | x :: r => if Nat.eqb x n then [x] else x :: upto n r
    end.

  (* the loop of counters.go 29-61.  [chain] is kept in order (first = the starting
     style), [last] is chain[len(chain)-1].  `finish` stands for lines 47-60 (the
     cycle is cut, `decimal` is appended when it can be): it returns. *)
  Fixpoint extends_chain (fuel : nat) (chain : list nat) (last : nat) : res (list nat) :=
    match fuel with
    | 0 => OutOfFuel
    | S f =>
        match ext last with
        | None => Ok chain                                  (* 31-33 *)
        | Some name =>
            if defined name && negb (mem name chain)        (* 35-42: seenAt == -1 *)
            then extends_chain f (chain ++ [name]) name     (* 43-44 *)
            else Ok (if mem name chain then upto name chain else chain)  (* 47-60 *)
        end
    end.

  Definition extends_chain_of (fuel start : nat) : res (list nat) := extends_chain fuel [start] start.

  (* the loop whose test is "is it the style we started from" *)
  Fixpoint extends_chain_start_only (fuel : nat) (start : nat) (chain : list nat) (last : nat) : res (list nat) :=
    match fuel with
    | 0 => OutOfFuel
    | S f =>
        match ext last with
        | None => Ok chain
        | Some name =>
            if defined name && negb (Nat.eqb name start)
            then extends_chain_start_only f start (chain ++ [name]) name
            else Ok chain
        end
    end.
End ExtendsChain.

(* ------------------------------------------------------------------ *)
(* inheritElement *)

(* the defs: entry i = the href of the element with id i (None: no href attribute) *)
Definition hrefs := list (option nat).

Definition href_of (t : hrefs) (n : nat) : option nat :=
  match nth_error t n with Some h => h | None => None end.

Fixpoint delete_href (t : hrefs) (n : nat) : hrefs :=
  match t, n with
  | [], _ => []
  | _ :: r, 0 => None :: r
  | x :: r, S m => x :: delete_href r m
  end.

(* svg/tree.go 157-175.  Returns the table after the call and the nodes whose
   attributes were merged, innermost first (the order of lines 170-174). *)
Fixpoint inherit_element (fuel : nat) (t : hrefs) (node : nat) : res (hrefs * list nat) :=
  match fuel with
  | 0 => OutOfFuel
  | S f =>
      match href_of t node with
      | None => Ok (delete_href t node, [])                 (* 158-168: no / dangling href *)
      | Some parent =>
          let t1 := delete_href t node in                   (* 163 *)
          if Nat.ltb parent (length t)                      (* 165-168 parent == nil *)
          then match inherit_element f t1 parent with       (* 169 *)
               | Ok (t2, merged) => Ok (t2, merged ++ [node])   (* 170-174 *)
               | e => e
               end
          else Ok (t1, [])
      end
  end.

(* the href is deleted after the recursion *)
Fixpoint inherit_element_delete_after (fuel : nat) (t : hrefs) (node : nat) : res (hrefs * list nat) :=
  match fuel with
  | 0 => OutOfFuel
  | S f =>
      match href_of t node with
      | None => Ok (t, [])
      | Some parent =>
          if Nat.ltb parent (length t)
          then match inherit_element_delete_after f t parent with
               | Ok (t2, merged) => Ok (delete_href t2 node, merged ++ [node])
               | e => e
               end
          else Ok (delete_href t node, [])
      end
  end.

(* inheritDefs (tree.go 148-154): every gradient / pattern in turn (map order: any order) *)
Fixpoint inherit_defs (fuel : nat) (t : hrefs) (order : list nat) : res hrefs :=
  match order with
  | [] => Ok t
  | n :: r =>
      match inherit_element fuel t n with
      | Ok (t', _) => inherit_defs fuel t' r
      | Panic s => Panic s
      | OutOfFuel => OutOfFuel
      end
  end.
