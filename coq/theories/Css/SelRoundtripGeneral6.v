(* Css/SelRoundtripGeneral6.v -- general round trip, part 6: every compound selector without a relative
   pseudo-class (:is/:not/:has/:haschild) printed by String() is read back by parseSimpleSelectorSequence. *)
From Verif Require Import Css.Sel Css.SelParse Css.SelPrint Css.SelRoundtrip Css.SelProofs
  Css.SelRoundtripGeneral Css.SelRoundtripGeneral2 Css.SelRoundtripGeneral3 Css.SelRoundtripGeneral4
  Css.SelRoundtripGeneral5.
From Coq Require Import ZArith NArith Lia List Bool Arith.
Import ListNotations.

Definition leafb (y : sel) : bool :=
  match y with SRel _ _ | SCompound _ _ | SCombined _ _ _ => false | _ => true end.
(* a compound selector whose components are not relative pseudo-classes *)
Definition flat (c : sel) : bool :=
  match c with
  | SCompound sels _ => forallb leafb sels
  | SCombined _ _ _ | SRel _ _ => false
  | _ => true
  end.

Lemma step_leaf s x : leafb x = true -> simple_shape x = true -> normal false x = true -> simple_step s x.
Proof.
  intros Hl Hs Hn. destruct x; try discriminate.
  - apply step_class. exact Hn.
  - apply step_id. exact Hn.
  - apply step_attr. exact Hn.
  - apply step_nth. exact Hn.
  - apply step_fixed. exact I.
  - apply step_fixed. exact I.
  - apply step_fixed. exact I.
  - apply step_fixed. exact I.
  - apply step_fixed. exact I.
  - apply step_lang. exact Hn.
  - apply step_fixed. exact I.
  - apply step_fixed. exact I.
  - apply step_fixed. exact I.
  - apply step_never. exact Hn.
Qed.

Theorem compound_roundtrip_flat (s : str) (c : sel) (f : nat) (a : bool) (i : nat) (r : str) :
  flat c = true -> normal a c = true -> skipn i s = print_sel c ++ r -> cend r = true ->
  3 * length (skipn i s) + 3 <= f ->
  p_seq s f a i = Ok (POk c (i + length (print_sel c))).
Proof.
  intros Hf Hn. revert f a i r Hn. change (comp_ok s c).
  destruct c as [t| | | | | | | | | | | | | | | |sels pe|]; try discriminate Hf.
  1: apply comp_ok_tag.
  15:{ apply comp_ok_compound. cbn [flat] in Hf. rewrite forallb_forall in Hf. apply Forall_forall.
       intros y Hy Hs Hn. apply step_leaf; auto. }
  all: intros f0 a0 i0 r0 Hn0; apply comp_ok_simple; [|exact Hn0];
    (split; [reflexivity|split; [destruct a0; exact Hn0|apply step_leaf; [reflexivity|reflexivity|destruct a0; exact Hn0]]]).
Qed.
