(* Css/UrlsProofs.v -- totality and functional facts of Css/Urls.v (C07). *)
From Verif Require Import Base.GoSem Base.GoStrings Base.GoStringsProofs Css.Urls.
From Coq Require Import List ZArith NArith Bool Lia ZifyBool ZifyNat ZifyN.
Import ListNotations.
Open Scope Z_scope.

Lemma index_site_indep {A} s1 s2 (l : list A) i a :
  index s1 l i = Ok a -> index s2 l i = Ok a.
Proof.
  unfold index. destruct (i <? 0); [discriminate|].
  destruct (nth_error l (Z.to_nat i)); [|discriminate]. exact (fun H => H).
Qed.

(* ------------------------------------------------------------------ url.PathUnescape *)
(* the error exit of the first loop never panics and never yields a count *)
Lemma pu_bad_ok (s : list N) i :
  0 <= i <= len s ->
  (let* s1 := slice_from 704 s i in
   let* _ := (if len s1 >? 3 then slice_to 705 s1 3 else Ok s1) in
   Ok (@None Z)) = Ok None.
Proof.
  intros H. rewrite slice_from_ok by lia. cbn [bind].
  set (s1 := skipn (Z.to_nat i) s).
  destruct (len s1 >? 3) eqn:E; [|reflexivity].
  rewrite slice_to_ok by lia. reflexivity.
Qed.

Lemma pu_count_total fuel s i n :
  0 <= i <= len s -> len s - i < Z.of_nat fuel ->
  exists r, pu_count fuel s i n = Ok r.
Proof.
  revert i n. induction fuel as [|f IH]; intros i n Hi Hf; [lia|].
  cbn [pu_count].
  destruct (i <? len s) eqn:Elt; [|eauto].
  destruct (index_ok 701 s i ltac:(lia)) as [c Hc]. rewrite Hc. cbn [bind].
  destruct (c =? 37)%N.
  - rewrite (pu_bad_ok s i) by lia.
    destruct (i + 2 >=? len s) eqn:E2; [eauto|].
    destruct (index_ok 702 s (i + 1) ltac:(lia)) as [c1 Hc1]. rewrite Hc1. cbn [bind].
    destruct (negb (is_hex c1)); [eauto|].
    destruct (index_ok 703 s (i + 2) ltac:(lia)) as [c2 Hc2]. rewrite Hc2. cbn [bind].
    destruct (negb (is_hex c2)); [eauto|].
    apply IH; lia.
  - apply IH; lia.
Qed.

(* a successful count validates every escape: the second loop cannot panic *)
Lemma pu_build_after_count fuel s i n m acc :
  0 <= i <= len s -> pu_count fuel s i n = Ok (Some m) ->
  exists t, pu_build fuel s i acc = Ok t /\
            (length t <= length acc + Z.to_nat (len s - i))%nat.
Proof.
  revert i n acc. induction fuel as [|f IH]; intros i n acc Hi H; [discriminate|].
  cbn [pu_count] in H. cbn [pu_build].
  destruct (i <? len s) eqn:Elt.
  2:{ eexists; split; [reflexivity|]. rewrite rev_length. lia. }
  destruct (index 701 s i) as [c| |] eqn:Hc; try discriminate. cbn [bind] in H.
  rewrite (index_site_indep 701 706 _ _ _ Hc). cbn [bind].
  destruct (c =? 37)%N.
  - rewrite (pu_bad_ok s i) in H by lia.
    destruct (i + 2 >=? len s) eqn:E2; [discriminate|].
    destruct (index 702 s (i + 1)) as [c1| |] eqn:Hc1; try discriminate. cbn [bind] in H.
    destruct (negb (is_hex c1)); [discriminate|].
    destruct (index 703 s (i + 2)) as [c2| |] eqn:Hc2; try discriminate. cbn [bind] in H.
    destruct (negb (is_hex c2)); [discriminate|].
    rewrite (index_site_indep 702 707 _ _ _ Hc1), (index_site_indep 703 708 _ _ _ Hc2). cbn [bind].
    destruct (IH (i + 3) (n + 1) ((unhex c1 * 16 + unhex c2)%N :: acc) ltac:(lia) H) as [t [Ht Hl]].
    exists t. split; [exact Ht|]. cbn [length] in Hl. lia.
  - destruct (IH (i + 1) n (c :: acc) ltac:(lia) H) as [t [Ht Hl]].
    exists t. split; [exact Ht|]. cbn [length] in Hl. lia.
Qed.

Theorem path_unescape_total s : exists r, path_unescape s = Ok r.
Proof.
  unfold path_unescape.
  destruct (pu_count_total (S (length s)) s 0 0) as [r Hr];
    [pose proof (len_nonneg s); lia | unfold len; lia |].
  rewrite Hr. cbn [bind].
  destruct r as [n|]; [|eauto].
  destruct (n =? 0); [eauto|].
  destruct (pu_build_after_count _ s 0 0 n [] ltac:(pose proof (len_nonneg s); lia) Hr) as [t [Ht _]].
  rewrite Ht. cbn [bind]. eauto.
Qed.

Theorem unquote_total s : exists r, unquote s = Ok r.
Proof.
  unfold unquote. destruct (path_unescape_total s) as [r Hr]. rewrite Hr. cbn [bind].
  destruct r; eauto.
Qed.

(* the decoded string is never longer than the input *)
Theorem path_unescape_length s t : path_unescape s = Ok (Some t) -> (length t <= length s)%nat.
Proof.
  unfold path_unescape.
  destruct (pu_count (S (length s)) s 0 0) as [r| |] eqn:Hr; try discriminate. cbn [bind].
  destruct r as [n|]; [|discriminate].
  destruct (n =? 0).
  - intros H. injection H as <-. lia.
  - destruct (pu_build_after_count _ s 0 0 n [] ltac:(pose proof (len_nonneg s); lia) Hr) as [t' [Ht Hl]].
    rewrite Ht. cbn [bind]. intros H. injection H as <-.
    cbn [length] in Hl. unfold len in Hl. lia.
Qed.

Theorem unquote_length s t : unquote s = Ok t -> (length t <= length s)%nat.
Proof.
  unfold unquote. destruct (path_unescape s) as [r| |] eqn:Hr; try discriminate. cbn [bind].
  destruct r as [t'|]; intros H; injection H as <-.
  - eapply path_unescape_length; eassumption.
  - cbn. lia.
Qed.

(* without '%' the count is 0 and the string is returned unchanged *)
Lemma contains_nth s c j x : contains_byte s c = false -> nth_error s j = Some x -> x <> c.
Proof.
  revert j. induction s as [|y s IH]; intros j Hc Hn; [destruct j; discriminate|].
  cbn in Hc. apply orb_false_elim in Hc as [H1 H2].
  destruct j; cbn in Hn.
  - injection Hn as <-. intros ->. rewrite N.eqb_refl in H1. discriminate.
  - eapply IH; eassumption.
Qed.

Lemma pu_count_no_percent fuel s i n :
  contains_byte s 37 = false -> 0 <= i <= len s -> len s - i < Z.of_nat fuel ->
  pu_count fuel s i n = Ok (Some n).
Proof.
  intros Hc. revert i n. induction fuel as [|f IH]; intros i n Hi Hf; [lia|].
  cbn [pu_count].
  destruct (i <? len s) eqn:Elt; [|reflexivity].
  destruct (index_ok 701 s i ltac:(lia)) as [c Hc']. rewrite Hc'. cbn [bind].
  apply index_ok_nth in Hc' as [Hn _].
  pose proof (contains_nth _ _ _ _ Hc Hn) as Hne.
  destruct (c =? 37)%N eqn:E; [apply N.eqb_eq in E; contradiction|].
  apply IH; lia.
Qed.

Theorem unquote_no_percent s : contains_byte s 37 = false -> unquote s = Ok s.
Proof.
  intros Hc. unfold unquote, path_unescape.
  rewrite (pu_count_no_percent _ s 0 0 Hc); [reflexivity| pose proof (len_nonneg s); lia | unfold len; lia].
Qed.

(* ------------------------------------------------------------------ data: payload *)
Lemma unescape_total_aux fuel rest acc :
  (length rest < fuel)%nat ->
  exists r, unescape fuel rest acc = Ok r /\
            match r with Some t => (length t <= length acc + length rest)%nat | None => True end.
Proof.
  revert rest acc. induction fuel as [|f IH]; intros rest acc Hf; [lia|].
  cbn [unescape].
  destruct rest as [|c rest1].
  - eexists; split; [reflexivity|]. cbv beta iota. rewrite rev_length. cbn [length]. lia.
  - destruct (decode_rune (c :: rest1)) as [r size].
    destruct (size >? 1); [eexists; split; [reflexivity|exact I]|].
    destruct (r =? 37)%N.
    + destruct rest1 as [|eb1 rest2]; [eexists; split; [reflexivity|exact I]|].
      destruct (negb (is_hex eb1)); [eexists; split; [reflexivity|exact I]|].
      destruct rest2 as [|eb0 rest3]; [eexists; split; [reflexivity|exact I]|].
      destruct (negb (is_hex eb0)); [eexists; split; [reflexivity|exact I]|].
      destruct (IH rest3 (((unhex eb0 + unhex eb1 * 16) mod 256)%N :: acc)) as [r' [Hr Hl]];
        [cbn [length] in Hf; lia|].
      exists r'. split; [exact Hr|]. destruct r'; [|exact I]. cbn [length] in *. lia.
    + destruct (IH rest1 ((r mod 256)%N :: acc)) as [r' [Hr Hl]]; [cbn [length] in Hf; lia|].
      exists r'. split; [exact Hr|]. destruct r'; [|exact I]. cbn [length] in *. lia.
Qed.

Theorem unescape_total s : exists r, unescape_bytes s = Ok r.
Proof.
  unfold unescape_bytes. destruct (unescape_total_aux (S (length s)) s []) as [r [Hr _]]; [lia|]. eauto.
Qed.

Theorem unescape_length s t : unescape_bytes s = Ok (Some t) -> (length t <= length s)%nat.
Proof.
  unfold unescape_bytes. intros H.
  destruct (unescape_total_aux (S (length s)) s []) as [r [Hr Hl]]; [lia|].
  rewrite Hr in H. injection H as ->. cbn [length] in Hl. lia.
Qed.

(* ------------------------------------------------------------------ parseDataURL *)
Lemma data_prop_total first prop d : exists d', data_prop first prop d = Ok d'.
Proof.
  unfold data_prop. destruct first.
  - destruct (contains_byte prop 47); [eauto|]. vm_compute. eauto.
  - destruct (list_eqb prop s_base64); [eauto|].
    destruct (contains_byte prop 61) eqn:E; [|eauto].
    pose proof (split2_byte_len 61 prop E) as Hl.
    destruct (index_ok 715 (split2_byte 61 prop) 0 ltac:(lia)) as [k Hk]. rewrite Hk. cbn [bind].
    destruct (index_ok 716 (split2_byte 61 prop) 1 ltac:(lia)) as [v Hv]. rewrite Hv. cbn [bind].
    eauto.
Qed.

Lemma data_props_total first props d : exists d', data_props first props d = Ok d'.
Proof.
  revert first d. induction props as [|p r IH]; intros first d; cbn [data_props]; [eauto|].
  destruct (data_prop_total first p d) as [d' Hd]. rewrite Hd. cbn [bind]. apply IH.
Qed.

(* parseDataURL is only called behind the "data:" prefix test: url has at least 5 bytes *)
Theorem parse_data_url_total url : 5 <= len url -> exists r, parse_data_url url = Ok r.
Proof.
  intros H5. unfold parse_data_url.
  rewrite slice_from_ok by lia. cbn [bind].
  set (data := skipn (Z.to_nat 5) url).
  destruct (index_byte data 44 =? -1) eqn:E; [eauto|].
  pose proof (index_byte_range data 44) as Hr.
  rewrite slice_to_ok by lia. cbn [bind].
  rewrite slice_from_ok by lia. cbn [bind].
  match goal with |- context [data_props true ?p ?d] => destruct (data_props_total true p d) as [d' Hd] end.
  rewrite Hd. cbn [bind]. eauto.
Qed.

(* the unguarded slice url[5:] of the internal function does panic on a shorter input *)
Example parse_data_url_short_panics : parse_data_url [100; 97; 116; 97]%N = Panic 710.
Proof. reflexivity. Qed.

(* ------------------------------------------------------------------ DefaultUrlFetcher, data: branch *)
Lemma lower_not_space c x :
  lower_byte c = x -> In x [100; 97; 116; 58]%N -> is_html_space c = false.
Proof.
  unfold lower_byte, is_html_space. intros H Hin.
  destruct ((65 <=? c)%N && (c <=? 90)%N) eqn:E; cbn in Hin; lia.
Qed.

Lemma is_data_url_len s : is_data_url s = true -> 5 <= len (strip_html_spaces s).
Proof.
  unfold is_data_url. intros H.
  destruct s as [|a [|b [|c [|d [|e rest]]]]]; try (cbn in H; discriminate || (repeat rewrite andb_false_r in H; discriminate)).
  cbn [firstn ascii_lower map has_prefix s_data_colon] in H.
  repeat (apply andb_prop in H as [?H H]).
  repeat match goal with Hx : (_ =? _)%N = true |- _ => apply N.eqb_eq in Hx end.
  assert (Ha : is_html_space a = false) by (eapply lower_not_space; [eassumption|cbn; tauto]).
  assert (Hb : is_html_space b = false) by (eapply lower_not_space; [eassumption|cbn; tauto]).
  assert (Hc : is_html_space c = false) by (eapply lower_not_space; [eassumption|cbn; tauto]).
  assert (Hd : is_html_space d = false) by (eapply lower_not_space; [eassumption|cbn; tauto]).
  assert (He : is_html_space e = false) by (eapply lower_not_space; [eassumption|cbn; tauto]).
  unfold strip_html_spaces. cbn [filter]. rewrite Ha, Hb, Hc, Hd, He. cbn [negb].
  rewrite !len_cons. pose proof (len_nonneg (filter (fun c0 => negb (is_html_space c0)) rest)). lia.
Qed.

Theorem fetch_data_url_total s : is_data_url s = true -> exists r, fetch_data_url s = Ok r.
Proof.
  intros H. unfold fetch_data_url.
  destruct (parse_data_url_total (strip_html_spaces s) (is_data_url_len s H)) as [d Hd].
  rewrite Hd. cbn [bind]. destruct d as [d|]; [|eauto].
  destruct (unescape_total (du_data d)) as [p Hp]. rewrite Hp. cbn [bind].
  destruct p; eauto.
Qed.

(* ------------------------------------------------------------------ decoding inverts encoding *)
(* percent-encoding of every byte: the specification side (RFC 3986 2.1: "%" HEXDIG HEXDIG) *)
Definition hexdigit (x : N) : N := if (x <? 10)%N then (48 + x)%N else (65 + (x - 10))%N.
Definition escape_byte (c : N) : list N := [37%N; hexdigit (c / 16); hexdigit (c mod 16)].
Definition escape_all (s : list N) : list N := flat_map escape_byte s.
Definition is_byte (c : N) : bool := (c <? 256)%N.

Lemma hexdigit_hex x : (x < 16)%N -> is_hex (hexdigit x) = true /\ unhex (hexdigit x) = x.
Proof.
  intros H. unfold hexdigit, is_hex, unhex.
  destruct (x <? 10)%N eqn:E; split; try lia.
  - destruct ((48 <=? 48 + x) && (48 + x <=? 57))%N eqn:E1; lia.
  - destruct ((48 <=? 65 + (x - 10)) && (65 + (x - 10) <=? 57))%N eqn:E1; [lia|].
    destruct ((97 <=? 65 + (x - 10)) && (65 + (x - 10) <=? 102))%N eqn:E2; [lia|].
    destruct ((65 <=? 65 + (x - 10)) && (65 + (x - 10) <=? 70))%N eqn:E3; lia.
Qed.

Lemma unescape_escape_all_aux fuel s acc :
  forallb is_byte s = true -> (3 * length s < fuel)%nat ->
  unescape fuel (escape_all s) acc = Ok (Some (rev acc ++ s)).
Proof.
  revert s acc. induction fuel as [|f IH]; intros s acc Hb Hf; [lia|].
  destruct s as [|c s].
  - cbn. rewrite app_nil_r. reflexivity.
  - cbn [forallb] in Hb. apply andb_prop in Hb as [Hc Hb]. unfold is_byte in Hc.
    assert (Hhi : (c / 16 < 16)%N) by (apply N.div_lt_upper_bound; lia).
    assert (Hlo : (c mod 16 < 16)%N) by (apply N.mod_lt; lia).
    destruct (hexdigit_hex _ Hhi) as [Hh1 Hu1]. destruct (hexdigit_hex _ Hlo) as [Hh2 Hu2].
    cbn [escape_all flat_map escape_byte app unescape decode_rune].
    replace (37 <? 128)%N with true by reflexivity.
    replace (1 >? 1) with false by reflexivity.
    replace (37 =? 37)%N with true by reflexivity.
    rewrite Hh1, Hh2. cbn [negb]. rewrite Hu1, Hu2.
    fold (escape_all s).
    rewrite IH; [|exact Hb|cbn [length] in Hf; lia].
    cbn [rev]. rewrite <- app_assoc. cbn [app].
    replace ((c mod 16 + c / 16 * 16) mod 256)%N with c; [reflexivity|].
    pose proof (N.div_mod c 16 ltac:(lia)). rewrite N.mod_small; lia.
Qed.

Theorem unescape_escape_all s :
  forallb is_byte s = true -> unescape_bytes (escape_all s) = Ok (Some s).
Proof.
  intros Hb. unfold unescape_bytes.
  rewrite unescape_escape_all_aux; [reflexivity|exact Hb|].
  unfold escape_all. clear Hb. induction s as [|c s IH]; cbn [flat_map escape_byte app length]; lia.
Qed.

Lemma index_app_off {A} site (pre l : list A) k :
  0 <= k -> index site (pre ++ l) (len pre + k) = index site l k.
Proof.
  intros Hk. unfold index, len.
  destruct (Z.of_nat (length pre) + k <? 0) eqn:E1; [lia|].
  destruct (k <? 0) eqn:E2; [lia|].
  replace (Z.to_nat (Z.of_nat (length pre) + k)) with (length pre + Z.to_nat k)%nat by lia.
  rewrite nth_error_app2 by lia.
  replace (length pre + Z.to_nat k - length pre)%nat with (Z.to_nat k) by lia. reflexivity.
Qed.

Lemma len_app {A} (a b : list A) : len (a ++ b) = len a + len b.
Proof. unfold len. rewrite app_length. lia. Qed.

Lemma pu_count_escape_all s : forall pre n fuel,
  forallb is_byte s = true -> (3 * length s < fuel)%nat ->
  pu_count fuel (pre ++ escape_all s) (len pre) n = Ok (Some (n + len s)).
Proof.
  induction s as [|c s IH]; intros pre n fuel Hb Hf.
  - destruct fuel; [lia|]. cbn [escape_all flat_map pu_count]. rewrite app_nil_r.
    replace (len pre <? len pre) with false by lia. rewrite len_nil. f_equal. f_equal. lia.
  - destruct fuel as [|f]; [lia|].
    cbn [forallb] in Hb. apply andb_prop in Hb as [Hc Hb]. unfold is_byte in Hc.
    assert (Hhi : (c / 16 < 16)%N) by (apply N.div_lt_upper_bound; lia).
    assert (Hlo : (c mod 16 < 16)%N) by (apply N.mod_lt; lia).
    destruct (hexdigit_hex _ Hhi) as [Hh1 _]. destruct (hexdigit_hex _ Hlo) as [Hh2 _].
    cbn [escape_all flat_map escape_byte app]. fold (escape_all s).
    set (h1 := hexdigit (c / 16)) in *. set (h2 := hexdigit (c mod 16)) in *.
    set (rest := escape_all s).
    cbn [pu_count].
    assert (Hlen : len (pre ++ 37%N :: h1 :: h2 :: rest) = len pre + 3 + len rest)
      by (rewrite len_app, !len_cons; lia).
    pose proof (len_nonneg rest).
    replace (len pre <? len (pre ++ 37%N :: h1 :: h2 :: rest)) with true by lia.
    assert (H701 : index 701 (pre ++ 37%N :: h1 :: h2 :: rest) (len pre) = Ok 37%N).
    { replace (len pre) with (len pre + 0) by lia. rewrite index_app_off by lia. reflexivity. }
    assert (H702 : index 702 (pre ++ 37%N :: h1 :: h2 :: rest) (len pre + 1) = Ok h1).
    { rewrite index_app_off by lia. reflexivity. }
    assert (H703 : index 703 (pre ++ 37%N :: h1 :: h2 :: rest) (len pre + 2) = Ok h2).
    { rewrite index_app_off by lia. reflexivity. }
    rewrite H701. cbn [bind].
    replace (37 =? 37)%N with true by reflexivity.
    replace (len pre + 2 >=? len (pre ++ 37%N :: h1 :: h2 :: rest)) with false by lia.
    rewrite H702. cbn [bind]. rewrite Hh1. cbn [negb].
    rewrite H703. cbn [bind]. rewrite Hh2. cbn [negb].
    replace (pre ++ 37%N :: h1 :: h2 :: rest) with ((pre ++ [37%N; h1; h2]) ++ rest)
      by (rewrite <- app_assoc; reflexivity).
    replace (len pre + 3) with (len (pre ++ [37%N; h1; h2])) by (rewrite len_app; cbn; lia).
    rewrite IH; [|exact Hb|cbn [length] in Hf; lia].
    f_equal. f_equal. rewrite len_cons. lia.
Qed.

Lemma pu_build_escape_all s : forall pre acc fuel,
  forallb is_byte s = true -> (3 * length s < fuel)%nat ->
  pu_build fuel (pre ++ escape_all s) (len pre) acc = Ok (rev acc ++ s).
Proof.
  induction s as [|c s IH]; intros pre acc fuel Hb Hf.
  - destruct fuel; [lia|]. cbn [escape_all flat_map pu_build]. rewrite !app_nil_r.
    replace (len pre <? len pre) with false by lia. reflexivity.
  - destruct fuel as [|f]; [lia|].
    cbn [forallb] in Hb. apply andb_prop in Hb as [Hc Hb]. unfold is_byte in Hc.
    assert (Hhi : (c / 16 < 16)%N) by (apply N.div_lt_upper_bound; lia).
    assert (Hlo : (c mod 16 < 16)%N) by (apply N.mod_lt; lia).
    destruct (hexdigit_hex _ Hhi) as [_ Hu1]. destruct (hexdigit_hex _ Hlo) as [_ Hu2].
    cbn [escape_all flat_map escape_byte app]. fold (escape_all s).
    set (h1 := hexdigit (c / 16)) in *. set (h2 := hexdigit (c mod 16)) in *.
    set (rest := escape_all s).
    cbn [pu_build].
    assert (Hlen : len (pre ++ 37%N :: h1 :: h2 :: rest) = len pre + 3 + len rest)
      by (rewrite len_app, !len_cons; lia).
    pose proof (len_nonneg rest).
    replace (len pre <? len (pre ++ 37%N :: h1 :: h2 :: rest)) with true by lia.
    assert (H706 : index 706 (pre ++ 37%N :: h1 :: h2 :: rest) (len pre) = Ok 37%N).
    { replace (len pre) with (len pre + 0) by lia. rewrite index_app_off by lia. reflexivity. }
    assert (H707 : index 707 (pre ++ 37%N :: h1 :: h2 :: rest) (len pre + 1) = Ok h1).
    { rewrite index_app_off by lia. reflexivity. }
    assert (H708 : index 708 (pre ++ 37%N :: h1 :: h2 :: rest) (len pre + 2) = Ok h2).
    { rewrite index_app_off by lia. reflexivity. }
    rewrite H706. cbn [bind].
    replace (37 =? 37)%N with true by reflexivity.
    rewrite H707. cbn [bind]. rewrite H708. cbn [bind]. rewrite Hu1, Hu2.
    replace (pre ++ 37%N :: h1 :: h2 :: rest) with ((pre ++ [37%N; h1; h2]) ++ rest)
      by (rewrite <- app_assoc; reflexivity).
    replace (len pre + 3) with (len (pre ++ [37%N; h1; h2])) by (rewrite len_app; cbn; lia).
    rewrite IH; [|exact Hb|cbn [length] in Hf; lia].
    cbn [rev]. rewrite <- app_assoc. cbn [app].
    replace (c / 16 * 16 + c mod 16)%N with c; [reflexivity|].
    pose proof (N.div_mod c 16 ltac:(lia)). lia.
Qed.

Lemma escape_all_length s : length (escape_all s) = (3 * length s)%nat.
Proof. unfold escape_all. induction s as [|c s IH]; cbn [flat_map escape_byte app length]; lia. Qed.

(* utils.Unquote / url.PathUnescape inverts the percent-encoding of every byte string *)
Theorem unquote_escape_all s : forallb is_byte s = true -> unquote (escape_all s) = Ok s.
Proof.
  intros Hb. unfold unquote, path_unescape.
  pose proof (pu_count_escape_all s [] 0 (S (length (escape_all s))) Hb) as Hc.
  cbn [app len length Z.of_nat] in Hc. rewrite Hc by (rewrite escape_all_length; lia). cbn [bind].
  destruct (0 + len s =? 0) eqn:E.
  - assert (s = []) by (destruct s; [reflexivity|rewrite len_cons in E; pose proof (len_nonneg s); lia]).
    subst. reflexivity.
  - pose proof (pu_build_escape_all s [] [] (S (length (escape_all s))) Hb) as Hbd.
    cbn [app len length Z.of_nat rev] in Hbd. rewrite Hbd by (rewrite escape_all_length; lia). reflexivity.
Qed.
