(* Css/NthSpec.v -- CSS Syntax 3 section 6 "The <an+b> microsyntax", as an
   executable recogniser over component values, organised like 6.2: the token
   classes (<n-dimension>, <ndash-dimension>, <ndashdigit-dimension>,
   <ndashdigit-ident>, <dashndashdigit-ident>, <integer>, <signed-integer>,
   <signless-integer>) and the productions grouped by their first token.
   "Whitespace is valid (and ignored) between any two tokens", except between an
   initial '+' and the ident that follows it.  Comments kept as tokens count as
   whitespace.  No proofs.

   `ival` gives the integer value the recogniser attributes to an <integer> /
   dimension representation (a parameter: the implementation goes through
   float32, exact below 2^24). *)
From Verif Require Import Css.Token Css.DeclSpec.
From Coq Require Import List NArith ZArith Bool.
Import ListNotations.
Open Scope N_scope.

Section Anb.
  Variable ival : str -> Z.

  Definition sig_tokens (l : list token) : list token := filter (fun t => negb (wsc t)) l.

  Definition is_digit_cp (c : N) : bool := (48 <=? c) && (c <=? 57).
  Definition dec_value (d : list N) : Z := Z.of_N (fold_left (fun a c => 10 * a + (c - 48)) d 0).

  (* "n-<digit>+" : the number is the part after "n", a negative integer
     (required to fit in 64 bits: see the integer flag of Css/Syntax3Spec.v) *)
  Definition ndashdigit (v : list N) : option Z :=
    match v with
    | n :: dash :: d =>
        if (n =? 110) && (dash =? 45) && negb (Nat.eqb (length d) 0) && forallb is_digit_cp d
           && (dec_value d <=? 9223372036854775808)%Z
        then Some (- dec_value d)%Z else None
    | _ => None
    end.

  Definition lower_str (v : str) : str := map lower_ascii v.
  Definition str_is (v : str) (s : list N) : bool := codes_eqb (lower_str v) s.

  Definition signed (repr : str) : bool :=
    match repr with c :: _ => (c =? 43) || (c =? 45) | [] => false end.

  Inductive after := AfterN | AfterNDash.

  (* what may follow "An" (AfterN) or "An-" (AfterNDash) *)
  Definition spec_tail (a : Z) (k : after) (rest : list token) : option (Z * Z) :=
    match k, sig_tokens rest with
    | AfterN, [] => Some (a, 0%Z)
    | AfterN, [TNumber _ r2 true] => if signed r2 then Some (a, ival r2) else None
    | AfterN, [TLiteral _ [op]; TNumber _ r2 true] =>
        if signed r2 then None
        else if op =? 43 then Some (a, ival r2)
        else if op =? 45 then Some (a, (- ival r2)%Z)
        else None
    | AfterNDash, [TNumber _ r2 true] => if signed r2 then None else Some (a, (- ival r2)%Z)
    | _, _ => None
    end.

  Definition no_more (rest : list token) : bool := match sig_tokens rest with [] => true | _ => false end.

  Definition s_n := [110].
  Definition s_ndash := [110; 45].
  Definition s_dashn := [45; 110].
  Definition s_dashndash := [45; 110; 45].
  Definition s_odd := [111; 100; 100].
  Definition s_even := [101; 118; 101; 110].

  Definition spec_anb (ts : list token) : option (Z * Z) :=
    match drop_wsc ts with
    | TNumber _ r true :: rest => if no_more rest then Some (0%Z, ival r) else None          (* <integer> *)
    | TDimension _ r true u :: rest =>
        if str_is u s_n then spec_tail (ival r) AfterN rest                                   (* <n-dimension> ... *)
        else if str_is u s_ndash then spec_tail (ival r) AfterNDash rest                      (* <ndash-dimension> <signless-integer> *)
        else match ndashdigit (lower_str u) with                                              (* <ndashdigit-dimension> *)
             | Some b => if no_more rest then Some (ival r, b) else None
             | None => None
             end
    | TIdent _ v :: rest =>
        if str_is v s_even then (if no_more rest then Some (2, 0)%Z else None)
        else if str_is v s_odd then (if no_more rest then Some (2, 1)%Z else None)
        else if str_is v s_n then spec_tail 1 AfterN rest
        else if str_is v s_dashn then spec_tail (-1) AfterN rest
        else if str_is v s_ndash then spec_tail 1 AfterNDash rest
        else if str_is v s_dashndash then spec_tail (-1) AfterNDash rest
        else if (match lower_str v with c :: _ => c =? 45 | [] => false end) then                (* <dashndashdigit-ident> *)
             match ndashdigit (tl (lower_str v)) with
             | Some b => if no_more rest then Some ((-1)%Z, b) else None
             | None => None
             end
        else match ndashdigit (lower_str v) with                                              (* <ndashdigit-ident> *)
             | Some b => if no_more rest then Some (1%Z, b) else None
             | None => None
             end
    | TLiteral _ [c] :: TIdent _ v :: rest =>                                                 (* '+' directly followed by the ident *)
        if negb (c =? 43) then None
        else if str_is v s_n then spec_tail 1 AfterN rest
        else if str_is v s_ndash then spec_tail 1 AfterNDash rest
        else match ndashdigit (lower_str v) with
             | Some b => if no_more rest then Some (1%Z, b) else None
             | None => None
             end
    | _ => None
    end.
End Anb.
