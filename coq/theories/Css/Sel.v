(* Css/Sel.v -- executable model of /repo/css/selector: every `Match` method
   (selector.go, pseudo_classes.go), `Specificity()` (selector.go,
   pseudo_classes.go, specificity.go) and `PseudoElement()`.

   Model only: no proofs here.

   DOM.  golang.org/x/net/html nodes are modelled uniformly as
   `Node type data attrs children`; the document node is the root of the tree.
   A Go `*html.Node` is a *path*: the list of child indices leading to the
   node, innermost first (so `n.Parent` is the tail and `n.PrevSibling`
   decrements the head).  Pointer equality `c == n` is path equality.

   Abstraction of `DataAtom` (stated, checked by the harness on every dumped
   tree): for element nodes `DataAtom = atom.Lookup(Data)` and `Data <> ""`,
   for other nodes `DataAtom = 0`.  Under it
     `n.Type == ElementNode && ((n.DataAtom != 0 && n.DataAtom == t.tag) || n.Data == t.tagS)`
   (selector.go:163) is `element /\ n.Data = tag` because atom.Lookup is
   injective on the names of its table, and `n.DataAtom == atom.X` is
   `element /\ n.Data = "x"`.

   Strings are byte lists.  `strings.EqualFold` / `strings.ToLower` are
   modelled on ASCII (bytes >= 128 compared exactly): stated bound, the
   generators keep operands of `i`-flag selectors ASCII.
   The regexp / text extensions (`#=`, :matches, :contains, ...) are outside
   the supported grammar and have no constructor. *)
From Verif Require Export Base.GoSem.
From Coq Require Export List ZArith NArith Bool.
Export ListNotations.

Definition str := list N.

Fixpoint str_eqb (a b : str) : bool :=
  match a, b with
  | [], [] => true
  | x :: a', y :: b' => N.eqb x y && str_eqb a' b'
  | _, _ => false
  end.

(* ------------------------------------------------------------------ DOM *)

Inductive ntype := TDocument | TElement | TText | TComment | TDoctype.
Record attr := Attr { akey : str; aval : str }.
Inductive node := Node (ty : ntype) (data : str) (attrs : list attr) (kids : list node).

Definition ntype_of (n : node) := let 'Node t _ _ _ := n in t.
Definition data_of (n : node) := let 'Node _ s _ _ := n in s.
Definition attrs_of (n : node) := let 'Node _ _ a _ := n in a.
Definition kids_of (n : node) := let 'Node _ _ _ k := n in k.

Definition is_elem (n : node) : bool := match ntype_of n with TElement => true | _ => false end.
Definition is_text (n : node) : bool := match ntype_of n with TText => true | _ => false end.
Definition is_comment (n : node) : bool := match ntype_of n with TComment => true | _ => false end.

(* innermost index first *)
Definition path := list nat.

Fixpoint node_at (d : node) (p : path) : option node :=
  match p with
  | [] => Some d
  | i :: q => match node_at d q with
              | Some n => nth_error (kids_of n) i
              | None => None
              end
  end.

Definition valid_path (d : node) (p : path) : Prop := exists n, node_at d p = Some n.

(* all nodes in document order (depth first, pre-order), as paths *)
Fixpoint paths_from (n : node) (p : path) {struct n} : list path :=
  p :: (fix go (l : list node) (k : nat) {struct l} : list path :=
          match l with
          | [] => []
          | c :: r => paths_from c (k :: p) ++ go r (S k)
          end) (kids_of n) 0%nat.
Definition all_paths (d : node) : list path := paths_from d [].

(* ------------------------------------------------------------------ selectors *)

Inductive attr_op := OpExists | OpEq | OpNe | OpIncludes | OpDash | OpPrefix | OpSuffix | OpSubstr.
Inductive rel_name := RIs | RNot | RHas | RHasChild.
Inductive comb := CDesc | CChild | CAdj | CSib.

Inductive sel :=
| STag (tag : str)                              (* selector.go:147 tagSelector (lower-cased name) *)
| SClass (c : str)                              (* :174 classSelector *)
| SId (id : str)                                (* :193 idSelector *)
| SAttr (key val : str) (op : attr_op) (icase : bool)  (* :212 attrSelector *)
| SRel (name : rel_name) (g : list sel)         (* pseudo_classes.go:26 relativePseudoClassSelector *)
| SNth (a b : Z) (last ofType : bool)           (* :159 nthPseudoClassSelector *)
| SOnly (ofType : bool)                         (* :277 onlyChildPseudoClassSelector *)
| SInput | SEmpty | SRoot | SLink               (* :308 :317 :343 :357 *)
| SLang (l : str)                               (* :366 *)
| SEnabled | SDisabled | SChecked               (* :381 :400 :437 *)
| SNever (v : str)                              (* selector.go:411 neverMatchSelector *)
| SCompound (sels : list sel) (pe : str)        (* :427 compoundSelector *)
| SCombined (first : sel) (c : comb) (second : sel).   (* :462 combinedSelector *)

(* ------------------------------------------------------------------ strings *)

Definition lower (c : N) : N := if (65 <=? c)%N && (c <=? 90)%N then (c + 32)%N else c.
(* strings.ToLower on ASCII; parser.go:62 toLowerASCII *)
Definition to_lower (s : str) : str := map lower s.
Definition fold_case (ic : bool) (s : str) : str := if ic then to_lower s else s.

(* selector.go:246 matchInsensitiveValue (strings.EqualFold on ASCII) *)
Definition veq (ic : bool) (s1 s2 : str) : bool := str_eqb (fold_case ic s1) (fold_case ic s2).

(* strings.HasPrefix s pre *)
Fixpoint has_prefix (s pre : str) {struct pre} : bool :=
  match pre, s with
  | [], _ => true
  | x :: pre', y :: s' => N.eqb x y && has_prefix s' pre'
  | _ :: _, [] => false
  end.
(* strings.HasSuffix s suf = len(s) >= len(suf) && s[len(s)-len(suf):] == suf *)
Definition has_suffix (s suf : str) : bool :=
  (length suf <=? length s)%nat && str_eqb (skipn (length s - length suf) s) suf.
(* strings.Contains s sub *)
Fixpoint contains (s sub : str) : bool :=
  has_prefix s sub || match s with [] => false | _ :: r => contains r sub end.

(* selector.go:312 spaceAsciiSet " \t\r\n\f" *)
Definition is_space (c : N) : bool :=
  N.eqb c 32 || N.eqb c 9 || N.eqb c 13 || N.eqb c 10 || N.eqb c 12.

(* unicode.IsSpace on a rune < 0x80 : '\t' '\n' '\v' '\f' '\r' ' ' *)
Definition go_space_ascii (c : N) : bool := ((9 <=? c) && (c <=? 13))%N || N.eqb c 32.

(* strings.TrimSpace(s) == "" : s is a sequence of UTF-8 encoded White_Space
   runes (U+0009-000D, 0020, 0085, 00A0, 1680, 2000-200A, 2028, 2029, 202F,
   205F, 3000).  A byte that does not start one of these encodings decodes to
   a non-space rune (possibly RuneError), so the string is not blank. *)
Fixpoint go_blank (s : str) : bool :=
  match s with
  | [] => true
  | c :: r =>
      if go_space_ascii c then go_blank r
      else match r with
           | [] => false
           | c2 :: r2 =>
               if N.eqb c 194 then (N.eqb c2 133 || N.eqb c2 160) && go_blank r2
               else match r2 with
                    | [] => false
                    | c3 :: r3 =>
                        if N.eqb c 225 then N.eqb c2 154 && N.eqb c3 128 && go_blank r3
                        else if N.eqb c 226 then
                               ((N.eqb c2 128 && (((128 <=? c3) && (c3 <=? 138))%N || N.eqb c3 168 || N.eqb c3 169 || N.eqb c3 175))
                                || (N.eqb c2 129 && N.eqb c3 159)) && go_blank r3
                        else if N.eqb c 227 then N.eqb c2 128 && N.eqb c3 128 && go_blank r3
                        else false
                    end
           end
  end.

(* strings.Trim(s, " \t\n\f\r") == "" (pseudo_classes.go:334, after the fix) *)
Definition doc_blank (s : str) : bool := forallb is_space s.

(* selector.go:315 matchInclude(val, s, ignoreCase).
   The Go loop cuts s at the first byte of spaceAsciiSet, compares the segment
   before it with val, and continues after it; a final segment is compared only
   when it is not empty.  `cur` accumulates the current segment (reversed). *)
Fixpoint match_include_loop (ic : bool) (val : str) (cur : str) (s : str) : bool :=
  match s with
  | [] => match cur with [] => false | _ => veq ic (rev cur) val end
  | c :: r => if is_space c then veq ic (rev cur) val || match_include_loop ic val [] r
              else match_include_loop ic val (c :: cur) r
  end.
Definition match_include (val s : str) (ic : bool) : bool :=
  match val with
  | [] => false                                   (* selector.go:316 (fix) *)
  | _ => match_include_loop ic val [] s
  end.

(* names used by the code *)
Definition s_class : str := [99;108;97;115;115]%N.
Definition s_id : str := [105;100]%N.
Definition s_lang : str := [108;97;110;103]%N.
Definition s_href : str := [104;114;101;102]%N.
Definition s_disabled : str := [100;105;115;97;98;108;101;100]%N.
Definition s_checked : str := [99;104;101;99;107;101;100]%N.
Definition s_selected : str := [115;101;108;101;99;116;101;100]%N.
Definition s_type : str := [116;121;112;101]%N.
Definition s_checkbox : str := [99;104;101;99;107;98;111;120]%N.
Definition s_radio : str := [114;97;100;105;111]%N.
Definition s_html : str := [104;116;109;108]%N.
Definition s_a : str := [97]%N.
Definition s_area : str := [97;114;101;97]%N.
Definition s_link : str := [108;105;110;107]%N.
Definition s_input : str := [105;110;112;117;116]%N.
Definition s_select : str := [115;101;108;101;99;116]%N.
Definition s_textarea : str := [116;101;120;116;97;114;101;97]%N.
Definition s_button : str := [98;117;116;116;111;110]%N.
Definition s_optgroup : str := [111;112;116;103;114;111;117;112]%N.
Definition s_menuitem : str := [109;101;110;117;105;116;101;109]%N.
Definition s_fieldset : str := [102;105;101;108;100;115;101;116]%N.
Definition s_option : str := [111;112;116;105;111;110]%N.
Definition s_legend : str := [108;101;103;101;110;100]%N.
Definition c_dash : N := 45%N.

(* ------------------------------------------------------------------ specificity (specificity.go) *)

Record spec3 := S3 { sp_a : Z; sp_b : Z; sp_c : Z }.
Definition spec_zero := S3 0 0 0.
(* specificity.go:9 Less: lexicographic strict order *)
Definition spec_less (s o : spec3) : bool :=
  if (sp_a s <? sp_a o)%Z then true else if (sp_a s >? sp_a o)%Z then false
  else if (sp_b s <? sp_b o)%Z then true else if (sp_b s >? sp_b o)%Z then false
  else if (sp_c s <? sp_c o)%Z then true else false.
(* specificity.go:21 Add *)
Definition spec_add (s o : spec3) : spec3 :=
  S3 (sp_a s + sp_a o) (sp_b s + sp_b o) (sp_c s + sp_c o).

Fixpoint specificity (s : sel) : spec3 :=
  match s with
  | STag _ => S3 0 0 1                                   (* selector.go:166 *)
  | SClass _ => S3 0 1 0                                 (* :185 *)
  | SId _ => S3 1 0 0                                    (* :204 *)
  | SAttr _ _ _ _ => S3 0 1 0                            (* :400 *)
  | SRel _ g =>                                          (* pseudo_classes.go:77 *)
      fold_left (fun mx s' => let n := specificity s' in if spec_less mx n then n else mx) g spec_zero
  | SNth _ _ _ _ | SOnly _ | SInput | SEmpty | SRoot | SLink | SLang _
  | SEnabled | SDisabled | SChecked => S3 0 1 0          (* pseudo_classes.go:18 abstractPseudoClass *)
  | SNever _ => S3 0 1 0                                 (* selector.go:419 (fix) *)
  | SCompound sels pe =>                                 (* :446 *)
      let out := fold_left (fun out s' => spec_add out (specificity s')) sels spec_zero in
      match pe with [] => out | _ => spec_add out (S3 0 0 1) end
  | SCombined a _ b => spec_add (specificity a) (specificity b)   (* :535 *)
  end.

(* PseudoElement() : selector.go:458, :545; "" elsewhere *)
Fixpoint pseudo_element (s : sel) : str :=
  match s with
  | SCompound _ pe => pe
  | SCombined _ _ b => pseudo_element b
  | _ => []
  end.

(* ------------------------------------------------------------------ matching *)

Section Match.
Variable d : node.

Definition get (p : path) : option node := node_at d p.
Definition elem_at (p : path) : bool := match get p with Some n => is_elem n | None => false end.
(* n.DataAtom == atom.X *)
Definition atom_is (n : node) (name : str) : bool := is_elem n && str_eqb (data_of n) name.

(* selector.go:254 matchAttribute (with the element test of the fix) *)
Definition match_attribute (n : node) (key : str) (f : str -> bool) : bool :=
  is_elem n && existsb (fun a => str_eqb (akey a) key && f (aval a)) (attrs_of n).
(* pseudo_classes.go:353 *)
Definition has_attr (n : node) (key : str) : bool := match_attribute n key (fun _ => true).

(* selector.go:219 attrSelector.Match *)
Definition attr_match (n : node) (key val : str) (op : attr_op) (ic : bool) : bool :=
  match op with
  | OpExists => match_attribute n key (fun _ => true)
  | OpEq => match_attribute n key (fun s => veq ic s val)
  | OpNe =>                                               (* :265 attributeNotEqualMatch *)
      is_elem n && negb (existsb (fun a => str_eqb (akey a) key && veq ic (aval a) val) (attrs_of n))
  | OpIncludes => match_attribute n key (fun s => match_include val s ic)
  | OpDash =>                                             (* :330 attributeDashMatch *)
      match_attribute n key (fun s =>
        if veq ic s val then true
        else if (length s <=? length val)%nat then false
        else N.eqb (nth (length val) s 0%N) c_dash && veq ic (firstn (length val) s) val)
  | OpPrefix =>                                           (* :348 *)
      match_attribute n key (fun s =>
        match val with [] => false | _ =>
        if go_blank s then false else has_prefix (fold_case ic s) (fold_case ic val) end)
  | OpSuffix =>                                           (* :363 *)
      match_attribute n key (fun s =>
        match val with [] => false | _ =>
        if go_blank s then false else has_suffix (fold_case ic s) (fold_case ic val) end)
  | OpSubstr =>                                           (* :378 *)
      match_attribute n key (fun s =>
        match val with [] => false | _ =>
        if go_blank s then false else contains (fold_case ic s) (fold_case ic val) end)
  end.

(* does sibling c count for n in the :nth-* / :only-* loops?
   `c.Type != ElementNode || (ofType && c.Data != n.Data)` => continue *)
Definition counts (ofType : bool) (tag : str) (c : node) : bool :=
  is_elem c && (negb ofType || str_eqb (data_of c) tag).

Fixpoint count_kids (ofType : bool) (tag : str) (l : list node) : Z :=
  match l with
  | [] => 0%Z
  | c :: r => ((if counts ofType tag c then 1 else 0) + count_kids ofType tag r)%Z
  end.

(* pseudo_classes.go:179 nthChildMatch.  n = child number k of parent (kids = parent's children).
   count up to and including n gives i; with `last` the loop runs to the end. *)
Definition nth_child_match (a b : Z) (last ofType : bool) (n : node) (kids : list node) (k : nat) : bool :=
  if negb (is_elem n) then false else
  let tag := data_of n in
  let i := count_kids ofType tag (firstn (S k) kids) in
  let count := count_kids ofType tag kids in
  let i := if last then (count - i + 1)%Z else i in
  let i := (i - b)%Z in
  if (a =? 0)%Z then (i =? 0)%Z
  else (Z.rem i a =? 0)%Z && (Z.quot i a >=? 0)%Z.

(* pseudo_classes.go:223 simpleNthChildMatch: the loop over parent's children,
   j = index of c, k = index of n *)
Fixpoint simple_nth_loop (b : Z) (ofType : bool) (tag : str) (l : list node) (j k : nat) (count : Z) : bool :=
  match l with
  | [] => false
  | c :: r =>
      if negb (counts ofType tag c) then simple_nth_loop b ofType tag r (S j) k count
      else let count := (count + 1)%Z in
           if Nat.eqb j k then (count =? b)%Z
           else if (count >=? b)%Z then false
           else simple_nth_loop b ofType tag r (S j) k count
  end.
Definition simple_nth_child_match (b : Z) (ofType : bool) (n : node) (kids : list node) (k : nat) : bool :=
  if negb (is_elem n) then false else
  simple_nth_loop b ofType (data_of n) kids 0%nat k 0%Z.
(* pseudo_classes.go:251 simpleNthLastChildMatch: same loop from LastChild backwards *)
Definition simple_nth_last_child_match (b : Z) (ofType : bool) (n : node) (kids : list node) (k : nat) : bool :=
  if negb (is_elem n) then false else
  simple_nth_loop b ofType (data_of n) (rev kids) 0%nat (length kids - 1 - k)%nat 0%Z.

(* pseudo_classes.go:165 nthPseudoClassSelector.Match; `parent == nil` => false *)
Definition nth_match (a b : Z) (last ofType : bool) (p : path) : bool :=
  match get p, p with
  | Some n, k :: q =>
      match get q with
      | Some par =>
          if (a =? 0)%Z then
            if last then simple_nth_last_child_match b ofType n (kids_of par) k
            else simple_nth_child_match b ofType n (kids_of par) k
          else nth_child_match a b last ofType n (kids_of par) k
      | None => false
      end
  | _, _ => false
  end.

(* pseudo_classes.go:284 onlyChild: count qualifying children, stop above 1 *)
Definition only_match (ofType : bool) (p : path) : bool :=
  match get p, p with
  | Some n, _ :: q =>
      if negb (is_elem n) then false else
      match get q with
      | Some par => (count_kids ofType (data_of n) (kids_of par) =? 1)%Z
      | None => false
      end
  | _, _ => false
  end.

(* pseudo_classes.go:322 emptyElementPseudoClassSelector.Match *)
Definition empty_match (n : node) : bool :=
  is_elem n &&
  forallb (fun c => match ntype_of c with
                    | TElement => false
                    | TText => doc_blank (data_of c)
                    | _ => true
                    end) (kids_of n).

(* pseudo_classes.go:371 langPseudoClassSelector.Match (with the element test of the fix) *)
Definition lang_own (l : str) (n : node) : bool :=
  match_attribute n s_lang (fun v => str_eqb v l || has_prefix v (l ++ [c_dash])).
Fixpoint lang_match (l : str) (p : path) : bool :=
  match get p with
  | Some n =>
      if negb (is_elem n) then false else
      match p with
      | [] => lang_own l n
      | _ :: q => lang_own l n || lang_match l q
      end
  | None => false
  end.

(* pseudo_classes.go:417 hasLegendInPreviousSiblings: siblings j-1 .. 0 of parent q *)
Fixpoint legend_before (q : path) (j : nat) : bool :=
  match j with
  | O => false
  | S j' => match get (j' :: q) with
            | Some s => atom_is s s_legend || legend_before q j'
            | None => false
            end
  end.
(* pseudo_classes.go:426 inDisabledFieldset *)
Fixpoint in_disabled_fieldset (p : path) : bool :=
  match p with
  | [] => false
  | k :: q =>
      match get p, get q with
      | Some n, Some par =>
          if atom_is par s_fieldset && has_attr par s_disabled &&
             (negb (atom_is n s_legend) || legend_before q k)
          then true else in_disabled_fieldset q
      | _, _ => false
      end
  end.

Definition is_link_atom (n : node) : bool := atom_is n s_a || atom_is n s_area || atom_is n s_link.
Definition is_group_atom (n : node) : bool := atom_is n s_optgroup || atom_is n s_menuitem || atom_is n s_fieldset.
Definition is_control_atom (n : node) : bool :=
  atom_is n s_button || atom_is n s_input || atom_is n s_select || atom_is n s_textarea || atom_is n s_option.

(* pseudo_classes.go:385 *)
Definition enabled_match (p : path) : bool :=
  match get p with
  | Some n =>
      if negb (is_elem n) then false
      else if is_link_atom n then has_attr n s_href
      else if is_group_atom n then negb (has_attr n s_disabled)
      else if is_control_atom n then negb (has_attr n s_disabled) && negb (in_disabled_fieldset p)
      else false
  | None => false
  end.
(* pseudo_classes.go:404 *)
Definition disabled_match (p : path) : bool :=
  match get p with
  | Some n =>
      if negb (is_elem n) then false
      else if is_group_atom n then has_attr n s_disabled
      else if is_control_atom n then has_attr n s_disabled || in_disabled_fieldset p
      else false
  | None => false
  end.
(* pseudo_classes.go:441 *)
Definition checked_match (n : node) : bool :=
  if negb (is_elem n) then false
  else if atom_is n s_input || atom_is n s_menuitem then
    has_attr n s_checked &&
    match_attribute n s_type (fun v => let t := to_lower v in str_eqb t s_checkbox || str_eqb t s_radio)
  else if atom_is n s_option then has_attr n s_selected
  else false.

(* combinators, over matchers `path -> bool` *)
Section Comb.
Variables (m1 m2 : path -> bool).

(* selector.go:489 descendantMatch: for p := n.Parent; p != nil; p = p.Parent *)
Fixpoint any_ancestor (p : path) : bool :=
  match p with
  | [] => false
  | _ :: q => m1 q || any_ancestor q
  end.
Definition descendant_match (p : path) : bool := m2 p && any_ancestor p.
(* selector.go:504 childMatch *)
Definition child_match (p : path) : bool :=
  m2 p && match p with [] => false | _ :: q => m1 q end.
(* selector.go:516-522: nearest previous sibling that is neither text nor comment *)
Fixpoint adjacent_loop (q : path) (j : nat) : bool :=
  match j with
  | O => false
  | S j' => match get (j' :: q) with
            | Some s => if is_text s || is_comment s then adjacent_loop q j' else m1 (j' :: q)
            | None => false
            end
  end.
(* selector.go:526-530: any previous sibling *)
Fixpoint any_prev (q : path) (j : nat) : bool :=
  match j with
  | O => false
  | S j' => m1 (j' :: q) || any_prev q j'
  end.
(* selector.go:510 siblingMatch *)
Definition sibling_match (adjacent : bool) (p : path) : bool :=
  m2 p && match p with
          | [] => false
          | k :: q => if adjacent then adjacent_loop q k else any_prev q k
          end.
End Comb.

Section Has.
Variable m : path -> bool.
(* pseudo_classes.go:53 hasChildMatch *)
Definition has_child_match (n : node) (p : path) : bool :=
  existsb (fun k => m (k :: p)) (seq 0 (length (kids_of n))).
(* pseudo_classes.go:65 hasDescendantMatch *)
Fixpoint has_descendant_match (n : node) (p : path) {struct n} : bool :=
  (fix go (l : list node) (k : nat) {struct l} : bool :=
     match l with
     | [] => false
     | c :: r => (m (k :: p) || (is_elem c && has_descendant_match c (k :: p))) || go r (S k)
     end) (kids_of n) 0%nat.
End Has.

Fixpoint matches (s : sel) (p : path) {struct s} : bool :=
  match s with
  | STag t =>                                             (* selector.go:162 *)
      match get p with Some n => is_elem n && str_eqb (data_of n) t | None => false end
  | SClass c =>                                           (* :179 *)
      match get p with Some n => match_attribute n s_class (fun v => match_include c v false) | None => false end
  | SId i =>                                              (* :198 *)
      match get p with Some n => match_attribute n s_id (fun v => str_eqb v i) | None => false end
  | SAttr key val op ic =>
      match get p with Some n => attr_match n key val op ic | None => false end
  | SRel name g =>                                        (* pseudo_classes.go:31 *)
      match get p with
      | Some n =>
          if negb (is_elem n) then false else
          match name with
          | RIs => existsb (fun s' => matches s' p) g
          | RNot => negb (existsb (fun s' => matches s' p) g)
          | RHas => has_descendant_match (fun q => existsb (fun s' => matches s' q) g) n p
          | RHasChild => has_child_match (fun q => existsb (fun s' => matches s' q) g) n p
          end
      | None => false
      end
  | SNth a b last ofType => nth_match a b last ofType p
  | SOnly ofType => only_match ofType p
  | SInput =>                                             (* :313 *)
      match get p with
      | Some n => is_elem n && (str_eqb (data_of n) s_input || str_eqb (data_of n) s_select ||
                                str_eqb (data_of n) s_textarea || str_eqb (data_of n) s_button)
      | None => false
      end
  | SEmpty => match get p with Some n => empty_match n | None => false end
  | SRoot => match get p with Some n => atom_is n s_html | None => false end      (* :349 *)
  | SLink => match get p with Some n => is_link_atom n && has_attr n s_href | None => false end  (* :362 *)
  | SLang l => lang_match l p
  | SEnabled => enabled_match p
  | SDisabled => disabled_match p
  | SChecked => match get p with Some n => checked_match n | None => false end
  | SNever _ => false                                     (* selector.go:415 *)
  | SCompound sels _ =>                                   (* :433 *)
      match sels with
      | [] => elem_at p
      | _ => forallb (fun s' => matches s' p) sels
      end
  | SCombined a c b =>                                    (* :468 *)
      match c with
      | CDesc => descendant_match (matches a) (matches b) p
      | CChild => child_match (matches a) (matches b) p
      | CAdj => sibling_match (matches a) (matches b) true p
      | CSib => sibling_match (matches a) (matches b) false p
      end
  end.

(* selector.go:557 SelectorGroup.Match *)
Definition matches_group (g : list sel) (p : path) : bool := existsb (fun s => matches s p) g.

End Match.

(* ------------------------------------------------------------------ tree invariants (checked on every dumped tree)

   Boolean form of SelSpec.dom_wf (SelProofs.dom_wfb_sound): the root is the
   document node; an element is named "html" iff its parent is not an element;
   only elements (and the root) have children; among siblings, once an element
   has been seen only elements, text and comments follow. *)
Fixpoint sib_ok (seen_elem : bool) (l : list node) : bool :=
  match l with
  | [] => true
  | c :: r => (if seen_elem then is_elem c || is_text c || is_comment c else true) &&
              sib_ok (seen_elem || is_elem c) r
  end.
Fixpoint wf_node (parent_elem : bool) (n : node) {struct n} : bool :=
  (if is_elem n then Bool.eqb (str_eqb (data_of n) s_html) (negb parent_elem) else true) &&
  (match kids_of n with [] => true | _ => is_elem n end) &&
  sib_ok false (kids_of n) &&
  (fix all (l : list node) : bool :=
     match l with [] => true | c :: r => wf_node (is_elem n) c && all r end) (kids_of n).
Definition dom_wfb (d : node) : bool :=
  match ntype_of d with
  | TDocument => sib_ok false (kids_of d) && forallb (wf_node false) (kids_of d)
  | _ => false
  end.
