(* Css/DeclProofs.v -- parseDeclaration (model Css/Parse.v, repaired code) computes
   CSS Syntax 3 5.4.6 (Css/DeclSpec.v): name, colon, value, !important. *)
From Verif Require Import Base.GoSem Css.Token Css.Tok Css.Parse Css.DeclSpec.
From Coq Require Import List NArith ZArith Bool Lia ZifyBool ZifyNat ZifyN.
Import ListNotations.
Open Scope N_scope.

Arguments N.eqb : simpl never.

(* ------------------------------------------------------------------ the predicates coincide *)
Lemma str_eqb_codes a b : str_eqb a b = codes_eqb a b.
Proof. revert b; induction a as [|x a IH]; intros [|y b]; simpl; rewrite ?IH; reflexivity. Qed.

Lemma is_bang_spec t : is_literal t s_bang = delim_is t 33.
Proof.
  destruct t; try reflexivity. simpl. unfold s_bang.
  destruct v as [|d [|e v]]; simpl; rewrite ?andb_true_r, ?andb_false_r; reflexivity.
Qed.

Lemma is_colon_spec t : is_literal t s_colon = delim_is t 58.
Proof.
  destruct t; try reflexivity. simpl. unfold s_colon.
  destruct v as [|d [|e v]]; simpl; rewrite ?andb_true_r, ?andb_false_r; reflexivity.
Qed.

Definition is_imp (t : token) : bool :=
  match t with TIdent _ v => str_eqb (ascii_lower v) s_important | _ => false end.

Lemma is_imp_spec t : is_imp t = ident_is_important t.
Proof. destruct t; reflexivity. Qed.

Lemma wsc_spec t : is_ws_or_comment t = wsc t.
Proof. destruct t; reflexivity. Qed.

(* ------------------------------------------------------------------ the state machine *)
Lemma decl_loop_snoc fxp : forall l a i t,
  decl_loop fxp a i (l ++ [t]) = decl_step fxp (decl_loop fxp a i l) (i + length l)%nat t.
Proof.
  induction l as [|x l IH]; intros a i t; simpl.
  - rewrite Nat.add_0_r. reflexivity.
  - rewrite IH. f_equal. lia.
Qed.

Lemma drop_wsc_app w l : forallb wsc w = true -> drop_wsc (w ++ l) = drop_wsc l.
Proof. induction w as [|x w IH]; simpl; [reflexivity|]. intros H. apply andb_prop in H as [H1 H2]. rewrite H1. auto. Qed.

Lemma drop_wsc_head t l : wsc t = false -> drop_wsc (t :: l) = t :: l.
Proof. intros H. simpl. rewrite H. reflexivity. Qed.

Lemma forallb_rev (p : token -> bool) l : forallb p (rev l) = forallb p l.
Proof.
  induction l as [|x l IH]; [reflexivity|]. simpl. rewrite forallb_app. simpl. rewrite IH.
  rewrite andb_true_r. apply andb_comm.
Qed.

Ltac norm_rev := repeat (rewrite rev_app_distr; cbn [rev]); repeat (rewrite <- app_assoc; cbn [app]).

Definition tail_bang (l : list token) : bool :=
  match drop_wsc (rev l) with b :: _ => delim_is b 33 | [] => false end.

Definition inv (l : list token) (a : dacc) : Prop :=
  match d_state a with
  | SBang => exists v b w, l = v ++ b :: w /\ delim_is b 33 = true /\ forallb wsc w = true /\ d_bang a = length v
  | SImportant => exists v b w1 i w2, l = v ++ b :: w1 ++ i :: w2 /\ delim_is b 33 = true /\
                    ident_is_important i = true /\ forallb wsc w1 = true /\ forallb wsc w2 = true /\
                    d_bang a = length v
  | SValue => tail_bang l = false /\ snd (spec_important l) = false
  end.

Lemma bang_not_wsc b : delim_is b 33 = true -> wsc b = false.
Proof. destruct b; try discriminate; reflexivity. Qed.
Lemma imp_not_wsc i : ident_is_important i = true -> wsc i = false.
Proof. destruct i; try discriminate; reflexivity. Qed.
Lemma bang_not_imp b : delim_is b 33 = true -> ident_is_important b = false.
Proof. destruct b; try discriminate; reflexivity. Qed.
Lemma imp_not_bang i : ident_is_important i = true -> delim_is i 33 = false.
Proof. destruct i; try discriminate; reflexivity. Qed.

Lemma inv_step l a t : inv l a -> inv (l ++ [t]) (decl_step true a (length l) t).
Proof.
  intros Hinv. unfold decl_step.
  rewrite is_bang_spec. fold (is_imp t). rewrite is_imp_spec.
  assert (Hb : match d_state a with SValue => true | _ => true end = true) by (destruct (d_state a); reflexivity).
  rewrite Hb. cbn [andb].
  destruct (delim_is t 33) eqn:Ebang.
  { (* a bang: SBang at this index *)
    unfold inv. cbn [d_state d_bang]. exists l, t, []. repeat split; auto. }
  destruct ((match d_state a with SBang => true | _ => false end) && ident_is_important t) eqn:Eimp.
  { apply andb_prop in Eimp as [Es Ei]. unfold inv in *. cbn [d_state d_bang].
    destruct (d_state a); try discriminate.
    destruct Hinv as (v & b & w & -> & Hb1 & Hw & Hbang).
    exists v, b, w, t, []. rewrite <- app_assoc. repeat split; auto. }
  (* whitespace / comment: unchanged; anything else: SValue *)
  destruct (wsc t) eqn:Ew.
  { assert (Hsame : (match t with
                     | TWhitespace _ _ | TComment _ _ => a
                     | TCurly _ _ => if d_cnw a then mkD SValue (d_bang a) true true
                                     else mkD SValue (d_bang a) true (d_csb a)
                     | _ => mkD SValue (d_bang a) true (d_csb a) end) = a)
      by (destruct t; try discriminate; reflexivity).
    rewrite Hsame. unfold inv in *. destruct (d_state a).
    - (* SValue *) destruct Hinv as [H1 H2]. unfold tail_bang, spec_important in *.
      rewrite rev_app_distr. cbn [rev app]. cbn [drop_wsc]. rewrite Ew.
      split; [exact H1|].
      destruct (drop_wsc (rev l)) as [|i r1]; [reflexivity|].
      destruct (ident_is_important i); [|reflexivity].
      destruct (drop_wsc r1) as [|b r2]; [reflexivity|].
      destruct (delim_is b 33); [discriminate|reflexivity].
    - (* SImportant *) destruct Hinv as (v & b & w1 & i & w2 & -> & Hb1 & Hi & Hw1 & Hw2 & Hbang).
      exists v, b, w1, i, (w2 ++ [t]). rewrite <- !app_assoc. cbn [app]. rewrite <- !app_assoc. cbn [app].
      repeat split; auto. rewrite forallb_app. simpl. rewrite Hw2, Ew. reflexivity.
    - (* SBang *) destruct Hinv as (v & b & w & -> & Hb1 & Hw & Hbang).
      exists v, b, (w ++ [t]). rewrite <- !app_assoc. cbn [app].
      repeat split; auto. rewrite forallb_app. simpl. rewrite Hw, Ew. reflexivity. }
  (* t is a significant token, not a bang; either not "important" or not after a bang *)
  assert (Hnew : d_state (match t with
                     | TWhitespace _ _ | TComment _ _ => a
                     | TCurly _ _ => if d_cnw a then mkD SValue (d_bang a) true true
                                     else mkD SValue (d_bang a) true (d_csb a)
                     | _ => mkD SValue (d_bang a) true (d_csb a) end) = SValue).
  { destruct t; try discriminate; try reflexivity. destruct (d_cnw a); reflexivity. }
  unfold inv. rewrite Hnew.
  unfold tail_bang, spec_important. rewrite rev_app_distr. cbn [rev app]. rewrite (drop_wsc_head _ _ Ew).
  split; [exact Ebang|].
  destruct (ident_is_important t) eqn:Ei; [|reflexivity].
  (* "important" not after a bang: the previous significant token is not a bang *)
  assert (Hs : match d_state a with SBang => false | _ => true end = true).
  { destruct (d_state a); try reflexivity. simpl in Eimp. discriminate. }
  unfold inv in Hinv. destruct (d_state a); try discriminate.
  - destruct Hinv as [H1 _]. unfold tail_bang in H1.
    destruct (drop_wsc (rev l)) as [|b r2]; [reflexivity|]. rewrite H1. reflexivity.
  - destruct Hinv as (v & b & w1 & i & w2 & -> & Hb1 & Hi & Hw1 & Hw2 & Hbang).
    norm_rev.
    rewrite drop_wsc_app by (rewrite forallb_rev; exact Hw2).
    rewrite (drop_wsc_head _ _ (imp_not_wsc _ Hi)). rewrite (imp_not_bang _ Hi). reflexivity.
Qed.

Lemma inv_loop : forall l, inv l (decl_loop true (mkD SValue 0 false false) 0 l).
Proof.
  intros l. induction l as [|t l IH] using rev_ind.
  - simpl. unfold inv. simpl. split; reflexivity.
  - rewrite decl_loop_snoc. simpl. apply inv_step. exact IH.
Qed.

Lemma spec_important_false l : snd (spec_important l) = false -> spec_important l = (l, false).
Proof.
  unfold spec_important. destruct (drop_wsc (rev l)) as [|i r1]; [reflexivity|].
  destruct (ident_is_important i); [|reflexivity].
  destruct (drop_wsc r1) as [|b r2]; [reflexivity|].
  destruct (delim_is b 33); [discriminate|reflexivity].
Qed.

(* important_spec: the value and the flag are those of 5.4.6 *)
Theorem important_spec : forall rest,
  let a := decl_loop true (mkD SValue 0 false false) 0 rest in
  let imp := match d_state a with SImportant => true | _ => false end in
  ((if imp then firstn (d_bang a) rest else rest), imp) = spec_important rest.
Proof.
  intros rest a imp. pose proof (inv_loop rest) as Hinv. fold a in Hinv. unfold inv in Hinv.
  subst imp. destruct (d_state a).
  - destruct Hinv as [_ H]. symmetry. apply spec_important_false. exact H.
  - destruct Hinv as (v & b & w1 & i & w2 & -> & Hb1 & Hi & Hw1 & Hw2 & Hbang).
    rewrite Hbang. rewrite firstn_app, Nat.sub_diag, firstn_all, firstn_O, app_nil_r.
    unfold spec_important. norm_rev.
    rewrite drop_wsc_app by (rewrite forallb_rev; exact Hw2).
    rewrite (drop_wsc_head _ _ (imp_not_wsc _ Hi)). rewrite Hi.
    rewrite drop_wsc_app by (rewrite forallb_rev; exact Hw1).
    rewrite (drop_wsc_head _ _ (bang_not_wsc _ Hb1)). rewrite Hb1. rewrite rev_involutive. reflexivity.
  - destruct Hinv as (v & b & w & -> & Hb1 & Hw & Hbang).
    unfold spec_important. norm_rev.
    rewrite drop_wsc_app by (rewrite forallb_rev; exact Hw).
    rewrite (drop_wsc_head _ _ (bang_not_wsc _ Hb1)). rewrite (bang_not_imp _ Hb1). reflexivity.
Qed.

(* the code as found misses an !important that follows another bang / another !important *)
Lemma important_orig_deviates :
  let p := mkPos 0 0 in
  let v := [TIdent p [120]; TLiteral p [33]; TLiteral p [33]; TIdent p s_important] in
  d_state (decl_loop false (mkD SValue 0 false false) 0 v) = SValue /\ snd (spec_important v) = true.
Proof. vm_compute. split; reflexivity. Qed.

(* ------------------------------------------------------------------ the whole declaration *)
Lemma next_significant_spec l :
  next_significant l = match drop_wsc l with t :: r => (Some t, r) | [] => (None, []) end.
Proof.
  induction l as [|t r IH]; [reflexivity|]. simpl. rewrite wsc_spec. destruct (wsc t); [exact IH|reflexivity].
Qed.

Definition no_curly (l : list token) : Prop := Forall (fun t => is_curly t = false) l.

Lemma no_curly_drop l : no_curly l -> no_curly (drop_wsc l).
Proof. induction 1; simpl; [constructor|]. destruct (wsc x); [assumption|constructor; assumption]. Qed.

(* ------------------------------------------------------------------ the {} rule: code (count) = draft (a block and something else) *)
Lemma is_curly_spec t : is_curly t = is_curly_block t.
Proof. destruct t; reflexivity. Qed.

Lemma curly_not_wsc t : is_curly_block t = true -> wsc t = false.
Proof. destruct t; try discriminate; reflexivity. Qed.

Lemma significant_count_cons t l :
  significant_count (t :: l) = ((if wsc t then 0 else 1) + significant_count l)%nat.
Proof. unfold significant_count. simpl. rewrite wsc_spec. destruct (wsc t); reflexivity. Qed.

Lemma significant_pos l : (0 <? significant_count l)%nat = negb (forallb wsc l).
Proof.
  induction l as [|t l IH]; [reflexivity|]. rewrite significant_count_cons. cbn [forallb].
  destruct (wsc t); cbn [andb Nat.add]; [exact IH|]. reflexivity.
Qed.

Lemma remove_first_block_none l : remove_first_block l = None -> existsb is_curly l = false.
Proof.
  induction l as [|t l IH]; [reflexivity|]. cbn [remove_first_block existsb]. change (is_curly t) with (is_curly_block t).
  destruct (is_curly_block t); [discriminate|]. destruct (remove_first_block l); [discriminate|].
  intros _. apply IH. reflexivity.
Qed.

Lemma remove_first_block_some l : forall o, remove_first_block l = Some o ->
  existsb is_curly l = true /\ significant_count l = S (significant_count o).
Proof.
  induction l as [|t l IH]; intros o; [discriminate|]. cbn [remove_first_block existsb]. change (is_curly t) with (is_curly_block t).
  destruct (is_curly_block t) eqn:Ec.
  - intros H; inversion H; subst. split; [reflexivity|]. rewrite significant_count_cons, (curly_not_wsc _ Ec). reflexivity.
  - destruct (remove_first_block l) as [o'|]; [|discriminate]. intros H; inversion H; subst.
    destruct (IH o' eq_refl) as [H1 H2]. split; [exact H1|].
    rewrite !significant_count_cons, H2. destruct (wsc t); reflexivity.
Qed.

Lemma block_rule_spec value : block_rule value = block_not_alone value.
Proof.
  unfold block_rule, block_not_alone. destruct (remove_first_block value) as [o|] eqn:E.
  - destruct (remove_first_block_some _ _ E) as [H1 H2]. rewrite H1, H2. cbn [andb].
    rewrite <- significant_pos. reflexivity.
  - rewrite (remove_first_block_none _ E). reflexivity.
Qed.

(* declaration_draft_spec: name, colon, value, !important of Level 3 5.4.6 and the {} rule
   of the css-syntax draft, for EVERY token list (no hypothesis) *)
Theorem declaration_draft_spec : forall first rest nested,
  match spec_declaration_draft first rest with
  | DOk n v i => exists p, parse_declaration true first rest nested = CDeclaration p n v i
  | DError => exists p, parse_declaration true first rest nested = CParseError p errInvalid
  end.
Proof.
  intros first rest nested. unfold spec_declaration_draft, spec_declaration, parse_declaration.
  destruct first; try (eexists; reflexivity).
  rewrite next_significant_spec.
  destruct (drop_wsc rest) as [|c value]; [eexists; reflexivity|].
  rewrite is_colon_spec. destruct (delim_is c 58); cbn [negb]; [|eexists; reflexivity].
  pose proof (important_spec value) as Hi. cbv zeta in Hi.
  destruct (spec_important value) as [v0 imp0]. inversion Hi as [[Hv Himp]]. rewrite Hv.
  rewrite block_rule_spec. destruct (block_not_alone v0); eexists; reflexivity.
Qed.

(* the code as found accepted a token FOLLOWING the block ("a: {} x") and did not count
   a "!" met before the block ("a: ! {}") *)
Lemma declaration_block_rule_orig_deviates :
  let p := mkPos 0 0 in
  let a := TIdent p [97] in
  let v1 := [TLiteral p [58]; TCurly p []; TIdent p [120]] in
  let v2 := [TLiteral p [58]; TLiteral p [33]; TCurly p []] in
  spec_declaration_draft a v1 = DError /\ spec_declaration_draft a v2 = DError /\
  (exists n v i, parse_declaration false a v1 false = CDeclaration p n v i) /\
  (exists n v i, parse_declaration false a v2 false = CDeclaration p n v i).
Proof. vm_compute. repeat split; do 3 eexists; reflexivity. Qed.

Lemma no_curly_remove l : no_curly l -> remove_first_block l = None.
Proof.
  induction 1 as [|t l Ht _ IH]; [reflexivity|]. cbn [remove_first_block].
  change (is_curly_block t) with (is_curly t). rewrite Ht, IH. reflexivity.
Qed.

Lemma no_curly_firstn n l : no_curly l -> no_curly (firstn n l).
Proof. intros H. revert n. induction H as [|t l Ht Hl IH]; intros [|n]; simpl; try constructor; auto. apply IH. Qed.

Lemma spec_important_no_curly l : no_curly l -> no_curly (fst (spec_important l)).
Proof.
  intros H. pose proof (important_spec l) as Hi. cbv zeta in Hi. rewrite <- Hi. cbn [fst].
  destruct (d_state _); try exact H. apply no_curly_firstn. exact H.
Qed.

(* declaration_spec: for values without a top-level {} block (all of CSS Syntax
   Level 3) the {} rule never applies: exactly 5.4.6 *)
Theorem declaration_spec : forall first rest nested, no_curly rest ->
  match spec_declaration first rest with
  | DOk n v i => exists p, parse_declaration true first rest nested = CDeclaration p n v i
  | DError => exists p, parse_declaration true first rest nested = CParseError p errInvalid
  end.
Proof.
  intros first rest nested Hn. pose proof (declaration_draft_spec first rest nested) as H.
  unfold spec_declaration_draft in H.
  destruct (spec_declaration first rest) as [n v i|] eqn:E; [|exact H].
  assert (Hv : block_not_alone v = false).
  { unfold block_not_alone. rewrite no_curly_remove; [reflexivity|].
    unfold spec_declaration in E. destruct first; try discriminate.
    pose proof (no_curly_drop _ Hn) as Hn'. destruct (drop_wsc rest) as [|c value]; [discriminate|].
    destruct (delim_is c 58); [|discriminate]. inversion Hn'; subst.
    pose proof (spec_important_no_curly value) as Hs. destruct (spec_important value) as [vv ii].
    inversion E; subst. apply Hs. assumption. }
  rewrite Hv in H. exact H.
Qed.
