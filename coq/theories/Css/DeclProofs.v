(* Css/DeclProofs.v -- parseDeclaration (model Css/Parse.v, repaired code) computes
   CSS Syntax 3 5.4.6 (Css/DeclSpec.v): name, colon, value, !important. *)
From Verif Require Import Base.GoSem Css.Token Css.Tok Css.Parse Css.DeclSpec.
From Coq Require Import List NArith ZArith Bool Lia ZifyBool ZifyNat ZifyN.
Import ListNotations.
Open Scope N_scope.

Arguments N.eqb : simpl never.

(* ------------------------------------------------------------------ the predicates coincide *)
Lemma str_eqb_codes a b : str_eqb a b = codes_eqb a b.
Proof. revert b; induction a as [|x a IH]; intros [|y b]; simpl; rewrite ?IH; reflexivity. Qed.

Lemma is_bang_spec t : is_literal t s_bang = delim_is t 33.
Proof.
  destruct t; try reflexivity. simpl. unfold s_bang.
  destruct v as [|d [|e v]]; simpl; rewrite ?andb_true_r, ?andb_false_r; reflexivity.
Qed.

Lemma is_colon_spec t : is_literal t s_colon = delim_is t 58.
Proof.
  destruct t; try reflexivity. simpl. unfold s_colon.
  destruct v as [|d [|e v]]; simpl; rewrite ?andb_true_r, ?andb_false_r; reflexivity.
Qed.

Definition is_imp (t : token) : bool :=
  match t with TIdent _ v => str_eqb (ascii_lower v) s_important | _ => false end.

Lemma is_imp_spec t : is_imp t = ident_is_important t.
Proof. destruct t; reflexivity. Qed.

Lemma wsc_spec t : is_ws_or_comment t = wsc t.
Proof. destruct t; reflexivity. Qed.

(* ------------------------------------------------------------------ the state machine *)
Lemma decl_loop_snoc fxp : forall l a i t,
  decl_loop fxp a i (l ++ [t]) = decl_step fxp (decl_loop fxp a i l) (i + length l)%nat t.
Proof.
  induction l as [|x l IH]; intros a i t; simpl.
  - rewrite Nat.add_0_r. reflexivity.
  - rewrite IH. f_equal. lia.
Qed.

Lemma drop_wsc_app w l : forallb wsc w = true -> drop_wsc (w ++ l) = drop_wsc l.
Proof. induction w as [|x w IH]; simpl; [reflexivity|]. intros H. apply andb_prop in H as [H1 H2]. rewrite H1. auto. Qed.

Lemma drop_wsc_head t l : wsc t = false -> drop_wsc (t :: l) = t :: l.
Proof. intros H. simpl. rewrite H. reflexivity. Qed.

Lemma forallb_rev (p : token -> bool) l : forallb p (rev l) = forallb p l.
Proof.
  induction l as [|x l IH]; [reflexivity|]. simpl. rewrite forallb_app. simpl. rewrite IH.
  rewrite andb_true_r. apply andb_comm.
Qed.

Ltac norm_rev := repeat (rewrite rev_app_distr; cbn [rev]); repeat (rewrite <- app_assoc; cbn [app]).

Definition tail_bang (l : list token) : bool :=
  match drop_wsc (rev l) with b :: _ => delim_is b 33 | [] => false end.

Definition inv (l : list token) (a : dacc) : Prop :=
  match d_state a with
  | SBang => exists v b w, l = v ++ b :: w /\ delim_is b 33 = true /\ forallb wsc w = true /\ d_bang a = length v
  | SImportant => exists v b w1 i w2, l = v ++ b :: w1 ++ i :: w2 /\ delim_is b 33 = true /\
                    ident_is_important i = true /\ forallb wsc w1 = true /\ forallb wsc w2 = true /\
                    d_bang a = length v
  | SValue => tail_bang l = false /\ snd (spec_important l) = false
  end.

Lemma bang_not_wsc b : delim_is b 33 = true -> wsc b = false.
Proof. destruct b; try discriminate; reflexivity. Qed.
Lemma imp_not_wsc i : ident_is_important i = true -> wsc i = false.
Proof. destruct i; try discriminate; reflexivity. Qed.
Lemma bang_not_imp b : delim_is b 33 = true -> ident_is_important b = false.
Proof. destruct b; try discriminate; reflexivity. Qed.
Lemma imp_not_bang i : ident_is_important i = true -> delim_is i 33 = false.
Proof. destruct i; try discriminate; reflexivity. Qed.

Lemma inv_step l a t : inv l a -> inv (l ++ [t]) (decl_step true a (length l) t).
Proof.
  intros Hinv. unfold decl_step.
  rewrite is_bang_spec. fold (is_imp t). rewrite is_imp_spec.
  assert (Hb : match d_state a with SValue => true | _ => true end = true) by (destruct (d_state a); reflexivity).
  rewrite Hb. cbn [andb].
  destruct (delim_is t 33) eqn:Ebang.
  { (* a bang: SBang at this index *)
    unfold inv. cbn [d_state d_bang]. exists l, t, []. repeat split; auto. }
  destruct ((match d_state a with SBang => true | _ => false end) && ident_is_important t) eqn:Eimp.
  { apply andb_prop in Eimp as [Es Ei]. unfold inv in *. cbn [d_state d_bang].
    destruct (d_state a); try discriminate.
    destruct Hinv as (v & b & w & -> & Hb1 & Hw & Hbang).
    exists v, b, w, t, []. rewrite <- app_assoc. repeat split; auto. }
  (* whitespace / comment: unchanged; anything else: SValue *)
  destruct (wsc t) eqn:Ew.
  { assert (Hsame : (match t with
                     | TWhitespace _ _ | TComment _ _ => a
                     | TCurly _ _ => if d_cnw a then mkD SValue (d_bang a) true true
                                     else mkD SValue (d_bang a) true (d_csb a)
                     | _ => mkD SValue (d_bang a) true (d_csb a) end) = a)
      by (destruct t; try discriminate; reflexivity).
    rewrite Hsame. unfold inv in *. destruct (d_state a).
    - (* SValue *) destruct Hinv as [H1 H2]. unfold tail_bang, spec_important in *.
      rewrite rev_app_distr. cbn [rev app]. cbn [drop_wsc]. rewrite Ew.
      split; [exact H1|].
      destruct (drop_wsc (rev l)) as [|i r1]; [reflexivity|].
      destruct (ident_is_important i); [|reflexivity].
      destruct (drop_wsc r1) as [|b r2]; [reflexivity|].
      destruct (delim_is b 33); [discriminate|reflexivity].
    - (* SImportant *) destruct Hinv as (v & b & w1 & i & w2 & -> & Hb1 & Hi & Hw1 & Hw2 & Hbang).
      exists v, b, w1, i, (w2 ++ [t]). rewrite <- !app_assoc. cbn [app]. rewrite <- !app_assoc. cbn [app].
      repeat split; auto. rewrite forallb_app. simpl. rewrite Hw2, Ew. reflexivity.
    - (* SBang *) destruct Hinv as (v & b & w & -> & Hb1 & Hw & Hbang).
      exists v, b, (w ++ [t]). rewrite <- !app_assoc. cbn [app].
      repeat split; auto. rewrite forallb_app. simpl. rewrite Hw, Ew. reflexivity. }
  (* t is a significant token, not a bang; either not "important" or not after a bang *)
  assert (Hnew : d_state (match t with
                     | TWhitespace _ _ | TComment _ _ => a
                     | TCurly _ _ => if d_cnw a then mkD SValue (d_bang a) true true
                                     else mkD SValue (d_bang a) true (d_csb a)
                     | _ => mkD SValue (d_bang a) true (d_csb a) end) = SValue).
  { destruct t; try discriminate; try reflexivity. destruct (d_cnw a); reflexivity. }
  unfold inv. rewrite Hnew.
  unfold tail_bang, spec_important. rewrite rev_app_distr. cbn [rev app]. rewrite (drop_wsc_head _ _ Ew).
  split; [exact Ebang|].
  destruct (ident_is_important t) eqn:Ei; [|reflexivity].
  (* "important" not after a bang: the previous significant token is not a bang *)
  assert (Hs : match d_state a with SBang => false | _ => true end = true).
  { destruct (d_state a); try reflexivity. simpl in Eimp. discriminate. }
  unfold inv in Hinv. destruct (d_state a); try discriminate.
  - destruct Hinv as [H1 _]. unfold tail_bang in H1.
    destruct (drop_wsc (rev l)) as [|b r2]; [reflexivity|]. rewrite H1. reflexivity.
  - destruct Hinv as (v & b & w1 & i & w2 & -> & Hb1 & Hi & Hw1 & Hw2 & Hbang).
    norm_rev.
    rewrite drop_wsc_app by (rewrite forallb_rev; exact Hw2).
    rewrite (drop_wsc_head _ _ (imp_not_wsc _ Hi)). rewrite (imp_not_bang _ Hi). reflexivity.
Qed.

Lemma inv_loop : forall l, inv l (decl_loop true (mkD SValue 0 false false) 0 l).
Proof.
  intros l. induction l as [|t l IH] using rev_ind.
  - simpl. unfold inv. simpl. split; reflexivity.
  - rewrite decl_loop_snoc. simpl. apply inv_step. exact IH.
Qed.

Lemma spec_important_false l : snd (spec_important l) = false -> spec_important l = (l, false).
Proof.
  unfold spec_important. destruct (drop_wsc (rev l)) as [|i r1]; [reflexivity|].
  destruct (ident_is_important i); [|reflexivity].
  destruct (drop_wsc r1) as [|b r2]; [reflexivity|].
  destruct (delim_is b 33); [discriminate|reflexivity].
Qed.

(* important_spec: the value and the flag are those of 5.4.6 *)
Theorem important_spec : forall rest,
  let a := decl_loop true (mkD SValue 0 false false) 0 rest in
  let imp := match d_state a with SImportant => true | _ => false end in
  ((if imp then firstn (d_bang a) rest else rest), imp) = spec_important rest.
Proof.
  intros rest a imp. pose proof (inv_loop rest) as Hinv. fold a in Hinv. unfold inv in Hinv.
  subst imp. destruct (d_state a).
  - destruct Hinv as [_ H]. symmetry. apply spec_important_false. exact H.
  - destruct Hinv as (v & b & w1 & i & w2 & -> & Hb1 & Hi & Hw1 & Hw2 & Hbang).
    rewrite Hbang. rewrite firstn_app, Nat.sub_diag, firstn_all, firstn_O, app_nil_r.
    unfold spec_important. norm_rev.
    rewrite drop_wsc_app by (rewrite forallb_rev; exact Hw2).
    rewrite (drop_wsc_head _ _ (imp_not_wsc _ Hi)). rewrite Hi.
    rewrite drop_wsc_app by (rewrite forallb_rev; exact Hw1).
    rewrite (drop_wsc_head _ _ (bang_not_wsc _ Hb1)). rewrite Hb1. rewrite rev_involutive. reflexivity.
  - destruct Hinv as (v & b & w & -> & Hb1 & Hw & Hbang).
    unfold spec_important. norm_rev.
    rewrite drop_wsc_app by (rewrite forallb_rev; exact Hw).
    rewrite (drop_wsc_head _ _ (bang_not_wsc _ Hb1)). rewrite (bang_not_imp _ Hb1). reflexivity.
Qed.

(* the code as found misses an !important that follows another bang / another !important *)
Lemma important_orig_deviates :
  let p := mkPos 0 0 in
  let v := [TIdent p [120]; TLiteral p [33]; TLiteral p [33]; TIdent p s_important] in
  d_state (decl_loop false (mkD SValue 0 false false) 0 v) = SValue /\ snd (spec_important v) = true.
Proof. vm_compute. split; reflexivity. Qed.

(* ------------------------------------------------------------------ the whole declaration *)
Lemma next_significant_spec l :
  next_significant l = match drop_wsc l with t :: r => (Some t, r) | [] => (None, []) end.
Proof.
  induction l as [|t r IH]; [reflexivity|]. simpl. rewrite wsc_spec. destruct (wsc t); [exact IH|reflexivity].
Qed.

Definition no_curly (l : list token) : Prop := Forall (fun t => is_curly t = false) l.

Lemma decl_step_csb fxp a i t : is_curly t = false -> d_csb a = false -> d_csb (decl_step fxp a i t) = false.
Proof.
  intros Hc Ha. unfold decl_step.
  destruct (_ && is_literal t s_bang); [exact Ha|].
  destruct (_ && _); [exact Ha|].
  destruct t; try exact Ha; try discriminate.
Qed.

Lemma decl_loop_csb fxp : forall l a i, no_curly l -> d_csb a = false -> d_csb (decl_loop fxp a i l) = false.
Proof.
  induction l as [|t l IH]; intros a i Hn Ha; [exact Ha|].
  inversion Hn; subst. simpl. apply IH; [assumption|]. apply decl_step_csb; assumption.
Qed.

Lemma no_curly_drop l : no_curly l -> no_curly (drop_wsc l).
Proof. induction 1; simpl; [constructor|]. destruct (wsc x); [assumption|constructor; assumption]. Qed.

(* declaration_spec: for values without a top-level {} block (all of CSS Syntax
   Level 3; the {} rule of the css-syntax draft is an extension of the implementation) *)
Theorem declaration_spec : forall first rest nested, no_curly rest ->
  match spec_declaration first rest with
  | DOk n v i => exists p, parse_declaration true first rest nested = CDeclaration p n v i
  | DError => exists p, parse_declaration true first rest nested = CParseError p errInvalid
  end.
Proof.
  intros first rest nested Hn. unfold spec_declaration, parse_declaration.
  destruct first; try (eexists; reflexivity).
  rewrite next_significant_spec. pose proof (no_curly_drop _ Hn) as Hn'.
  destruct (drop_wsc rest) as [|c value]; [eexists; reflexivity|].
  rewrite is_colon_spec. destruct (delim_is c 58); cbn [negb]; [|eexists; reflexivity].
  inversion Hn'; subst.
  rewrite (decl_loop_csb true value _ 0%nat) by (assumption || reflexivity). cbn [andb].
  pose proof (important_spec value) as Hi. cbv zeta in Hi.
  destruct (spec_important value) as [v0 imp0]. inversion Hi; subst. eexists; reflexivity.
Qed.
