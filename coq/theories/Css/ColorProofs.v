(* Css/ColorProofs.v -- the colour parser model (Css/Color.v, exact instance) = CSS Color 3 (Css/ColorSpec.v);
   totality; argument typing (<integer> is the token's type flag); accept / reject does not depend on rounding. *)
From Verif Require Import Base.GoSem Css.Token Css.Tok Css.Parse Css.ColorTables Css.Color Css.ColorSpec Css.TokProofs.
From Coq Require Import List NArith ZArith Bool QArith Qround Lia ZifyBool ZifyN Lqa.
Import ListNotations.
Open Scope N_scope.

Lemma str_eqb_eq a b : str_eqb a b = true <-> a = b.
Proof.
  revert b. induction a as [|x a IH]; intros [|y b]; cbn [str_eqb]; split; intros H; try reflexivity; try discriminate.
  - apply andb_prop in H as [H1 H2]. apply N.eqb_eq in H1. apply IH in H2. congruence.
  - inversion H; subst. rewrite N.eqb_refl. cbn. apply IH. reflexivity.
Qed.
Lemma str_eqb_sym a b : str_eqb a b = str_eqb b a.
Proof.
  destruct (str_eqb a b) eqn:E1, (str_eqb b a) eqn:E2; try reflexivity.
  - apply str_eqb_eq in E1. subst. assert (str_eqb b b = true) by (apply str_eqb_eq; reflexivity). congruence.
  - apply str_eqb_eq in E2. subst. assert (str_eqb a a = true) by (apply str_eqb_eq; reflexivity). congruence.
Qed.

Lemma clip_eq q : minF 1 (maxF 0 q) = clip01 q.
Proof.
  unfold minF, maxF, clip01, lt, Qltb.
  destruct (negb (Qle_bool 0 q)) eqn:E; [reflexivity|]. reflexivity.
Qed.

Lemma hue_to_rgb_exact m1 m2 h : hue_to_rgb exactA m1 m2 h = spec_hue_to_rgb m1 m2 h.
Proof. reflexivity. Qed.

Lemma hsl_to_rgb_exact h s l :
  hsl_to_rgb exactA h s l = spec_hsl_to_rgb (Qfrac (inject_Z h / 360)) (clip01 (s / 100)) (clip01 (l / 100)).
Proof.
  unfold hsl_to_rgb. cbn [r32 r64 exactA]. rewrite !clip_eq. reflexivity.
Qed.

(* ------------------------------------------------------------------ hexadecimal notation *)
Lemma hex_digit_spec c : hex_digit c = if is_hex c then Some (hex_digit_value c) else None.
Proof.
  unfold hex_digit, is_hex, hex_digit_value, is_digit.
  destruct (48 <=? c) eqn:E1, (c <=? 57) eqn:E2, (97 <=? c) eqn:E3, (c <=? 102) eqn:E4, (65 <=? c) eqn:E5, (c <=? 70) eqn:E6;
    cbn [andb orb]; try reflexivity; lia.
Qed.

Lemma byte_f_exact n : byte_f exactA n = of255 n.
Proof. reflexivity. Qed.

Lemma of255_eq a b : a = b -> of255 a = of255 b.
Proof. congruence. Qed.

Lemma hash_color_spec v : hash_color exactA v = spec_hex v.
Proof.
  unfold hash_color, hash_groups, spec_hex.
  destruct v as [|a [|b [|c [|d [|e [|f [|g v]]]]]]]; cbn [forallb map];
    rewrite ?hex_digit_spec;
    repeat match goal with |- context [is_hex ?x] => destruct (is_hex x) end;
    cbn [andb]; try reflexivity.
  - rewrite !byte_f_exact. f_equal; apply of255_eq; unfold hex_value; cbn [fold_left]; lia.
  - rewrite !byte_f_exact. f_equal; apply of255_eq; unfold hex_value; cbn [fold_left]; lia.
  - destruct (forallb is_hex v); reflexivity.
Qed.

(* ------------------------------------------------------------------ keywords *)
Lemma tables_same : go_extended = spec_keywords.
Proof. reflexivity. Qed.

Lemma assoc_lookup k l : assoc k l = lookup k l.
Proof. induction l as [|[k' v] r IH]; cbn [assoc lookup]; [reflexivity|]. rewrite (str_eqb_sym k k'), IH. reflexivity. Qed.

(* every basic keyword is also an extended keyword with the same value *)
Lemma basic_in_extended : forallb (fun kv => match assoc (fst kv) go_extended with Some v => let '(a,b,c) := v in let '(a',b',c') := snd kv in (a =? a') && (b =? b') && (c =? c') | None => false end) go_basic = true.
Proof. vm_compute. reflexivity. Qed.

Lemma assoc_in {B} k (l : list (str * B)) v : assoc k l = Some v -> In (k, v) l.
Proof.
  induction l as [|[k' v'] r IH]; cbn [assoc]; [discriminate|].
  destruct (str_eqb k k') eqn:E.
  - intros H. inversion H; subst. apply str_eqb_eq in E. subst. left. reflexivity.
  - intros H. right. apply IH. exact H.
Qed.

Lemma basic_sub k v : assoc k go_basic = Some v -> assoc k go_extended = Some v.
Proof.
  intros H. apply assoc_in in H.
  pose proof basic_in_extended as F. rewrite forallb_forall in F. specialize (F _ H). cbn [fst snd] in F.
  destruct (assoc k go_extended) as [[[a b] c]|]; [|discriminate].
  destruct v as [[a' b'] c']. apply andb_prop in F as [F Fc]. apply andb_prop in F as [Fa Fb].
  apply N.eqb_eq in Fa, Fb, Fc. congruence.
Qed.

Lemma keyword_color_spec l : keyword_color exactA l = spec_keyword l.
Proof.
  unfold keyword_color, spec_keyword. rewrite <- tables_same, <- assoc_lookup.
  destruct (assoc l go_extended) as [[[r g] b]|] eqn:E; [reflexivity|].
  destruct (assoc l go_basic) as [v|] eqn:E2.
  { apply basic_sub in E2. congruence. }
  unfold s_currentcolor, s_transparent.
  destruct (str_eqb l [99; 117; 114; 114; 101; 110; 116; 99; 111; 108; 111; 114]) eqn:E3.
  - apply str_eqb_eq in E3. subst l. reflexivity.
  - reflexivity.
Qed.

(* ------------------------------------------------------------------ functional notations *)
Lemma sig_eq l : filter (fun t => negb (is_ws_or_comment t)) l = significant l.
Proof. unfold significant. apply filter_ext. intros t. destruct t; reflexivity. Qed.

Lemma comma_eq t : is_literal t s_comma = comma t.
Proof. destruct t; reflexivity. Qed.

Lemma parse_rgb_spec a b c alpha : or_invalid (parse_rgb exactA [a; b; c] alpha) = spec_rgb3 a b c alpha.
Proof.
  unfold parse_rgb, spec_rgb3, as_int_number, as_percentage, arg_type_of.
  destruct a as [| | | | | | | | | |? ? [|]|? ? ?| | | | |], b as [| | | | | | | | | |? ? [|]|? ? ?| | | | |], c as [| | | | | | | | | |? ? [|]|? ? ?| | | | |]; reflexivity.
Qed.

Lemma parse_hsl_spec a b c alpha : or_invalid (parse_hsl exactA [a; b; c] alpha) = spec_hsl3 a b c alpha.
Proof.
  unfold parse_hsl, spec_hsl3, as_int_number, as_percentage, arg_type_of.
  destruct a as [| | | | | | | | | |? ? [|]|? ? ?| | | | |], b as [| | | | | | | | | |? ? [|]|? ? ?| | | | |], c as [| | | | | | | | | |? ? [|]|? ? ?| | | | |]; try reflexivity.
  rewrite hsl_to_rgb_exact. reflexivity.
Qed.

Lemma parse_alpha_spec d : parse_alpha exactA [d] = spec_alpha d.
Proof.
  unfold parse_alpha, spec_alpha, as_number, arg_type_of.
  destruct d as [| | | | | | | | | |? ? [|]|? ? ?| | | | |]; try reflexivity; rewrite clip_eq; reflexivity.
Qed.

Lemma name_cases n :
  (n = s_rgb \/ n = s_rgba \/ n = s_hsl \/ n = s_hsla) \/
  (str_eqb n s_rgb = false /\ str_eqb n s_rgba = false /\ str_eqb n s_hsl = false /\ str_eqb n s_hsla = false).
Proof.
  destruct (str_eqb n s_rgb) eqn:E1; [apply str_eqb_eq in E1; auto|].
  destruct (str_eqb n s_rgba) eqn:E2; [apply str_eqb_eq in E2; auto|].
  destruct (str_eqb n s_hsl) eqn:E3; [apply str_eqb_eq in E3; auto|].
  destruct (str_eqb n s_hsla) eqn:E4; [apply str_eqb_eq in E4; auto 6|].
  right. auto.
Qed.

Ltac eval_names :=
  repeat match goal with
  | |- context [str_eqb ?x ?y] =>
      lazymatch x with
      | s_rgb => idtac | s_rgba => idtac | s_hsl => idtac | s_hsla => idtac
      end;
      let v := eval vm_compute in (str_eqb x y) in change (str_eqb x y) with v
  end.

Lemma parse_color_function_spec p name args :
  parse_color exactA (TFunction p name args) = spec_functional (ascii_lower name) (significant args).
Proof.
  cbn [parse_color]. unfold parse_comma_separated. rewrite sig_eq.
  set (n := ascii_lower name). clearbody n.
  change [114; 103; 98] with s_rgb. 
  destruct (significant args) as [|a [|c1 [|b [|c2 [|c [|c3 [|d [|c4 [|e rest]]]]]]]]];
    cbn [pcs_pairs spec_functional]; rewrite ?comma_eq;
    repeat match goal with |- context [comma ?x] => destruct (comma x) end; cbn [andb];
    try (destruct (pcs_pairs rest) as [o|]);
    change [114; 103; 98] with s_rgb; change [114; 103; 98; 97] with s_rgba;
    change [104; 115; 108] with s_hsl; change [104; 115; 108; 97] with s_hsla;
    (destruct (name_cases n) as [[H|[H|[H|H]]]|[H1 [H2 [H3 H4]]]];
     [subst n; eval_names; cbv iota ..|rewrite ?H1, ?H2, ?H3, ?H4; try (destruct (spec_alpha d)); reflexivity]);
    unfold with_alpha; cbn [length Nat.ltb Nat.leb skipn firstn];
    rewrite ?parse_alpha_spec; try (destruct (spec_alpha d)); 
    rewrite ?parse_rgb_spec, ?parse_hsl_spec; try reflexivity.
Qed.

(* ------------------------------------------------------------------ ParseColor = CSS Color 3 *)
Theorem parse_color_spec t : parse_color exactA t = spec_color t.
Proof.
  destruct t; try reflexivity.
  - apply keyword_color_spec.
  - apply hash_color_spec.
  - apply parse_color_function_spec.
Qed.

Lemma next_significant_sig l :
  match significant l with
  | [] => fst (next_significant l) = None
  | t :: r => fst (next_significant l) = Some t /\ significant (snd (next_significant l)) = r
  end.
Proof.
  induction l as [|x l IH]; [reflexivity|].
  unfold significant in *. cbn [filter next_significant].
  destruct x; cbn [is_ws_or_comment fst snd]; try (split; reflexivity); exact IH.
Qed.

Lemma one_component_value_spec A ts :
  parse_color A (parse_one_component_value ts) =
  match significant ts with [t] => parse_color A t | _ => ColorInvalid end.
Proof.
  unfold parse_one_component_value.
  pose proof (next_significant_sig ts) as H1.
  destruct (next_significant ts) as [[first|] rest]; cbn [fst snd] in H1.
  - destruct (significant ts) as [|t r]; [discriminate|]. destruct H1 as [H1 H2]. inversion H1; subst t.
    pose proof (next_significant_sig rest) as H3. rewrite H2 in H3.
    destruct (next_significant rest) as [[second|] rest2]; cbn [fst snd] in H3.
    + destruct r; [discriminate|]. reflexivity.
    + destruct r; [reflexivity|]. destruct H3; discriminate.
  - destruct (significant ts); [reflexivity|]. destruct H1; discriminate.
Qed.

(* ParseColorString: never panics, and returns the CSS Color 3 value of the single component value of the text *)
Theorem parse_color_string_spec s :
  exists ts, tokenize true true s = Ok ts /\ parse_color_string exactA true s = Ok (spec_color_value ts).
Proof.
  destruct (tokenize_total true s) as [ts E]. exists ts. split; [exact E|].
  unfold parse_color_string. rewrite E. cbn [bind]. f_equal.
  rewrite one_component_value_spec. unfold spec_color_value.
  destruct (significant ts) as [|t [|u r]]; try reflexivity. apply parse_color_spec.
Qed.

Theorem parse_color_string_total A s : exists c, parse_color_string A true s = Ok c.
Proof.
  destruct (tokenize_total true s) as [ts E]. unfold parse_color_string. rewrite E. cbn [bind]. eauto.
Qed.

(* ------------------------------------------------------------------ accept / reject is independent of the arithmetic *)
Inductive ckind := KInvalid | KCurrent | KRGBA.
Definition color_kind (c : color) : ckind :=
  match c with ColorInvalid => KInvalid | ColorCurrent => KCurrent | ColorRGBA _ _ _ _ => KRGBA end.
Definition okind (o : option color) : ckind := color_kind (or_invalid o).

Lemma parse_rgb_kind A B args al al' : okind (parse_rgb A args al) = okind (parse_rgb B args al').
Proof.
  unfold parse_rgb. destruct args as [|a0 [|a1 [|a2 [|a3 r]]]]; try reflexivity.
  destruct (as_int_number a0), (as_int_number a1), (as_int_number a2), (as_percentage a0), (as_percentage a1), (as_percentage a2); reflexivity.
Qed.
Lemma parse_hsl_kind A B args al al' : okind (parse_hsl A args al) = okind (parse_hsl B args al').
Proof.
  unfold parse_hsl. destruct args as [|a0 [|a1 [|a2 [|a3 r]]]]; try reflexivity.
  destruct (as_int_number a0), (as_percentage a1), (as_percentage a2); reflexivity.
Qed.
Lemma parse_alpha_kind A B args : match parse_alpha A args, parse_alpha B args with Some _, Some _ | None, None => True | _, _ => False end.
Proof.
  unfold parse_alpha. destruct args as [|t [|u r]]; try exact I. destruct (as_number t); exact I.
Qed.
Lemma with_alpha_kind A B args (f : carith -> list token -> Q -> option color) :
  (forall l al al', okind (f A l al) = okind (f B l al')) ->
  color_kind (with_alpha A args (f A)) = color_kind (with_alpha B args (f B)).
Proof.
  intros Hf. unfold with_alpha. destruct (length args <? 3)%nat; [reflexivity|].
  pose proof (parse_alpha_kind A B (skipn 3 args)) as H.
  destruct (parse_alpha A (skipn 3 args)), (parse_alpha B (skipn 3 args)); try contradiction; [|reflexivity].
  apply Hf.
Qed.

Lemma keyword_kind A B l : color_kind (keyword_color A l) = color_kind (keyword_color B l).
Proof.
  unfold keyword_color. destruct (assoc l go_extended) as [[[? ?] ?]|]; [reflexivity|].
  destruct (assoc l go_basic) as [[[? ?] ?]|]; [reflexivity|].
  destruct (str_eqb l s_currentcolor); [reflexivity|]. destruct (str_eqb l s_transparent); reflexivity.
Qed.

Theorem parse_color_kind A B t : color_kind (parse_color A t) = color_kind (parse_color B t).
Proof.
  destruct t; try reflexivity.
  - apply keyword_kind.
  - cbn [parse_color]. unfold hash_color. destruct (hash_groups v) as [[[? ?] ?]|]; reflexivity.
  - cbn [parse_color]. destruct (parse_comma_separated args) as [a|]; [|reflexivity].
    destruct (str_eqb (ascii_lower name) s_rgb); [apply parse_rgb_kind|].
    destruct (str_eqb (ascii_lower name) s_rgba); [apply (with_alpha_kind A B a parse_rgb); intros; apply parse_rgb_kind|].
    destruct (str_eqb (ascii_lower name) s_hsl); [apply parse_hsl_kind|].
    destruct (str_eqb (ascii_lower name) s_hsla); [apply (with_alpha_kind A B a parse_hsl); intros; apply parse_hsl_kind|].
    reflexivity.
Qed.

Lemma kind_invalid c : color_kind c = KInvalid -> c = ColorInvalid.
Proof. destruct c; intros H; try discriminate; reflexivity. Qed.

(* ------------------------------------------------------------------ argument typing *)
(* a <number-token> whose type flag is not "integer" -- whatever its value: 255.0, 1e2 -- *)
Definition non_integer_number (t : token) : Prop := exists p r, t = TNumber p r false.

(* ... anywhere among the arguments of rgb() / hsl() makes the colour invalid, under either arithmetic *)
Theorem rgb_hsl_reject_non_integer A p name args x :
  ascii_lower name = s_rgb \/ ascii_lower name = s_hsl ->
  In x (significant args) -> non_integer_number x ->
  parse_color A (TFunction p name args) = ColorInvalid.
Proof.
  intros Hn Hin (q & r & Hx). subst x. apply kind_invalid.
  rewrite (parse_color_kind A exactA), parse_color_spec. cbn [spec_color].
  destruct (significant args) as [|a [|c1 [|b [|c2 [|c [|c3 [|d [|c4 rest]]]]]]]]; try reflexivity.
  - cbn [spec_functional].
    destruct Hin as [H|[H|[H|[H|[H|[]]]]]]; subst; cbn [comma andb]; rewrite ?andb_false_r; try reflexivity;
      (destruct (comma c1 && comma c2); [|reflexivity]);
      destruct Hn as [-> | ->]; cbn [str_eqb N.eqb Pos.eqb andb s_rgb s_hsl];
      unfold spec_rgb3, spec_hsl3; cbn [arg_type_of]; try reflexivity;
      repeat match goal with |- context [arg_type_of ?t] => destruct (arg_type_of t) end; reflexivity.
  - cbn [spec_functional].
    destruct (comma c1 && comma c2 && comma c3); [|reflexivity].
    destruct (spec_alpha d); [|reflexivity].
    destruct Hn as [-> | ->]; reflexivity.
Qed.

(* rgba() / hsla(): the same for the three colour arguments (the alpha value may be any number) *)
Theorem rgba_hsla_reject_non_integer A p name args a c1 b c2 c c3 d x :
  ascii_lower name = s_rgba \/ ascii_lower name = s_hsla ->
  significant args = [a; c1; b; c2; c; c3; d] ->
  In x [a; b; c] -> non_integer_number x ->
  parse_color A (TFunction p name args) = ColorInvalid.
Proof.
  intros Hn Hs Hin (q & r & Hx). subst x. apply kind_invalid.
  rewrite (parse_color_kind A exactA), parse_color_spec. cbn [spec_color]. rewrite Hs. cbn [spec_functional].
  destruct (comma c1 && comma c2 && comma c3); [|reflexivity].
  destruct (spec_alpha d); [|reflexivity].
  destruct Hin as [H|[H|[H|[]]]]; subst;
    destruct Hn as [-> | ->]; cbn [str_eqb N.eqb Pos.eqb andb s_rgba s_hsla];
    unfold spec_rgb3, spec_hsl3; cbn [arg_type_of]; try reflexivity;
    repeat match goal with |- context [arg_type_of ?t] => destruct (arg_type_of t) end; reflexivity.
Qed.

(* what IS accepted by rgb(): three <integer>s or three <percentage>s *)
Theorem rgb_accepts A p name args r g b al :
  ascii_lower name = s_rgb ->
  parse_color A (TFunction p name args) = ColorRGBA r g b al ->
  exists x c1 y c2 z, significant args = [x; c1; y; c2; z] /\ comma c1 = true /\ comma c2 = true /\
    ((exists rx ry rz, arg_type_of x = AInteger rx /\ arg_type_of y = AInteger ry /\ arg_type_of z = AInteger rz) \/
     (exists rx ry rz, arg_type_of x = APercentage rx /\ arg_type_of y = APercentage ry /\ arg_type_of z = APercentage rz)).
Proof.
  intros Hn H.
  assert (K : color_kind (parse_color exactA (TFunction p name args)) = KRGBA)
    by (rewrite (parse_color_kind exactA A), H; reflexivity).
  rewrite parse_color_spec in K. cbn [spec_color] in K. rewrite Hn in K.
  destruct (significant args) as [|x [|c1 [|y [|c2 [|z [|c3 [|d [|c4 rest]]]]]]]]; try discriminate K.
  - cbn [spec_functional] in K. destruct (comma c1) eqn:E1, (comma c2) eqn:E2; cbn [andb] in K; try discriminate K.
    cbn [str_eqb N.eqb Pos.eqb andb s_rgb] in K. unfold spec_rgb3 in K.
    exists x, c1, y, c2, z. split; [reflexivity|]. split; [exact E1|]. split; [exact E2|].
    destruct (arg_type_of x), (arg_type_of y), (arg_type_of z);
      first [discriminate K | solve [left; eauto 10] | solve [right; eauto 10]].
  - cbn [spec_functional] in K. destruct (comma c1 && comma c2 && comma c3); [|discriminate K].
    destruct (spec_alpha d); discriminate K.
Qed.

(* ------------------------------------------------------------------ the hue angle, <integer> values *)
(* the hue: fractional part in [0, 1), and = (h mod 360) / 360 *)
Lemma Qfrac_range q : (0 <= Qfrac q /\ Qfrac q < 1)%Q.
Proof.
  unfold Qfrac. pose proof (Qfloor_le q). pose proof (Qlt_floor q).
  rewrite inject_Z_plus in H0. change (inject_Z 1) with 1%Q in H0. split; lra.
Qed.

Lemma hue_mod h : (Qfrac (inject_Z h / 360) == inject_Z (h mod 360) / 360)%Q.
Proof.
  unfold Qfrac.
  assert (E : Qfloor (inject_Z h / 360) = (h / 360)%Z).
  { unfold Qdiv, Qmult, Qinv, inject_Z, Qfloor. cbn [Qnum Qden]. rewrite Z.mul_1_r. reflexivity. }
  rewrite E. pose proof (Z.div_mod h 360 ltac:(lia)) as D.
  rewrite D at 1. rewrite inject_Z_plus, inject_Z_mult. field.
Qed.

(* an integer spelling denotes an integer: the truncation of the specification is the identity on it *)
Lemma span_all (p : N -> bool) (l : list N) : forallb p l = true -> span p l = (l, []).
Proof.
  induction l as [|c r IH]; cbn [forallb span]; [reflexivity|].
  intros H. apply andb_prop in H as [H1 H2]. rewrite H1, (IH H2). reflexivity.
Qed.

Lemma int_val_exact repr : repr_is_int repr = true -> inject_Z (int_val repr) = val repr.
Proof.
  unfold repr_is_int, repr_int, int_val, val, repr_value.
  destruct repr as [|c r]; [discriminate|].
  destruct (c =? 45) eqn:E1; [|destruct (c =? 43) eqn:E2].
  - destruct r as [|c' r']; [discriminate|]. destruct (forallb is_digit (c' :: r')) eqn:F; [|discriminate].
    intros _. rewrite (span_all _ _ F). cbn -[digits_value Z.mul Z.quot inject_Z].
    rewrite app_nil_r. cbn [Qopp inject_Z Qnum Qden]. rewrite Z.quot_1_r. reflexivity.
  - destruct r as [|c' r']; [discriminate|]. destruct (forallb is_digit (c' :: r')) eqn:F; [|discriminate].
    intros _. rewrite (span_all _ _ F). cbn -[digits_value Z.mul Z.quot inject_Z].
    rewrite app_nil_r. cbn [Qopp inject_Z Qnum Qden]. rewrite Z.quot_1_r. reflexivity.
  - destruct (forallb is_digit (c :: r)) eqn:F; [|discriminate].
    intros _. rewrite (span_all _ _ F). cbn -[digits_value Z.mul Z.quot inject_Z].
    rewrite app_nil_r. cbn [Qopp inject_Z Qnum Qden]. rewrite Z.quot_1_r. reflexivity.
Qed.

(* ------------------------------------------------------------------ witnesses (whole pipeline, text -> colour) *)
Definition color_same (x y : color) : Prop :=
  match x, y with
  | ColorInvalid, ColorInvalid | ColorCurrent, ColorCurrent => True
  | ColorRGBA r g b a, ColorRGBA r' g' b' a' => (r == r' /\ g == g' /\ b == b' /\ a == a')%Q
  | _, _ => False
  end.
Definition yields (r : res color) (c : color) : Prop := match r with Ok x => color_same x c | _ => False end.
(* "rgb(0, 51, 255)" = (0, 1/5, 1, 1) *)
Example ex_rgb_int :
  yields (parse_color_string exactA true [114;103;98;40;48;44;32;53;49;44;32;50;53;53;41]) (ColorRGBA 0 (1 # 5) 1 1).
Proof. vm_compute. repeat split; reflexivity. Qed.
(* "rgb(0, 51, 255.0)", "rgb(1e2, 0, 0)", "hsl(120.0, 100%, 50%)": integral VALUES of type <number> are not <integer>s *)
Example ex_rgb_number_rejected :
  parse_color_string exactA true [114;103;98;40;48;44;32;53;49;44;32;50;53;53;46;48;41] = Ok ColorInvalid /\
  parse_color_string exactA true [114;103;98;40;49;101;50;44;32;48;44;32;48;41] = Ok ColorInvalid /\
  parse_color_string exactA true [104;115;108;40;49;50;48;46;48;44;32;49;48;48;37;44;32;53;48;37;41] = Ok ColorInvalid.
Proof. vm_compute. repeat split; reflexivity. Qed.
(* "hsl(120, 100%, 50%)" = lime; "hsl(-240, 100%, 50%)" has the same hue; "#0f0"; "LIME" *)
Example ex_lime :
  yields (parse_color_string exactA true [104;115;108;40;49;50;48;44;32;49;48;48;37;44;32;53;48;37;41]) (ColorRGBA 0 1 0 1) /\
  yields (parse_color_string exactA true [104;115;108;40;45;50;52;48;44;32;49;48;48;37;44;32;53;48;37;41]) (ColorRGBA 0 1 0 1) /\
  yields (parse_color_string exactA true [35;48;102;48]) (ColorRGBA 0 1 0 1) /\
  yields (parse_color_string exactA true [76;73;77;69]) (ColorRGBA 0 1 0 1).
Proof. vm_compute. repeat split; reflexivity. Qed.
