(* Css/PageSel.v -- model of the @page selector parser and of the An+B parser (C07).

   Ported:
     parsePageSelectors  /repo/html/tree/style.go:1116-1232
     ParseNth, matchInt, parseB, parseSignlessB, parseEnd   /repo/css/parser/nth.go:17-124
     RemoveWhitespace    /repo/css/parser/tokenizer.go:900-908
     TokensIter.Next / NextSignificant  tokenizer.go:854-875 (index guarded by HasNext:
       modelled as the list of tokens not yet consumed)

   Tokens are abstracted to what these two parsers look at (`ptok`); strings are
   byte lists.  Every slice index / slice expression of the ported code is a
   Panic site:
     730 tokens[0]   731 tokens[1:]          (outer loop, style.go:1131-1132)
     732 tokens[0]   733 tokens[1:]          (inner loop, style.go:1145-1146)
     734 tokens[0]   735/736 tokens[1:]      (after ':', style.go:1156-1158,1176)
     737 Arguments[:(i-1)]   738 Arguments[i:]   (style.go:1184-1185)
     739 group_[0]                           (style.go:1202)
     790 ident[0]  791 ident[1:]             (nth.go:55-56)
     792 number.Value[0:1] (parseB, nth.go:106)   793 number.Value[0:1] (parseSignlessB, nth.go:114)
   NO PROOFS here (Css/PageSelProofs.v). *)
From Verif Require Import Base.GoSem Base.GoStrings.
From Coq Require Import List ZArith NArith Bool.
Import ListNotations.
Open Scope Z_scope.

Inductive ptok : Type :=
| PIdent (v : list N)                              (* pa.Ident, unescaped value *)
| PLit (v : list N)                                (* pa.Literal *)
| PNumber (is_int : bool) (i : Z) (repr : list N)  (* pa.Number: IsInt(), Int(), Value (representation) *)
| PDim (is_int : bool) (i : Z) (unit : list N)     (* pa.Dimension: IsInt(), Int(), Unit *)
| PFunc (name : list N) (args : list ptok)         (* pa.FunctionBlock *)
| PWs                                              (* pa.Whitespace *)
| PComment                                         (* pa.Comment *)
| POther                                           (* every other token type *)
| PHash (v : list N)                               (* pa.Hash, value without the # (used by Css/ColorMq.v) *)
| PPercentage (is_int : bool).                     (* pa.Percentage *)

Definition s_plus : list N := [43]%N.
Definition s_minus : list N := [45]%N.
Definition s_colon : list N := [58]%N.
Definition s_comma : list N := [44]%N.
Definition s_n : list N := [110]%N.
Definition s_n_dash : list N := [110; 45]%N.
Definition s_dash_n : list N := [45; 110]%N.
Definition s_dash_n_dash : list N := [45; 110; 45]%N.
Definition s_even : list N := [101; 118; 101; 110]%N.
Definition s_odd : list N := [111; 100; 100]%N.
Definition s_of : list N := [111; 102]%N.
Definition s_nth : list N := [110; 116; 104]%N.
Definition s_left : list N := [108; 101; 102; 116]%N.
Definition s_right : list N := [114; 105; 103; 104; 116]%N.
Definition s_blank : list N := [98; 108; 97; 110; 107]%N.
Definition s_first : list N := [102; 105; 114; 115; 116]%N.

(* ------------------------------------------------------------------ token iterator *)
Definition is_insignificant (t : ptok) : bool :=
  match t with PWs | PComment => true | _ => false end.

(* tokenizer.go:864-875; None = nil *)
Fixpoint next_significant (it : list ptok) : option ptok * list ptok :=
  match it with
  | [] => (None, [])
  | t :: r => if is_insignificant t then next_significant r else (Some t, r)
  end.

(* ------------------------------------------------------------------ An+B, nth.go *)
(* nth.go:85-93 matchInt: regexp ^n(-[0-9]+)$ then strconv.Atoi of the group *)
Definition match_int (s : list N) : option Z :=
  match s with
  | 110%N :: 45%N :: d :: ds =>
      if forallb is_digit (d :: ds) then atoi (45%N :: d :: ds) else None
  | _ => None
  end.

(* nth.go:119-124 *)
Definition parse_end (it : list ptok) (a b : Z) : option (Z * Z) :=
  match next_significant it with
  | (None, _) => Some (a, b)
  | _ => None
  end.

(* strings.Contains("-+", x) for a one-byte x *)
Definition is_sign_str (x : list N) : bool := list_eqb x s_plus || list_eqb x s_minus.

(* nth.go:112-118 *)
Definition parse_signless_b (it : list ptok) (a bsign : Z) : res (option (Z * Z)) :=
  match next_significant it with
  | (Some (PNumber true i repr), it') =>
      let* f := slice 793 repr 0 1 in
      if negb (is_sign_str f) then Ok (parse_end it' a (wrap64 (bsign * i))) else Ok None
  | _ => Ok None
  end.

(* nth.go:95-110 *)
Definition parse_b (it : list ptok) (a : Z) : res (option (Z * Z)) :=
  match next_significant it with
  | (None, _) => Ok (Some (a, 0))
  | (Some (PLit v), it') =>
      if list_eqb v s_plus then parse_signless_b it' a 1
      else if list_eqb v s_minus then parse_signless_b it' a (-1)
      else Ok None
  | (Some (PNumber true i repr), it') =>
      let* f := slice 792 repr 0 1 in
      if is_sign_str f then Ok (parse_end it' a i) else Ok None
  | _ => Ok None
  end.

(* nth.go:17-83; Ok None = nil *)
Definition parse_nth (input : list ptok) : res (option (Z * Z)) :=
  match next_significant input with
  | (None, _) => Ok None
  | (Some tok, it) =>
    match tok with
    | PNumber true i _ => Ok (parse_end it 0 i)
    | PDim true i unit =>
        let unit := ascii_lower unit in
        if list_eqb unit s_n then parse_b it i
        else if list_eqb unit s_n_dash then parse_signless_b it i (-1)
        else match match_int unit with
             | Some b => Ok (parse_end it i b)
             | None => Ok None
             end
    | PIdent v =>
        let ident := ascii_lower v in
        if list_eqb ident s_even then Ok (parse_end it 2 0)
        else if list_eqb ident s_odd then Ok (parse_end it 2 1)
        else if list_eqb ident s_n then parse_b it 1
        else if list_eqb ident s_dash_n then parse_b it (-1)
        else if list_eqb ident s_n_dash then parse_signless_b it 1 (-1)
        else if list_eqb ident s_dash_n_dash then parse_signless_b it (-1) (-1)
        else
          let* c0 := index 790 ident 0 in
          if (c0 =? 45)%N then
            let* tl := slice_from 791 ident 1 in
            match match_int tl with
            | Some b => Ok (parse_end it (-1) b)
            | None => Ok None
            end
          else match match_int ident with
               | Some b => Ok (parse_end it 1 b)
               | None => Ok None
               end
    | PLit v =>
        if list_eqb v s_plus then
          match it with                               (* tokens.Next(): whitespace is not skipped *)
          | PIdent v' :: it' =>
              let ident := ascii_lower v' in
              if list_eqb ident s_n then parse_b it' 1
              else if list_eqb ident s_n_dash then parse_signless_b it' 1 (-1)
              else match match_int ident with
                   | Some b => Ok (parse_end it' 1 b)
                   | None => Ok None
                   end
          | _ => Ok None
          end
        else Ok None
    | _ => Ok None
    end
  end.

(* ------------------------------------------------------------------ @page selectors *)
Record psel := mkPsel {
  ps_side : list N; ps_name : list N;
  ps_a : Z; ps_b : Z;
  ps_s0 : Z; ps_s1 : Z; ps_s2 : Z;
  ps_blank : bool; ps_first : bool }.
Definition psel0 : psel := mkPsel [] [] 0 0 0 0 0 false false.

Definition remove_whitespace (l : list ptok) : list ptok :=
  filter (fun t => negb (is_insignificant t)) l.

(* style.go:1181-1187: for i, argument := range Arguments { if ident "of" { nth = Arguments[:(i-1)]; group = Arguments[i:] } }
   `guarded` = the repaired code (i == 0 gives the invalid-selector result instead of slicing with -1):
   result None = "return nil". *)
Fixpoint find_of (guarded : bool) (rest all : list ptok) (i : Z) (nth : list ptok) (group : option (list ptok))
  : res (option (list ptok * option (list ptok))) :=
  match rest with
  | [] => Ok (Some (nth, group))
  | arg :: rest' =>
    match arg with
    | PIdent v =>
      if list_eqb v s_of then
        if guarded && (i =? 0) then Ok None
        else
          let* nth' := slice_to 737 all (i - 1) in
          let* group' := slice_from 738 all i in
          find_of guarded rest' all (i + 1) nth' (Some group')
      else find_of guarded rest' all (i + 1) nth group
    | _ => find_of guarded rest' all (i + 1) nth group
    end
  end.

(* inner loop, style.go:1144-1228.  Ok None = return nil; Ok (Some (t, tokens)) = loop left
   (tokens exhausted, or `break` on a comma). *)
Fixpoint ps_inner (guarded : bool) (fuel : nat) (tokens : list ptok) (t : psel) : res (option (psel * list ptok)) :=
  match fuel with
  | O => OutOfFuel
  | S f =>
    if len tokens >? 0 then
      let* token_ := index 732 tokens 0 in
      let* tokens := slice_from 733 tokens 1 in
      match token_ with
      | PLit v =>
        if list_eqb v s_colon then
          if len tokens =? 0 then Ok None
          else
            let* first := index 734 tokens 0 in
            match first with
            | PIdent pv =>
              let* tokens := slice_from 735 tokens 1 in
              let pc := ascii_lower pv in
              if list_eqb pc s_left || list_eqb pc s_right then
                if negb (list_eqb (ps_side t) []) && negb (list_eqb (ps_side t) pc) then Ok None
                else ps_inner guarded f tokens
                       (mkPsel pc (ps_name t) (ps_a t) (ps_b t) (ps_s0 t) (ps_s1 t) (ps_s2 t + 1) (ps_blank t) (ps_first t))
              else if list_eqb pc s_blank then
                ps_inner guarded f tokens
                  (mkPsel (ps_side t) (ps_name t) (ps_a t) (ps_b t) (ps_s0 t) (ps_s1 t + 1) (ps_s2 t) true (ps_first t))
              else if list_eqb pc s_first then
                ps_inner guarded f tokens
                  (mkPsel (ps_side t) (ps_name t) (ps_a t) (ps_b t) (ps_s0 t) (ps_s1 t + 1) (ps_s2 t) (ps_blank t) true)
              else Ok None
            | PFunc name args =>
              let* tokens := slice_from 736 tokens 1 in
              if negb (list_eqb name s_nth) then Ok None
              else
                let* fo := find_of guarded args args 0 args None in
                match fo with
                | None => Ok None
                | Some (nth, group) =>
                  let* nv := parse_nth nth in
                  match nv with
                  | None => Ok None
                  | Some (a, b) =>
                    match group with
                    | Some g =>
                      let g_ := remove_whitespace g in
                      if negb (len g_ =? 1) then Ok None
                      else let* _ := index 739 g_ 0 in Ok None
                    | None =>
                      ps_inner guarded f tokens
                        (mkPsel (ps_side t) (ps_name t) a b (ps_s0 t) (ps_s1 t + 1) (ps_s2 t) (ps_blank t) (ps_first t))
                    end
                  end
                end
            | _ => Ok None
            end
        else if list_eqb v s_comma then
          if (len tokens >? 0) && negb ((ps_s0 t =? 0) && (ps_s1 t =? 0) && (ps_s2 t =? 0))
          then Ok (Some (t, tokens))                     (* break *)
          else Ok None
        else ps_inner guarded f tokens t
      | _ => Ok None
      end
    else Ok (Some (t, tokens))
  end.

(* outer loop, style.go:1128-1231; out is reversed *)
Fixpoint ps_outer (guarded : bool) (fuel : nat) (tokens : list ptok) (out : list psel) : res (option (list psel)) :=
  match fuel with
  | O => OutOfFuel
  | S f =>
    if len tokens >? 0 then
      let* t0 := index 730 tokens 0 in
      let* st :=
        match t0 with
        | PIdent v =>
            let* tk := slice_from 731 tokens 1 in
            Ok (tk, mkPsel [] v 0 0 1 0 0 false false)
        | _ => Ok (tokens, psel0)
        end in
      let '(tokens, t) := st in
      if len tokens =? 1 then Ok None
      else if len tokens =? 0 then Ok (Some (rev (t :: out)))
      else
        let* r := ps_inner guarded (S (length tokens)) tokens t in
        match r with
        | None => Ok None
        | Some (t', tokens') => ps_outer guarded f tokens' (t' :: out)
        end
    else Ok (Some (rev out))
  end.

(* Ok None = nil (invalid selector, the @page rule is ignored) *)
Definition parse_page_selectors_gen (guarded : bool) (prelude : list ptok) : res (option (list psel)) :=
  let tokens := remove_whitespace prelude in
  if len tokens =? 0 then Ok (Some [psel0])
  else ps_outer guarded (S (length tokens)) tokens [].

(* the code of the current tree (after the C07 fix) and the code as found *)
Definition parse_page_selectors := parse_page_selectors_gen true.
Definition parse_page_selectors_unfixed := parse_page_selectors_gen false.
