(* Css/PosProofs.v -- source positions (tokenizer.go:669-681 updateLine): the
   position stamped on a token is (1 + number of newlines before it, 1 + number of
   UTF-8 BYTES since the last newline), computed incrementally from the previous
   token's position.  Partial: proved for updateLine under its state invariant;
   the lifting to every token of the tree is stated in Properties/C06.v. *)
From Verif Require Import Base.GoSem Css.Token Css.Tok Css.TokProofs.
From Coq Require Import List NArith ZArith Bool Lia ZifyBool ZifyNat ZifyN.
Import ListNotations.
Open Scope N_scope.
Arguments N.eqb : simpl never.

(* specification: position of the code point that follows the prefix `pre` of the
   preprocessed source *)
Definition last_line (pre : list N) : list N :=
  match after_last_nl pre with Some t => t | None => pre end.
Definition pos_of (pre : list N) : pos :=
  mkPos (1 + count_nl pre) (1 + bytes_len (last_line pre)).

Lemma bytes_len_acc l : forall a, fold_left (fun acc c => (acc + utf8_len c)%Z) l a = (a + bytes_len l)%Z.
Proof.
  unfold bytes_len. induction l as [|c l IH]; intros a; simpl; [lia|].
  rewrite IH. rewrite (IH (utf8_len c)). lia.
Qed.

Lemma bytes_len_app a b : bytes_len (a ++ b) = (bytes_len a + bytes_len b)%Z.
Proof. unfold bytes_len. rewrite fold_left_app. rewrite bytes_len_acc. reflexivity. Qed.

Lemma count_nl_app a b : count_nl (a ++ b) = (count_nl a + count_nl b)%Z.
Proof. unfold count_nl. rewrite filter_app, app_length. lia. Qed.

Lemma after_last_nl_app a b :
  after_last_nl (a ++ b) =
  match after_last_nl b with
  | Some t => Some t
  | None => match after_last_nl a with Some t' => Some (t' ++ b) | None => None end
  end.
Proof.
  induction a as [|c a IH]; simpl.
  - destruct (after_last_nl b); reflexivity.
  - rewrite IH. destruct (after_last_nl b); [reflexivity|].
    destruct (after_last_nl a); [reflexivity|]. destruct (c =? 10); reflexivity.
Qed.

Lemma after_last_nl_none l : after_last_nl l = None -> count_nl l = 0%Z.
Proof.
  induction l as [|c l IH]; simpl; [reflexivity|].
  destruct (after_last_nl l); [discriminate|]. destruct (c =? 10) eqn:E; [discriminate|].
  intros _. unfold count_nl in *. simpl. rewrite E. apply IH. reflexivity.
Qed.

(* the state invariant: the stored line / column are those of previousPos *)
Definition pos_inv (src : list N) (st : lstate) : Prop :=
  exists pre, src = pre ++ l_prev st /\ mkPos (l_line st) (l_col st) = pos_of pre /\
              suffix (l_rest st) (l_prev st).

Lemma init_pos_inv src : pos_inv src (init_state src).
Proof. exists []. repeat split. apply suffix_refl. Qed.

Theorem update_line_spec src st p st1 : pos_inv src st -> update_line st = (p, st1) ->
  exists pre, src = pre ++ l_rest st /\ p = pos_of pre /\ pos_inv src st1 /\ l_rest st1 = l_rest st.
Proof.
  intros (pre & Hsrc & Hpos & [seg Hseg]) H. unfold update_line in H.
  assert (Hfirst : firstn (length (l_prev st) - length (l_rest st)) (l_prev st) = seg).
  { rewrite Hseg, app_length. replace (length seg + length (l_rest st) - length (l_rest st))%nat with (length seg) by lia.
    rewrite firstn_app, Nat.sub_diag, firstn_all. simpl. apply app_nil_r. }
  rewrite Hfirst in H. exists (pre ++ seg).
  assert (Hp : (let '(ln, col) := match after_last_nl seg with
                  | Some t => ((l_line st + count_nl seg)%Z, (1 + bytes_len t)%Z)
                  | None => (l_line st, (l_col st + bytes_len seg)%Z) end in mkPos ln col) = pos_of (pre ++ seg)).
  { assert (Hl : l_line st = (1 + count_nl pre)%Z) by (apply (f_equal line) in Hpos; exact Hpos).
    assert (Hc : l_col st = (1 + bytes_len (last_line pre))%Z) by (apply (f_equal column) in Hpos; exact Hpos).
    clear Hpos. unfold pos_of, last_line. rewrite after_last_nl_app, count_nl_app.
    destruct (after_last_nl seg) as [t|] eqn:Ea.
    - f_equal. lia.
    - rewrite (after_last_nl_none _ Ea). unfold last_line in Hc.
      destruct (after_last_nl pre); rewrite bytes_len_app; f_equal; lia. }
  destruct (match after_last_nl seg with
            | Some t => ((l_line st + count_nl seg)%Z, (1 + bytes_len t)%Z)
            | None => (l_line st, (l_col st + bytes_len seg)%Z) end) as [ln col] eqn:E.
  injection H as <- <-. split; [rewrite <- app_assoc, <- Hseg; exact Hsrc|].
  split; [exact Hp|]. split; [|reflexivity].
  exists (pre ++ seg). cbn [l_prev l_rest l_line l_col]. repeat split.
  - rewrite <- app_assoc, <- Hseg. exact Hsrc.
  - exact Hp.
  - apply suffix_refl.
Qed.

(* consuming input (tk.pos advances, previousPos unchanged) keeps the invariant *)
Lemma set_rest_pos_inv src st r : pos_inv src st -> suffix r (l_rest st) -> pos_inv src (set_rest st r).
Proof.
  intros (pre & Hsrc & Hpos & Sf) Sr. exists pre. cbn [set_rest l_prev l_rest l_line l_col].
  repeat split; try assumption. eapply suffix_trans; eassumption.
Qed.

(* the first token is at line 1, column 1 *)
Corollary first_token_position src p st1 : update_line (init_state src) = (p, st1) -> p = mkPos 1 1.
Proof.
  intros H. destruct (update_line_spec src _ _ _ (init_pos_inv src) H) as (pre & Hsrc & Hp & _).
  cbn [init_state l_rest] in Hsrc.
  assert (pre = []).
  { apply (f_equal (@length N)) in Hsrc. rewrite app_length in Hsrc. destruct pre; [reflexivity|simpl in Hsrc; lia]. }
  rewrite Hp, H0. reflexivity.
Qed.

(* ------------------------------------------------------------------ every token created by an iteration carries the iteration's position *)
Definition at_pos (p : pos) (t : token) : Prop := token_pos t = p.

Lemma consume_url_pos f p r2 v e r3 : consume_url true f p r2 = Ok (v, e, r3) ->
  Forall (at_pos p) (opt_list v ++ opt_list e).
Proof.
  unfold consume_url. generalize (skip_spaces r2). intros l.
  assert (Hb : forall rr, (let* r' := bad_url_remnants true f rr in Ok (@None token, Some (TParseError p errBadURL), r')) = Ok (v, e, r3) ->
               Forall (at_pos p) (opt_list v ++ opt_list e)).
  { intros rr X. destruct (bad_url_remnants true f rr); try discriminate. inversion X; subst. simpl; repeat constructor. }
  assert (Ht : forall vv rr,
               match skip_spaces rr with
               | [] => Ok (Some (TURL p vv true), Some (TParseError p errEofInUrl), [])
               | c0 :: r' => if c0 =? 41 then Ok (Some (TURL p vv false), None, r')
                             else let* r'0 := bad_url_remnants true f (c0 :: r') in
                                  Ok (None, Some (TParseError p errBadURL), r'0)
               end = Ok (v, e, r3) -> Forall (at_pos p) (opt_list v ++ opt_list e)).
  { intros vv rr X. destruct (skip_spaces rr) as [|c0 r'].
    - inversion X; subst. simpl; repeat constructor.
    - destruct (c0 =? 41); [inversion X; subst; simpl; repeat constructor|]. eapply Hb; exact X. }
  destruct l as [|c0 l']; [intros X; inversion X; subst; simpl; repeat constructor|].
  destruct ((c0 =? 34) || (c0 =? 39)).
  - destruct (consume_quoted_string f (c0 :: l')) as [[[[vq aq] eq] rq]| |]; try discriminate. cbn [bind].
    destruct (negb (eq =? 0)); [apply Hb|apply Ht].
  - destruct (c0 =? 41); [intros X; inversion X; subst; simpl; repeat constructor|].
    destruct (url_loop true f (c0 :: l')) as [x| |]; try discriminate. cbn [bind].
    destruct x.
    + intros X; inversion X; subst. simpl. repeat constructor.
    + intros X; inversion X; subst. simpl. repeat constructor.
    + apply Ht.
    + apply Hb.
Qed.

Lemma lex1_pos skip f endc p c r lx : lex1 true skip f endc p (c :: r) = Ok lx ->
  match lx with LTok ts _ | LReturn ts _ => Forall (at_pos p) ts | _ => True end.
Proof.
  unfold lex1. intros H.
  destruct (is_space c).
  { destruct (span is_space r). inversion H; subst. repeat constructor. }
  destruct (if (c =? 85) || (c =? 117) then try_consume_unicode_range p (c :: r) else None) as [[t r']|] eqn:Eu.
  { inversion H; subst. constructor; [|constructor].
    destruct ((c =? 85) || (c =? 117)); [|discriminate].
    unfold try_consume_unicode_range in Eu. destruct r as [|c1 [|c2 r2]]; try discriminate.
    destruct ((c1 =? 43) && _); [|discriminate].
    destruct (consume_unicode_range (c2 :: r2)) as [[[s e]|] r3]; inversion Eu; reflexivity. }
  destruct (has_prefix s_cdc (c :: r)); [inversion H; subst; repeat constructor|].
  destruct (is_ident_start true (c :: r)) as [ids| |] eqn:Ei; try discriminate. cbn [bind] in H.
  destruct ids.
  { unfold lex_ident_like in H.
    destruct (consume_ident f (c :: r)) as [[value r1]| |] eqn:Ec; try discriminate. cbn [bind] in H.
    destruct r1 as [|c1 r2]; [inversion H; subst; repeat constructor|].
    destruct (c1 =? 40); [|inversion H; subst; repeat constructor].
    destruct (str_eqb (ascii_lower value) s_url && url_is_unquoted r2); [|inversion H; subst; exact I].
    destruct (consume_url true f p r2) as [[[v e] r3]| |] eqn:Eu2; try discriminate. cbn [bind] in H.
    inversion H; subst. eapply consume_url_pos; exact Eu2. }
  destruct (try_consume_number true f p (c :: r)) as [[[t r']|]| |] eqn:En; try discriminate; cbn [bind] in H.
  { inversion H; subst. constructor; [|constructor].
    unfold try_consume_number in En.
    destruct (scan_number (c :: r)) as [[repr r1]|] eqn:Es; [|discriminate].
    destruct (match r1 with [] => Ok false | _ :: _ => is_ident_start true r1 end) as [b| |]; try discriminate.
    cbn [bind] in En. destruct b.
    - destruct (consume_ident f r1) as [[u r2]| |]; try discriminate. inversion En; reflexivity.
    - destruct r1 as [|c1 r2]; [inversion En; reflexivity|].
      destruct (c1 =? 37); inversion En; reflexivity. }
  unfold lex1_punct in H.
  destruct (c =? 64).
  { destruct (match r with [] => Ok false | _ :: _ => is_ident_start true r end) as [b| |]; try discriminate.
    cbn [bind] in H. destruct b; [|inversion H; subst; repeat constructor].
    destruct (consume_ident f r) as [[v r']| |]; try discriminate. inversion H; subst. repeat constructor. }
  destruct (c =? 35).
  { destruct (try_consume_hash true f p r) as [[[t r']|]| |] eqn:Eh; try discriminate; cbn [bind] in H;
      inversion H; subst; repeat constructor.
    unfold try_consume_hash in Eh. destruct r as [|d r0]; [discriminate|].
    match type of Eh with (if ?b then _ else _) = _ => destruct b end; [|discriminate].
    destruct (is_ident_start true (d :: r0)); try discriminate. cbn [bind] in Eh.
    destruct (consume_ident f (d :: r0)) as [[v r2]| |]; try discriminate. inversion Eh; reflexivity. }
  destruct (c =? 123); [inversion H; exact I|].
  destruct (c =? 91); [inversion H; exact I|].
  destruct (c =? 40); [inversion H; exact I|].
  destruct (c =? 0); [inversion H; exact I|].
  destruct (c =? endc); [inversion H; exact I|].
  destruct ((c =? 125) || (c =? 93) || (c =? 41)); [inversion H; subst; repeat constructor|].
  destruct ((c =? 39) || (c =? 34)).
  { destruct (consume_quoted_string f (c :: r)) as [[[[v a] e] r']| |]; try discriminate. cbn [bind] in H.
    inversion H; subst. destruct a; destruct (negb (e =? 0)); repeat constructor. }
  destruct (has_prefix [47; 42] (c :: r)).
  { destruct (find_comment_end (tl r)) as [[txt r']|]; inversion H; subst; destruct skip; repeat constructor. }
  destruct (consume_delim p (c :: r)) as [[t r']| |] eqn:Ed; try discriminate. cbn [bind] in H. inversion H; subst.
  constructor; [|constructor]. unfold consume_delim in Ed.
  destruct (index site_delim (c :: r) 0); try discriminate. cbn [bind] in Ed.
  destruct (has_prefix s_cdo (c :: r)); [inversion Ed; reflexivity|].
  destruct (has_prefix [124; 124] (c :: r)); [inversion Ed; reflexivity|].
  match type of Ed with (if ?b then _ else _) = _ => destruct b end.
  - destruct (has_prefix [61] (tl (c :: r))); inversion Ed; reflexivity.
  - inversion Ed; reflexivity.
Qed.

(* positions_spec, per iteration of consumeValueList: position = that of the first
   code point of the iteration, stamped on every token (and block) it creates, and the
   invariant is re-established for the next iteration *)
Theorem positions_spec : forall skip f endc src st p st1 lx,
  pos_inv src st -> nonul (l_rest st) -> (length (l_rest st) < f)%nat -> l_rest st <> [] ->
  update_line st = (p, st1) ->
  lex1 true skip f endc p (l_rest st) = Ok lx ->
  (exists pre, src = pre ++ l_rest st /\ p = pos_of pre) /\
  match lx with
  | LTok ts _ | LReturn ts _ => Forall (fun t => token_pos t = p) ts
  | _ => True
  end /\
  (forall o r' args, lx = LOpen o r' -> token_pos (mk_block o p args) = p) /\
  pos_inv src (set_rest st1 (lexed_rest lx)).
Proof.
  intros skip f endc src st p st1 lx Hinv Hn Hf Hne Hu Hl.
  destruct (update_line_spec src st p st1 Hinv Hu) as (pre & Hsrc & Hp & Hinv1 & Hr1).
  destruct (l_rest st) as [|c r] eqn:Er; [congruence|].
  split; [exists pre; split; assumption|].
  split; [exact (lex1_pos _ _ _ _ _ _ _ Hl)|].
  split; [intros o r' args _; destruct o; reflexivity|].
  apply set_rest_pos_inv; [exact Hinv1|]. rewrite Hr1.
  assert (Hc0 : c <> 0) by (inversion Hn; assumption).
  destruct (lex1_ok skip f endc p c r Hc0 Hf) as (lx' & El & _ & Ps).
  rewrite Hl in El. inversion El; subst. apply psuffix_suffix. exact Ps.
Qed.
