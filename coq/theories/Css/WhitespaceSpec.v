(* Css/WhitespaceSpec.v -- CSS Text 3, 4.1.1 (phase I of white-space processing)
   stated independently of the implementation's sequence of regular-expression
   passes: what a conforming result is, per white-space mode. *)
From Verif Require Export Css.Whitespace.
From Coq Require Import List NArith Bool.
Import ListNotations.
Local Open Scope N_scope.

(* document white space: the characters phase I may remove or replace *)
Definition is_ws (c : rune) : bool := N.eqb c SP || N.eqb c TAB || N.eqb c LF || N.eqb c CR.
Definition non_ws (l : list rune) : list rune := filter (fun c => negb (is_ws c)) l.


(* white-space: normal / nowrap.  "Every maximal run of spaces, tabs and segment
   breaks collapses to a single space; nothing else changes" -- stated as a
   relation between the text (line feeds normalised) and the result. *)
Definition is_ws3 (c : rune) : bool := N.eqb c SP || N.eqb c TAB || N.eqb c LF.

Inductive collapses : list rune -> list rune -> Prop :=
| col_nil : collapses [] []
| col_char c l out : is_ws3 c = false -> collapses l out -> collapses (c :: l) (c :: out)
| col_run w l out :
    w <> [] -> forallb is_ws3 w = true ->
    match l with [] => True | c :: _ => is_ws3 c = false end ->
    collapses l out -> collapses (w ++ l) (SP :: out).


(* the text after the collapsing passes *)
Definition core (m : wsmode) (t : list rune) : list rune :=
  let t1 := norm_lf t in
  let t2 := if space_collapse m then tab_re t1 else t1 in
  let t3 := if new_line_collapse m then nl_to_space t2 else t2 in
  if space_collapse m then space_re t3 else t3.


(* white-space: pre-line.  The text is cut into lines at the line feeds; blanks
   (spaces, tabs) next to a line feed are removed -- so every line but the first
   loses its leading blanks and every line but the last its trailing ones -- and
   every remaining run of blanks becomes one space; the line feeds stay. *)
Fixpoint split_lines (l : list rune) : list (list rune) :=
  match l with
  | [] => [[]]
  | c :: r =>
      if N.eqb c LF then [] :: split_lines r
      else match split_lines r with
           | s :: ss => (c :: s) :: ss
           | [] => [[c]]
           end
  end.

Fixpoint drop_blanks (l : list rune) : list rune :=
  match l with c :: r => if is_blank c then drop_blanks r else l | [] => [] end.

Fixpoint trim_end (l : list rune) : list rune :=
  match l with
  | [] => []
  | c :: r => match trim_end r with
              | [] => if is_blank c then [] else [c]
              | r' => c :: r'
              end
  end.

Fixpoint join_lf (ls : list (list rune)) : list rune :=
  match ls with [] => [] | [l] => l | l :: r => l ++ LF :: join_lf r end.

(* `after_lf`: the line follows a line feed (it is not the first one) *)
Fixpoint trimmed_lines (after_lf : bool) (segs : list (list rune)) : list (list rune) :=
  match segs with
  | [] => []
  | [s] => [if after_lf then drop_blanks s else s]
  | s :: rest => trim_end (if after_lf then drop_blanks s else s) :: trimmed_lines true rest
  end.

Definition preline_spec (t : list rune) : list rune :=
  join_lf (map space_re (trimmed_lines false (split_lines (norm_lf t)))).
