(* Css/Tok.v -- executable model of /repo/css/parser/tokenizer.go:270-838.
   NO PROOFS in this file (see Css/TokProofs.v).

   Input representation.  The Go tokenizer works on the UTF-8 bytes of the
   (preprocessed) source and decodes runes with utf8.DecodeRune; every
   byte-level test it makes is against an ASCII byte, and every multi-byte
   step is `tk.pos += w` with `w` the width of the decoded rune.  For VALID
   UTF-8 (the domain of property C06) this is the same as working on the list
   of code points, which is what the model does: `src : list N` is the rune
   list (`for _, r := range string(css)`).  Positions: Go's `Pos.Column` is a
   BYTE offset in the line (tokenizer.go:677); the model recomputes it as the
   sum of the UTF-8 widths (`utf8_len`) of the code points since the last
   newline, so lines/columns are compared in Go's own unit (bytes).

   State.  `tk.src[tk.pos:]` is represented by the remaining suffix `rest`;
   an unguarded read `tk.src[tk.pos+k]` is `index site rest k` (Base/GoSem.v),
   which panics exactly when pos+k >= len(src).  The per-token consumers are
   functions from the suffix to (result, new suffix).  `previousPos`, `line`,
   `lineIndex` live in `lstate` (the suffix at previousPos, the line and the
   column of previousPos) and are only touched by `update_line`, as in Go.

   Versions.  The flag `fx` selects the code as found (`false`, commit
   6439a2e "snapshot") or as repaired by our `fix:` commits (`true`); the
   differences are marked [FIX n].  The correspondence check runs `fx = true`
   against the current tree; `Properties/C06.v` proves the defects of
   `fx = false` (`..._refuted`).

   Regexps: numberRe -> scan_number, hexEscapeRe -> take_hex + optional
   whitespace in consume_escape.  strconv.ParseInt/ParseFloat are trusted;
   their results are functions of the representation string (`repr_is_int`,
   `repr_value`). *)
From Verif Require Export Base.GoSem Css.Token.
From Coq Require Import List NArith ZArith Bool QArith.
Import ListNotations.
Open Scope N_scope.

(* ------------------------------------------------------------------ sites *)
Definition site_quote : N := 471.        (* tokenizer.go:471 quote := tk.src[tk.pos] *)
Definition site_ident_dash : N := 581.   (* tokenizer.go:581 tk.src[tk.pos] *)
Definition site_ident_esc : N := 586.    (* tokenizer.go:586 tk.src[pos] UNGUARDED *)
Definition site_delim : N := 646.        (* tokenizer.go:646 c := tk.src[tk.pos] *)
Definition site_url_c : N := 387.        (* tokenizer.go:387 (guarded by 382) *)

(* ------------------------------------------------------------------ code point classes *)
Definition is_space (c : N) : bool := (c =? 32) || (c =? 10) || (c =? 9).   (* tokenizer.go:366 *)
Definition is_digit (c : N) : bool := (48 <=? c) && (c <=? 57).
Definition is_lower (c : N) : bool := (97 <=? c) && (c <=? 122).
Definition is_upper (c : N) : bool := (65 <=? c) && (c <=? 90).
Definition is_hex (c : N) : bool :=
  is_digit c || ((97 <=? c) && (c <=? 102)) || ((65 <=? c) && (c <=? 70)).
(* tokenizer.go:572 *)
Definition is_name_start_cp (c : N) : bool := (127 <? c) || is_lower c || is_upper c || (c =? 95).
(* tokenizer.go:297: ContainsRune("a-z-_0-9A-Z", c) || c > 0x7F *)
Definition is_name_cp (c : N) : bool :=
  is_lower c || (c =? 45) || (c =? 95) || is_digit c || is_upper c || (127 <? c).
(* tokenizer.go:272 nonPrintable: double quote, quote, left paren, 0x00-0x08 0x0b 0x0e-0x1f 0x7f *)
Definition is_non_printable (c : N) : bool :=
  (c =? 34) || (c =? 39) || (c =? 40) || (c <=? 8) || (c =? 11) || ((14 <=? c) && (c <=? 31)) || (c =? 127).

Definition is_surrogate (c : N) : bool := (55296 <=? c) && (c <=? 57343).
(* strings.Builder.WriteRune / string(rune): invalid runes become U+FFFD *)
Definition write_rune (c : N) : N := if is_surrogate c || (1114111 <? c) then 65533 else c.

(* utf8.RuneLen for a valid rune *)
Definition utf8_len (c : N) : Z :=
  if c <? 128 then 1%Z else if c <? 2048 then 2%Z else if c <? 65536 then 3%Z else 4%Z.

Fixpoint str_eqb (a b : str) : bool :=
  match a, b with
  | [], [] => true
  | x :: a', y :: b' => (x =? y) && str_eqb a' b'
  | _, _ => false
  end.

(* bytes.HasPrefix(rest, p) *)
Fixpoint has_prefix (p rest : list N) : bool :=
  match p, rest with
  | [], _ => true
  | x :: p', y :: r' => (x =? y) && has_prefix p' r'
  | _ :: _, [] => false
  end.

(* utils.AsciiLower, utils/html.go:201 (c < 0x7F -> unicode.ToLower) *)
Definition lower_cp (c : N) : N := if is_upper c then c + 32 else c.
Definition ascii_lower (s : str) : str := map lower_cp s.

Definition s_url : str := [117; 114; 108].
Definition s_cdc : str := [45; 45; 62].           (* --> *)
Definition s_cdo : str := [60; 33; 45; 45].       (* <!-- *)
Definition s_bsnl : str := [92; 10].              (* backslash newline *)

(* a backslash at the head of `rest` that is NOT followed by a newline:
   c is a backslash && !bytes.HasPrefix(rest, backslash newline) *)
Definition valid_escape_at (rest : list N) : bool :=
  match rest with
  | c :: r => (c =? 92) && negb (has_prefix [10] r)
  | [] => false
  end.

(* ------------------------------------------------------------------ escapes (tokenizer.go:518-540) *)
Fixpoint take_hex (n : nat) (l : list N) : list N * list N :=
  match n, l with
  | S n', c :: r => if is_hex c then let '(h, r') := take_hex n' r in (c :: h, r') else ([], l)
  | _, _ => ([], l)
  end.

Definition hex_digit_value (c : N) : N :=
  if is_digit c then c - 48 else if (97 <=? c) then c - 87 else c - 55.
Definition hex_value (h : list N) : N := fold_left (fun acc c => acc * 16 + hex_digit_value c) h 0.

(* pos is just after the backslash.  Returns the rune and the new suffix. *)
Definition consume_escape (rest : list N) : N * list N :=
  let '(h, r1) := take_hex 6 rest in
  match h with
  | _ :: _ =>                                             (* :521 hexEscapeRe matched *)
      let cp := hex_value h in
      let ch := if (0 <? cp) && (cp <=? 1114111) then cp else 65533 in    (* :527-530 *)
      let r2 := match r1 with c :: r' => if is_space c then r' else r1 | [] => r1 end in
      (ch, r2)
  | [] =>
      match rest with
      | c :: r => (c, r)                                  (* :533-536 *)
      | [] => (65533, [])                                 (* :538 *)
      end
  end.

(* ------------------------------------------------------------------ consumeIdent (tokenizer.go:290-312) *)
Fixpoint consume_ident (fuel : nat) (rest : list N) : res (str * list N) :=
  match fuel with
  | O => OutOfFuel
  | S f =>
      match rest with
      | [] => Ok ([], [])
      | c :: r =>
          if is_name_cp c then                              (* :297 *)
            let* (v, r') := consume_ident f r in Ok (c :: v, r')
          else if valid_escape_at rest then                 (* :299 *)
            let '(e, r1) := consume_escape r in
            let* (v, r') := consume_ident f r1 in Ok (write_rune e :: v, r')
          else Ok ([], rest)
      end
  end.

(* ------------------------------------------------------------------ isNameStart / isIdentStart (tokenizer.go:569-592) *)
(* utf8.DecodeRune of the empty slice is (RuneError = U+FFFD, 0), and
   U+FFFD > 0x7F: isNameStart(css, len(css)) is true. *)
Definition is_name_start (rest : list N) : bool :=
  match rest with
  | [] => true
  | c :: _ => is_name_start_cp c
  end.

Definition is_ident_start (fx : bool) (rest : list N) : res bool :=
  if is_name_start rest then Ok true                        (* :579 *)
  else
    let* c := index site_ident_dash rest 0 in               (* :581 *)
    if c =? 45 then
      let r1 := tl rest in                                  (* pos := tk.pos + 1 *)
      let name_start :=                                     (* :584 *)
        match r1 with [] => false | c1 :: _ => is_name_start r1 || (c1 =? 45) end in
      let* valid_escape :=                                  (* :586 *)
        if fx then Ok (valid_escape_at r1)                  (* [FIX 1] pos < len(tk.src) && ... *)
        else let* c1 := index site_ident_esc r1 0 in
             Ok ((c1 =? 92) && negb (has_prefix s_bsnl r1)) in
      Ok (name_start || valid_escape)
    else if c =? 92 then Ok (negb (has_prefix s_bsnl rest))  (* :588 *)
    else Ok false.

(* ------------------------------------------------------------------ consumeUnicodeRange (tokenizer.go:316-364) *)
(* up to n hex digits (n = maxPos - pos) *)
Fixpoint take_while_n (p : N -> bool) (n : nat) (l : list N) : list N * list N :=
  match n, l with
  | S n', c :: r => if p c then let '(h, r') := take_while_n p n' r in (c :: h, r') else ([], l)
  | _, _ => ([], l)
  end.

(* strconv.ParseInt(s, 16, 0) on hex digits: error on the empty string *)
Definition parse_hex (s : list N) : option N :=
  match s with [] => None | _ => Some (hex_value s) end.

Definition consume_unicode_range (rest : list N) : option (N * N) * list N :=
  let '(h, r1) := take_while_n is_hex 6 rest in
  let '(q, r2) := take_while_n (fun c => c =? 63) (6 - length h) r1 in
  let nq := length q in
  let '(start_s, end_s, r3) :=
    if negb (Nat.eqb nq 0) then
      (h ++ repeat 48 nq, h ++ repeat 70 nq, r2)            (* :341-342 *)
    else
      match r2 with
      | c0 :: c1 :: r' =>                                   (* :343 tk.pos+1 < length && '-' && hex *)
          if (c0 =? 45) && is_hex c1 then
            let '(h2, r4) := take_while_n is_hex 6 (c1 :: r') in
            (h, h2, r4)
          else (h, h, r2)
      | _ => (h, h, r2)
      end in
  match parse_hex start_s, parse_hex end_s with
  | Some s, Some e => (Some (s, e), r3)
  | _, _ => (None, r3)
  end.

(* tryConsumeUnicodeRune, tokenizer.go:555-566; rest starts at 'U'/'u' *)
Definition try_consume_unicode_range (p : pos) (rest : list N) : option (token * list N) :=
  match rest with
  | _ :: c1 :: c2 :: r =>
      if (c1 =? 43) && (is_hex c2 || (c2 =? 63)) then
        let '(o, r') := consume_unicode_range (c2 :: r) in
        match o with
        | Some (s, e) => Some (TUnicodeRange p s e, r')
        | None => Some (TParseError p errInvalidNumber, r')
        end
      else None
  | _ => None
  end.

(* ------------------------------------------------------------------ consumeQuotedString (tokenizer.go:470-514) *)
(* inner loop; returns (value, addValue, err, rest) *)
Fixpoint quoted_loop (fuel : nat) (quote : N) (rest : list N) : res (str * bool * N * list N) :=
  match fuel with
  | O => OutOfFuel
  | S f =>
      match rest with
      | [] => Ok ([], true, errEofInString, [])              (* :509-512 *)
      | c :: r =>
          if c =? quote then Ok ([], true, 0, r)            (* :484 *)
          else if c =? 92 then                              (* :489 *)
            match r with
            | [] => Ok ([], true, errEofInString, [])        (* escaped EOF: nothing *)
            | d :: r' =>
                if d =? 10 then quoted_loop f quote r'      (* :493 escaped newline ignored *)
                else
                  let '(ch, r1) := consume_escape r in
                  let* (v, add, e, r2) := quoted_loop f quote r1 in
                  Ok (if add then write_rune ch :: v else v, add, e, r2)
            end
          else if c =? 10 then Ok ([], false, errBadString, rest)   (* :501 newline NOT consumed *)
          else
            let* (v, add, e, r2) := quoted_loop f quote r in
            Ok (if add then c :: v else v, add, e, r2)
      end
  end.

Definition consume_quoted_string (fuel : nat) (rest : list N) : res (str * bool * N * list N) :=
  let* quote := index site_quote rest 0 in
  quoted_loop fuel quote (tl rest).

(* ------------------------------------------------------------------ consumeUrl (tokenizer.go:376-465) *)
Fixpoint skip_spaces (l : list N) : list N :=
  match l with
  | c :: r => if is_space c then skip_spaces r else l
  | [] => []
  end.

(* consume the remnants of a bad url, :453-463 *)
Fixpoint bad_url_remnants (fx : bool) (fuel : nat) (rest : list N) : res (list N) :=
  match fuel with
  | O => OutOfFuel
  | S f =>
      match rest with
      | [] => Ok []
      | c :: r =>
          if fx then
            (* [FIX 4] ')' ends; a valid escape is consumed as an escape; else one rune *)
            if c =? 41 then Ok r
            else if valid_escape_at rest then bad_url_remnants fx f (snd (consume_escape r))
            else bad_url_remnants fx f r
          else
            if has_prefix [92; 41] rest then bad_url_remnants fx f (tl r)   (* :454 backslash rparen *)
            else if c =? 41 then Ok r
            else bad_url_remnants fx f r
      end
  end.

Inductive url_loop_result :=
| ULDone (v : str) (rest : list N)           (* ')' found *)
| ULEof (v : str)                            (* EOF *)
| ULSpace (v : str) (rest : list N)          (* whitespace: go on to the trailing part *)
| ULBad (rest : list N).                     (* goto badURL *)

(* the mainLoop of :401-431 *)
Fixpoint url_loop (fx : bool) (fuel : nat) (rest : list N) : res url_loop_result :=
  match fuel with
  | O => OutOfFuel
  | S f =>
      match rest with
      | [] => Ok (ULEof [])
      | c :: r =>
          if c =? 41 then Ok (ULDone [] r)
          else if is_space c then Ok (ULSpace [] r)
          else
            let cont (ch : N) (r1 : list N) :=
              let* x := url_loop fx f r1 in
              Ok (match x with
                  | ULDone v r2 => ULDone (ch :: v) r2
                  | ULEof v => ULEof (ch :: v)
                  | ULSpace v r2 => ULSpace (ch :: v) r2
                  | ULBad r2 => ULBad r2
                  end) in
            if valid_escape_at rest then
              let '(ch, r1) := consume_escape r in cont (write_rune ch) r1
            else if is_non_printable c || (fx && (c =? 92)) then Ok (ULBad r)   (* :427; [FIX 3] invalid escape *)
            else cont c r
      end
  end.

(* returns (optional URL token, optional ParseError token, rest) *)
Definition consume_url (fx : bool) (fuel : nat) (p : pos) (rest0 : list N)
  : res (option token * option token * list N) :=
  let rest := skip_spaces rest0 in                         (* :379 *)
  let bad (r : list N) :=
    let* r' := bad_url_remnants fx fuel r in
    Ok (None, Some (TParseError p errBadURL), r') in
  let eof (v : str) := Ok (Some (TURL p v true), Some (TParseError p errEofInUrl), []) in
  let trailing (v : str) (r : list N) :=                   (* :434-449 *)
    match skip_spaces r with
    | [] => eof v
    | c :: r' => if c =? 41 then Ok (Some (TURL p v false), None, r') else bad (c :: r')
    end in
  match rest with
  | [] => eof []                                           (* :382 *)
  | c :: r =>
      if (c =? 34) || (c =? 39) then                       (* :388 quoted url: dead code, see :722 *)
        let* (v, add, e, r1) := consume_quoted_string fuel rest in
        if negb (e =? 0) then bad r1 else trailing v r1
      else if c =? 41 then Ok (Some (TURL p [] false), None, r)
      else
        let* x := url_loop fx fuel rest in
        match x with
        | ULDone v r1 => Ok (Some (TURL p v false), None, r1)
        | ULEof v => eof v
        | ULSpace v r1 => trailing v r1
        | ULBad r1 => bad r1
        end
  end.

(* ------------------------------------------------------------------ consumeWhitespace (tokenizer.go:543-552) *)
Fixpoint span (p : N -> bool) (l : list N) : list N * list N :=
  match l with
  | c :: r => if p c then let '(a, b) := span p r in (c :: a, b) else ([], l)
  | [] => ([], [])
  end.

(* ------------------------------------------------------------------ numbers (tokenizer.go:276, 595-626) *)
(* numberRe = ^[-+]?([0-9]*\.)?[0-9]+([eE][+-]?[0-9]+)?  (leftmost, greedy with backtracking) *)
Definition scan_number (rest : list N) : option (str * list N) :=
  let '(sign, r0) :=
    match rest with
    | c :: r => if (c =? 43) || (c =? 45) then ([c], r) else ([], rest)
    | [] => ([], [])
    end in
  let '(d1, r1) := span is_digit r0 in
  let mant :=
    let plain := match d1 with [] => None | _ => Some (d1, r1) end in
    match r1 with
    | c :: r2 =>
        if c =? 46 then
          let '(d2, r3) := span is_digit r2 in
          match d2 with
          | [] => plain                        (* group backtracks to absent *)
          | _ => Some (d1 ++ 46 :: d2, r3)
          end
        else plain
    | [] => plain
    end in
  match mant with
  | None => None
  | Some (m, r4) =>
      let with_exp :=
        match r4 with
        | e :: r5 =>
            if (e =? 101) || (e =? 69) then
              let '(es, r6) :=
                match r5 with
                | c :: r => if (c =? 43) || (c =? 45) then ([c], r) else ([], r5)
                | [] => ([], [])
                end in
              let '(d3, r7) := span is_digit r6 in
              match d3 with
              | [] => None
              | _ => Some (e :: es ++ d3, r7)
              end
            else None
        | [] => None
        end in
      match with_exp with
      | Some (x, r7) => Some (sign ++ m ++ x, r7)
      | None => Some (sign ++ m, r4)
      end
  end.

Definition digits_value (d : list N) : N := fold_left (fun acc c => acc * 10 + (c - 48)) d 0.

(* strconv.ParseInt(repr, 10, 0) succeeds: optional sign, digits only, fits int64 *)
Definition repr_int (repr : str) : option Z :=
  let '(neg, d) :=
    match repr with
    | c :: r => if c =? 45 then (true, r) else if c =? 43 then (false, r) else (false, repr)
    | [] => (false, repr)
    end in
  match d with
  | [] => None
  | _ =>
      if forallb is_digit d then
        let v := Z.of_N (digits_value d) in
        let z := if neg then (- v)%Z else v in
        if ((- 9223372036854775808 <=? z) && (z <=? 9223372036854775807))%Z then Some z else None
      else None
  end.
Definition repr_is_int (repr : str) : bool := match repr_int repr with Some _ => true | None => false end.

(* tryConsumeNumber *)
Definition try_consume_number (fx : bool) (fuel : nat) (p : pos) (rest : list N)
  : res (option (token * list N)) :=
  match scan_number rest with
  | None => Ok None
  | Some (repr, r1) =>
      let isint := repr_is_int repr in
      let* ids := match r1 with [] => Ok false | _ => is_ident_start fx r1 end in   (* :617 *)
      if ids then
        let* (unit, r2) := consume_ident fuel r1 in
        Ok (Some (TDimension p repr isint unit, r2))
      else
        match r1 with
        | c :: r2 =>
            if c =? 37 then Ok (Some (TPercentage p repr isint, r2))               (* :620 *)
            else Ok (Some (TNumber p repr isint, r1))
        | [] => Ok (Some (TNumber p repr isint, r1))
        end
  end.

(* ------------------------------------------------------------------ tryConsumeHash (tokenizer.go:628-643); rest is after '#' *)
Definition try_consume_hash (fx : bool) (fuel : nat) (p : pos) (rest : list N)
  : res (option (token * list N)) :=
  match rest with
  | [] => Ok None
  | c :: _ =>
      if is_digit c || is_lower c || is_upper c || (c =? 45) || (c =? 95) || (127 <? c)
         || valid_escape_at rest then
        let* isid := is_ident_start fx rest in
        let* (v, r') := consume_ident fuel rest in
        Ok (Some (THash p v isid, r'))
      else Ok None
  end.

(* ------------------------------------------------------------------ consumeDelimOrLitteral (tokenizer.go:645-667) *)
Definition consume_delim (p : pos) (rest : list N) : res (token * list N) :=
  let* c := index site_delim rest 0 in
  if has_prefix s_cdo rest then Ok (TLiteral p s_cdo, skipn 4 rest)
  else if has_prefix [124; 124] rest then Ok (TLiteral p [124; 124], skipn 2 rest)
  else if (c =? 126) || (c =? 124) || (c =? 94) || (c =? 36) || (c =? 42) then
    let r := tl rest in
    if has_prefix [61] r then Ok (TLiteral p [c; 61], tl r) else Ok (TLiteral p [c], r)
  else Ok (TLiteral p [write_rune c], tl rest).

(* ------------------------------------------------------------------ updateLine (tokenizer.go:669-681) *)
Record lstate : Type := mkL {
  l_rest : list N;      (* tk.src[tk.pos:] *)
  l_prev : list N;      (* tk.src[tk.previousPos:] *)
  l_line : Z;           (* tk.line *)
  l_col : Z;            (* tk.previousPos - tk.lineIndex : column of previousPos *)
}.

Definition bytes_len (l : list N) : Z := fold_left (fun acc c => (acc + utf8_len c)%Z) l 0%Z.

(* text after the last newline of seg, if any *)
Fixpoint after_last_nl (seg : list N) : option (list N) :=
  match seg with
  | [] => None
  | c :: r =>
      match after_last_nl r with
      | Some t => Some t
      | None => if c =? 10 then Some r else None
      end
  end.
Definition count_nl (seg : list N) : Z := Z.of_nat (length (filter (fun c => c =? 10) seg)).

(* returns the position of the token starting at l_rest and the state with previousPos := pos *)
Definition update_line (st : lstate) : pos * lstate :=
  let seg := firstn (length (l_prev st) - length (l_rest st)) (l_prev st) in   (* src[previousPos:pos] *)
  let '(ln, col) :=
    match after_last_nl seg with
    | Some t => ((l_line st + count_nl seg)%Z, (1 + bytes_len t)%Z)
    | None => (l_line st, (l_col st + bytes_len seg)%Z)
    end in
  (mkPos ln col, mkL (l_rest st) (l_rest st) ln col).

(* ------------------------------------------------------------------ comments (tokenizer.go:795-807) *)
(* bytes.Index(l, star slash): text before the first star-slash and the suffix after it *)
Fixpoint find_comment_end (l : list N) : option (list N * list N) :=
  match l with
  | [] => None
  | c :: r =>
      if has_prefix [42; 47] l then Some ([], tl r)
      else match find_comment_end r with
           | Some (a, b) => Some (c :: a, b)
           | None => None
           end
  end.

(* ------------------------------------------------------------------ one iteration of consumeValueList, without the recursion *)
Inductive opener := OFunction (name : str) | OParens | OSquare | OCurly.

Definition close_of (o : opener) : N :=
  match o with OFunction _ | OParens => 41 | OSquare => 93 | OCurly => 125 end.
Definition mk_block (o : opener) (p : pos) (args : list token) : token :=
  match o with
  | OFunction n => TFunction p n args
  | OParens => TParens p args
  | OSquare => TSquare p args
  | OCurly => TCurly p args
  end.

Inductive lexed :=
| LTok (ts : list token) (rest : list N)    (* tokens appended to out; loop continues *)
| LOpen (o : opener) (rest : list N)        (* recursive consumeValueList(close_of o) *)
| LClose (rest : list N)                    (* case endChar: return out *)
| LReturn (ts : list token) (rest : list N) (* EOF in comment: append and return out (:802) *)
| LStuck.                                   (* case 0: no progress (unreachable after preprocessing) *)

(* the url( look-ahead of :718-731: true = handled by consumeUrl *)
Definition url_is_unquoted (rest : list N) : bool :=
  match skip_spaces rest with
  | [] => true
  | c :: _ => negb ((c =? 34) || (c =? 39))
  end.

Definition opt_list {A} (o : option A) : list A := match o with Some a => [a] | None => [] end.

(* rest is non-empty (tk.pos < L); p = tokenPos *)
(* the identifier / function / url( part of the iteration, :711-738; rest starts an identifier *)
Definition lex_ident_like (fx : bool) (fuel : nat) (p : pos) (rest : list N) : res lexed :=
  let* (value, r1) := consume_ident fuel rest in
  match r1 with
  | c1 :: r2 =>
      if c1 =? 40 then                                              (* :716 skip the left paren *)
        if str_eqb (ascii_lower value) s_url && url_is_unquoted r2 then   (* :717-722 *)
          let* (v, e, r3) := consume_url fx fuel p r2 in
          Ok (LTok (opt_list v ++ opt_list e) r3)
        else Ok (LOpen (OFunction value) r2)
      else Ok (LTok [TIdent p value] r1)                             (* :712 *)
  | [] => Ok (LTok [TIdent p value] r1)
  end.

(* the second switch, :746-812; rest = c :: r *)
Definition lex1_punct (fx skip : bool) (fuel : nat) (endc : N) (p : pos) (c : N) (r : list N) : res lexed :=
  let rest := c :: r in
  if c =? 64 then                                                     (* :747 '@' *)
    let* ids := match r with [] => Ok false | _ => is_ident_start fx r end in
    if ids then
      let* (v, r') := consume_ident fuel r in Ok (LTok [TAtKeyword p v] r')
    else Ok (LTok [TLiteral p [64]] r)
  else if c =? 35 then                                                (* :755 '#' *)
    let* h := try_consume_hash fx fuel p r in
    match h with
    | Some (t, r') => Ok (LTok [t] r')
    | None => Ok (LTok [TLiteral p [35]] r)
    end
  else if c =? 123 then Ok (LOpen OCurly r)                            (* :762 *)
  else if c =? 91 then Ok (LOpen OSquare r)                            (* :767 *)
  else if c =? 40 then Ok (LOpen OParens r)                            (* :772 *)
  else if c =? 0 then Ok LStuck                                        (* :777 *)
  else if c =? endc then Ok (LClose r)                                 (* :778 *)
  else if (c =? 125) || (c =? 93) || (c =? 41) then                    (* :782 *)
    Ok (LTok [TParseError p c] r)
  else if (c =? 39) || (c =? 34) then                                  (* :786 *)
    let* (v, add, e, r') := consume_quoted_string fuel rest in
    Ok (LTok ((if add then [TString p v (negb (e =? 0))] else [])
              ++ (if negb (e =? 0) then [TParseError p e] else [])) r')
  else if has_prefix [47; 42] rest then                                (* :795 comment *)
    match find_comment_end (tl r) with
    | None =>                                                         (* :798 index == -1 *)
        (* tk.pos += 2 + (-1); [FIX 2]: tk.pos = L *)
        Ok (LReturn (if skip then [] else [TComment p (tl r)]) (if fx then [] else r))
    | Some (txt, r') => Ok (LTok (if skip then [] else [TComment p txt]) r')
    end
  else
    let* (t, r') := consume_delim p rest in Ok (LTok [t] r').          (* :809 *)

Definition lex1 (fx skip : bool) (fuel : nat) (endc : N) (p : pos) (rest : list N) : res lexed :=
  match rest with
  | [] => Ok (LTok [] [])
  | c :: r =>
      if is_space c then                                                  (* :695 *)
        let '(ws, r') := span is_space r in Ok (LTok [TWhitespace p (c :: ws)] r')
      else
      match (if (c =? 85) || (c =? 117) then try_consume_unicode_range p rest else None) with   (* :699 *)
      | Some (t, r') => Ok (LTok [t] r')
      | None =>
      if has_prefix s_cdc rest then Ok (LTok [TLiteral p s_cdc] (skipn 3 rest))     (* :706 *)
      else
      let* ids := is_ident_start fx rest in                                (* :710 *)
      if ids then lex_ident_like fx fuel p rest
      else
      let* num := try_consume_number fx fuel p rest in                     (* :741 *)
      match num with
      | Some (t, r') => Ok (LTok [t] r')
      | None => lex1_punct fx skip fuel endc p c r
      end
      end
  end.

(* ------------------------------------------------------------------ consumeValueList (tokenizer.go:684-816) *)
Definition set_rest (st : lstate) (r : list N) : lstate :=
  mkL r (l_prev st) (l_line st) (l_col st).

Fixpoint consume_value_list (fx skip : bool) (fuel : nat) (endc : N) (st : lstate)
  : res (list token * lstate) :=
  match fuel with
  | O => OutOfFuel
  | S f =>
      match l_rest st with
      | [] => Ok ([], st)                                                  (* :690 loop exit, :815 *)
      | _ :: _ =>
          let '(p, st1) := update_line st in                               (* :691 *)
          let* lx := lex1 fx skip f endc p (l_rest st) in
          match lx with
          | LTok ts r =>
              let* (out, st') := consume_value_list fx skip f endc (set_rest st1 r) in
              Ok (ts ++ out, st')
          | LOpen o r =>
              let* (args, st2) := consume_value_list fx skip f (close_of o) (set_rest st1 r) in
              let* (out, st3) := consume_value_list fx skip f endc st2 in
              Ok (mk_block o p args :: out, st3)
          | LClose r => Ok ([], set_rest st1 r)
          | LReturn ts r => Ok (ts, set_rest st1 r)
          | LStuck => consume_value_list fx skip f endc st1
          end
      end
  end.

(* ------------------------------------------------------------------ Tokenize (tokenizer.go:823-838) *)
(* bytes.ReplaceAll NUL -> U+FFFD, CR LF -> LF, CR -> LF, FF -> LF *)
Fixpoint preprocess (s : list N) : list N :=
  match s with
  | [] => []
  | c :: r =>
      if c =? 0 then 65533 :: preprocess r
      else if c =? 13 then
        match r with
        | d :: r' => if d =? 10 then 10 :: preprocess r' else 10 :: preprocess r
        | [] => [10]
        end
      else if c =? 12 then 10 :: preprocess r
      else c :: preprocess r
  end.

Definition init_state (src : list N) : lstate := mkL src src 1%Z 1%Z.   (* line 1, lineIndex -1 *)

(* tokenizer run on an already preprocessed source *)
Definition tokenize_pre (fx skip : bool) (src : list N) : res (list token) :=
  let* (ts, _) := consume_value_list fx skip (S (S (length src))) 0 (init_state src) in Ok ts.

Definition tokenize (fx skip : bool) (s : list N) : res (list token) :=
  tokenize_pre fx skip (preprocess s).

(* ------------------------------------------------------------------ value of a numeric representation *)
(* exact rational denoted by a string accepted by scan_number (what
   strconv.ParseFloat rounds to float32) *)
Definition repr_value (repr : str) : Q :=
  let '(neg, r0) :=
    match repr with
    | c :: r => if c =? 45 then (true, r) else if c =? 43 then (false, r) else (false, repr)
    | [] => (false, repr)
    end in
  let '(d1, r1) := span is_digit r0 in
  let '(d2, r2) := match r1 with c :: r => if c =? 46 then span is_digit r else ([], r1) | [] => ([], r1) end in
  let ex : Z :=
    match r2 with
    | _ :: c :: d3 =>
        if c =? 45 then (- Z.of_N (digits_value d3))%Z
        else if c =? 43 then Z.of_N (digits_value d3)
        else Z.of_N (digits_value (c :: d3))
    | _ => 0%Z
    end in
  let m : Z := Z.of_N (digits_value (d1 ++ d2)) in
  let e : Z := (ex - Z.of_nat (length d2))%Z in
  let q : Q := if (0 <=? e)%Z then inject_Z (m * 10 ^ e) else Qmake m (Z.to_pos (10 ^ (- e))) in
  if neg then Qopp q else q.
