(* Css/C08VarSubstProofs.v -- var() resolution (Css/VarSubst.v): the function of
   the pinned tree diverges on cycles; the repaired one is total (fuel =
   a stated function of the input, no panic site reachable), computes the
   token substitution of Css/C08Spec.v, never reports a cycle in an acyclic
   environment, and a reported cycle / an ill-typed result falls back to the
   inherited or initial value. *)
From Coq Require Import List NArith ZArith QArith Bool Lia Arith.
From Coq Require String.
From Verif Require Import Base.GoSem Css.DeclTok Css.Decl Css.VarSubst Css.C08Spec Css.C08DeclProofs.
Import ListNotations.
Open Scope nat_scope.

(* ------------------------------------------------------------ ParseFunction *)

Definition keep_arg (a : tok) : bool := negb (is_trivia a || is_literal a comma).

(* the loop of parse_function, named *)
Fixpoint pf_loop (content : list tok) (last_is_comma : bool) (acc : list tok) : option (list tok) :=
  match content with
  | [] => if last_is_comma then None else Some (rev acc)
  | token :: rest =>
      if is_trivia token then pf_loop rest last_is_comma acc
      else
        let is_comma := is_literal token comma in
        if (last_is_comma && is_comma)%bool then None
        else if is_comma then pf_loop rest true acc
        else
          let inner_ok :=
            match token with
            | TFunc _ _ => match fst (parse_function token) with [] => false | _ => true end
            | _ => true
            end in
          if inner_ok then pf_loop rest false (token :: acc) else None
  end.

Lemma parse_function_unfold name args :
  parse_function (TFunc name args) =
  match pf_loop args false [] with
  | Some arguments => (ascii_lower name, arguments)
  | None => ([], [])
  end.
Proof.
  cbn [parse_function].
  set (l1 := (fix loop (content : list tok) (last_is_comma : bool) (acc : list tok) {struct content} := _)).
  assert (H : forall c l a, l1 c l a = pf_loop c l a).
  { induction c as [|t r IH]; intros l a; [reflexivity|].
    cbn [pf_loop]. subst l1. cbn beta iota. fold (parse_function t).
    destruct (is_trivia t); [apply IH|].
    destruct (l && is_literal t comma)%bool; [reflexivity|].
    destruct (is_literal t comma); [apply IH|].
    destruct t; try apply IH.
    destruct (fst (parse_function (TFunc name0 args0))); [reflexivity|apply IH]. }
  now rewrite H.
Qed.

Lemma pf_loop_args content : forall l acc res,
  pf_loop content l acc = Some res -> res = rev acc ++ filter keep_arg content.
Proof.
  induction content as [|t r IH]; intros l acc res H; cbn [pf_loop] in H.
  - destruct l; [discriminate|]. inversion H. simpl. now rewrite app_nil_r.
  - unfold keep_arg at 1. cbn [filter].
    destruct (is_trivia t) eqn:Et; cbn [orb negb]; [now apply IH in H|].
    destruct (l && is_literal t comma)%bool; [discriminate|].
    destruct (is_literal t comma) eqn:Ec; cbn [negb]; [now apply IH in H|].
    match type of H with (if ?c then _ else _) = _ => destruct c end; [|discriminate].
    apply IH in H. rewrite H. simpl. now rewrite <- app_assoc.
Qed.

Lemma parse_function_args name fargs n' args :
  parse_function (TFunc name fargs) = (n', args) -> n' <> [] ->
  n' = ascii_lower name /\ args = filter keep_arg fargs.
Proof.
  rewrite parse_function_unfold. destruct (pf_loop fargs false []) as [res|] eqn:E.
  - intros H _. inversion H; subst. split; [reflexivity|]. now apply pf_loop_args in E.
  - intros H Hn. inversion H; subst. contradiction.
Qed.

(* has_var, with its recursion phrased on the kept arguments *)
Lemma has_var_unfold name fargs :
  has_var (TFunc name fargs) =
  let '(n', args) := parse_function (TFunc name fargs) in
  match n' with
  | [] => false
  | _ => if (str_eqb n' s_var && match args with [] => false | _ => true end)%bool
         then match args with TIdent v :: _ => is_custom_name v | _ => false end
         else existsb has_var (filter keep_arg fargs)
  end.
Proof.
  cbn [has_var]. destruct (parse_function (TFunc name fargs)) as [n' args].
  destruct n' as [|c0 n'']; [reflexivity|].
  match goal with |- (if ?c then _ else _) = _ => destruct c end; [reflexivity|].
  clear. induction fargs as [|a r IH]; [reflexivity|].
  cbn [filter]. unfold keep_arg at 1.
  destruct (is_trivia a || is_literal a comma)%bool; cbn [negb existsb orb]; now rewrite IH.
Qed.

(* a var() call that has_var accepts names a custom property: the two type
   assertions of resolveVar's var branch cannot fail *)
Lemma has_var_var_call name fargs :
  has_var (TFunc name fargs) = true -> str_eqb (ascii_lower name) s_var = true ->
  exists v rest, snd (parse_function (TFunc name fargs)) = TIdent v :: rest
                 /\ is_custom_name v = true /\ In (TIdent v) fargs.
Proof.
  intros Hv Hn. rewrite has_var_unfold in Hv.
  destruct (parse_function (TFunc name fargs)) as [n' args] eqn:Ep.
  destruct n' as [|c0 n''] eqn:En; [discriminate|].
  destruct (parse_function_args _ _ _ _ Ep) as [Hn' Ha]; [discriminate|].
  rewrite Hn', Hn in Hv. cbn [andb] in Hv.
  destruct args as [|a rest] eqn:Eargs.
  - rewrite <- Ha in Hv. discriminate.
  - destruct a; try discriminate. exists v, rest. simpl. repeat split; try assumption.
    assert (Hin : In (TIdent v) (filter keep_arg fargs)) by (rewrite <- Ha; now left).
    now apply filter_In in Hin.
Qed.

Lemma has_var_inside name fargs :
  has_var (TFunc name fargs) = true -> str_eqb (ascii_lower name) s_var = false ->
  existsb has_var (filter keep_arg fargs) = true.
Proof.
  intros Hv Hn. rewrite has_var_unfold in Hv.
  destruct (parse_function (TFunc name fargs)) as [n' args] eqn:Ep.
  destruct n' as [|c0 n''] eqn:En; [discriminate|].
  destruct (parse_function_args _ _ _ _ Ep) as [Hn' Ha]; [discriminate|].
  rewrite Hn', Hn in Hv. exact Hv.
Qed.

Lemma has_var_is_func t : has_var t = true -> exists n a, t = TFunc n a.
Proof. destruct t; try discriminate. eauto. Qed.

Lemma var_fallback_incl fargs : incl (var_fallback fargs) fargs.
Proof.
  induction fargs as [|a r IH]; [intros x []|].
  assert (Hr : incl (var_fallback r) (a :: r)) by (intros x Hx; right; now apply IH).
  destruct a; try exact Hr.
  cbn [var_fallback].
  assert (Hrw : incl (remove_whitespace r) r) by (intros x Hx; now apply filter_In in Hx).
  destruct (remove_whitespace r) as [|c rest] eqn:E; [intros x []|].
  destruct (is_literal c comma); intros x Hx; right; apply Hrw; [now right|exact Hx].
Qed.

(* ------------------------------------------------------------ the old function diverges *)

Definition tvar (n : str) : tok := TFunc s_var [TIdent n].
Module Lits.
  Import String.
  Local Open Scope string_scope.
  Definition n_a : str := Eval compute in s "--a".
  Definition n_foo : str := Eval compute in s "foo".
  Definition n_bar : str := Eval compute in s "bar".
  Definition n_px : str := Eval compute in s "px".
End Lits.
Import Lits.
Definition self_cycle_env : env := [(n_a, [tvar n_a])].

Lemma resolve_var_old_self_cycle fuel : resolve_var_old fuel self_cycle_env (tvar n_a) = OutOfFuel.
Proof.
  induction fuel as [|f IH]; [reflexivity|].
  change (resolve_var_old (S f) self_cycle_env (tvar n_a))
    with (let* computed := (let* rv := resolve_var_old f self_cycle_env (tvar n_a) in
                            let* rest := Ok [] in
                            Ok (match rv with Some x => x | None => [tvar n_a] end ++ rest)) in
          Ok (Some computed)).
  now rewrite IH.
Qed.

(* foo(bar(var(--a))) with --a: 1px : the old code re-resolves the unchanged token for ever *)
Definition nested_tok : tok :=
  TFunc n_foo [TFunc n_bar [tvar n_a]].
Definition nested_env : env := [(n_a, [TDim 1 true n_px])].

Lemma resolve_var_old_nested fuel : resolve_var_old fuel nested_env nested_tok = OutOfFuel.
Proof.
  induction fuel as [|f IH]; [reflexivity|].
  change (resolve_var_old (S f) nested_env nested_tok)
    with (let* resolved := resolve_var_old f nested_env nested_tok in
          match resolved with
          | Some (x :: y) => Ok (Some (x :: y))
          | _ => Ok (Some [nested_tok])
          end).
  now rewrite IH.
Qed.

(* ------------------------------------------------------------ totality of the repaired function *)

Fixpoint depth (t : tok) : nat :=
  match t with
  | TFunc _ args | TBlock _ args =>
      S ((fix go (l : list tok) : nat := match l with [] => 0 | a :: r => Nat.max (depth a) (go r) end) args)
  | _ => 1
  end.

Fixpoint max_depth (l : list tok) : nat :=
  match l with [] => 0 | a :: r => Nat.max (depth a) (max_depth r) end.

Lemma depth_func n a : depth (TFunc n a) = S (max_depth a).
Proof. reflexivity. Qed.

Lemma depth_pos t : 1 <= depth t.
Proof. destruct t; simpl; lia. Qed.

Lemma max_depth_in a l : In a l -> depth a <= max_depth l.
Proof. induction l as [|b r IH]; [intros []|]. intros [->|H]; simpl; [lia|]. apply IH in H. lia. Qed.

Fixpoint env_depth (e : env) : nat :=
  match e with [] => 0 | (_, l) :: r => Nat.max (max_depth l) (env_depth r) end.

Lemma assoc_in {A} n (l : list (str * A)) x : assoc n l = Some x -> In (n, x) l.
Proof.
  induction l as [|[k v] r IH]; [discriminate|]. simpl.
  destruct (str_eqb k n) eqn:E.
  - intros H. inversion H; subst. apply str_eqb_eq in E. subst. now left.
  - intros H. right. now apply IH.
Qed.

Lemma lookup_depth e n : max_depth (lookup e n) <= env_depth e.
Proof.
  unfold lookup. destruct (assoc n e) as [l|] eqn:E; [|simpl; lia].
  apply assoc_in in E. induction e as [|[k v] r IH]; [contradiction|].
  destruct E as [E|E]; simpl.
  - inversion E; subst. lia.
  - apply IH in E. lia.
Qed.

Lemma lookup_defined e n : lookup e n <> [] -> In n (map fst e).
Proof.
  unfold lookup. destruct (assoc n e) as [l|] eqn:E; [|congruence].
  intros _. apply assoc_in in E. apply in_map_iff. now exists (n, l).
Qed.

(* fuel sufficient for a call with `visited` already entered *)
Definition need (e : env) (visited : list str) (d : nat) : nat :=
  d + (length e - length visited) * S (env_depth e).

(* fuel sufficient for a top-level call: (number of custom properties + 1) x
   (deepest nesting + 1) *)
Definition fuel_bound (e : env) (t : tok) : nat :=
  depth t + length e * S (env_depth e).

Definition is_ok_rv (r : res rv) : Prop := exists x, r = Ok x.

Section Loop.
  (* the inner loop of resolve_var, named (parameterised by the recursive call) *)
  Variable rec : list str -> tok -> res rv.
  Fixpoint rv_loop (vis : list str) (l : list tok) : res (option (list tok)) :=
    match l with
    | [] => Ok (Some [])
    | a :: r =>
        let* ra := rec vis a in
        match ra with
        | RCyclic => Ok None
        | RNil => let* rest := rv_loop vis r in Ok (option_map (cons a) rest)
        | RToks x => let* rest := rv_loop vis r in Ok (option_map (app x) rest)
        end
    end.
End Loop.

Lemma resolve_var_unfold f e visited t :
  resolve_var (S f) e visited t =
  if negb (has_var t) then Ok RNil
  else match t with
  | TFunc name fargs =>
    if negb (str_eqb (ascii_lower name) s_var) then
      let* arguments := rv_loop (resolve_var f e) visited fargs in
      match arguments with None => Ok RCyclic | Some args => Ok (RToks [TFunc name args]) end
    else
      match snd (parse_function t) with
      | [] => Panic site_args0
      | TIdent variable_name :: _ =>
          match lookup e variable_name with
          | [] =>
              let* computed := rv_loop (resolve_var f e) visited (var_fallback fargs) in
              match computed with None => Ok RCyclic | Some c => Ok (RToks c) end
          | l =>
              if in_table visited variable_name then Ok RCyclic
              else
                let* computed := rv_loop (resolve_var f e) (variable_name :: visited) l in
                match computed with None => Ok RCyclic | Some c => Ok (RToks c) end
          end
      | _ :: _ => Panic site_ident_assert
      end
  | _ => Panic site_func_assert
  end.
Proof.
  assert (HL : forall vis l,
             (fix loop (vis : list str) (l : list tok) {struct l} : res (option (list tok)) :=
                match l with
                | [] => Ok (Some [])
                | a :: r =>
                    let* ra := resolve_var f e vis a in
                    match ra with
                    | RCyclic => Ok None
                    | RNil => let* rest := loop vis r in Ok (option_map (cons a) rest)
                    | RToks x => let* rest := loop vis r in Ok (option_map (app x) rest)
                    end
                end) vis l = rv_loop (resolve_var f e) vis l).
  { intros vis l. induction l as [|a r IH]; [reflexivity|]. cbn [rv_loop]. now rewrite <- IH. }
  cbn [resolve_var]. destruct (negb (has_var t)); [reflexivity|].
  destruct t; reflexivity.
Qed.

Lemma rv_loop_ok rec vis l :
  (forall a, In a l -> is_ok_rv (rec vis a)) ->
  exists x, rv_loop rec vis l = Ok x.
Proof.
  induction l as [|a r IH]; intros H; [eexists; reflexivity|].
  cbn [rv_loop]. destruct (H a (or_introl eq_refl)) as [ra ->]. cbn [bind].
  destruct IH as [x Hx]; [intros b Hb; apply H; now right|].
  destruct ra; [rewrite Hx|rewrite Hx|]; eexists; reflexivity.
Qed.

Lemma in_table_false_notin l n : in_table l n = false -> ~ In n l.
Proof. intros H Hin. apply in_table_In in Hin. congruence. Qed.

Theorem resolve_var_total_gen e : forall fuel visited t,
  NoDup visited -> incl visited (map fst e) ->
  need e visited (depth t) <= fuel ->
  is_ok_rv (resolve_var fuel e visited t).
Proof.
  induction fuel as [|f IH]; intros visited t Hnd Hincl Hfuel.
  - unfold need in Hfuel. pose proof (depth_pos t).
    apply Nat.le_0_r, Nat.eq_add_0 in Hfuel. lia.
  - rewrite resolve_var_unfold.
    destruct (has_var t) eqn:Hv; cbn [negb]; [|eexists; reflexivity].
    destruct (has_var_is_func _ Hv) as [name [fargs ->]].
    rewrite depth_func in Hfuel. unfold need in Hfuel.
    destruct (str_eqb (ascii_lower name) s_var) eqn:Hn; cbn [negb].
    + destruct (has_var_var_call _ _ Hv Hn) as [v [rest [Hp [Hc Hin]]]]. rewrite Hp.
      destruct (lookup e v) as [|x l] eqn:El.
      * destruct (rv_loop_ok (resolve_var f e) visited (var_fallback fargs)) as [c Hcm].
        { intros a Ha. apply IH; try assumption. apply var_fallback_incl in Ha.
          apply max_depth_in in Ha. unfold need. lia. }
        rewrite Hcm. cbn [bind]. destruct c; eexists; reflexivity.
      * destruct (in_table visited v) eqn:Hvis; [eexists; reflexivity|].
        assert (Hdef : In v (map fst e)) by (apply lookup_defined; rewrite El; discriminate).
        assert (Hnd' : NoDup (v :: visited)) by (constructor; [now apply in_table_false_notin|assumption]).
        assert (Hincl' : incl (v :: visited) (map fst e)) by (intros y [<-|Hy]; [assumption|now apply Hincl]).
        assert (Hlen : length (v :: visited) <= length e).
        { rewrite <- (map_length fst e). now apply NoDup_incl_length. }
        destruct (rv_loop_ok (resolve_var f e) (v :: visited) (x :: l)) as [c Hcm].
        { intros a Ha. apply IH; try assumption.
          rewrite <- El in Ha. apply max_depth_in in Ha. pose proof (lookup_depth e v).
          unfold need. simpl length in *.
          replace (length e - length visited) with (S (length e - S (length visited))) in Hfuel by lia.
          simpl in Hfuel. lia. }
        rewrite Hcm. cbn [bind]. destruct c; eexists; reflexivity.
    + destruct (rv_loop_ok (resolve_var f e) visited fargs) as [c Hcm].
      { intros a Ha. apply IH; try assumption. apply max_depth_in in Ha. unfold need. lia. }
      rewrite Hcm. cbn [bind]. destruct c; eexists; reflexivity.
Qed.

(* resolveVar terminates and reaches no panic site, for EVERY environment
   (cyclic ones included), within fuel_bound *)
Theorem resolve_var_total e t fuel :
  fuel_bound e t <= fuel -> exists r, resolve_var fuel e [] t = Ok r.
Proof.
  intros H. apply resolve_var_total_gen; [constructor|intros x []|].
  unfold need, fuel_bound in *. simpl. lia.
Qed.

(* ------------------------------------------------------------ substitution *)

Definition toks_of (r : rv) (t : tok) : option (list tok) :=
  match r with RNil => Some [t] | RToks l => Some l | RCyclic => None end.

Lemma str_eqb_true_eq a b : str_eqb a b = true -> a = b.
Proof. apply str_eqb_eq. Qed.

Theorem resolve_var_sound e : forall fuel visited t r,
  resolve_var fuel e visited t = Ok r ->
  forall out, toks_of r t = Some out -> Subst e t out.
Proof.
  induction fuel as [|f IH]; intros visited t r H out Hout; [discriminate|].
  rewrite resolve_var_unfold in H.
  assert (HL : forall vis l o, rv_loop (resolve_var f e) vis l = Ok (Some o) -> SubstL e l o).
  { intros vis l. induction l as [|a rl IHl]; intros o Hl; cbn [rv_loop] in Hl.
    - inversion Hl. constructor.
    - destruct (resolve_var f e vis a) as [ra| |] eqn:Ea; try discriminate. cbn [bind] in Hl.
      destruct ra.
      + destruct (rv_loop (resolve_var f e) vis rl) as [[rest|]| |]; try discriminate.
        inversion Hl; subst. change (a :: rest) with ([a] ++ rest). constructor; [|now apply IHl].
        eapply IH; [exact Ea|reflexivity].
      + destruct (rv_loop (resolve_var f e) vis rl) as [[rest|]| |]; try discriminate.
        inversion Hl; subst. constructor; [|now apply IHl].
        eapply IH; [exact Ea|reflexivity].
      + discriminate. }
  destruct (has_var t) eqn:Hv; cbn [negb] in H.
  - destruct (has_var_is_func _ Hv) as [name [fargs ->]].
    destruct (str_eqb (ascii_lower name) s_var) eqn:Hn; cbn [negb] in H.
    + destruct (has_var_var_call _ _ Hv Hn) as [v [rest [Hp [Hc Hin]]]]. rewrite Hp in H.
      apply str_eqb_true_eq in Hn.
      destruct (lookup e v) as [|x l] eqn:El.
      * destruct (rv_loop (resolve_var f e) visited (var_fallback fargs)) as [[c|]| |] eqn:Ec; try discriminate;
          inversion H; subst r; [|discriminate]. inversion Hout; subst.
        eapply SubFallback; eauto.
      * destruct (in_table visited v); [inversion H; subst; discriminate|].
        destruct (rv_loop (resolve_var f e) (v :: visited) (x :: l)) as [[c|]| |] eqn:Ec; try discriminate;
          inversion H; subst r; [|discriminate]. inversion Hout; subst.
        eapply SubDefined; eauto; rewrite El; [discriminate|]. eapply HL; eauto.
    + destruct (rv_loop (resolve_var f e) visited fargs) as [[c|]| |] eqn:Ec; try discriminate;
        inversion H; subst r; [|discriminate]. inversion Hout; subst.
      apply SubInside; [assumption| |eapply HL; eauto].
      intros E. rewrite E, str_eqb_refl in Hn. discriminate.
  - inversion H; subst. inversion Hout; subst. now apply SubPlain.
Qed.

Lemma resolve_tokens_sound e fuel : forall raw out,
  resolve_tokens fuel e raw = Ok (Some out) -> SubstL e raw out.
Proof.
  induction raw as [|t r IH]; intros out H; cbn [resolve_tokens] in H.
  - inversion H. constructor.
  - destruct (resolve_var fuel e [] t) as [rt| |] eqn:Et; try discriminate. cbn [bind] in H.
    destruct rt.
    + destruct (resolve_tokens fuel e r) as [[rest|]| |]; try discriminate.
      inversion H; subst. change (t :: rest) with ([t] ++ rest). constructor; [|now apply IH].
      eapply resolve_var_sound; [exact Et|reflexivity].
    + destruct (resolve_tokens fuel e r) as [[rest|]| |]; try discriminate.
      inversion H; subst. constructor; [|now apply IH].
      eapply resolve_var_sound; [exact Et|reflexivity].
    + discriminate.
Qed.

(* ------------------------------------------------------------ acyclic environments never report a cycle *)

Lemma names_of_func n a : names_of (TFunc n a) = names_of_list a.
Proof.
  cbn [names_of]. induction a as [|x r IH]; [reflexivity|]. simpl. now rewrite IH.
Qed.

Lemma names_of_list_in a l : In a l -> incl (names_of a) (names_of_list l).
Proof.
  intros H x Hx. unfold names_of_list. apply in_flat_map. now exists a.
Qed.

Section Acyclic.
  Variable e : env.
  Variable rank : str -> nat.
  Hypothesis Hrank : forall n m, In m (names_of_list (lookup e n)) -> rank m < rank n.

  Definition below (visited : list str) (names : list str) : Prop :=
    forall m, In m names -> forall v, In v visited -> rank m < rank v.

  Lemma resolve_var_acyclic : forall fuel visited t r,
    below visited (names_of t) -> resolve_var fuel e visited t = Ok r -> r <> RCyclic.
  Proof.
    induction fuel as [|f IH]; intros visited t r Hb H; [discriminate|].
    rewrite resolve_var_unfold in H.
    assert (HL : forall vis l o, (forall a, In a l -> below vis (names_of a)) ->
                                 rv_loop (resolve_var f e) vis l = Ok o -> o <> None).
    { intros vis l. induction l as [|a rl IHl]; intros o Hbl Hl; cbn [rv_loop] in Hl.
      - inversion Hl. discriminate.
      - destruct (resolve_var f e vis a) as [ra| |] eqn:Ea; try discriminate. cbn [bind] in Hl.
        assert (Hra : ra <> RCyclic) by (eapply IH; [apply Hbl; now left|exact Ea]).
        assert (Hrest : forall o', rv_loop (resolve_var f e) vis rl = Ok o' -> o' <> None)
          by (intros o'; apply IHl; intros b Hb'; apply Hbl; now right).
        destruct ra; [| |contradiction];
          destruct (rv_loop (resolve_var f e) vis rl) as [rest| |]; try discriminate;
          specialize (Hrest _ eq_refl); destruct rest; try contradiction; inversion Hl; discriminate. }
    destruct (has_var t) eqn:Hv; cbn [negb] in H; [|inversion H; discriminate].
    destruct (has_var_is_func _ Hv) as [name [fargs ->]].
    rewrite names_of_func in Hb.
    assert (Hsub : forall a, In a fargs -> below visited (names_of a)).
    { intros a Ha m Hm. apply Hb. now apply (names_of_list_in a fargs). }
    destruct (str_eqb (ascii_lower name) s_var) eqn:Hn; cbn [negb] in H.
    - destruct (has_var_var_call _ _ Hv Hn) as [v [rest [Hp [Hc Hin]]]]. rewrite Hp in H.
      assert (Hvb : forall x, In x visited -> rank v < rank x).
      { apply Hb. apply (names_of_list_in (TIdent v) fargs Hin). simpl. rewrite Hc. now left. }
      destruct (lookup e v) as [|x l] eqn:El.
      + destruct (rv_loop (resolve_var f e) visited (var_fallback fargs)) as [c| |] eqn:Ec; try discriminate.
        cbn [bind] in H. apply HL in Ec.
        * destruct c; [inversion H; discriminate|contradiction].
        * intros a Ha. apply Hsub. now apply var_fallback_incl.
      + destruct (in_table visited v) eqn:Hvis.
        { apply in_table_In in Hvis. specialize (Hvb _ Hvis). lia. }
        destruct (rv_loop (resolve_var f e) (v :: visited) (x :: l)) as [c| |] eqn:Ec; try discriminate.
        cbn [bind] in H. apply HL in Ec.
        * destruct c; [inversion H; discriminate|contradiction].
        * intros a Ha m Hm w Hw.
          assert (Hmv : rank m < rank v).
          { apply Hrank. rewrite El. now apply (names_of_list_in a (x :: l)). }
          destruct Hw as [<-|Hw]; [assumption|]. specialize (Hvb _ Hw). lia.
    - destruct (rv_loop (resolve_var f e) visited fargs) as [c| |] eqn:Ec; try discriminate.
      cbn [bind] in H. apply HL in Ec; [|assumption].
      destruct c; [inversion H; discriminate|contradiction].
  Qed.
End Acyclic.

(* For an acyclic environment resolveVar IS the token substitution: it
   returns, within the fuel bound, tokens related to the input by Subst. *)
Theorem resolve_var_subst e t :
  acyclic e ->
  exists out, (resolve_var (fuel_bound e t) e [] t = Ok (RToks out)
               \/ (resolve_var (fuel_bound e t) e [] t = Ok RNil /\ out = [t]))
              /\ Subst e t out.
Proof.
  intros [rank Hrank].
  destruct (resolve_var_total e t (fuel_bound e t) (le_n _)) as [r Hr].
  assert (Hnc : r <> RCyclic).
  { eapply (resolve_var_acyclic e rank Hrank); [|exact Hr]. intros m _ v []. }
  destruct r; [| |contradiction].
  - exists [t]. split; [right; now split|]. eapply resolve_var_sound; [exact Hr|reflexivity].
  - exists l. split; [now left|]. eapply resolve_var_sound; [exact Hr|reflexivity].
Qed.

(* ------------------------------------------------------------ pending values *)

Definition finalize (initial_value parent_value : str -> value) (key : str) (v : value) : value :=
  match v with VInitial => initial_value key | VInherit => parent_value key | _ => v end.

Section Pending.
  Variable known : str -> bool.
  Variable validate : str -> list tok -> option value.
  Variable parse_color : tok -> color.
  Variable other_expander : str -> option (list tok -> option (list nprop)).
  Variable inherited : str -> bool.
  Variable initial_value parent_value : str -> value.

  Notation pending := (pending_value known validate parse_color other_expander).
  Notation cascade := (cascade_value known validate parse_color other_expander inherited initial_value parent_value).

  (* a cyclic reference makes the declaration invalid at computed-value time *)
  Theorem cyclic_reference_is_invalid fuel e key sh raw :
    resolve_tokens fuel e raw = Ok None -> pending fuel e key sh raw = Ok None.
  Proof. intros H. unfold pending_value. now rewrite H. Qed.

  (* an invalid pending value (cyclic, empty, ill-typed after substitution)
     computes to the inherited value for inherited properties, else to the
     initial value *)
  Theorem pending_invalid_falls_back fuel e key sh raw :
    pending fuel e key sh raw = Ok None ->
    cascade fuel e key (Some (VRaw raw, sh)) =
    Ok (finalize initial_value parent_value key
                 (if inherited key then parent_value key else initial_value key)).
  Proof.
    intros H. unfold cascade_value. rewrite H. cbn [bind]. unfold fallback_value, finalize.
    destruct (inherited key); [destruct (parent_value key)|destruct (initial_value key)]; reflexivity.
  Qed.

  (* a valid pending value is the typed value of the SUBSTITUTED tokens: for a
     longhand, validated as that longhand; inside a shorthand, the longhand's
     part of the expansion of the substituted shorthand *)
  Theorem pending_is_substitution fuel e key sh raw d :
    pending fuel e key sh raw = Ok (Some d) ->
    exists solved, SubstL e raw solved /\ solved <> [] /\
      match sh with
      | [] => option_map np_value (validate_non_shorthand known validate key solved false) = Some d
      | _ => expand_validate_pending known validate parse_color other_expander key sh solved = Some d
      end.
  Proof.
    unfold pending_value. intros H.
    destruct (resolve_tokens fuel e raw) as [[solved|]| |] eqn:E; try discriminate.
    cbn [bind] in H. destruct solved as [|x r]; [discriminate|].
    exists (x :: r). split; [now apply resolve_tokens_sound in E|]. split; [discriminate|].
    destruct sh; now inversion H.
  Qed.

  Lemma resolve_tokens_total e raw fuel :
    (forall t, In t raw -> fuel_bound e t <= fuel) ->
    exists r, resolve_tokens fuel e raw = Ok r.
  Proof.
    induction raw as [|t r IH]; intros H; [eexists; reflexivity|].
    cbn [resolve_tokens].
    destruct (resolve_var_total e t fuel (H t (or_introl eq_refl))) as [rt ->]. cbn [bind].
    destruct IH as [x Hx]; [intros b Hb; apply H; now right|].
    destruct rt; [rewrite Hx|rewrite Hx|]; eexists; reflexivity.
  Qed.

  (* the whole computed-value step terminates without panic, cyclic graphs included *)
  Theorem cascade_value_total e key casc fuel :
    (forall raw sh t, casc = Some (VRaw raw, sh) -> In t raw -> fuel_bound e t <= fuel) ->
    exists v, cascade fuel e key casc = Ok v.
  Proof.
    intros H. unfold cascade_value.
    destruct casc as [[v sh]|].
    - destruct v; try (eexists; reflexivity).
      unfold pending_value.
      destruct (resolve_tokens_total e ts fuel) as [r Hr]; [intros t Ht; eapply H; eauto|].
      rewrite Hr. cbn [bind].
      destruct r as [[|x l]|]; cbn [bind]; try (destruct (fallback_value _ _ _ _); eexists; reflexivity).
      destruct sh; cbn [bind].
      + destruct (option_map _ _) as [d|]; [destruct d|destruct (fallback_value _ _ _ _)]; eexists; reflexivity.
      + destruct (expand_validate_pending _ _ _ _ _ _ _) as [d|]; [destruct d|destruct (fallback_value _ _ _ _)]; eexists; reflexivity.
    - destruct (inherited key || is_custom_name key)%bool; eexists; reflexivity.
  Qed.

  (* ---- the element with or without a parent style (cascade_value_at) ---- *)

  Notation cascade_at := (cascade_value_at known validate parse_color other_expander inherited initial_value).

  (* an element that has a parent: the steps of cascade_value *)
  Theorem cascade_value_at_nonroot fuel e key casc :
    cascade_at (Some parent_value) fuel e key casc = cascade fuel e key casc.
  Proof.
    unfold cascade_value_at, cascade_value, fallback_value.
    destruct casc as [[v sh]|].
    - destruct v; try reflexivity.
      destruct (pending fuel e key sh ts) as [[d|]| |]; cbn [bind]; try reflexivity.
      + destruct d; reflexivity.
      + destruct (inherited key); [destruct (parent_value key)|destruct (initial_value key)]; reflexivity.
    - destruct (inherited key || is_custom_name key)%bool; reflexivity.
  Qed.
End Pending.

Section Root.
  Variable known : str -> bool.
  Variable validate : str -> list tok -> option value.
  Variable parse_color : tok -> color.
  Variable other_expander : str -> option (list tok -> option (list nprop)).
  Variable inherited : str -> bool.
  Variable initial_value : str -> value.

  Notation pending := (pending_value known validate parse_color other_expander).
  Notation cascade_at := (cascade_value_at known validate parse_color other_expander inherited initial_value).

  (* the root element (no parent style): every step that would read the parent reads the
     initial values instead -- the root "inherits" the initial values, whether `inherit` is
     declared, is the default of an inherited property, comes out of a var() substitution,
     or the pending value is invalid at computed-value time.  In particular no `Panic 2`
     (nil parent dereference). *)
  Theorem cascade_value_at_root fuel e key casc :
    cascade_at None fuel e key casc =
    cascade_value known validate parse_color other_expander inherited initial_value initial_value fuel e key casc.
  Proof.
    unfold cascade_value_at, cascade_value, fallback_value.
    destruct casc as [[v sh]|].
    - destruct v; try reflexivity.
      destruct (pending fuel e key sh ts) as [[d|]| |]; cbn [bind]; try reflexivity.
      + destruct d; reflexivity.
      + destruct (inherited key); destruct (initial_value key); reflexivity.
    - destruct (inherited key || is_custom_name key)%bool; reflexivity.
  Qed.

  (* a pending value that substitutes to `inherit` on the root gives exactly what a declared
     `inherit` gives there: the initial value *)
  Theorem root_substituted_inherit_is_initial fuel e key sh raw :
    pending fuel e key sh raw = Ok (Some VInherit) ->
    cascade_at None fuel e key (Some (VRaw raw, sh)) = Ok (finalize initial_value initial_value key (initial_value key)) /\
    cascade_at None fuel e key (Some (VRaw raw, sh)) = cascade_at None fuel e key (Some (VInherit, sh)).
  Proof.
    intros H. unfold cascade_value_at. rewrite H. cbn [bind]. unfold finalize.
    split; destruct (initial_value key); reflexivity.
  Qed.

  Theorem root_pending_invalid_falls_back fuel e key sh raw :
    pending fuel e key sh raw = Ok None ->
    cascade_at None fuel e key (Some (VRaw raw, sh)) = Ok (finalize initial_value initial_value key (initial_value key)).
  Proof.
    intros H. rewrite cascade_value_at_root.
    rewrite (pending_invalid_falls_back known validate parse_color other_expander inherited initial_value initial_value fuel e key sh raw H).
    destruct (inherited key); reflexivity.
  Qed.

  (* total for every element, the root included *)
  Theorem cascade_value_at_total parent e key casc fuel :
    (forall raw sh t, casc = Some (VRaw raw, sh) -> In t raw -> fuel_bound e t <= fuel) ->
    exists v, cascade_at parent fuel e key casc = Ok v.
  Proof.
    intros H. destruct parent as [pv|].
    - rewrite cascade_value_at_nonroot. now apply cascade_value_total.
    - rewrite cascade_value_at_root. now apply cascade_value_total.
  Qed.
End Root.
