(* Css/RoundTripSep.v -- property C20: completeness of the separator logic.

   `sep_ok`: for well-formed adjacent tokens t1 t2, the text written after t1
   -- the separator chosen by serializeTo (the bad-pairs table, the "u +" rule,
   the backslash rule) followed by the serialization of t2 and whatever follows
   it -- may follow t1 (`follow_ok`, the boundary invariant under which t1
   re-tokenises to itself).  In other words: whenever two adjacent tokens would
   fuse, the table has the pair and a comment is inserted. *)
From Coq Require Import String.
From Verif Require Import Css.Ser Css.RetokSpec Css.SerWf Css.SerProofs Css.RoundTripTok.
From Coq Require Import List NArith Bool Lia ZifyBool ZifyN ZifyNat.
Import ListNotations.
Open Scope N_scope.

(* ------------------------------------------------------------------ first code point of a serialized token *)
Definition hd_ok (t : token) (c : N) : bool :=
  match t with
  | TLiteral _ v | TWhitespace _ v => head_is c v
  | TComment _ _ => c =? 47
  | TIdent _ _ | TFunction _ _ _ => (c =? 45) || (c =? 92) || name_start c
  | TAtKeyword _ _ => c =? 64
  | THash _ _ _ => c =? 35
  | TString _ _ _ => c =? 34
  | TURL _ _ _ => c =? 117
  | TUnicodeRange _ _ _ => c =? 85
  | TNumber _ _ _ | TPercentage _ _ _ | TDimension _ _ _ _ =>
      digit c || (c =? 46) || (c =? 43) || (c =? 45)
  | TParens _ _ => c =? 40
  | TSquare _ _ => c =? 91
  | TCurly _ _ => c =? 123
  | TParseError _ _ => false
  end.

Lemma ident_head v s : serialize_identifier v = Ok s ->
  exists c r, s = c :: r /\ (c =? 45) || (c =? 92) || name_start c = true.
Proof.
  unfold serialize_identifier. destruct v as [|c r]; [discriminate|].
  destruct (c =? 45) eqn:E.
  - destruct r as [|d r']; [intros H; injection H as <-; eexists _, _; split; reflexivity|].
    destruct (d =? 45); [destruct r'|]; intros H; injection H as <-; eexists _, _; split; reflexivity.
  - intros H; injection H as <-. destruct (ident_first_char_shape c) as (d & x & E' & Hd). rewrite E'.
    eexists _, _. split; [reflexivity|]. destruct Hd as [(-> & _ & Hn) | -> ]; [rewrite Hn; lia|reflexivity].
Qed.

Lemma bind_ok {A B} (r : res A) (f : A -> res B) b : bind r f = Ok b -> exists a, r = Ok a /\ f a = Ok b.
Proof. apply bind_ok_inv. Qed.

Lemma number_head repr : number_repr repr = true ->
  exists c r, repr = c :: r /\ digit c || (c =? 46) || (c =? 43) || (c =? 45) = true.
Proof.
  intros H. destruct (number_repr_head2 repr H) as (c & r & -> & Hc). exists c, r. split; [reflexivity|].
  destruct Hc as [Hc|[->|[[->| ->] _]]]; try reflexivity. rewrite Hc. reflexivity.
Qed.

Lemma ser_head t s : wf_tok t = true -> ser_token t = Ok s ->
  exists c r, s = c :: r /\ hd_ok t c = true.
Proof.
  intros Hw Hs. destruct t; cbn [hd_ok].
  - (* literal *) cbn in Hs. injection Hs as <-. cbn [wf_tok] in Hw. destruct v as [|c r]; [discriminate|].
    exists c, r. split; [reflexivity|]. cbn. apply N.eqb_refl.
  - discriminate.
  - cbn in Hs. injection Hs as <-. eexists _, _. split; reflexivity.
  - cbn in Hs. injection Hs as <-. cbn [wf_tok] in Hw. destruct v as [|c r]; [discriminate|].
    exists c, r. split; [reflexivity|]. cbn. apply N.eqb_refl.
  - cbn [ser_token] in Hs. eapply ident_head; exact Hs.
  - cbn [ser_token] in Hs. apply bind_ok in Hs as (a & _ & H). injection H as <-. eexists _, _. split; reflexivity.
  - cbn [ser_token] in Hs. destruct is_id.
    + apply bind_ok in Hs as (a & _ & H). injection H as <-. eexists _, _. split; reflexivity.
    + injection Hs as <-. eexists _, _. split; reflexivity.
  - cbn in Hs. injection Hs as <-. eexists _, _. split; reflexivity.
  - cbn [wf_tok] in Hw. apply andb_true_iff in Hw as [He _]. apply negb_true_iff in He. subst err.
    cbn in Hs. injection Hs as <-. eexists _, _. split; reflexivity.
  - cbn [ser_token] in Hs. destruct (range_end =? range_start); injection Hs as <-; eexists _, _; split; reflexivity.
  - cbn [wf_tok] in Hw. apply andb_true_iff in Hw as [Hr _]. cbn in Hs. injection Hs as <-.
    apply number_head, Hr.
  - cbn [wf_tok] in Hw. apply andb_true_iff in Hw as [Hr _]. cbn in Hs. injection Hs as <-.
    destruct (number_head repr Hr) as (c & r & -> & Hc). exists c, (r ++ [37]). split; [reflexivity|exact Hc].
  - cbn [wf_tok] in Hw. apply andb_true_iff in Hw as [Hw _]. apply andb_true_iff in Hw as [Hr _].
    rewrite ser_dimension in Hs. apply bind_ok in Hs as (us & _ & H). injection H as <-.
    destruct (number_head repr Hr) as (c & r & -> & Hc). exists c, (r ++ us). split; [reflexivity|exact Hc].
  - cbn [ser_token] in Hs. apply bind_ok in Hs as (a & _ & H). injection H as <-. eexists _, _. split; reflexivity.
  - cbn [ser_token] in Hs. apply bind_ok in Hs as (a & _ & H). injection H as <-. eexists _, _. split; reflexivity.
  - cbn [ser_token] in Hs. apply bind_ok in Hs as (a & _ & H). injection H as <-. eexists _, _. split; reflexivity.
  - cbn [ser_token] in Hs. apply bind_ok in Hs as (n & Hn & H). apply bind_ok in H as (a & _ & H). injection H as <-.
    destruct (ident_head _ _ Hn) as (c & r & -> & Hc). exists c, (r ++ 40 :: a ++ (if last_unclosed (TFunction p name args) then [] else [41])).
    split; [reflexivity|exact Hc].
Qed.

(* ------------------------------------------------------------------ the comment separator may follow anything but a backslash *)
Lemma follow_ok_comment t x :
  is_backslash t = false -> follow_ok t (47 :: 42 :: x) = true.
Proof.
  intros Hb. destruct t; try reflexivity.
  - (* literal *) cbn [follow_ok]. unfold lit_follow. destruct v as [|c [|? ?]]; try reflexivity.
    cbn [is_backslash] in Hb.
    repeat match goal with |- context [if ?b then _ else _] => destruct b; try reflexivity end.
    discriminate.
  - (* ident *) cbn [follow_ok]. rewrite starts_urange_second by lia. rewrite andb_false_r. reflexivity.
Qed.

(* ------------------------------------------------------------------ bad pairs as computed facts *)
Ltac bad_compute H := vm_compute in H; try discriminate H.

(* splitting a literal token value along wf_literal *)
Ltac literal_shape v Hw :=
  unfold wf_literal in Hw;
  destruct v as [|?a [|?b [|?c [|?d [|? ?]]]]]; try discriminate Hw.

Ltac bsplit :=
  repeat match goal with
         | H : (_ && _) = true |- _ => apply andb_true_iff in H as [? ?]
         | H : (?x =? ?n) = true |- _ => apply N.eqb_eq in H; try subst x
         end.

(* requirement: the text is not the continuation of a name *)
Definition left_name (a : str) : Prop :=
  a = cps "ident" \/ a = cps "at-keyword" \/ a = cps "hash" \/ a = cps "dimension" \/ a = [35].

Lemma lit1_name_stop c k' : lit1 c = true -> c <> 45 ->
  (c = 92 -> head_is 10 k' = true) -> name_stop (c :: k') = true.
Proof.
  intros Hl H45 H92. unfold name_stop, valid_escape. cbn [head_sat]. unfold lit1 in Hl.
  destruct (c =? 92) eqn:E92.
  - apply N.eqb_eq in E92. subst c. rewrite (H92 eq_refl). reflexivity.
  - assert (E : name_cp c = false) by (unf; lia). rewrite E. reflexivity.
Qed.

Lemma req_name_stop a t2 s2 k' :
  left_name a -> wf_tok t2 = true -> ser_token t2 = Ok s2 -> follow_ok t2 k' = true ->
  bad_pair a (ser_type t2) = false -> name_stop (s2 ++ k') = true.
Proof.
  intros Ha Hw Hs Hf Hbad.
  destruct (ser_head t2 s2 Hw Hs) as (c & r & -> & Hc).
  destruct t2; cbn [hd_ok] in Hc; cbn [ser_type token_kind] in Hbad; try discriminate Hc.
  - (* literal *)
    cbn in Hs. injection Hs as Hs. subst v. cbn [wf_tok] in Hw. cbn [follow_ok] in Hf.
    unfold wf_literal in Hw. destruct r as [|b [|c0 [|d [|? ?]]]]; try discriminate Hw.
    + (* one code point *) cbn [app]. apply lit1_name_stop; auto.
      * intros ->. destruct Ha as [->|[->|[->|[->| ->]]]]; bad_compute Hbad.
      * intros ->. exact Hf.
    + cbn [app]. apply orb_true_iff in Hw as [Hw|Hw].
      * bsplit. reflexivity.
      * apply andb_true_iff in Hw as [Hw _].
        destruct (cmp_delim_cases c Hw) as [->|[->|[->|[->| ->]]]]; reflexivity.
    + bsplit. destruct Ha as [->|[->|[->|[->| ->]]]]; bad_compute Hbad.
    + bsplit. reflexivity.
  - apply N.eqb_eq in Hc; subst c; reflexivity.
  - (* whitespace *) cbn [wf_tok] in Hw. apply andb_true_iff in Hw as [_ Hw].
    cbn in Hs. injection Hs as Hs. subst v. cbn in Hw. apply andb_true_iff in Hw as [Hw _].
    cbn [app]. unfold name_stop, valid_escape. cbn [head_sat]. unf. lia.
  - destruct Ha as [->|[->|[->|[->| ->]]]]; bad_compute Hbad.
  - apply N.eqb_eq in Hc; subst c; reflexivity.
  - apply N.eqb_eq in Hc; subst c; reflexivity.
  - apply N.eqb_eq in Hc; subst c; reflexivity.
  - destruct Ha as [->|[->|[->|[->| ->]]]]; bad_compute Hbad.
  - destruct Ha as [->|[->|[->|[->| ->]]]]; bad_compute Hbad.
  - destruct Ha as [->|[->|[->|[->| ->]]]]; bad_compute Hbad.
  - destruct Ha as [->|[->|[->|[->| ->]]]]; bad_compute Hbad.
  - destruct Ha as [->|[->|[->|[->| ->]]]]; bad_compute Hbad.
  - apply N.eqb_eq in Hc; subst c; reflexivity.
  - apply N.eqb_eq in Hc; subst c; reflexivity.
  - apply N.eqb_eq in Hc; subst c; reflexivity.
  - destruct Ha as [->|[->|[->|[->| ->]]]]; bad_compute Hbad.
Qed.

(* ------------------------------------------------------------------ generic dispatch over the kind of the right token *)
Ltac req_start Hw Hs Hc Hbad c r :=
  match type of Hs with
  | ser_token ?t2 = Ok ?s2 =>
      destruct (ser_head t2 s2 Hw Hs) as (c & r & -> & Hc);
      destruct t2; cbn [hd_ok] in Hc; cbn [ser_type token_kind] in Hbad; try discriminate Hc
  end.

(* a right token whose first code point is a constant, or which is in the table *)
Ltac const_head Hbad Hc :=
  first [ solve [vm_compute in Hbad; discriminate Hbad]
        | solve [apply N.eqb_eq in Hc; subst; reflexivity] ].

Ltac ws_head Hw Hs :=
  cbn [wf_tok] in Hw; apply andb_true_iff in Hw as [_ Hw];
  cbn in Hs; injection Hs as Hs; subst;
  cbn in Hw; apply andb_true_iff in Hw as [Hw _].

(* identifier after "ident": no "(" and no "u+hex" *)
Lemma ident_extra_head v c x :
  c <> 40 -> (c = 43 -> is_u v = false) ->
  negb (head_is 40 (c :: x)) && negb (is_u v && starts_urange (85 :: c :: x)) = true.
Proof.
  intros H40 H43. cbn [head_is]. assert (E : c =? 40 = false) by lia. rewrite E. cbn [negb andb].
  destruct (N.eq_dec c 43) as [->|Hne].
  - rewrite (H43 eq_refl). reflexivity.
  - rewrite starts_urange_second by exact Hne. rewrite andb_false_r. reflexivity.
Qed.

Lemma req_ident_extra v t2 s2 k' :
  wf_tok t2 = true -> ser_token t2 = Ok s2 ->
  bad_pair (cps "ident") (ser_type t2) = false ->
  (str_eqb (ser_type t2) [43] && (str_eqb v [117] || str_eqb v [85])) = false ->
  negb (head_is 40 (s2 ++ k')) && negb (is_u v && starts_urange (85 :: s2 ++ k')) = true.
Proof.
  intros Hw Hs Hbad Hsp.
  req_start Hw Hs Hc Hbad c r; cbn [app]; try (solve [vm_compute in Hbad; discriminate Hbad]);
    try (apply N.eqb_eq in Hc; subst c; apply ident_extra_head; [lia|intros; lia]).
  - (* literal *)
    cbn in Hs. injection Hs as Hs. subst v0. cbn [wf_tok] in Hw. cbn [ser_type] in Hsp.
    apply ident_extra_head.
    + unfold wf_literal in Hw. destruct r as [|b [|c0 [|d [|? ?]]]]; try discriminate Hw.
      * unfold lit1 in Hw. unf. lia.
      * apply orb_true_iff in Hw as [Hw|Hw]; bsplit; [lia|]. unf. lia.
      * bsplit. lia.
      * bsplit. lia.
    + intros ->. unfold wf_literal in Hw. destruct r as [|b [|c0 [|d [|? ?]]]]; try discriminate Hw.
      cbn [str_eqb] in Hsp. change (43 =? 43) with true in Hsp. cbn [andb] in Hsp.
      unfold is_u. destruct v as [|x [|? ?]]; try reflexivity. cbn [str_eqb] in Hsp.
      rewrite !andb_true_r in Hsp. exact Hsp.
  - (* whitespace *) ws_head Hw Hs. apply ident_extra_head; [unf; lia|intros ->; discriminate Hw].
Qed.

(* after a number *)
Lemma req_number t2 s2 k' :
  wf_tok t2 = true -> ser_token t2 = Ok s2 -> follow_ok t2 k' = true ->
  bad_pair (cps "number") (ser_type t2) = false ->
  num_stop (s2 ++ k') && negb (starts_ident (s2 ++ k')) && negb (head_is 37 (s2 ++ k')) = true.
Proof.
  intros Hw Hs Hf Hbad.
  req_start Hw Hs Hc Hbad c r; cbn [app]; try const_head Hbad Hc.
  - (* literal *)
    cbn in Hs. injection Hs as Hs. subst v. cbn [wf_tok] in Hw. cbn [follow_ok] in Hf.
    unfold wf_literal in Hw. destruct r as [|b [|c0 [|d [|? ?]]]]; try discriminate Hw.
    + cbn [app]. unfold lit_follow in Hf. unfold lit1 in Hw.
      destruct (c =? 45) eqn:E45.
      { apply N.eqb_eq in E45. subst c. bsplit. apply negb_true_iff in H. rewrite H. reflexivity. }
      destruct (c =? 43) eqn:E43. { apply N.eqb_eq in E43. subst c. reflexivity. }
      destruct (c =? 46) eqn:E46.
      { apply N.eqb_eq in E46. subst c. apply negb_true_iff in Hf.
        unfold num_stop. cbn [head_sat head_is tl]. rewrite Hf. reflexivity. }
      destruct (c =? 37) eqn:E37. { apply N.eqb_eq in E37. subst c. bad_compute Hbad. }
      destruct (c =? 92) eqn:E92.
      { apply N.eqb_eq in E92. subst c. cbn in Hf.
        unfold starts_ident, valid_escape. cbn. rewrite Hf. reflexivity. }
      rewrite num_stop_head by (unfold is_e; unf; lia).
      unfold starts_ident. rewrite E45, E92. cbn [head_is]. rewrite E37.
      assert (En : name_start c = false) by (unf; lia). rewrite En. reflexivity.
    + cbn [app]. apply orb_true_iff in Hw as [Hw|Hw]; bsplit; [reflexivity|].
      destruct (cmp_delim_cases c H) as [->|[->|[->|[->| ->]]]]; reflexivity.
    + bsplit. bad_compute Hbad.
    + bsplit. reflexivity.
  - (* whitespace *) ws_head Hw Hs. cbn [app].
    rewrite num_stop_head by (unfold is_e; unf; lia).
    unfold starts_ident. cbn [head_is]. unf.
    assert (E1 : c =? 45 = false) by lia. assert (E2 : c =? 92 = false) by lia. assert (E3 : c =? 37 = false) by lia.
    rewrite E1, E2, E3. lia.
Qed.

(* after a unicode-range *)
Lemma req_urange t2 s2 k' :
  wf_tok t2 = true -> ser_token t2 = Ok s2 -> follow_ok t2 k' = true ->
  bad_pair (cps "unicode-range") (ser_type t2) = false ->
  ur_stop (s2 ++ k') = true.
Proof.
  intros Hw Hs Hf Hbad.
  req_start Hw Hs Hc Hbad c r; cbn [app]; try const_head Hbad Hc.
  - cbn in Hs. injection Hs as Hs. subst v. cbn [wf_tok] in Hw. cbn [follow_ok] in Hf.
    unfold wf_literal in Hw. destruct r as [|b [|c0 [|d [|? ?]]]]; try discriminate Hw.
    + cbn [app]. unfold lit_follow in Hf. unfold lit1 in Hw.
      destruct (c =? 45) eqn:E45.
      { apply N.eqb_eq in E45. subst c. bsplit. apply negb_true_iff in H, H1.
        unfold ur_stop. cbn [head_sat head_is tl]. change (hexdig 45) with false. change (45 =? 63) with false.
        change (45 =? 45) with true. cbn [negb andb].
        (* the head of k' is neither a digit nor a name-start code point *)
        destruct k' as [|d k'']; [reflexivity|]. cbn [head_sat] in *.
        unfold starts_ident in H. change (45 =? 45) with true in H. cbn iota in H.
        assert (Hd : hexdig d = false) by (unf; lia). rewrite Hd. reflexivity. }
      destruct (c =? 63) eqn:E63. { apply N.eqb_eq in E63. subst c. bad_compute Hbad. }
      unfold ur_stop. cbn [head_sat head_is]. rewrite E63, E45.
      assert (Hd : hexdig c = false) by (unf; lia). rewrite Hd. reflexivity.
    + cbn [app]. apply orb_true_iff in Hw as [Hw|Hw]; bsplit; [reflexivity|].
      destruct (cmp_delim_cases c H) as [->|[->|[->|[->| ->]]]]; reflexivity.
    + bsplit. reflexivity.
    + bsplit. reflexivity.
  - ws_head Hw Hs. cbn [app]. unfold ur_stop. cbn [head_sat head_is].
    assert (Hd : hexdig c = false) by (unf; lia). assert (E1 : c =? 63 = false) by (unf; lia).
    assert (E2 : c =? 45 = false) by (unf; lia). rewrite Hd, E1, E2. reflexivity.
Qed.

(* ------------------------------------------------------------------ after a delimiter *)
(* first code point of a token that is not a literal *)
Definition nonlit_head (c : N) : bool :=
  (c =? 47) || (c =? 64) || (c =? 35) || (c =? 34) || (c =? 117) || (c =? 85) || (c =? 40) || (c =? 91)
  || (c =? 123) || whitespace c || (c =? 45) || (c =? 92) || name_start c || digit c || (c =? 46) || (c =? 43).

Lemma ser_head_nonlit t s : wf_tok t = true -> ser_token t = Ok s ->
  (exists p v, t = TLiteral p v /\ s = v /\ wf_literal v = true) \/
  (exists c r, s = c :: r /\ nonlit_head c = true).
Proof.
  intros Hw Hs. destruct (ser_head t s Hw Hs) as (c & r & E & Hc).
  destruct t; cbn [hd_ok] in Hc; try discriminate Hc;
    try (right; exists c, r; split; [exact E|]; unfold nonlit_head; unf; lia).
  - left. cbn in Hs. injection Hs as Hs. exists p, v. auto.
  - right. exists c, r. split; [exact E|]. subst s. cbn in Hs. injection Hs as Hs. subst v.
    cbn [wf_tok] in Hw. apply andb_true_iff in Hw as [_ Hw]. cbn in Hw. apply andb_true_iff in Hw as [Hw _].
    unfold nonlit_head. rewrite Hw. lia.
Qed.

(* the head of a literal value *)
Definition lit_head_ok (v : str) (P : N -> bool) : Prop :=
  match v with c :: _ => P c = false | [] => True end.

(* requirement "the first code point does not satisfy P", P disjoint from the
   heads of non-literal tokens: only literals need the table *)
Lemma req_head_avoid (P : N -> bool) a t2 s2 k' :
  (forall c, nonlit_head c = true -> P c = false) ->
  (forall v, wf_literal v = true -> bad_pair a v = false -> lit_head_ok v P) ->
  wf_tok t2 = true -> ser_token t2 = Ok s2 -> bad_pair a (ser_type t2) = false ->
  head_sat P (s2 ++ k') = false.
Proof.
  intros HP Hlit Hw Hs Hbad.
  destruct (ser_head_nonlit t2 s2 Hw Hs) as [(p & v & -> & -> & Hv)|(c & r & -> & Hc)].
  - cbn [ser_type] in Hbad. specialize (Hlit v Hv Hbad). destruct v as [|c r]; [discriminate|]. exact Hlit.
  - cbn. apply HP, Hc.
Qed.

Ltac lit_table_case :=
  let v := fresh "v" in let Hw := fresh "Hw" in let Hbad := fresh "Hbad" in
  intros v Hw Hbad; unfold wf_literal in Hw;
  destruct v as [|?c [|?b [|?c0 [|?d [|? ?]]]]]; try discriminate Hw; cbn [lit_head_ok].

Lemma head_sat_is c k : head_sat (fun d => d =? c) k = head_is c k.
Proof. destruct k; reflexivity. Qed.

(* "/" : not followed by "*" *)
Lemma req_slash t2 s2 k' :
  wf_tok t2 = true -> ser_token t2 = Ok s2 -> bad_pair [47] (ser_type t2) = false ->
  lit_follow [47] (s2 ++ k') = true.
Proof.
  intros Hw Hs Hbad. unfold lit_follow. change (47 =? 45) with false. change (47 =? 43) with false.
  change (47 =? 46) with false. change (47 =? 35) with false. change (47 =? 64) with false.
  change (47 =? 47) with true. cbn iota. rewrite <- head_sat_is.
  rewrite (req_head_avoid (fun d => d =? 42) [47] t2 s2 k'); auto.
  - intros c Hc. unfold nonlit_head in Hc. unf. lia.
  - lit_table_case.
    + destruct (c =? 42) eqn:E; [|reflexivity]. apply N.eqb_eq in E. subst c. bad_compute Hbad0.
    + destruct (c =? 42) eqn:E; [|reflexivity]. apply N.eqb_eq in E. subst c.
      apply orb_true_iff in Hw0 as [Hw0|Hw0]; bsplit; [discriminate|]. bad_compute Hbad0.
    + bsplit. reflexivity.
    + bsplit. reflexivity.
Qed.

(* "<" : not followed by "!--" *)
Lemma req_lt t2 s2 k' :
  wf_tok t2 = true -> ser_token t2 = Ok s2 -> bad_pair [60] (ser_type t2) = false ->
  lit_follow [60] (s2 ++ k') = true.
Proof.
  intros Hw Hs Hbad. unfold lit_follow. change (60 =? 45) with false. change (60 =? 43) with false.
  change (60 =? 46) with false. change (60 =? 35) with false. change (60 =? 64) with false.
  change (60 =? 47) with false. change (60 =? 60) with true. cbn iota.
  assert (H : head_sat (fun d => d =? 33) (s2 ++ k') = false).
  { apply (req_head_avoid (fun d => d =? 33) [60] t2 s2 k'); auto.
    - intros c Hc. unfold nonlit_head in Hc. unf. lia.
    - lit_table_case.
      + destruct (c =? 33) eqn:E; [|reflexivity]. apply N.eqb_eq in E. subst c. bad_compute Hbad0.
      + destruct (c =? 33) eqn:E; [|reflexivity]. apply N.eqb_eq in E. subst c.
        apply orb_true_iff in Hw0 as [Hw0|Hw0]; bsplit; discriminate.
      + bsplit. reflexivity.
      + bsplit. reflexivity. }
  destruct (s2 ++ k') as [|c x]; [reflexivity|]. cbn [head_sat] in H. cbn [has_prefix].
  rewrite N.eqb_sym, H. reflexivity.
Qed.

(* "|" : not followed by "|" or "=";  "~ ^ $ *" : not followed by "=" *)
Lemma req_pipe t2 s2 k' :
  wf_tok t2 = true -> ser_token t2 = Ok s2 -> bad_pair [124] (ser_type t2) = false ->
  lit_follow [124] (s2 ++ k') = true.
Proof.
  intros Hw Hs Hbad. unfold lit_follow. change (124 =? 45) with false. change (124 =? 43) with false.
  change (124 =? 46) with false. change (124 =? 35) with false. change (124 =? 64) with false.
  change (124 =? 47) with false. change (124 =? 60) with false. change (124 =? 124) with true. cbn iota.
  assert (H : head_sat (fun d => (d =? 124) || (d =? 61)) (s2 ++ k') = false).
  { apply (req_head_avoid _ [124] t2 s2 k'); auto.
    - intros c Hc. unfold nonlit_head in Hc. unf. lia.
    - lit_table_case.
      + destruct (c =? 124) eqn:E1. { apply N.eqb_eq in E1. subst c. bad_compute Hbad0. }
        destruct (c =? 61) eqn:E2. { apply N.eqb_eq in E2. subst c. bad_compute Hbad0. }
        reflexivity.
      + apply orb_true_iff in Hw0 as [Hw0|Hw0]; bsplit; [bad_compute Hbad0|].
        destruct (cmp_delim_cases c H) as [->|[->|[->|[->| ->]]]]; try reflexivity. bad_compute Hbad0.
      + bsplit. reflexivity.
      + bsplit. reflexivity. }
  destruct (s2 ++ k') as [|c x]; [reflexivity|]. cbn [head_sat head_is] in *.
  apply orb_false_iff in H as [H1 H2]. rewrite H1, H2. reflexivity.
Qed.

Lemma req_cmp a t2 s2 k' :
  cmp_delim a = true -> a <> 124 ->
  wf_tok t2 = true -> ser_token t2 = Ok s2 -> bad_pair [a] (ser_type t2) = false ->
  lit_follow [a] (s2 ++ k') = true.
Proof.
  intros Ha H124 Hw Hs Hbad.
  assert (H : head_sat (fun d => d =? 61) (s2 ++ k') = false).
  { apply (req_head_avoid _ [a] t2 s2 k'); auto.
    - intros c Hc. unfold nonlit_head in Hc. unf. lia.
    - lit_table_case.
      + destruct (c =? 61) eqn:E2; [|reflexivity]. apply N.eqb_eq in E2. subst c.
        destruct (cmp_delim_cases a Ha) as [->|[->|[->|[->| ->]]]]; try lia; bad_compute Hbad0.
      + apply orb_true_iff in Hw0 as [Hw0|Hw0]; bsplit; [reflexivity|].
        destruct (cmp_delim_cases c H) as [->|[->|[->|[->| ->]]]]; reflexivity.
      + bsplit. reflexivity.
      + bsplit. reflexivity. }
  rewrite head_sat_is in H.
  destruct (cmp_delim_cases a Ha) as [->|[->|[->|[->| ->]]]]; try lia; unfold lit_follow; cbn; rewrite H; reflexivity.
Qed.

(* "." "+" "-" "@" *)
Ltac ident_head_solve Hc := cbn [app]; unfold lit_follow; cbn; unfold starts_ident, valid_escape; unf; lia.

Lemma lit_follow_dot c x : digit c = false -> lit_follow [46] (c :: x) = true.
Proof. intros H. unfold lit_follow. cbn. rewrite H. reflexivity. Qed.

Lemma lit_follow_plus c x : digit c = false -> c <> 46 -> lit_follow [43] (c :: x) = true.
Proof.
  intros H H46. unfold lit_follow. cbn [N.eqb]. change (43 =? 45) with false. change (43 =? 43) with true.
  cbn iota. cbn [head_sat head_is]. rewrite H. assert (E : c =? 46 = false) by lia. rewrite E. reflexivity.
Qed.

Lemma lit_follow_minus c x :
  digit c = false -> c <> 46 -> name_start c = false -> c <> 45 -> c <> 92 ->
  lit_follow [45] (c :: x) = true.
Proof.
  intros H H46 Hn H45 H92. unfold lit_follow. change (45 =? 45) with true. cbn iota.
  cbn [head_sat head_is]. rewrite H. assert (E : c =? 46 = false) by lia. rewrite E.
  unfold starts_ident. change (45 =? 45) with true. cbn iota. unfold valid_escape.
  assert (E1 : c =? 45 = false) by lia. assert (E2 : c =? 92 = false) by lia. rewrite Hn, E1, E2. reflexivity.
Qed.

Lemma lit_follow_at c x :
  name_start c = false -> c <> 45 -> c <> 92 -> lit_follow [64] (c :: x) = true.
Proof.
  intros Hn H45 H92. unfold lit_follow. change (64 =? 45) with false. change (64 =? 43) with false.
  change (64 =? 46) with false. change (64 =? 35) with false. change (64 =? 64) with true. cbn iota.
  unfold starts_ident. assert (E1 : c =? 45 = false) by lia. assert (E2 : c =? 92 = false) by lia.
  rewrite E1, E2, Hn. reflexivity.
Qed.

Lemma req_dot t2 s2 k' :
  wf_tok t2 = true -> ser_token t2 = Ok s2 -> bad_pair [46] (ser_type t2) = false ->
  lit_follow [46] (s2 ++ k') = true.
Proof.
  intros Hw Hs Hbad.
  req_start Hw Hs Hc Hbad c r; cbn [app]; try const_head Hbad Hc;
    try (apply lit_follow_dot; unf; lia).
  - cbn in Hs. injection Hs as Hs. subst v. cbn [wf_tok] in Hw. apply lit_follow_dot.
    unfold wf_literal in Hw. destruct r as [|b [|c0 [|d [|? ?]]]]; try discriminate Hw.
    + unfold lit1 in Hw. unf. lia.
    + apply orb_true_iff in Hw as [Hw|Hw]; bsplit; [reflexivity|]. unf. lia.
    + bsplit. reflexivity.
    + bsplit. reflexivity.
  - ws_head Hw Hs. apply lit_follow_dot. unf. lia.
Qed.

Lemma req_plus t2 s2 k' :
  wf_tok t2 = true -> ser_token t2 = Ok s2 -> follow_ok t2 k' = true ->
  bad_pair [43] (ser_type t2) = false -> lit_follow [43] (s2 ++ k') = true.
Proof.
  intros Hw Hs Hf Hbad.
  req_start Hw Hs Hc Hbad c r; cbn [app]; try const_head Hbad Hc;
    try (apply lit_follow_plus; unf; lia).
  - cbn in Hs. injection Hs as Hs. subst v. cbn [wf_tok] in Hw. cbn [follow_ok] in Hf.
    unfold wf_literal in Hw. destruct r as [|b [|c0 [|d [|? ?]]]]; try discriminate Hw.
    + destruct (c =? 46) eqn:E46.
      * apply N.eqb_eq in E46. subst c. cbn in Hf. apply negb_true_iff in Hf.
        unfold lit_follow. cbn. rewrite Hf. reflexivity.
      * apply lit_follow_plus; [unfold lit1 in Hw; unf; lia|lia].
    + apply lit_follow_plus; apply orb_true_iff in Hw as [Hw|Hw]; bsplit; try reflexivity; try lia; unf; lia.
    + bsplit. reflexivity.
    + bsplit. reflexivity.
  - ws_head Hw Hs. apply lit_follow_plus; unf; lia.
Qed.

Lemma req_minus t2 s2 k' :
  wf_tok t2 = true -> ser_token t2 = Ok s2 -> follow_ok t2 k' = true ->
  bad_pair [45] (ser_type t2) = false -> lit_follow [45] (s2 ++ k') = true.
Proof.
  intros Hw Hs Hf Hbad.
  req_start Hw Hs Hc Hbad c r; cbn [app]; try const_head Hbad Hc.
  - cbn in Hs. injection Hs as Hs. subst v. cbn [wf_tok] in Hw. cbn [follow_ok] in Hf.
    unfold wf_literal in Hw. destruct r as [|b [|c0 [|d [|? ?]]]]; try discriminate Hw.
    + cbn [app]. unfold lit1 in Hw.
      destruct (c =? 45) eqn:E45. { apply N.eqb_eq in E45. subst c. bad_compute Hbad. }
      destruct (c =? 46) eqn:E46.
      { apply N.eqb_eq in E46. subst c. cbn in Hf. apply negb_true_iff in Hf.
        unfold lit_follow. cbn. rewrite Hf. reflexivity. }
      destruct (c =? 92) eqn:E92.
      { apply N.eqb_eq in E92. subst c. cbn in Hf. unfold lit_follow. cbn.
        unfold starts_ident, valid_escape. cbn. rewrite Hf. reflexivity. }
      apply lit_follow_minus; unf; lia.
    + cbn [app]. apply orb_true_iff in Hw as [Hw|Hw]; bsplit; [reflexivity|].
      destruct (cmp_delim_cases c H) as [->|[->|[->|[->| ->]]]]; reflexivity.
    + bsplit. bad_compute Hbad.
    + bsplit. reflexivity.
  - ws_head Hw Hs. cbn [app]. apply lit_follow_minus; unf; lia.
Qed.

Lemma lit_follow_at_eq k : lit_follow [64] k = negb (starts_ident k).
Proof. reflexivity. Qed.

Lemma req_at t2 s2 k' :
  wf_tok t2 = true -> ser_token t2 = Ok s2 -> follow_ok t2 k' = true ->
  bad_pair [64] (ser_type t2) = false -> lit_follow [64] (s2 ++ k') = true.
Proof.
  intros Hw Hs Hf Hbad.
  assert (Hnum : forall repr x, number_repr repr = true -> lit_follow [64] ((repr ++ x) ++ k') = true).
  { intros repr x Hr. rewrite <- app_assoc.
    destruct (number_chain repr (x ++ k') Hr) as (c & r & E & _ & _ & _ & H4). rewrite E.
    rewrite lit_follow_at_eq, H4. reflexivity. }
  destruct t2; try (
    destruct (ser_head _ s2 Hw Hs) as (c & r & -> & Hc); cbn [hd_ok] in Hc; cbn [ser_type token_kind] in Hbad;
    try discriminate Hc; cbn [app]; const_head Hbad Hc).
  - (* literal *)
    cbn in Hs. injection Hs as <-. cbn [wf_tok] in Hw. cbn [follow_ok] in Hf. cbn [ser_type] in Hbad.
    unfold wf_literal in Hw. destruct v as [|c [|b [|c0 [|d [|? ?]]]]]; try discriminate Hw.
    + cbn [app]. unfold lit1 in Hw.
      destruct (c =? 45) eqn:E45. { apply N.eqb_eq in E45. subst c. bad_compute Hbad. }
      destruct (c =? 92) eqn:E92.
      { apply N.eqb_eq in E92. subst c. cbn in Hf. unfold lit_follow. cbn.
        unfold starts_ident, valid_escape. cbn. rewrite Hf. reflexivity. }
      apply lit_follow_at; unf; lia.
    + cbn [app]. apply orb_true_iff in Hw as [Hw|Hw]; bsplit; [reflexivity|].
      destruct (cmp_delim_cases c H) as [->|[->|[->|[->| ->]]]]; reflexivity.
    + bsplit. bad_compute Hbad.
    + bsplit. reflexivity.
  - (* whitespace *)
    destruct (ser_head _ s2 Hw Hs) as (c & r & -> & Hc). ws_head Hw Hs. cbn [app]. apply lit_follow_at; unf; lia.
  - (* number *) cbn [wf_tok] in Hw. apply andb_true_iff in Hw as [Hr _]. cbn in Hs. injection Hs as <-.
    rewrite <- (app_nil_r repr). apply Hnum, Hr.
  - cbn [wf_tok] in Hw. apply andb_true_iff in Hw as [Hr _]. cbn in Hs. injection Hs as <-. apply Hnum, Hr.
  - cbn [wf_tok] in Hw. apply andb_true_iff in Hw as [Hw _]. apply andb_true_iff in Hw as [Hr _].
    rewrite ser_dimension in Hs. apply bind_ok in Hs as (us & _ & H). injection H as <-. apply Hnum, Hr.
Qed.

(* ------------------------------------------------------------------ the separator theorem *)
Lemma bad_pair_backslash ty : bad_pair [92] ty = false.
Proof. reflexivity. Qed.

Lemma not_backslash_type t : wf_tok t = true -> is_backslash t = false -> str_eqb (ser_type t) [92] = false.
Proof.
  intros Hw Hb. destruct t; try reflexivity.
  cbn [ser_type]. cbn [is_backslash] in Hb. destruct v as [|c [|? ?]]; try reflexivity.
  - cbn. rewrite Hb. reflexivity.
  - cbn. rewrite andb_false_r. reflexivity.
Qed.

Theorem sep_ok t1 t2 rest s2 k' :
  wf_tok t1 = true -> wf_tok t2 = true -> backslash_ok t1 (t2 :: rest) = true ->
  ser_token t2 = Ok s2 -> follow_ok t2 k' = true ->
  follow_ok t1 (separator (Some t1) t2 ++ s2 ++ k') = true.
Proof.
  intros Hw1 Hw2 Hbs Hs Hf. unfold separator, backslash_ok in *.
  destruct (is_backslash t1) eqn:Eb.
  - (* backslash delimiter: the next token is whitespace starting with a newline *)
    destruct t1; try discriminate Eb. cbn [is_backslash] in Eb.
    destruct v as [|c [|? ?]]; try discriminate Eb. apply N.eqb_eq in Eb. subst c.
    cbn [ser_type]. rewrite bad_pair_backslash. change (str_eqb [92] [92]) with true. cbn iota.
    unfold newline_ws in Hbs. destruct t2; try discriminate Hbs. destruct v as [|c w]; [discriminate|].
    rewrite Hbs. cbn in Hs. injection Hs as <-. apply N.eqb_eq in Hbs. subst c. reflexivity.
  - destruct (bad_pair (ser_type t1) (ser_type t2)) eqn:Ebad.
    { apply follow_ok_comment, Eb. }
    destruct (match t1 with
              | TIdent _ v => str_eqb (ser_type t2) [43] && (str_eqb v [117] || str_eqb v [85])
              | _ => false
              end) eqn:Esp.
    { apply follow_ok_comment, Eb. }
    rewrite (not_backslash_type t1 Hw1 Eb). cbn [app].
    destruct t1; try reflexivity; cbn [follow_ok ser_type token_kind] in *.
    + (* literal *)
      cbn [wf_tok] in Hw1. unfold wf_literal in Hw1.
      destruct v as [|c [|b [|c0 [|d [|? ?]]]]]; try discriminate Hw1; try reflexivity.
      destruct (c =? 45) eqn:E45. { apply N.eqb_eq in E45. subst c. apply (req_minus t2 s2 k'); auto. }
      destruct (c =? 43) eqn:E43. { apply N.eqb_eq in E43. subst c. apply (req_plus t2 s2 k'); auto. }
      destruct (c =? 46) eqn:E46. { apply N.eqb_eq in E46. subst c. apply (req_dot t2 s2 k'); auto. }
      destruct (c =? 35) eqn:E35.
      { apply N.eqb_eq in E35. subst c. apply (req_name_stop [35] t2 s2 k'); auto. unfold left_name. auto 10. }
      destruct (c =? 64) eqn:E64. { apply N.eqb_eq in E64. subst c. apply (req_at t2 s2 k'); auto. }
      destruct (c =? 47) eqn:E47. { apply N.eqb_eq in E47. subst c. apply (req_slash t2 s2 k'); auto. }
      destruct (c =? 60) eqn:E60. { apply N.eqb_eq in E60. subst c. apply (req_lt t2 s2 k'); auto. }
      destruct (c =? 124) eqn:E124. { apply N.eqb_eq in E124. subst c. apply (req_pipe t2 s2 k'); auto. }
      destruct (cmp_delim c) eqn:Ecmp. { apply (req_cmp c t2 s2 k'); auto. lia. }
      cbn [is_backslash] in Eb.
      unfold lit_follow. rewrite E45, E43, E46, E35, E64, E47, E60, E124, Ecmp, Eb. reflexivity.
    + (* ident *)
      rewrite (req_name_stop (cps "ident") t2 s2 k'); auto; [|unfold left_name; auto].
      cbn [andb]. apply (req_ident_extra v t2 s2 k'); auto.
    + apply (req_name_stop (cps "at-keyword") t2 s2 k'); auto. unfold left_name; auto.
    + apply (req_name_stop (cps "hash") t2 s2 k'); auto. unfold left_name; auto.
    + apply (req_urange t2 s2 k'); auto.
    + apply (req_number t2 s2 k'); auto.
    + apply (req_name_stop (cps "dimension") t2 s2 k'); auto. unfold left_name; auto 10.
Qed.

(* the text after a closing bracket or at the end may follow any token but a backslash *)
Lemma follow_ok_close t c x :
  is_backslash t = false -> is_close c = true -> follow_ok t (c :: x) = true.
Proof.
  intros Hb Hc. assert (Hcc : c = 41 \/ c = 93 \/ c = 125) by (unf; lia).
  destruct t; try reflexivity.
  - cbn [follow_ok]. unfold lit_follow. destruct v as [|a [|? ?]]; try reflexivity. cbn [is_backslash] in Hb.
    destruct Hcc as [->|[->| ->]];
      repeat match goal with |- context [if ?b then _ else _] => destruct b; try reflexivity end; discriminate.
  - cbn [follow_ok]. destruct Hcc as [->|[->| ->]]; rewrite starts_urange_second by lia;
      rewrite andb_false_r; reflexivity.
  - destruct Hcc as [->|[->| ->]]; reflexivity.
  - destruct Hcc as [->|[->| ->]]; reflexivity.
  - destruct Hcc as [->|[->| ->]]; reflexivity.
  - destruct Hcc as [->|[->| ->]]; reflexivity.
  - destruct Hcc as [->|[->| ->]]; reflexivity.
Qed.

Lemma follow_ok_nil t : is_backslash t = false -> follow_ok t [] = true.
Proof.
  intros Hb. destruct t; try reflexivity.
  - cbn [follow_ok]. unfold lit_follow. destruct v as [|a [|? ?]]; try reflexivity. cbn [is_backslash] in Hb.
    repeat match goal with |- context [if ?b then _ else _] => destruct b; try reflexivity end. discriminate.
  - cbn [follow_ok]. rewrite andb_false_r. reflexivity.
Qed.
