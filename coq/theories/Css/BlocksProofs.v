(* Css/BlocksProofs.v -- blocks_spec: the single recursive pass of the tokenizer
   model builds exactly the component values that CSS Syntax 3 builds in two
   phases (token stream, then 5.4.7-9), modulo the normalisation of
   Css/Syntax3Spec.v (`norm`, `erase`). *)
From Verif Require Import Base.GoSem Css.Token Css.Tok Css.TokProofs Css.SpecProofs.
From Verif Require Css.Syntax3Spec.
From Coq Require Import List NArith ZArith Bool Lia ZifyBool ZifyNat ZifyN.
Import ListNotations.
Open Scope N_scope.
Module S := Css.Syntax3Spec.

Arguments N.eqb : simpl never.

(* ------------------------------------------------------------------ the specification's token stream unfolds *)
Definition good (inp : list N) : Prop := scalars inp /\ nonul inp.

Lemma good_suffix r rest : suffix r rest -> good rest -> good r.
Proof. intros Sf [H1 H2]. split; [eapply scalars_suffix|eapply nonul_suffix]; eassumption. Qed.

(* "consume a token" consumes at least one code point *)
Lemma consume_token_progress c r : good (c :: r) ->
  psuffix (snd (S.consume_token (length (c :: r)) (c :: r))) (c :: r).
Proof.
  intros [Hs Hn].
  assert (Hc0 : c <> 0) by (inversion Hn; assumption).
  set (f := S (length (c :: r))).
  destruct (lex1_ok false f 0 (mkPos 0 0) c r Hc0) as (lx & El & _ & Ps); [subst f; lia|].
  pose proof (lex1_spec false f (length (c :: r)) 0 (mkPos 0 0) c r lx Hs Hc0) as X.
  specialize (X ltac:(subst f; lia) (le_n _) (or_introl eq_refl) El).
  destruct (S.consume_token (length (c :: r)) (c :: r)) as [t rS]. cbn [fst snd] in *.
  destruct t; cbn [lex_rel] in X;
    try (destruct X as (ts & -> & _); exact Ps);
    try (subst lx; exact Ps).
  - (* function *)
    destruct X as (rI & -> & _ & Sf). cbn [lexed_rest] in Ps.
    eapply suffix_psuffix_trans; eassumption.
  - (* comment *)
    destruct eof.
    + destruct X as [-> _]. apply psuffix_cons, suffix_nil.
    + subst lx. exact Ps.
Qed.

Lemma tokens_from_irrel : forall n m inp, good inp -> (length inp <= n)%nat -> (length inp <= m)%nat ->
  S.tokens_from n inp = S.tokens_from m inp.
Proof.
  induction n as [|n IH]; intros m inp Hg Hn Hm.
  - destruct inp; [|simpl in Hn; lia]. destruct m; reflexivity.
  - destruct inp as [|c r]; [destruct m; reflexivity|].
    destruct m as [|m]; [simpl in Hm; lia|].
    cbn [S.tokens_from].
    pose proof (consume_token_progress c r Hg) as P.
    destruct (S.consume_token (length (c :: r)) (c :: r)) as [t rS]. cbn [snd] in P.
    f_equal. apply IH.
    + eapply good_suffix; [apply psuffix_suffix; exact P|exact Hg].
    + apply psuffix_length in P. simpl in *. lia.
    + apply psuffix_length in P. simpl in *. lia.
Qed.

Lemma tokens_cons c r : good (c :: r) ->
  S.tokens (c :: r) =
  fst (S.consume_token (length (c :: r)) (c :: r)) :: S.tokens (snd (S.consume_token (length (c :: r)) (c :: r))).
Proof.
  intros Hg. unfold S.tokens at 1. cbn [S.tokens_from length].
  pose proof (consume_token_progress c r Hg) as P.
  change (S (length r)) with (length (c :: r)).
  destruct (S.consume_token (length (c :: r)) (c :: r)) as [t rS]. cbn [fst snd] in *.
  f_equal. unfold S.tokens. apply tokens_from_irrel.
  - eapply good_suffix; [apply psuffix_suffix; exact P|exact Hg].
  - apply psuffix_length in P. simpl in *. lia.
  - lia.
Qed.

(* whitespace-equivalent inputs have the same token stream *)
Lemma tokens_ws_equiv a b : good a -> good b -> ws_equiv a b -> S.tokens a = S.tokens b.
Proof.
  intros Ga Gb We. destruct (head_ws a) eqn:Ha.
  - destruct We as [Hs Hh]. rewrite Ha in Hh.
    destruct a as [|c r]; [discriminate|]. destruct b as [|d r']; [discriminate|].
    simpl in Ha, Hh.
    rewrite (tokens_cons c r Ga), (tokens_cons d r' Gb).
    assert (X : forall x l, S.whitespace x = true ->
              S.consume_token (length (x :: l)) (x :: l) = (S.SWhitespace, S.skip_ws l)).
    { intros x l Hx. unfold S.consume_token.
      replace ((x =? 47) && match l with d0 :: _ => d0 =? 42 | [] => false end) with false
        by (unfold S.whitespace, S.newline in Hx; lia).
      rewrite Hx. reflexivity. }
    rewrite (X c r Ha), (X d r' (eq_sym Hh)). cbn [fst snd].
    rewrite !skip_ws_cons in Hs. rewrite Ha, <- Hh in Hs. rewrite Hs. reflexivity.
  - rewrite (ws_equiv_nows a b We Ha). reflexivity.
Qed.

(* ------------------------------------------------------------------ component values: fuel *)
Notation cvu := S.component_values_until.

Lemma cvu_length : forall f e l, (length (snd (cvu f e l)) <= length l)%nat.
Proof.
  induction f as [|f IH]; intros e l; [simpl; lia|].
  destruct l as [|t r]; [simpl; lia|].
  cbn [S.component_values_until].
  destruct (match e with Some e0 => S.stoken_is t e0 | None => false end); [simpl; lia|].
  destruct (S.mirror t) as [e'|].
  - pose proof (IH (Some e') r) as H1. destruct (cvu f (Some e') r) as [body r'].
    pose proof (IH e r') as H2. destruct (cvu f e r') as [vs r2]. simpl in *. lia.
  - destruct t; try (pose proof (IH e r) as H2; destruct (cvu f e r) as [vs r2]; simpl in *; lia).
    pose proof (IH (Some S.SRParen) r) as H1. destruct (cvu f (Some S.SRParen) r) as [body r'].
    pose proof (IH e r') as H2. destruct (cvu f e r') as [vs r2]. simpl in *. lia.
Qed.

(* the unfolding used by the simulation, for any sufficient fuel *)
Lemma cvu_nil f e : cvu (S f) e [] = ([], []).
Proof. reflexivity. Qed.

(* ------------------------------------------------------------------ the simulation *)
Definition ending (endc : N) : option S.stoken :=
  if endc =? 41 then Some S.SRParen
  else if endc =? 93 then Some S.SRBracket
  else if endc =? 125 then Some S.SRBrace
  else None.

Definition endc_ok (endc : N) : Prop := endc = 0 \/ endc = 41 \/ endc = 93 \/ endc = 125.

Definition filt (skip : bool) (l : list S.stoken) : list S.stoken :=
  if skip then S.drop_comments l else l.

Lemma filt_cons skip t l :
  filt skip (t :: l) = if skip && S.is_comment t then filt skip l else t :: filt skip l.
Proof. unfold filt, S.drop_comments. destruct skip; [|reflexivity]. simpl. destruct (S.is_comment t); reflexivity. Qed.

Lemma filt_nil skip : filt skip [] = [].
Proof. destruct skip; reflexivity. Qed.

Lemma tokens_nil : S.tokens [] = [].
Proof. reflexivity. Qed.

Lemma erase_mk_block o p args :
  S.erase (mk_block o p args) =
  match o with
  | OFunction n => TFunction S.p0 n (map S.erase args)
  | OParens => TParens S.p0 (map S.erase args)
  | OSquare => TSquare S.p0 (map S.erase args)
  | OCurly => TCurly S.p0 (map S.erase args)
  end.
Proof. destruct o; reflexivity. Qed.

(* one step of the specification's tree builder on a token that is a plain component value *)
Lemma cvu_plain g e t T : plain t = true ->
  cvu (S g) e (t :: T) = (S.CVToken t :: fst (cvu g e T), snd (cvu g e T)).
Proof.
  intros Hp. cbn [S.component_values_until].
  assert (H1 : match e with Some e0 => S.stoken_is t e0 | None => false end = false).
  { destruct e as [e0|]; [|reflexivity]. destruct t; try discriminate; destruct e0; reflexivity. }
  rewrite H1. destruct t; try discriminate; simpl; destruct (cvu g e T); reflexivity.
Qed.

Lemma cvu_comment g e txt eof T :
  cvu (S g) e (S.SComment txt eof :: T) = (S.CVToken (S.SComment txt eof) :: fst (cvu g e T), snd (cvu g e T)).
Proof.
  cbn [S.component_values_until].
  assert (H1 : match e with Some e0 => S.stoken_is (S.SComment txt eof) e0 | None => false end = false).
  { destruct e as [e0|]; [|reflexivity]. destruct e0; reflexivity. }
  rewrite H1. simpl. destruct (cvu g e T); reflexivity.
Qed.

Lemma cvu_closer_other g e t T : (t = S.SRParen \/ t = S.SRBracket \/ t = S.SRBrace) ->
  match e with Some e0 => S.stoken_is t e0 | None => false end = false ->
  cvu (S g) e (t :: T) = (S.CVToken t :: fst (cvu g e T), snd (cvu g e T)).
Proof.
  intros Ht H1. cbn [S.component_values_until]. rewrite H1.
  destruct Ht as [->|[->| ->]]; simpl; destruct (cvu g e T); reflexivity.
Qed.

Lemma cvu_open g e t e' T : S.mirror t = Some e' ->
  cvu (S g) e (t :: T) =
  (S.CVBlock t (fst (cvu g (Some e') T)) :: fst (cvu g e (snd (cvu g (Some e') T))),
   snd (cvu g e (snd (cvu g (Some e') T)))).
Proof.
  intros Hm. cbn [S.component_values_until].
  assert (H1 : match e with Some e0 => S.stoken_is t e0 | None => false end = false).
  { destruct e as [e0|]; [|reflexivity]. destruct t; try discriminate; destruct e0; reflexivity. }
  rewrite H1, Hm. destruct (cvu g (Some e') T) as [body r']. cbn [fst snd].
  destruct (cvu g e r'); reflexivity.
Qed.

Lemma cvu_function g e n T :
  cvu (S g) e (S.SFunction n :: T) =
  (S.CVFunction n (fst (cvu g (Some S.SRParen) T)) :: fst (cvu g e (snd (cvu g (Some S.SRParen) T))),
   snd (cvu g e (snd (cvu g (Some S.SRParen) T)))).
Proof.
  cbn [S.component_values_until].
  assert (H1 : match e with Some e0 => S.stoken_is (S.SFunction n) e0 | None => false end = false).
  { destruct e as [e0|]; [|reflexivity]. destruct e0; reflexivity. }
  rewrite H1. simpl. destruct (cvu g (Some S.SRParen) T) as [body r']. cbn [fst snd].
  destruct (cvu g e r'); reflexivity.
Qed.

Lemma norm_cons v vs : S.norm (v :: vs) = S.norm_value v ++ S.norm vs.
Proof. reflexivity. Qed.

Definition sim_result (skip : bool) (endc : N) (rest : list N) (out : list token) (rest' : list N) : Prop :=
  exists vs,
    (forall g, (length (filt skip (S.tokens rest)) < g)%nat ->
               cvu g (ending endc) (filt skip (S.tokens rest)) = (vs, filt skip (S.tokens rest'))) /\
    map S.erase out = S.norm vs /\
    suffix rest' rest.

Lemma update_line_rest' st p st1 : update_line st = (p, st1) -> l_rest st1 = l_rest st.
Proof. intros H. pose proof (update_line_rest st) as X. rewrite H in X. exact X. Qed.

Ltac open_case O K E' T X H Hrec Htc Hendc Ps :=
  match type of X with
  | ?lx = LOpen _ ?rS =>
    match type of Hendc with endc_ok ?endc =>
    subst lx; cbn [lexed_rest] in *;
    let E1 := fresh "E1" in let E2 := fresh "E2" in
    let args := fresh "args" in let st2 := fresh "st2" in let o2 := fresh "o2" in let st3 := fresh "st3" in
    destruct (consume_value_list true _ _ (close_of O) (set_rest _ rS)) as [[args st2]| |] eqn:E1; try discriminate;
    cbn [bind] in H;
    destruct (consume_value_list true _ _ endc st2) as [[o2 st3]| |] eqn:E2; try discriminate;
    cbn [bind] in H; inversion H; subst;
    let vsA := fresh "vsA" in let HcA := fresh "HcA" in let HnA := fresh "HnA" in let SfA := fresh "SfA" in
    let vsB := fresh "vsB" in let HcB := fresh "HcB" in let HnB := fresh "HnB" in let SfB := fresh "SfB" in
    assert (Hk : endc_ok K) by (unfold endc_ok; auto);
    match type of E1 with consume_value_list _ _ _ _ ?S0 = _ =>
      destruct (Hrec K S0 args st2 Hk (suffix_refl _) E1) as (vsA & HcA & HnA & SfA) end;
    cbn [set_rest l_rest] in *;
    destruct (Hrec endc st2 o2 _ Hendc SfA E2) as (vsB & HcB & HnB & SfB);
    exists (S.CVBlock T vsA :: vsB); rewrite Htc; split; [|split];
    [ let g := fresh "g" in let Hgl := fresh "Hgl" in
      intros g Hgl; rewrite filt_cons in *; cbn [S.is_comment] in *; rewrite andb_false_r in *;
      destruct g as [|g]; [simpl in Hgl; lia|]; rewrite (cvu_open g _ T E' _ eq_refl);
      change (ending K) with (Some E') in HcA; simpl in Hgl; rewrite HcA by lia; cbn [fst snd];
      let Hl := fresh "Hl" in
      match type of HcA with forall g0, _ -> S.component_values_until g0 _ ?L = _ =>
        pose proof (cvu_length g (Some E') L) as Hl end;
      rewrite HcA in Hl by lia; cbn [snd] in Hl;
      rewrite HcB by lia; reflexivity
    | cbn [map]; cbn [S.erase]; rewrite HnA, HnB; reflexivity
    | eapply suffix_trans; [exact SfB|]; eapply suffix_trans; [exact SfA|apply psuffix_suffix; exact Ps] ]
  end end.

Ltac closer_case K T X H Hendc Htc Hstep Ps :=
  match type of X with
  | ?lx = (if ?b then LClose ?rS else _) =>
    match type of Hendc with endc_ok ?endc =>
    let Ee := fresh "Ee" in
    destruct b eqn:Ee;
    [ subst lx; inversion H; subst; cbn [set_rest l_rest];
      exists []; rewrite Htc; split; [|split];
      [ let g := fresh "g" in let Hgl := fresh "Hgl" in
        intros g Hgl; rewrite filt_cons in *; cbn [S.is_comment] in *; rewrite andb_false_r in *;
        destruct g as [|g]; [simpl in Hgl; lia|];
        assert (endc = K) by lia; subst endc; reflexivity
      | reflexivity
      | apply psuffix_suffix; exact Ps ]
    | apply (Hstep [TParseError _ K] [S.CVToken T] X);
      [ reflexivity
      | let g := fresh "g" in let T0 := fresh "T0" in
        intros g T0; rewrite filt_cons; cbn [S.is_comment]; rewrite andb_false_r;
        rewrite cvu_closer_other; [reflexivity|auto|];
        destruct Hendc as [->|[->|[->| ->]]]; try reflexivity; discriminate ] ]
  end end.

Lemma cvl_sim skip : forall f endc st out st',
  good (l_rest st) -> endc_ok endc -> (length (l_rest st) + 2 <= f)%nat ->
  consume_value_list true skip f endc st = Ok (out, st') ->
  sim_result skip endc (l_rest st) out (l_rest st').
Proof.
  induction f as [|f IH]; intros endc st out st' Hg Hendc Hf H; [lia|].
  cbn [consume_value_list] in H.
  destruct (l_rest st) as [|c r] eqn:Er.
  { inversion H; subst. rewrite Er. exists []. split; [|split; [reflexivity|apply suffix_refl]].
    intros g Hgl. rewrite tokens_nil, filt_nil in *. destruct g; [simpl in Hgl; lia|reflexivity]. }
  destruct (update_line st) as [p st1] eqn:Eu.
  destruct (lex1 true skip f endc p (c :: r)) as [lx| |] eqn:El; try discriminate.
  cbn [bind] in H.
  destruct Hg as [Hs Hn].
  assert (Hc0 : c <> 0) by (inversion Hn; assumption).
  assert (Hfl : (length (c :: r) < f)%nat) by (simpl in *; lia).
  pose proof (lex1_spec skip f (length (c :: r)) endc p c r lx Hs Hc0 Hfl (le_n _) Hendc El) as X.
  destruct (lex1_ok skip f endc p c r Hc0 Hfl) as (lx' & El' & Hns & Ps).
  rewrite El in El'. inversion El'; subst lx'. clear El'.
  pose proof (tokens_cons c r (conj Hs Hn)) as Htc.
  pose proof (consume_token_progress c r (conj Hs Hn)) as Pspec.
  destruct (S.consume_token (length (c :: r)) (c :: r)) as [t rS]. cbn [fst snd] in *.
  assert (GrS : good rS) by (eapply good_suffix; [apply psuffix_suffix; exact Pspec|split; assumption]).
  (* recursive calls *)
  assert (Hrec : forall e st2 o2 st3, endc_ok e -> suffix (l_rest st2) (lexed_rest lx) ->
            consume_value_list true skip f e st2 = Ok (o2, st3) ->
            sim_result skip e (l_rest st2) o2 (l_rest st3)).
  { intros e st2 o2 st3 He S2 E2. apply IH; [|exact He| |exact E2].
    - eapply good_suffix; [|split; eassumption]. eapply suffix_trans; [exact S2|apply psuffix_suffix; exact Ps].
    - apply suffix_length in S2. apply psuffix_length in Ps. simpl in *. lia. }
  (* a step on a token that becomes component values `tv` (possibly none) and continues with the same list *)
  assert (Hstep : forall ts tv,
     lx = LTok ts rS ->
     map S.erase ts = S.norm tv ->
     (forall g T, cvu (S g) (ending endc) (filt skip (t :: T)) =
                    (tv ++ fst (cvu (if skip && S.is_comment t then S g else g) (ending endc) (filt skip T)),
                     snd (cvu (if skip && S.is_comment t then S g else g) (ending endc) (filt skip T)))) ->
     sim_result skip endc (c :: r) out (l_rest st')).
  { intros ts tv -> Hts Hcv. cbn [lexed_rest] in *.
    destruct (consume_value_list true skip f endc (set_rest st1 rS)) as [[o2 st3]| |] eqn:E2; try discriminate.
    cbn [bind] in H. inversion H; subst.
    destruct (Hrec endc (set_rest st1 rS) o2 st' Hendc (suffix_refl _) E2) as (vs & Hcvu & Hno & Sf).
    cbn [set_rest l_rest] in *.
    exists (tv ++ vs). rewrite Htc. split; [|split].
    - intros g Hgl. destruct g as [|g]; [lia|]. rewrite Hcv.
      rewrite filt_cons in Hgl.
      rewrite Hcvu; [reflexivity|]. destruct (skip && S.is_comment t); simpl in Hgl; lia.
    - rewrite map_app, Hts, Hno. unfold S.norm. rewrite flat_map_app. reflexivity.
    - eapply suffix_trans; [exact Sf|apply psuffix_suffix; exact Ps]. }
  destruct t; cbn [lex_rel] in X;
    try (destruct X as (ts & -> & Hts);
         match type of Htc with _ = ?t0 :: _ => apply (Hstep ts [S.CVToken t0] eq_refl) end;
         [cbn [S.norm flat_map S.norm_value]; rewrite app_nil_r; exact Hts
         |intros g T; rewrite filt_cons; cbn [S.is_comment]; rewrite andb_false_r;
          rewrite cvu_plain by reflexivity; reflexivity]).
  - (* function *)
    destruct X as (rI & -> & We & Sf). cbn [lexed_rest] in *.
    destruct (consume_value_list true skip f (close_of (OFunction v)) (set_rest st1 rI)) as [[args st2]| |] eqn:E1; try discriminate.
    cbn [bind] in H.
    destruct (consume_value_list true skip f endc st2) as [[o2 st3]| |] eqn:E2; try discriminate.
    cbn [bind] in H. inversion H; subst.
    destruct (Hrec 41 (set_rest st1 rI) args st2 (or_intror (or_introl eq_refl)) (suffix_refl _) E1)
      as (vsA & HcA & HnA & SfA).
    cbn [set_rest l_rest] in *.
    destruct (Hrec endc st2 o2 st' Hendc SfA E2) as (vsB & HcB & HnB & SfB).
    assert (Etok : S.tokens rI = S.tokens rS).
    { apply tokens_ws_equiv; [|exact GrS|exact We].
      eapply good_suffix; [apply psuffix_suffix; exact Ps|split; assumption]. }
    rewrite Etok in HcA.
    exists (S.CVFunction v vsA :: vsB). rewrite Htc. split; [|split].
    + intros g Hgl. rewrite filt_cons in *. cbn [S.is_comment] in *. rewrite andb_false_r in *.
      destruct g as [|g]; [lia|]. rewrite cvu_function.
      change (ending 41) with (Some S.SRParen) in HcA.
      simpl in Hgl. rewrite HcA by lia. cbn [fst snd].
      pose proof (cvu_length g (Some S.SRParen) (filt skip (S.tokens rS))) as Hl.
      rewrite HcA in Hl by lia. cbn [snd] in Hl.
      rewrite HcB by lia. reflexivity.
    + cbn [map]. cbn [S.erase]. rewrite HnA, HnB. reflexivity.
    + eapply suffix_trans; [exact SfB|]. eapply suffix_trans; [exact SfA|apply psuffix_suffix; exact Ps].
  - (* [ *) open_case OSquare 93 S.SRBracket S.SLBracket X H Hrec Htc Hendc Ps.
  - (* ] *) closer_case 93 S.SRBracket X H Hendc Htc Hstep Ps.
  - (* ( *) open_case OParens 41 S.SRParen S.SLParen X H Hrec Htc Hendc Ps.
  - (* ) *) closer_case 41 S.SRParen X H Hendc Htc Hstep Ps.
  - (* { *) open_case OCurly 125 S.SRBrace S.SLBrace X H Hrec Htc Hendc Ps.
  - (* } *) closer_case 125 S.SRBrace X H Hendc Htc Hstep Ps.
  - (* comment *)
    destruct eof.
    + destruct X as [-> ->]. inversion H; subst. cbn [set_rest l_rest].
      exists (if skip then [] else [S.CVToken (S.SComment text true)]). rewrite Htc. split; [|split].
      * intros g Hgl. rewrite filt_cons, tokens_nil, filt_nil in *. cbn [S.is_comment] in *. rewrite andb_true_r in *.
        destruct skip.
        -- destruct g; [simpl in Hgl; lia|reflexivity].
        -- destruct g as [|g]; [simpl in Hgl; lia|]. rewrite cvu_comment. destruct g; reflexivity.
      * destruct skip; reflexivity.
      * apply suffix_nil.
    + apply (Hstep (if skip then [] else [TComment p text])
                   (if skip then [] else [S.CVToken (S.SComment text false)]) X).
      * destruct skip; reflexivity.
      * intros g T. rewrite filt_cons. cbn [S.is_comment]. rewrite andb_true_r. destruct skip.
        -- cbn [app]. destruct (cvu (S g) (ending endc) (filt true T)); reflexivity.
        -- rewrite cvu_comment. reflexivity.
Qed.

(* ------------------------------------------------------------------ preprocessing *)
Definition pre_one (c : N) : N :=
  if (c =? 13) || (c =? 12) then 10
  else if (c =? 0) || ((55296 <=? c) && (c <=? 57343)) then 65533 else c.

Lemma spec_pre_cons c r : S.preprocess (c :: r) =
  if (c =? 13) && (match r with d :: _ => d =? 10 | [] => false end)
  then 10 :: S.preprocess (tl r) else pre_one c :: S.preprocess r.
Proof.
  destruct r as [|d r']; [rewrite andb_false_r; reflexivity|]. cbn [S.preprocess tl].
  destruct ((c =? 13) && (d =? 10)); reflexivity.
Qed.

Lemma tok_pre_cons c r : Tok.preprocess (c :: r) =
  if (c =? 13) && (match r with d :: _ => d =? 10 | [] => false end)
  then 10 :: Tok.preprocess (tl r)
  else (if c =? 0 then 65533 else if (c =? 13) || (c =? 12) then 10 else c) :: Tok.preprocess r.
Proof.
  cbn [Tok.preprocess]. destruct (c =? 0) eqn:E0.
  - replace (c =? 13) with false by lia. reflexivity.
  - destruct (c =? 13) eqn:E13.
    + destruct r as [|d r']; [reflexivity|]. cbn [andb tl]. destruct (d =? 10); reflexivity.
    + cbn [andb orb]. destruct (c =? 12); reflexivity.
Qed.

Lemma preprocess_spec_n : forall n s, (length s <= n)%nat -> scalars s ->
  Tok.preprocess s = S.preprocess s /\ scalars (Tok.preprocess s).
Proof.
  induction n as [|n IH]; intros s Hl Hs.
  - destruct s; [split; [reflexivity|constructor]|simpl in Hl; lia].
  - destruct s as [|c r]; [split; [reflexivity|constructor]|].
    inversion Hs as [|? ? Hc Hr]; subst. simpl in Hl.
    rewrite tok_pre_cons, spec_pre_cons.
    destruct ((c =? 13) && _).
    + assert (Hr' : scalars (tl r)) by (destruct r; [constructor|inversion Hr; assumption]).
      destruct (IH (tl r)) as [E1 E2]; [destruct r; simpl in *; lia|exact Hr'|].
      rewrite <- E1. split; [reflexivity|]. constructor; [split; [lia|reflexivity]|exact E2].
    + destruct (IH r) as [E1 E2]; [lia|exact Hr|]. rewrite <- E1.
      destruct Hc as [Hc1 Hc2]. unfold is_surrogate in Hc2.
      assert (Eone : (if c =? 0 then 65533 else if (c =? 13) || (c =? 12) then 10 else c) = pre_one c).
      { unfold pre_one. rewrite Hc2. destruct (c =? 0) eqn:E0.
        - replace ((c =? 13) || (c =? 12)) with false by lia. reflexivity.
        - rewrite orb_false_r. reflexivity. }
      rewrite Eone. split; [reflexivity|]. constructor; [|exact E2].
      unfold pre_one. rewrite Hc2.
      destruct ((c =? 13) || (c =? 12)); [split; [lia|reflexivity]|].
      destruct (c =? 0); cbn [orb]; [split; [lia|reflexivity]|].
      split; [exact Hc1|exact Hc2].
Qed.

Lemma preprocess_spec s : scalars s -> Tok.preprocess s = S.preprocess s.
Proof. intros H. apply (preprocess_spec_n (length s) s (le_n _) H). Qed.

Lemma preprocess_scalars s : scalars s -> scalars (Tok.preprocess s).
Proof. intros H. apply (preprocess_spec_n (length s) s (le_n _) H). Qed.

(* ------------------------------------------------------------------ blocks_spec *)
Theorem blocks_spec : forall (skip : bool) (s : list N), scalars s ->
  exists ts, tokenize true skip s = Ok ts /\ map S.erase ts = S.spec_tokenize skip s.
Proof.
  intros skip s Hs. destruct (tokenize_total skip s) as [ts Et]. exists ts. split; [exact Et|].
  unfold tokenize, tokenize_pre in Et.
  set (src := Tok.preprocess s) in *.
  destruct (consume_value_list true skip (S (S (length src))) 0 (init_state src)) as [[out st']| |] eqn:Ec;
    try discriminate.
  cbn [bind] in Et. inversion Et; subst out.
  assert (Hg : good src) by (split; [apply preprocess_scalars; exact Hs|apply preprocess_nonul]).
  destruct (cvl_sim skip (S (S (length src))) 0 (init_state src) ts st') as (vs & Hcv & Hno & _).
  - exact Hg.
  - left; reflexivity.
  - simpl. lia.
  - exact Ec.
  - rewrite Hno. unfold S.spec_tokenize. rewrite <- (preprocess_spec s Hs). fold src.
    unfold S.component_values. cbn [init_state l_rest] in Hcv.
    change (if skip then S.drop_comments (S.tokens src) else S.tokens src) with (filt skip (S.tokens src)).
    change (ending 0) with (@None S.stoken) in Hcv.
    rewrite Hcv by lia. reflexivity.
Qed.
