(* Css/CascadeImportProofs.v -- lemmas about @import by URL (Css/CascadeImport.v) *)
From Verif Require Import Css.Cascade Css.CascadeSpec Css.CascadeProofs Css.CascadeImport.
From Coq Require Import List NArith Bool Lia ZifyBool ZifyNat ZifyN.
Import ListNotations.
Open Scope N_scope.

(* ------------------------------------------------------------------ the guard *)

Lemma fetch_guard_same e u : fetch (guard e u) u = None.
Proof.
  induction e as [|[k sh] r IH]; [reflexivity|].
  unfold guard in *. cbn [filter fst]. destruct (k =? u) eqn:E; cbn [negb].
  - exact IH.
  - cbn [fetch]. rewrite E. exact IH.
Qed.

Lemma fetch_guard_other e u v : v <> u -> fetch (guard e u) v = fetch e v.
Proof.
  intros Hne. induction e as [|[k sh] r IH]; [reflexivity|].
  unfold guard in *. cbn [filter fst]. destruct (k =? u) eqn:E; cbn [negb fetch].
  - apply N.eqb_eq in E. subst k. destruct (u =? v) eqn:E2.
    + apply N.eqb_eq in E2. congruence.
    + exact IH.
  - destruct (k =? v); [reflexivity | exact IH].
Qed.

Lemma filter_len {A} (f : A -> bool) (l : list A) : (length (filter f l) <= length l)%nat.
Proof. induction l as [|a r IH]; [apply le_n|]. cbn [filter]. destruct (f a); cbn [length]; lia. Qed.

Lemma guard_length e u : (length (guard e u) <= length e)%nat.
Proof. unfold guard. apply filter_len. Qed.

Lemma guard_shrinks e u sh : fetch e u = Some sh -> (length (guard e u) < length e)%nat.
Proof.
  induction e as [|[k s] r IH]; [discriminate|].
  unfold guard in *. cbn [fetch filter fst length]. destruct (k =? u) eqn:E; cbn [negb].
  - intros _. pose proof (filter_len (fun kv : N * urules => negb (fst kv =? u)) r). lia.
  - intros H. specialize (IH H). cbn [length]. lia.
Qed.

(* ------------------------------------------------------------------ unfolding equations *)

Lemma flatten_u_import fuel device e q u rest ig :
  flatten_u fuel device e (UImport q u rest) ig =
  if ig then flatten_u fuel device e rest ig
  else if negb (evaluate_media q device) then flatten_u fuel device e rest ig
  else match fetch e u with
       | Some sh => (match fuel with
                     | S k => flatten_u k device (guard e u) sh false
                     | O => []
                     end) ++ flatten_u fuel device e rest ig
       | None => flatten_u fuel device e rest ig
       end.
Proof. destruct fuel; reflexivity. Qed.

Lemma flatten_u_style fuel device e g b rest ig :
  flatten_u fuel device e (UStyle g b rest) ig =
  flatten_body (resolve_top g) b [] [] ++ flatten_u fuel device e rest true.
Proof. destruct fuel; reflexivity. Qed.

Lemma flatten_u_media fuel device e q inner rest ig :
  flatten_u fuel device e (UMedia q inner rest) ig =
  if evaluate_media q device
  then flatten_u fuel device e inner true ++ flatten_u fuel device e rest true
  else flatten_u fuel device e rest true.
Proof. destruct fuel; reflexivity. Qed.

Lemma flatten_u_other fuel device e rest ig :
  flatten_u fuel device e (UOther rest) ig = flatten_u fuel device e rest true.
Proof. destruct fuel; reflexivity. Qed.

Lemma flatten_u_nil fuel device e ig : flatten_u fuel device e UNil ig = [].
Proof. destruct fuel; reflexivity. Qed.

Lemma expand_import fuel e q u rest :
  expand fuel e (UImport q u rest) =
  match fetch e u, fuel with
  | Some sh, S k => RImport q true (expand k (guard e u) sh) (expand fuel e rest)
  | _, _ => RImport q false RNil (expand fuel e rest)
  end.
Proof. destruct fuel; reflexivity. Qed.

Lemma expand_style fuel e g b rest : expand fuel e (UStyle g b rest) = RStyle g b (expand fuel e rest).
Proof. destruct fuel; reflexivity. Qed.
Lemma expand_media fuel e q inner rest :
  expand fuel e (UMedia q inner rest) = RMedia q (expand fuel e inner) (expand fuel e rest).
Proof. destruct fuel; reflexivity. Qed.
Lemma expand_other fuel e rest : expand fuel e (UOther rest) = ROther (expand fuel e rest).
Proof. destruct fuel; reflexivity. Qed.
Lemma expand_nil fuel e : expand fuel e UNil = RNil.
Proof. destruct fuel; reflexivity. Qed.

(* ------------------------------------------------------------------ model = flattening of the substituted tree *)

(* preprocessStylesheet with URL imports and the cycle guard = preprocessStylesheet
   of the sheet in which every @import is replaced by what it serves *)
Theorem flatten_u_expand fuel : forall device e rs ig,
  flatten_u fuel device e rs ig = flatten_rules device (expand fuel e rs) ig.
Proof.
  induction fuel as [|k IHk]; intros device e rs; induction rs as [|g b rest IH|q inner IHi rest IH|q u rest IH|rest IH]; intros ig.
  all: rewrite ?flatten_u_nil, ?expand_nil, ?flatten_u_style, ?expand_style, ?flatten_u_media, ?expand_media,
               ?flatten_u_other, ?expand_other, ?flatten_u_import, ?expand_import; cbn [flatten_rules].
  all: try reflexivity.
  all: try (rewrite IH; reflexivity).
  all: try (rewrite IHi, IH; reflexivity).
  - destruct (fetch e u); cbn [flatten_rules]; destruct ig; cbn [negb]; rewrite ?IH; try reflexivity;
      destruct (evaluate_media q device); cbn [negb]; reflexivity.
  - destruct (fetch e u) as [sh|]; cbn [flatten_rules]; destruct ig; cbn [negb]; rewrite ?IH; try reflexivity;
      destruct (evaluate_media q device); cbn [negb]; rewrite ?IHk; reflexivity.
Qed.

(* ------------------------------------------------------------------ length e is enough fuel *)

Lemma expand_empty : forall n m rs, expand n [] rs = expand m [] rs.
Proof.
  intros n m rs. induction rs as [|g b rest IH|q inner IHi rest IH|q u rest IH|rest IH].
  all: rewrite ?expand_nil, ?expand_style, ?expand_media, ?expand_other, ?expand_import; cbn [fetch].
  all: rewrite ?IH, ?IHi; reflexivity.
Qed.

Lemma expand_fuel_irrel : forall n m e rs,
  (length e <= n)%nat -> (length e <= m)%nat -> expand n e rs = expand m e rs.
Proof.
  induction n as [|k IHk]; intros m e rs Hn Hm.
  - destruct e; [apply expand_empty | cbn [length] in Hn; lia].
  - destruct m as [|j].
    + destruct e; [apply expand_empty | cbn [length] in Hm; lia].
    + induction rs as [|g b rest IH|q inner IHi rest IH|q u rest IH|rest IH].
      all: rewrite ?expand_nil, ?expand_style, ?expand_media, ?expand_other, ?expand_import.
      all: rewrite ?IH, ?IHi; try reflexivity.
      destruct (fetch e u) as [sh|] eqn:F; [|reflexivity].
      pose proof (guard_shrinks e u sh F) as Hs.
      rewrite (IHk j (guard e u) sh) by lia. reflexivity.
Qed.

(* any fuel >= the number of URLs served gives the same result: `full_fuel` is
   not a truncation *)
Theorem expand_fuel : forall fuel e rs, (length e <= fuel)%nat -> expand fuel e rs = expand_env e rs.
Proof. intros fuel e rs H. unfold expand_env, full_fuel. apply expand_fuel_irrel; lia. Qed.

Theorem flatten_u_fuel : forall fuel device e rs,
  (length e <= fuel)%nat -> flatten_u fuel device e rs false = flatten_env device e rs.
Proof.
  intros fuel device e rs H. unfold flatten_env, full_fuel.
  rewrite !flatten_u_expand, (expand_fuel_irrel fuel (length e) e rs); [reflexivity | lia | lia].
Qed.

(* preprocessStylesheet (URL imports, cycle guard) = flattening of the sheet with
   every @import replaced by what it serves *)
Theorem flatten_env_expand device e rs :
  flatten_env device e rs = flatten_rules device (expand_env e rs) false.
Proof. apply flatten_u_expand. Qed.

(* ------------------------------------------------------------------ what an @import contributes *)

(* the rules an @import in the prologue contributes: the whole imported sheet
   (processed by a fetcher that no longer serves its URL), whatever was imported
   before or is imported after it; the following rules are processed with the
   importing sheet's own fetcher *)
Theorem import_contribution k device e q u rest :
  flatten_u (S k) device e (UImport q u rest) false =
  (if evaluate_media q device
   then match fetch e u with
        | Some sh => flatten_u k device (guard e u) sh false
        | None => []
        end
   else [])
  ++ flatten_u (S k) device e rest false.
Proof.
  rewrite flatten_u_import. destruct (evaluate_media q device); cbn [negb]; [|reflexivity].
  destruct (fetch e u); reflexivity.
Qed.

(* the same sheet imported twice stands twice in the order of appearance
   (@import a; @import b; @import a: the rules of a come after those of b) *)
Corollary import_twice k device e u v :
  let a := match fetch e u with Some sh => flatten_u k device (guard e u) sh false | None => [] end in
  let b := match fetch e v with Some sh => flatten_u k device (guard e v) sh false | None => [] end in
  flatten_u (S k) device e (UImport [] u (UImport [] v (UImport [] u UNil))) false = a ++ b ++ a.
Proof.
  cbv zeta. rewrite !import_contribution, flatten_u_nil, app_nil_r. reflexivity.
Qed.

(* a sheet that imports itself, directly or through other sheets: inside the
   sheet served for u, an @import of u contributes nothing *)
Theorem import_cycle_dropped fuel device e u q rest :
  flatten_u fuel device (guard e u) (UImport q u rest) false =
  flatten_u fuel device (guard e u) rest false.
Proof.
  rewrite flatten_u_import, fetch_guard_same. destruct (evaluate_media q device); reflexivity.
Qed.

(* the guard of a sheet concerns only its own URL *)
Theorem import_guard_other_urls e u v : v <> u -> fetch (guard e u) v = fetch e v.
Proof. apply fetch_guard_other. Qed.

(* ------------------------------------------------------------------ the cascade of a document with URL imports *)

Theorem cascade_udoc_spec d k path p :
  doc_no_top_amp (expand_doc d) = true ->
  used (expand_doc d) k path p = cascaded (expand_doc d) k path p.
Proof. apply cascade_impl_spec. Qed.
