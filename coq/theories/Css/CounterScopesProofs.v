(* Css/CounterScopesProofs.v -- the counter bookkeeping of build.go
   (Css/CounterScopes.v: name -> stack of values, plus one set of names per
   open depth) refines the instance frames of Css/CounterScopesSpec.v, for
   every element tree and every assignment of counter properties; its slice
   operations never panic. *)
From Verif Require Import Base.GoSem Css.Counters Css.CounterScopes Css.CounterScopesSpec Css.CounterProofs
                          Css.CounterTableProofs.
From Coq Require Import List ZArith NArith Bool Lia ZifyBool.
Import ListNotations.
Open Scope Z_scope.

Definition keys (fr : frame) : list str := map fst fr.

(* ------------------------------------------------------------------ association lists *)

Lemma cv_get_set_same cv n l : cv_get (cv_set cv n l) n = l.
Proof.
  induction cv as [|[k l'] cv IH]; simpl.
  - rewrite str_eqb_refl. reflexivity.
  - destruct (str_eqb k n) eqn:E; simpl; rewrite E; [reflexivity|exact IH].
Qed.

Lemma cv_get_set_other cv n m l : m <> n -> cv_get (cv_set cv n l) m = cv_get cv m.
Proof.
  intros Hne. induction cv as [|[k l'] cv IH]; simpl.
  - destruct (str_eqb n m) eqn:E; [apply str_eqb_eq in E; congruence|reflexivity].
  - destruct (str_eqb k n) eqn:E; simpl.
    + apply str_eqb_eq in E. subst k.
      destruct (str_eqb n m) eqn:E'; [apply str_eqb_eq in E'; congruence|reflexivity].
    + destruct (str_eqb k m); [reflexivity|exact IH].
Qed.

Lemma cv_keys_set cv n l :
  map fst (cv_set cv n l) = if mem n (map fst cv) then map fst cv else map fst cv ++ [n].
Proof.
  induction cv as [|[k l'] cv IH]; simpl; [reflexivity|].
  destruct (str_eqb k n) eqn:E; simpl; [reflexivity|].
  rewrite IH. destruct (mem n (map fst cv)); reflexivity.
Qed.

Lemma NoDup_set_add (s : list str) n : NoDup s -> NoDup (if mem n s then s else s ++ [n]).
Proof.
  intros H. destruct (mem n s) eqn:E; [assumption|].
  assert (Hn : ~ In n s) by (intros Hin; apply mem_In in Hin; congruence).
  clear E. induction s as [|y s IH]; simpl.
  - constructor; [auto|constructor].
  - inversion H; subst. constructor.
    + intros Hin. apply in_app_or in Hin as [Hin|[<-|[]]]; [contradiction|]. apply Hn. left. reflexivity.
    + apply IH; [assumption|]. intros Hin. apply Hn. right. assumption.
Qed.

Lemma cv_nodup_set cv n l : NoDup (map fst cv) -> NoDup (map fst (cv_set cv n l)).
Proof. intros H. rewrite cv_keys_set. apply NoDup_set_add. assumption. Qed.

Lemma cv_get_absent cv n : ~ In n (map fst cv) -> cv_get cv n = [].
Proof.
  induction cv as [|[k l] cv IH]; simpl; intros H; [reflexivity|].
  destruct (str_eqb k n) eqn:E; [apply str_eqb_eq in E; subst; exfalso; apply H; left; reflexivity|].
  apply IH. intros Hin. apply H. right. assumption.
Qed.

Lemma cv_get_del_same cv n : NoDup (map fst cv) -> cv_get (cv_del cv n) n = [].
Proof.
  induction cv as [|[k l] cv IH]; simpl; intros H; [reflexivity|]. inversion H; subst.
  destruct (str_eqb k n) eqn:E.
  - apply str_eqb_eq in E. subst. apply cv_get_absent. assumption.
  - simpl. rewrite E. apply IH. assumption.
Qed.

Lemma cv_get_del_other cv n m : m <> n -> cv_get (cv_del cv n) m = cv_get cv m.
Proof.
  intros Hne. induction cv as [|[k l] cv IH]; simpl; [reflexivity|].
  destruct (str_eqb k n) eqn:E.
  - apply str_eqb_eq in E. subst k.
    destruct (str_eqb n m) eqn:E'; [apply str_eqb_eq in E'; congruence|reflexivity].
  - simpl. destruct (str_eqb k m); [reflexivity|exact IH].
Qed.

Lemma cv_del_keys_incl cv n x : In x (map fst (cv_del cv n)) -> In x (map fst cv).
Proof.
  induction cv as [|[k l] cv IH]; simpl; [auto|].
  destruct (str_eqb k n); simpl; [auto|]. intros [H|H]; [left; assumption|right; apply IH; assumption].
Qed.

Lemma cv_nodup_del cv n : NoDup (map fst cv) -> NoDup (map fst (cv_del cv n)).
Proof.
  induction cv as [|[k l] cv IH]; simpl; intros H; [constructor|]. inversion H; subst.
  destruct (str_eqb k n); [assumption|]. simpl. constructor; [|apply IH; assumption].
  intros Hin. apply cv_del_keys_incl in Hin. contradiction.
Qed.

Lemma assoc_set_same fr n v : assoc (frame_set fr n v) n = Some v.
Proof.
  induction fr as [|[k v'] fr IH]; simpl.
  - rewrite str_eqb_refl. reflexivity.
  - destruct (str_eqb k n) eqn:E; simpl; rewrite E; [reflexivity|exact IH].
Qed.

Lemma assoc_set_other fr n m v : m <> n -> assoc (frame_set fr n v) m = assoc fr m.
Proof.
  intros Hne. induction fr as [|[k v'] fr IH]; simpl.
  - destruct (str_eqb n m) eqn:E; [apply str_eqb_eq in E; congruence|reflexivity].
  - destruct (str_eqb k n) eqn:E; simpl.
    + apply str_eqb_eq in E. subst k.
      destruct (str_eqb n m) eqn:E'; [apply str_eqb_eq in E'; congruence|reflexivity].
    + destruct (str_eqb k m); [reflexivity|exact IH].
Qed.

Lemma keys_frame_set fr n v : keys (frame_set fr n v) = set_add (keys fr) n.
Proof.
  unfold set_add, keys. induction fr as [|[k v'] fr IH]; simpl; [reflexivity|].
  destruct (str_eqb k n) eqn:E; simpl; [reflexivity|].
  rewrite IH. destruct (mem n (map fst fr)); reflexivity.
Qed.

Lemma mem_keys_assoc fr n : mem n (keys fr) = match assoc fr n with Some _ => true | None => false end.
Proof.
  unfold keys. induction fr as [|[k v] fr IH]; simpl; [reflexivity|].
  destruct (str_eqb k n); [reflexivity|exact IH].
Qed.

(* ------------------------------------------------------------------ the refinement relation *)

(* (values, sibling set) of UpdateCounters against the frames; K0 = the key
   sets of the outer frames (they do not change) *)
Definition P (K0 : list (list str)) (st : cvalues * list str) (fs : frames) : Prop :=
  exists fr outer, fs = fr :: outer /\ snd st = keys fr /\ map keys outer = K0 /\
                   NoDup (map fst (fst st)) /\
                   forall n, cv_get (fst st) n = instances fs n.

Record R (st : state) (fs : frames) : Prop := mkR {
  R_scopes : st_scopes st = rev (map keys fs);
  R_nodup : NoDup (map fst (st_values st));
  R_get : forall n, cv_get (st_values st) n = instances fs n
}.

Lemma clamp_eq v : clamp_counter v = clamp v.
Proof.
  unfold clamp_counter, clamp, max_i32, min_i32.
  destruct (Z.gtb_spec v (2 ^ 31 - 1)); [lia|]. destruct (Z.ltb_spec v (- 2 ^ 31)); lia.
Qed.

Lemma removelast_snoc' {A} (l : list A) x : removelast (l ++ [x]) = l.
Proof. rewrite removelast_app by discriminate. simpl. apply app_nil_r. Qed.

Lemma last_snoc' {A} (l : list A) x d : last (l ++ [x]) d = x.
Proof.
  induction l as [|y l IH]; [reflexivity|]. simpl.
  destruct (l ++ [x]) eqn:E; [destruct l; discriminate|exact IH].
Qed.

(* counter-reset *)
Lemma do_reset_P K0 st fs ci :
  P K0 st fs -> exists st', do_reset st ci = Ok st' /\ P K0 st' (s_reset fs ci).
Proof.
  intros (fr & outer & -> & Hsib & HK & Hnd & Hget). destruct st as [cv sib]. simpl in *. subst sib.
  destruct ci as [n v]. unfold do_reset. rewrite mem_keys_assoc, Hget. cbn [instances s_reset].
  destruct (assoc fr n) as [old|] eqn:Ea.
  - (* replaces the instance created by a previous sibling *)
    unfold drop_last. destruct (instances outer n ++ [old]) eqn:E; [destruct (instances outer n); discriminate|].
    rewrite <- E. cbn [bind]. rewrite removelast_snoc', clamp_eq.
    eexists. split; [reflexivity|].
    exists (frame_set fr n (clamp v)), outer. cbn [fst snd]. repeat split; try assumption.
    + rewrite keys_frame_set. unfold set_add. rewrite mem_keys_assoc, Ea. reflexivity.
    + apply cv_nodup_set. assumption.
    + intros m. cbn [instances]. destruct (list_eq_dec N.eq_dec m n) as [->|Hne].
      * rewrite cv_get_set_same, assoc_set_same. reflexivity.
      * rewrite cv_get_set_other, assoc_set_other by assumption. apply Hget.
  - rewrite app_nil_r, clamp_eq. eexists. split; [reflexivity|].
    exists (frame_set fr n (clamp v)), outer. cbn [fst snd]. repeat split; try assumption.
    + rewrite keys_frame_set. reflexivity.
    + apply cv_nodup_set. assumption.
    + intros m. cbn [instances]. destruct (list_eq_dec N.eq_dec m n) as [->|Hne].
      * rewrite cv_get_set_same, assoc_set_same. reflexivity.
      * rewrite cv_get_set_other, assoc_set_other by assumption. apply Hget.
Qed.

(* counter-set / counter-increment *)
Lemma modify_inner_spec g : forall fs n,
  match modify_inner g fs n with
  | Some fs' =>
      instances fs n <> [] /\
      instances fs' n = removelast (instances fs n) ++ [g (last (instances fs n) 0)] /\
      (forall m, m <> n -> instances fs' m = instances fs m) /\
      map keys fs' = map keys fs
  | None => instances fs n = []
  end.
Proof.
  induction fs as [|fr outer IH]; intros n; cbn [modify_inner instances]; [reflexivity|].
  destruct (assoc fr n) as [old|] eqn:Ea.
  - split; [destruct (instances outer n); discriminate|]. split; [|split].
    + cbn [instances]. rewrite assoc_set_same, removelast_snoc', last_snoc'. reflexivity.
    + intros m Hm. cbn [instances]. rewrite assoc_set_other by assumption. reflexivity.
    + cbn [map]. rewrite keys_frame_set. unfold set_add. rewrite mem_keys_assoc, Ea. reflexivity.
  - specialize (IH n). destruct (modify_inner g outer n) as [outer'|]; cbn [option_map].
    + destruct IH as (H1 & H2 & H3 & H4). rewrite app_nil_r. split; [assumption|]. split; [|split].
      * cbn [instances]. rewrite Ea, app_nil_r. assumption.
      * intros m Hm. cbn [instances]. rewrite H3 by assumption. reflexivity.
      * cbn [map]. rewrite H4. reflexivity.
    + rewrite IH. reflexivity.
Qed.

Lemma do_modify_P K0 f st fs n v :
  P K0 st fs -> P K0 (do_modify f st (CI n v)) (s_modify (fun old => f old v) fs n).
Proof.
  intros (fr & outer & -> & Hsib & HK & Hnd & Hget). destruct st as [cv sib]. cbn [fst snd] in *. subst sib.
  unfold do_modify, s_modify. rewrite Hget.
  pose proof (modify_inner_spec (fun old => f old v) (fr :: outer) n) as Hm.
  destruct (modify_inner (fun old => f old v) (fr :: outer) n) as [fs'|] eqn:Em.
  - destruct Hm as (H1 & H2 & H3 & H4).
    destruct (instances (fr :: outer) n) as [|x l] eqn:Ei; [contradiction|].
    destruct fs' as [|fr' outer']; [discriminate|]. cbn [map] in H4. injection H4 as H4a H4b.
    exists fr', outer'. cbn [fst snd]. repeat split; try congruence.
    + apply cv_nodup_set. assumption.
    + intros m. destruct (list_eq_dec N.eq_dec m n) as [->|Hne].
      * rewrite cv_get_set_same. symmetry. assumption.
      * rewrite cv_get_set_other by assumption. rewrite H3 by assumption. apply Hget.
  - rewrite Hm.
    assert (Ha : assoc fr n = None).
    { cbn [instances] in Hm. destruct (assoc fr n); [destruct (instances outer n); discriminate|reflexivity]. }
    exists (frame_set fr n (f 0 v)), outer. cbn [fst snd]. repeat split; try assumption.
    + rewrite keys_frame_set. reflexivity.
    + apply cv_nodup_set. assumption.
    + intros m. cbn [instances]. destruct (list_eq_dec N.eq_dec m n) as [->|Hne].
      * rewrite cv_get_set_same, assoc_set_same.
        cbn [instances] in Hm. rewrite Ha, app_nil_r in Hm. rewrite Hm. reflexivity.
      * rewrite cv_get_set_other, assoc_set_other by assumption.
        specialize (Hget m). cbn [instances] in Hget. exact Hget.
Qed.

Lemma fold_reset_P K0 : forall l st fs,
  P K0 st fs -> exists st', fold_res do_reset l st = Ok st' /\ P K0 st' (fold_left s_reset l fs).
Proof.
  induction l as [|ci l IH]; intros st fs HP; simpl; [eauto|].
  destruct (do_reset_P K0 st fs ci HP) as (st1 & E1 & HP1). rewrite E1. cbn [bind]. apply IH. assumption.
Qed.

Lemma modify_inner_ext g g' : (forall x, g x = g' x) -> forall fs n, modify_inner g fs n = modify_inner g' fs n.
Proof.
  intros H. induction fs as [|fr outer IH]; intros n; cbn [modify_inner]; [reflexivity|].
  destruct (assoc fr n); [rewrite H; reflexivity|rewrite IH; reflexivity].
Qed.

Lemma s_modify_ext g g' fs n : (forall x, g x = g' x) -> s_modify g fs n = s_modify g' fs n.
Proof.
  intros H. unfold s_modify. rewrite (modify_inner_ext g g' H).
  destruct (modify_inner g' fs n); [reflexivity|]. destruct fs; [reflexivity|]. rewrite H. reflexivity.
Qed.

Lemma fold_set_P K0 : forall l st fs,
  P K0 st fs ->
  P K0 (fold_left (do_modify (fun _ v => clamp_counter v)) l st) (fold_left s_set l fs).
Proof.
  induction l as [|[n v] l IH]; intros st fs HP; simpl; [assumption|].
  apply IH. unfold s_set.
  rewrite (s_modify_ext _ (fun old : Z => (fun (_ v : Z) => clamp_counter v) old v))
    by (intros; cbv beta; symmetry; apply clamp_eq).
  apply do_modify_P. assumption.
Qed.

Lemma fold_incr_P K0 : forall l st fs,
  P K0 st fs ->
  P K0 (fold_left (do_modify (fun old v => clamp_counter (old + clamp_counter v))) l st)
       (fold_left s_increment l fs).
Proof.
  induction l as [|[n v] l IH]; intros st fs HP; simpl; [assumption|].
  apply IH. unfold s_increment.
  rewrite (s_modify_ext _ (fun old : Z => (fun old v : Z => clamp_counter (old + clamp_counter v)) old v))
    by (intros; cbv beta; rewrite !clamp_eq; reflexivity).
  apply do_modify_P. assumption.
Qed.

(* ------------------------------------------------------------------ UpdateCounters *)

Lemma with_sibling_snoc site (l : list (list str)) s : with_sibling site (l ++ [s]) = Ok (l, s).
Proof. unfold with_sibling. rewrite rev_app_distr. simpl. rewrite rev_involutive. reflexivity. Qed.

Lemma update_counters_R st fs p :
  R st fs -> fs <> [] ->
  exists st', update_counters st p = Ok st' /\ R st' (s_update fs p) /\ length (s_update fs p) = length fs.
Proof.
  intros [Hsc Hnd Hget] Hne. destruct fs as [|fr outer]; [contradiction|].
  unfold update_counters. rewrite Hsc. cbn [map rev]. rewrite with_sibling_snoc. cbn [bind].
  assert (HP0 : P (map keys outer) (st_values st, keys fr) (fr :: outer)).
  { exists fr, outer. cbn [fst snd]. auto. }
  destruct (fold_reset_P _ (cp_reset p) _ _ HP0) as (st1 & E1 & HP1). rewrite E1. cbn [bind].
  pose proof (fold_set_P _ (cp_set p) _ _ HP1) as HP2.
  set (incr := if cp_incr_auto p then if cp_list_item p then [CI s_list_item 1] else [] else cp_incr p).
  pose proof (fold_incr_P _ incr _ _ HP2) as HP3.
  unfold s_update. fold incr.
  destruct (fold_left (do_modify (fun old v => clamp_counter (old + clamp_counter v))) incr
              (fold_left (do_modify (fun _ v => clamp_counter v)) (cp_set p) st1)) as [cv sib'].
  destruct HP3 as (fr' & outer' & E & Hsib & HK & Hnd' & Hget'). cbn [fst snd] in *.
  eexists. split; [reflexivity|]. rewrite E. split.
  - constructor; cbn [st_scopes st_values].
    + cbn [map rev]. rewrite HK, Hsib. reflexivity.
    + assumption.
    + intros n. rewrite <- E. apply Hget'.
  - cbn [length]. rewrite <- (map_length keys outer'), HK, map_length. reflexivity.
Qed.

(* ------------------------------------------------------------------ scope push / pop *)

Lemma push_R st fs : R st fs -> R (St (st_values st) (st_scopes st ++ [[]])) ([] :: fs).
Proof.
  intros [Hsc Hnd Hget]. constructor; cbn [st_scopes st_values].
  - cbn [map rev keys]. rewrite Hsc. reflexivity.
  - assumption.
  - intros n. cbn [instances assoc]. rewrite app_nil_r. apply Hget.
Qed.

(* popping the names of the frame one by one *)
Lemma pop_fold fr outer : forall (ks : list str) cv,
  NoDup ks -> NoDup (map fst cv) ->
  (forall n, cv_get cv n = instances outer n ++
             (if mem n ks then match assoc fr n with Some v => [v] | None => [] end else [])) ->
  (forall n, In n ks -> assoc fr n <> None) ->
  exists cv', fold_res (fun cv n =>
                let* l := drop_last 311 (cv_get cv n) in
                match l with [] => Ok (cv_del cv n) | _ => Ok (cv_set cv n l) end) ks cv = Ok cv' /\
              NoDup (map fst cv') /\ forall n, cv_get cv' n = instances outer n.
Proof.
  induction ks as [|k ks IH]; intros cv Hks Hnd Hget Hin.
  - exists cv. split; [reflexivity|]. split; [assumption|]. intros n. rewrite Hget. simpl. apply app_nil_r.
  - inversion Hks as [|? ? Hk Hks']; subst. cbn [fold_res].
    assert (Hgk : cv_get cv k = instances outer k ++ match assoc fr k with Some v => [v] | None => [] end).
    { rewrite Hget. simpl. rewrite str_eqb_refl. reflexivity. }
    destruct (assoc fr k) as [v|] eqn:Ea; [|exfalso; apply (Hin k); [left; reflexivity|assumption]].
    rewrite Hgk. unfold drop_last.
    destruct (instances outer k ++ [v]) eqn:E; [destruct (instances outer k); discriminate|].
    rewrite <- E. cbn [bind]. rewrite removelast_snoc'.
    assert (Hmemk : forall n, n <> k -> mem n (k :: ks) = mem n ks).
    { intros n Hn. simpl. destruct (str_eqb k n) eqn:E'; [apply str_eqb_eq in E'; congruence|reflexivity]. }
    assert (Hnotin : mem k ks = false).
    { destruct (mem k ks) eqn:E'; [apply mem_In in E'; contradiction|reflexivity]. }
    destruct (instances outer k) as [|x0 l0] eqn:Ei.
    + apply IH; [assumption|apply cv_nodup_del; assumption| |].
      * intros n. destruct (list_eq_dec N.eq_dec n k) as [->|Hne].
        -- rewrite cv_get_del_same by assumption. rewrite Ei, Hnotin. reflexivity.
        -- rewrite cv_get_del_other by assumption. rewrite Hget, Hmemk by assumption. reflexivity.
      * intros n Hn. apply Hin. right. assumption.
    + apply IH; [assumption|apply cv_nodup_set; assumption| |].
      * intros n. destruct (list_eq_dec N.eq_dec n k) as [->|Hne].
        -- rewrite cv_get_set_same. rewrite Ei, Hnotin, app_nil_r. reflexivity.
        -- rewrite cv_get_set_other by assumption. rewrite Hget, Hmemk by assumption. reflexivity.
      * intros n Hn. apply Hin. right. assumption.
Qed.

Definition frames_ok (fs : frames) : Prop := Forall (fun fr => NoDup (keys fr)) fs.

Lemma pop_R st fr outer :
  R st (fr :: outer) -> NoDup (keys fr) ->
  exists st', pop_scope st = Ok st' /\ R st' outer.
Proof.
  intros [Hsc Hnd Hget] Hfr. unfold pop_scope. rewrite Hsc. cbn [map rev]. rewrite with_sibling_snoc. cbn [bind].
  destruct (pop_fold fr outer (keys fr) (st_values st) Hfr Hnd) as (cv' & E & Hnd' & Hget').
  - intros n. rewrite Hget. cbn [instances]. rewrite mem_keys_assoc. destruct (assoc fr n); reflexivity.
  - intros n Hn. apply mem_In in Hn. rewrite mem_keys_assoc in Hn. destruct (assoc fr n); [discriminate|discriminate].
  - rewrite E. cbn [bind]. eexists. split; [reflexivity|]. constructor; cbn [st_scopes st_values]; auto.
Qed.

(* frames keep duplicate-free key lists *)
Lemma keys_set_nodup fr n v : NoDup (keys fr) -> NoDup (keys (frame_set fr n v)).
Proof. intros H. rewrite keys_frame_set. unfold set_add. apply NoDup_set_add. assumption. Qed.

Lemma s_reset_ok fs ci : frames_ok fs -> frames_ok (s_reset fs ci).
Proof.
  destruct ci as [n v]. destruct fs as [|fr outer]; simpl; [auto|]. intros H. inversion H; subst.
  constructor; [apply keys_set_nodup; assumption|assumption].
Qed.

Lemma modify_inner_ok g : forall fs n fs', frames_ok fs -> modify_inner g fs n = Some fs' -> frames_ok fs'.
Proof.
  induction fs as [|fr outer IH]; intros n fs' H E; cbn [modify_inner] in E; [discriminate|].
  inversion H; subst. destruct (assoc fr n).
  - injection E as <-. constructor; [apply keys_set_nodup; assumption|assumption].
  - destruct (modify_inner g outer n) as [o'|] eqn:Eo; [|discriminate]. injection E as <-.
    constructor; [assumption|]. eapply IH; eassumption.
Qed.

Lemma s_modify_ok g fs n : frames_ok fs -> frames_ok (s_modify g fs n).
Proof.
  intros H. unfold s_modify. destruct (modify_inner g fs n) eqn:E; [eapply modify_inner_ok; eassumption|].
  destruct fs as [|fr outer]; [assumption|]. inversion H; subst.
  constructor; [apply keys_set_nodup; assumption|assumption].
Qed.

Lemma s_update_ok fs p : frames_ok fs -> frames_ok (s_update fs p).
Proof.
  intros H. unfold s_update.
  assert (H1 : forall l fs, frames_ok fs -> frames_ok (fold_left s_reset l fs)).
  { induction l; simpl; intros; [assumption|]. apply IHl. apply s_reset_ok. assumption. }
  assert (H2 : forall l fs, frames_ok fs -> frames_ok (fold_left s_set l fs)).
  { induction l as [|[n v] l IHl]; simpl; intros; [assumption|]. apply IHl. apply s_modify_ok. assumption. }
  assert (H3 : forall l fs, frames_ok fs -> frames_ok (fold_left s_increment l fs)).
  { induction l as [|[n v] l IHl]; simpl; intros; [assumption|]. apply IHl. apply s_modify_ok. assumption. }
  apply H3, H2, H1. assumption.
Qed.

(* ------------------------------------------------------------------ content *)

Lemma content_text_R c st fs items :
  R st fs -> content_text c (st_values st) items = s_content c fs items.
Proof.
  intros [_ _ Hget]. unfold content_text, s_content.
  generalize (@nil N). induction items as [|it items IH]; intros acc; [reflexivity|].
  cbn [fold_res]. destruct it as [s|n sid|n sep sid]; rewrite ?Hget.
  - cbn [bind]. apply IH.
  - destruct (sid_name_is_none sid); [cbn [bind]; apply IH|].
    destruct (RenderValueStyle c _ sid); cbn [bind]; [apply IH|reflexivity|reflexivity].
  - destruct (sid_name_is_none sid); [cbn [bind]; apply IH|].
    destruct (map_res _ _); cbn [bind]; [apply IH|reflexivity|reflexivity].
Qed.

Lemma marker_text_R c st fs mk : R st fs -> marker_text c (st_values st) mk = s_marker c fs mk.
Proof.
  intros HR. destruct mk as [|sid|items]; cbn [marker_text s_marker]; [reflexivity| |].
  - destruct HR as [_ _ Hget]. rewrite Hget. reflexivity.
  - rewrite (content_text_R c st fs items HR). reflexivity.
Qed.

(* ------------------------------------------------------------------ the traversal *)

(* results of the model and of the specification agree: same outputs, related
   states; the only failures are those of the rendering functions, identical *)
Definition sim (len : nat) (r1 : res (state * list oitem)) (r2 : res (frames * list oitem)) : Prop :=
  match r1, r2 with
  | Ok (st', o1), Ok (fs', o2) => o1 = o2 /\ R st' fs' /\ frames_ok fs' /\ length fs' = len
  | Panic a, Panic b => a = b
  | OutOfFuel, OutOfFuel => True
  | _, _ => False
  end.

Lemma pseudo_sim c mkout st fs p :
  R st fs -> frames_ok fs -> fs <> [] ->
  sim (length fs) (pseudo_to_box c mkout st p) (s_pseudo c mkout fs p).
Proof.
  intros HR Hok Hne. destruct p as [[props mk content]|]; cbn [pseudo_to_box s_pseudo].
  - destruct (update_counters_R st fs props HR Hne) as (st' & E & HR' & Hlen). rewrite E. cbn [bind].
    assert (Hm : (if cp_list_item props then marker_text c (st_values st') mk else Ok []) =
                 (if cp_list_item props then s_marker c (s_update fs props) mk else Ok [])).
    { destruct (cp_list_item props); [apply marker_text_R; assumption|reflexivity]. }
    rewrite Hm. destruct (if cp_list_item props then s_marker c (s_update fs props) mk else Ok []) as [m| |]; cbn [bind sim]; auto.
    rewrite (content_text_R c st' _ content HR').
    destruct (s_content c (s_update fs props) content); cbn [bind sim]; auto.
    split; [reflexivity|]. split; [assumption|]. split; [apply s_update_ok; assumption|assumption].
  - cbn [sim]. auto.
Qed.

(* a ::before / ::after with display: list-item and a counter-style marker:
   the model generates exactly the marker text and the content text, both
   computed on the instances as they are AFTER the pseudo-element's own
   counter-reset / -set / -increment (implicit list-item increment included) *)
Definition innermost (fs : frames) (n : str) : Z :=
  match instances fs n with [] => 0 | l => last l 0 end.

Lemma pseudo_list_item_marker c mkout st fs props sid content st' out :
  R st fs -> frames_ok fs -> fs <> [] -> cp_list_item props = true ->
  pseudo_to_box c mkout st (Some (Pseudo props (MkNormal sid) content)) = Ok (st', out) ->
  exists m s, out = [OMarker m; mkout s]
              /\ RenderMarker c sid (innermost (s_update fs props) s_list_item) = Ok m
              /\ s_content c (s_update fs props) content = Ok s
              /\ R st' (s_update fs props).
Proof.
  intros HR Hok Hne Hli E.
  pose proof (pseudo_sim c mkout st fs (Some (Pseudo props (MkNormal sid) content)) HR Hok Hne) as H.
  rewrite E in H. cbn [s_pseudo] in H. rewrite Hli in H. cbn [s_marker] in H.
  fold (innermost (s_update fs props) s_list_item) in H.
  destruct (RenderMarker c sid (innermost (s_update fs props) s_list_item)) as [m| |]; cbn [bind sim] in H; try contradiction.
  destruct (s_content c (s_update fs props) content) as [s| |]; cbn [bind sim] in H; try contradiction.
  destruct H as (-> & HR' & _). exists m, s. cbn [app]. auto.
Qed.

Section ElemInd.
Variable Pr : elem -> Prop.
Hypothesis Hstep : forall skip props mk before after children,
  Forall Pr children -> Pr (Elem skip props mk before after children).
Fixpoint elem_ind' (e : elem) : Pr e :=
  match e with
  | Elem skip props mk before after children =>
      Hstep skip props mk before after children
            ((fix go (l : list elem) : Forall Pr l :=
                match l with [] => Forall_nil _ | x :: r => Forall_cons x (elem_ind' x) (go r) end) children)
  end.
End ElemInd.

Theorem element_sim c : forall e st fs,
  R st fs -> frames_ok fs -> fs <> [] ->
  sim (length fs) (element_to_box c e st) (s_element c e fs).
Proof.
  induction e as [skip props mk before after children IHc] using elem_ind'.
  intros st fs HR Hok Hne. cbn [element_to_box s_element].
  destruct skip; [cbn [sim]; auto|].
  destruct (update_counters_R st fs props HR Hne) as (st1 & E1 & HR1 & Hlen1). rewrite E1. cbn [bind].
  pose proof (push_R st1 _ HR1) as HR2.
  set (st2 := St (st_values st1) (st_scopes st1 ++ [[]])) in *.
  set (fs2 := [] :: s_update fs props) in *.
  assert (Hok2 : frames_ok fs2) by (constructor; [constructor|apply s_update_ok; assumption]).
  assert (Hne2 : fs2 <> []) by discriminate.
  assert (Hlen2 : length fs2 = S (length fs)) by (unfold fs2; cbn [length]; f_equal; exact Hlen1).
  (* marker *)
  assert (Hm : (if cp_list_item props then marker_text c (st_values st2) mk else Ok []) =
               (if cp_list_item props then s_marker c fs2 mk else Ok [])).
  { destruct (cp_list_item props); [apply marker_text_R; assumption|reflexivity]. }
  rewrite Hm. destruct (if cp_list_item props then s_marker c fs2 mk else Ok []) as [m| |]; cbn [bind sim]; auto.
  (* ::before *)
  pose proof (pseudo_sim c OBefore st2 fs2 before HR2 Hok2 Hne2) as Hb.
  destruct (pseudo_to_box c OBefore st2 before) as [[st3 b]| |], (s_pseudo c OBefore fs2 before) as [[fs3 b']| |];
    cbn [sim] in Hb; try contradiction; cbn [bind sim]; auto.
  destruct Hb as (<- & HR3 & Hok3 & Hlen3).
  (* children *)
  assert (Hkids : forall l, Forall (fun e => forall st fs, R st fs -> frames_ok fs -> fs <> [] ->
                                  sim (length fs) (element_to_box c e st) (s_element c e fs)) l ->
            forall st fs, R st fs -> frames_ok fs -> fs <> [] ->
            sim (length fs)
              ((fix go (l : list elem) (st : state) : res (state * list oitem) :=
                  match l with
                  | [] => Ok (st, [])
                  | ch :: r => let* (st, o1) := element_to_box c ch st in
                               let* (st, o2) := go r st in Ok (st, o1 ++ o2)
                  end) l st)
              ((fix go (l : list elem) (fs : frames) : res (frames * list oitem) :=
                  match l with
                  | [] => Ok (fs, [])
                  | ch :: r => let* (fs, o1) := s_element c ch fs in
                               let* (fs, o2) := go r fs in Ok (fs, o1 ++ o2)
                  end) l fs)).
  { induction l as [|ch r IHr]; intros HF st' fs' HR' Hok' Hne'; [cbn [sim]; auto|].
    inversion HF as [|? ? Hch HFr]; subst.
    specialize (Hch st' fs' HR' Hok' Hne').
    destruct (element_to_box c ch st') as [[sta o1]| |], (s_element c ch fs') as [[fsa o1']| |];
      cbn [sim] in Hch; try contradiction; cbn [bind sim]; auto.
    destruct Hch as (<- & HRa & Hoka & Hlena).
    assert (Hnea : fsa <> []) by (destruct fsa; [destruct fs'; [contradiction|discriminate]|discriminate]).
    specialize (IHr HFr sta fsa HRa Hoka Hnea).
    match goal with
    | H : sim _ ?a ?b |- _ => destruct a as [[stb o2]| |], b as [[fsb o2']| |];
                              cbn [sim] in H; try contradiction; cbn [bind sim]; auto
    end.
    destruct IHr as (<- & HRb & Hokb & Hlenb). split; [reflexivity|]. split; [assumption|]. split; [assumption|]. rewrite Hlenb. exact Hlena. }
  assert (Hl3 : length fs3 = S (length fs)) by exact (eq_trans Hlen3 Hlen2).
  assert (Hne3 : fs3 <> []) by (destruct fs3; [discriminate|discriminate]).
  specialize (Hkids children IHc st3 fs3 HR3 Hok3 Hne3).
  match goal with
  | H : sim _ ?a ?b |- _ => destruct a as [[st4 kids]| |], b as [[fs4 kids']| |];
                            cbn [sim] in H; try contradiction; cbn [bind sim]; auto
  end.
  destruct Hkids as (<- & HR4 & Hok4 & Hlen4).
  (* ::after *)
  assert (Hl4 : length fs4 = S (length fs)) by exact (eq_trans Hlen4 Hl3).
  assert (Hne4 : fs4 <> []) by (destruct fs4; [discriminate|discriminate]).
  pose proof (pseudo_sim c OAfter st4 fs4 after HR4 Hok4 Hne4) as Ha.
  destruct (pseudo_to_box c OAfter st4 after) as [[st5 a]| |], (s_pseudo c OAfter fs4 after) as [[fs5 a']| |];
    cbn [sim] in Ha; try contradiction; cbn [bind sim]; auto.
  destruct Ha as (<- & HR5 & Hok5 & Hlen5).
  (* pop *)
  assert (Hl5 : length fs5 = S (length fs)) by exact (eq_trans Hlen5 Hl4).
  destruct fs5 as [|fr5 outer5]; [discriminate|].
  inversion Hok5 as [|? ? Hfr5 Hokouter]; subst.
  destruct (pop_R st5 fr5 outer5 HR5 Hfr5) as (st6 & E6 & HR6). rewrite E6. cbn [bind sim tl].
  split; [reflexivity|]. split; [assumption|]. split; [assumption|].
  simpl in Hl5. lia.
Qed.

Lemma init_R : R init_state s_init.
Proof.
  constructor.
  - reflexivity.
  - cbn [init_state st_values map fst]. constructor; [auto|constructor].
  - intros n. unfold init_state, s_init. cbn [st_values cv_get instances assoc app].
    destruct (str_eqb s_footnote n); reflexivity.
Qed.

(* the texts generated for a document are those of the specification: the
   name -> stack / per-depth set bookkeeping never panics and always denotes
   the instance frames *)
Theorem build_spec c root : build c root = s_build c root.
Proof.
  unfold build, s_build.
  pose proof (element_sim c root init_state s_init init_R) as H.
  specialize (H ltac:(constructor; [constructor; [auto|constructor]|constructor]) ltac:(discriminate)).
  destruct (element_to_box c root init_state) as [[st o]| |], (s_element c root s_init) as [[fs o']| |];
    cbn [sim] in H; try contradiction; cbn [bind].
  - destruct H as (-> & _). reflexivity.
  - congruence.
  - reflexivity.
Qed.
