(* Css/ColorSpec.v -- SPEC: CSS Color Module Level 3 (REC 2018), section 4 "Color units", as a
   function from ONE component value (a token of CSS Syntax 3) to a colour over exact rationals.
   Written from the text of the specification; shares with the model only the token type, the
   `color` result type, `repr_value` (the real number a <number-token> representation denotes)
   and `ascii_lower`.

   4.1   basic colour keywords, 4.3 extended colour keywords: table `spec_keywords` (ColorTables.v,
         from the upstream test-suite), ASCII case-insensitive; component n/255.
   4.2.1 "#" followed by 3 or 6 hexadecimal characters; #rgb = #rrggbb by REPLICATING digits.
         rgb( <integer>#{3} ) | rgb( <percentage>#{3} ): integer 255 = 100%; "values outside the
         device gamut should be clipped" at use, not at parse time: the parsed value keeps them
         (the documented contract of ParseColor: rgb(-10%, 120%, 0%) = (-0.1, 1.2, 0, 1)).
   4.2.2 rgba( ... , <alphavalue> ), alphavalue = <number> clipped to [0, 1].
   4.2.3 transparent = rgba(0,0,0,0).
   4.2.4 hsl( <number>, <percentage>, <percentage> ) with the ABC algorithm of the section; hue
         reduced to [0, 1) as the fractional part of h/360; saturation / lightness clipped to
         [0, 1].  (The hue must be an <integer>-typed number here, as in tinycss2 / WeasyPrint and
         the css-parsing-tests suite: "hsl(120.0, ..)" is invalid.)
   4.2.5 hsla().   4.4 currentColor.

   <integer> (CSS Syntax 3, 4.3.12 / CSS Values 4.2): a <number-token> whose TYPE FLAG is
   "integer", i.e. whose representation has neither a fractional part nor an exponent -- a property
   of the spelling, not of the value: 255.0 and 1e2 are <number>s that are not <integer>s.  The
   flag is carried by the token (`TNumber _ _ true`; Css/Syntax3Spec.v specifies it as "type
   integer and within int64").

   Functional notations take exactly one token per argument, separated by commas, with optional
   white space / comments around (`significant` drops them). *)
From Verif Require Import Css.Token Css.Tok Css.ColorTables Css.Color.
From Coq Require Import List NArith ZArith Bool QArith Qround.
Import ListNotations.
Open Scope N_scope.

(* ------------------------------------------------------------------ numbers *)
Definition lt (x y : Q) : bool := negb (Qle_bool y x).
Definition clip01 (q : Q) : Q :=
  if lt q 0 then 0%Q else if lt 1 q then 1%Q else q.
(* fractional part: q - floor q, in [0, 1) *)
Definition Qfrac (q : Q) : Q := (q - inject_Z (Qfloor q))%Q.
Definition of255 (n : N) : Q := (inject_Z (Z.of_N n) / 255)%Q.

(* ------------------------------------------------------------------ 4.2.1 hexadecimal notation *)
Definition hex_digit (c : N) : option N :=
  if (48 <=? c) && (c <=? 57) then Some (c - 48)
  else if (97 <=? c) && (c <=? 102) then Some (c - 87)
  else if (65 <=? c) && (c <=? 70) then Some (c - 55)
  else None.

Definition spec_hex (v : str) : color :=
  match map hex_digit v with
  | [Some r; Some g; Some b] =>                                     (* #rgb: each digit replicated, 0xRR = 17 * R *)
      ColorRGBA (of255 (17 * r)) (of255 (17 * g)) (of255 (17 * b)) 1
  | [Some r1; Some r0; Some g1; Some g0; Some b1; Some b0] =>
      ColorRGBA (of255 (16 * r1 + r0)) (of255 (16 * g1 + g0)) (of255 (16 * b1 + b0)) 1
  | _ => ColorInvalid
  end.

(* ------------------------------------------------------------------ 4.1, 4.3, 4.2.3, 4.4 keywords *)
Fixpoint lookup (k : str) (l : list (str * (N * N * N))) : option (N * N * N) :=
  match l with
  | [] => None
  | (k', v) :: r => if str_eqb k' k then Some v else lookup k r
  end.

Definition spec_keyword (lower : str) : color :=
  match lookup lower spec_keywords with
  | Some (r, g, b) => ColorRGBA (of255 r) (of255 g) (of255 b) 1
  | None =>
      if str_eqb lower [116; 114; 97; 110; 115; 112; 97; 114; 101; 110; 116] then ColorRGBA 0 0 0 0          (* transparent *)
      else if str_eqb lower [99; 117; 114; 114; 101; 110; 116; 99; 111; 108; 111; 114] then ColorCurrent     (* currentcolor *)
      else ColorInvalid
  end.

(* ------------------------------------------------------------------ argument types *)
Inductive arg_type :=
| AInteger (repr : str)       (* <number-token>, type flag integer *)
| ANumber (repr : str)        (* <number-token>, type flag number *)
| APercentage (repr : str)    (* <percentage-token> *)
| AOther.

Definition arg_type_of (t : token) : arg_type :=
  match t with
  | TNumber _ repr true => AInteger repr
  | TNumber _ repr false => ANumber repr
  | TPercentage _ repr _ => APercentage repr
  | _ => AOther
  end.

Definition significant (l : list token) : list token :=
  filter (fun t => match t with TWhitespace _ _ | TComment _ _ => false | _ => true end) l.
Definition comma (t : token) : bool := match t with TLiteral _ v => str_eqb v [44] | _ => false end.

(* ------------------------------------------------------------------ 4.2.4 HSL: the ABC algorithm, verbatim *)
(* HOW TO RETURN hue.to.rgb(m1, m2, h):
     IF h<0: PUT h+1 IN h
     IF h>1: PUT h-1 IN h
     IF h*6<1: RETURN m1+(m2-m1)*h*6
     IF h*2<1: RETURN m2
     IF h*3<2: RETURN m1+(m2-m1)*(2/3-h)*6
     RETURN m1 *)
Open Scope Q_scope.
Definition spec_hue_to_rgb (m1 m2 h : Q) : Q :=
  let h := if lt h 0 then h + 1 else h in
  let h := if lt 1 h then h - 1 else h in
  if lt (h * 6) 1 then m1 + (m2 - m1) * h * 6
  else if lt (h * 2) 1 then m2
  else if lt (h * 3) 2 then m1 + (m2 - m1) * ((2 # 3) - h) * 6
  else m1.
(* HOW TO RETURN hsl.to.rgb(h, s, l):
     SELECT:
        l<=0.5: PUT l*(s+1) IN m2
        ELSE: PUT l+s-l*s IN m2
     PUT l*2-m2 IN m1
     PUT hue.to.rgb(m1, m2, h+1/3) IN r
     PUT hue.to.rgb(m1, m2, h    ) IN g
     PUT hue.to.rgb(m1, m2, h-1/3) IN b
     RETURN (r, g, b) *)
Definition spec_hsl_to_rgb (h s l : Q) : Q * Q * Q :=
  let m2 := if Qle_bool l (1 # 2) then l * (s + 1) else l + s - l * s in
  let m1 := l * 2 - m2 in
  (spec_hue_to_rgb m1 m2 (h + (1 # 3)), spec_hue_to_rgb m1 m2 h, spec_hue_to_rgb m1 m2 (h - (1 # 3))).

Open Scope N_scope.
(* ------------------------------------------------------------------ functional notations *)
Definition val (repr : str) : Q := repr_value repr.
(* the integer an <integer> denotes: for an integer spelling `val` is that integer and the truncation is the identity
   (ColorProofs.int_val_exact); stated with the truncation so that the specification is total on hand-built tokens *)
Definition int_val (repr : str) : Z := Z.quot (Qnum (val repr)) (Zpos (Qden (val repr))).

(* <integer>#{3} | <percentage>#{3} *)
Definition spec_rgb3 (r g b : token) (alpha : Q) : color :=
  match arg_type_of r, arg_type_of g, arg_type_of b with
  | AInteger r, AInteger g, AInteger b => ColorRGBA (val r / 255) (val g / 255) (val b / 255) alpha
  | APercentage r, APercentage g, APercentage b => ColorRGBA (val r / 100) (val g / 100) (val b / 100) alpha
  | _, _, _ => ColorInvalid
  end.

(* <integer>, <percentage>, <percentage>; the hue angle is an integer number of degrees *)
Definition spec_hsl3 (h s l : token) (alpha : Q) : color :=
  match arg_type_of h, arg_type_of s, arg_type_of l with
  | AInteger h, APercentage s, APercentage l =>
      let '(r, g, b) := spec_hsl_to_rgb (Qfrac (inject_Z (int_val h) / 360)) (clip01 (val s / 100)) (clip01 (val l / 100)) in
      ColorRGBA r g b alpha
  | _, _, _ => ColorInvalid
  end.

(* <alphavalue>: any <number> (integer or not), clipped *)
Definition spec_alpha (t : token) : option Q :=
  match arg_type_of t with
  | AInteger a | ANumber a => Some (clip01 (val a))
  | _ => None
  end.

Definition spec_functional (name : str) (sig : list token) : color :=
  match sig with
  | [a; c1; b; c2; c] =>
      if comma c1 && comma c2 then
        if str_eqb name [114; 103; 98] then spec_rgb3 a b c 1                    (* rgb *)
        else if str_eqb name [104; 115; 108] then spec_hsl3 a b c 1              (* hsl *)
        else ColorInvalid
      else ColorInvalid
  | [a; c1; b; c2; c; c3; d] =>
      if comma c1 && comma c2 && comma c3 then
        match spec_alpha d with
        | Some alpha =>
            if str_eqb name [114; 103; 98; 97] then spec_rgb3 a b c alpha        (* rgba *)
            else if str_eqb name [104; 115; 108; 97] then spec_hsl3 a b c alpha  (* hsla *)
            else ColorInvalid
        | None => ColorInvalid
        end
      else ColorInvalid
  | _ => ColorInvalid
  end.

(* ------------------------------------------------------------------ <color> *)
Definition spec_color (t : token) : color :=
  match t with
  | TIdent _ v => spec_keyword (ascii_lower v)
  | THash _ v _ => spec_hex v
  | TFunction _ name args => spec_functional (ascii_lower name) (significant args)
  | _ => ColorInvalid
  end.

(* a whole value: exactly one significant component value (CSS Syntax 3, 5.3.9 "parse a component value") *)
Definition spec_color_value (ts : list token) : color :=
  match significant ts with
  | [t] => spec_color t
  | _ => ColorInvalid
  end.
