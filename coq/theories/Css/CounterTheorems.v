(* Css/CounterTheorems.v -- the theorems of property C19 about counter styles,
   assembled from CounterProofs (algorithms), CounterTableProofs (generate a
   counter + fallback), CounterExtendsProofs (extends), plus totality on
   every table. *)
From Verif Require Import Base.GoSem Css.Counters Css.CounterSpec Css.CounterAbs Css.CounterProofs
                          Css.CounterTableProofs Css.CounterExtendsProofs Css.CounterSpecFacts.
From Coq Require Import List ZArith NArith Bool Lia ZifyBool ZifyNat ZifyN.
Import ListNotations.
Open Scope Z_scope.

(* ------------------------------------------------------------------ RenderValue = the specification *)

Theorem render_value_spec c n v :
  wf_table c -> in_i64 v ->
  exists s, RenderValue c v n = Ok s /\ counter_repr (abs_table c) n v s.
Proof.
  intros Hwf Hv. exact (RenderValue_spec c Hwf (resolve_counter_spec c Hwf) n v Hv).
Qed.

(* ------------------------------------------------------------------ totality on every table *)

Lemma render_in_range_total d k fx v :
  nonneg_weights d -> exists io, render_in_range d k fx v = Ok io.
Proof.
  intros Hw. unfold render_in_range.
  destruct (if neg_is_zero d then _ else _) as [np nsf].
  set (un := (v <? 0) && uses_negative k).
  set (value := if un then Z.abs v else v).
  assert (Hi : exists io, Counters.initial_repr d k fx value = Ok io).
  { unfold Counters.initial_repr. destruct k eqn:Ek.
    - rewrite repeating_spec. cbn [bind]. eauto.
    - destruct (d_symbols d) eqn:Es; [eauto|]. rewrite <- Es, non_repeating_spec. cbn [bind]. eauto.
    - destruct (d_symbols d) eqn:Es; [eauto|]. rewrite <- Es, symbolic_spec. cbn [bind]. eauto.
    - destruct (Z.ltb_spec (zlen (d_symbols d)) 2); [eauto|].
      destruct (Z.ltb_spec value 1).
      + unfold alphabetic. destruct (Z.ltb_spec (zlen (d_symbols d)) 2); [lia|].
        destruct (Z.ltb_spec value 1); [|lia]. cbn [orb bind]. eauto.
      + destruct (alphabetic_spec (d_symbols d) value ltac:(lia) ltac:(lia)) as (ds & E & _).
        rewrite E. cbn [bind]. eauto.
    - destruct (Z.ltb_spec (zlen (d_symbols d)) 2).
      + unfold numeric. destruct (Z.ltb_spec (zlen (d_symbols d)) 2); [|lia]. cbn [bind]. eauto.
      + destruct (numeric_spec (d_symbols d) value ltac:(lia)) as (ds & E & _). rewrite E. cbn [bind]. eauto.
    - destruct (d_additive d) eqn:Es; [eauto|]. rewrite <- Es.
      assert (H0 : 0 <= value).
      { unfold value, un. destruct (Z.ltb_spec v 0); simpl; lia. }
      rewrite additive_spec by assumption. cbn [bind]. eauto.
    - eauto. }
  destruct Hi as [io ->]. cbn [bind]. destruct io as [s| |]; [|eauto|eauto].
  match goal with |- context [if 0 <? ?pd then _ else _] => destruct (Z.ltb_spec 0 pd) end.
  - rewrite go_repeat_ok by lia. cbn [bind]. eauto.
  - cbn [bind]. eauto.
Qed.

Lemma merge_nonneg a s b : nonneg_weights a -> nonneg_weights b -> nonneg_weights (merge (set_system a s) b).
Proof.
  unfold nonneg_weights, merge, set_system. cbn [d_additive]. intros Ha Hb.
  destruct (d_additive a); assumption.
Qed.

Definition all_nonneg (c : table) : Prop := forall n d, lookup c n = Some d -> nonneg_weights d.

Lemma lookup0_nonneg c n : all_nonneg c -> nonneg_weights (lookup0 c n).
Proof.
  intros H. unfold lookup0. destruct (lookup c n) eqn:E; [eapply H; eassumption|constructor].
Qed.

Lemma resolve_counter_shape c n prev r :
  all_nonneg c -> resolve_counter c n prev = Ok r ->
  r = (None, prev) \/
  exists d', r = (Some d', n :: prev) /\ mem n prev = false /\ lookup c n <> None /\ nonneg_weights d'.
Proof.
  intros Hall. unfold resolve_counter. destruct (lookup c n) as [d|] eqn:El; [|intros H; injection H as <-; auto].
  destruct (mem n prev) eqn:Em; [intros H; injection H as <-; auto|].
  destruct (extends_chain c n) as [chain| |]; cbn [bind]; [|discriminate|discriminate].
  intros H. injection H as <-. right. eexists. split; [reflexivity|]. split; [reflexivity|]. split; [discriminate|].
  assert (Hf : forall l acc, nonneg_weights acc ->
            nonneg_weights (fold_left (fun cnt n0 => let ext := lookup0 c n0 in
                                         merge (set_system cnt (d_system ext)) ext) l acc)).
  { induction l as [|x l IH]; intros acc Ha; simpl; [assumption|].
    apply IH. apply merge_nonneg; [assumption|apply lookup0_nonneg; assumption]. }
  apply Hf. eapply Hall. eassumption.
Qed.

Lemma resolve_non_extends c n d prev :
  lookup c n = Some d -> is_extends d = false -> mem n prev = false ->
  resolve_counter c n prev = Ok (Some d, n :: prev).
Proof.
  intros Hl He Hm. unfold resolve_counter. rewrite Hl, Hm. unfold extends_chain.
  cbn [extends_chain_loop last]. unfold lookup0. rewrite Hl. unfold is_extends in He. rewrite He.
  reflexivity.
Qed.

Lemma abs_sysk_numeric k n : abs_sysk k n = SNumeric -> k = KNumeric.
Proof. destruct k; simpl; intros H; try discriminate; reflexivity. Qed.

Section Total.
Variable c : table.
Hypothesis Htot : total_table c.

Lemma decimal_total_record :
  exists dec, lookup c s_decimal = Some dec /\ is_extends dec = false /\ wfr dec /\
              abs_system dec = SNumeric /\ (d_range_auto dec || range_is_none dec) = true.
Proof.
  destruct Htot as [(dec & Hl & He & Hs & Hsy & Hr) Hall].
  exists dec. repeat split; try assumption.
  - unfold known_system. rewrite system_triple_eta. fold (d_kind dec).
    rewrite abs_system_kind in Hs. apply abs_sysk_numeric in Hs. rewrite Hs. discriminate.
  - unfold enough_symbols. rewrite Hs. assumption.
  - eapply Hall. eassumption.
Qed.

Lemma decimal_call_total f v :
  in_i64 v ->
  exists s, (let* (r, _) := resolve_counter c s_decimal [] in render_value (S f) c v r []) = Ok s.
Proof.
  intros Hv. destruct decimal_total_record as (dec & Hl & He & Hw & Hs & Hr).
  rewrite (resolve_non_extends c s_decimal dec [] Hl He eq_refl). cbn [bind].
  destruct (render_decimal c f v [] Hv dec Hl Hw Hs Hr) as (s & E & _). eauto.
Qed.

Lemma has_decimal_total : has c s_decimal = true.
Proof. destruct decimal_total_record as (dec & Hl & _). unfold has. rewrite Hl. reflexivity. Qed.

Lemma render_none_total g v prev :
  in_i64 v -> (1 <= g)%nat -> exists s, render_value (S g) c v None prev = Ok s.
Proof.
  intros Hv Hg. cbn [render_value]. rewrite has_decimal_total.
  destruct g as [|g']; [lia|]. apply decimal_call_total. assumption.
Qed.

Lemma render_value_total_gen v : in_i64 v -> forall fuel d prev,
  nonneg_weights d -> NoDup prev -> (forall p, In p prev -> lookup c p <> None) ->
  (length c + 3 <= fuel + length prev)%nat ->
  exists s, render_value fuel c v (Some d) prev = Ok s.
Proof.
  intros Hv. destruct Htot as [_ Hall].
  induction fuel as [|f IH]; intros d prev Hw Hnd Hkeys Hfuel.
  - exfalso. pose proof (prev_bound c prev Hnd Hkeys). lia.
  - pose proof (prev_bound c prev Hnd Hkeys) as Hpb.
    cbn [render_value]. destruct (system_triple d) as [[ext sysname] fx].
    destruct ext; [eauto|].
    assert (Hfb : exists s, (let* (r, prev') := resolve_counter c (fallback d) prev in
                             render_value f c v r prev') = Ok s).
    { destruct (resolve_counter_total c (fallback d) prev) as [r Er]. rewrite Er. cbn [bind].
      destruct (resolve_counter_shape c _ _ _ Hall Er) as [-> | (d' & -> & Hm & Hl & Hw')].
      - destruct f as [|f']; [lia|]. apply render_none_total; [assumption|lia].
      - apply IH; try assumption.
        + constructor; [|assumption]. intros Hin. apply mem_In in Hin. congruence.
        + intros p [<-|Hp]; [assumption|apply Hkeys; assumption].
        + simpl. lia. }
    destruct (negb (in_ranges (counter_ranges d (sysk_of sysname)) v)); [exact Hfb|].
    destruct (render_in_range_total d (sysk_of sysname) fx v Hw) as [io ->]. cbn [bind].
    destruct io as [s| |]; [eauto| |exact Hfb].
    destruct f as [|f']; [lia|]. apply decimal_call_total. assumption.
Qed.

(* RenderValue / RenderValueStyle / RenderMarker never panic and never run out of fuel *)
Theorem RenderValue_total n v : in_i64 v -> exists s, RenderValue c v n = Ok s.
Proof.
  intros Hv. unfold RenderValue. destruct Htot as [_ Hall].
  destruct (resolve_counter_total c n []) as [r Er]. rewrite Er. cbn [bind].
  destruct (resolve_counter_shape c _ _ _ Hall Er) as [-> | (d' & -> & Hm & Hl & Hw')].
  - unfold render_fuel. replace (length c + 4)%nat with (S (length c + 3)) by lia.
    apply render_none_total; [assumption|lia].
  - apply render_value_total_gen; try assumption.
    + constructor.
    + intros p [].
    + unfold render_fuel. simpl. lia.
Qed.

Lemma style_descr_nonneg sid r prev :
  resolve_counter_style c sid prev = Ok r ->
  match fst r with Some d => nonneg_weights d | None => True end.
Proof.
  destruct Htot as [_ Hall].
  destruct sid as [n|s|sys args]; cbn [resolve_counter_style].
  - intros Er. destruct (resolve_counter_shape c _ _ _ Hall Er) as [-> | (d' & -> & _ & _ & Hw')]; simpl; auto.
  - intros H. injection H as <-. simpl. constructor.
  - intros H. injection H as <-. simpl. constructor.
Qed.

Lemma resolve_counter_style_total sid prev : exists r, resolve_counter_style c sid prev = Ok r.
Proof. destruct sid; cbn [resolve_counter_style]; [apply resolve_counter_total|eauto|eauto]. Qed.

Theorem RenderValueStyle_total sid v : in_i64 v -> exists s, RenderValueStyle c v sid = Ok s.
Proof.
  intros Hv. unfold RenderValueStyle.
  destruct (resolve_counter_style_total sid []) as [[r prev'] Er]. rewrite Er. cbn [bind].
  pose proof (style_descr_nonneg sid _ _ Er) as Hw. cbn [fst] in Hw.
  destruct r as [d|].
  - apply render_value_total_gen; try assumption.
    + constructor.
    + intros p [].
    + unfold render_fuel. simpl. lia.
  - unfold render_fuel. replace (length c + 4)%nat with (S (length c + 3)) by lia.
    apply render_none_total; [assumption|lia].
Qed.

Theorem RenderMarker_total sid v : in_i64 v -> exists s, RenderMarker c sid v = Ok s.
Proof.
  intros Hv. unfold RenderMarker.
  destruct (resolve_counter_style_total sid []) as [[r prev'] Er]. rewrite Er. cbn [bind].
  pose proof (style_descr_nonneg sid _ _ Er) as Hw. cbn [fst] in Hw.
  assert (Hm : forall d, nonneg_weights d -> exists s, render_marker_of c v d = Ok s).
  { intros d Hd. unfold render_marker_of.
    destruct (render_value_total_gen v Hv (render_fuel c) d [] Hd) as [s ->].
    - constructor.
    - intros p [].
    - unfold render_fuel. simpl. lia.
    - cbn [bind]. eauto. }
  destruct r as [d|]; [apply Hm; assumption|].
  rewrite has_decimal_total.
  destruct decimal_total_record as (dec & Hl & He & Hwd & _).
  rewrite (resolve_non_extends c s_decimal dec [] Hl He eq_refl). cbn [bind].
  apply Hm. destruct Hwd as (_ & _ & _ & H). exact H.
Qed.

End Total.

(* ------------------------------------------------------------------ markers *)

Theorem render_marker_spec c n v :
  wf_table c -> in_i64 v ->
  exists s, RenderMarker c (SidName n) v = Ok s /\ marker_repr (abs_table c) n v s.
Proof.
  intros Hwf Hv. unfold RenderMarker. cbn [resolve_counter_style].
  pose proof (resolve_counter_spec c Hwf) as Hres.
  destruct (lookup c n) as [d|] eqn:El.
  - destruct (Hres n d El) as (d' & Hrc & Hr & Hw & _).
    rewrite (Hrc [] eq_refl). cbn [bind]. unfold render_marker_of.
    destruct (render_value_chain c Hwf Hres n v Hv (render_fuel c) O n d' []) as (s & E & Hs); try assumption.
    + constructor.
    + intros j Hj. lia.
    + intros p [].
    + constructor.
    + intros p [].
    + unfold render_fuel. simpl. lia.
    + rewrite E. cbn [bind]. eexists. split; [reflexivity|].
      left. exists (absr d'), s. split; [assumption|]. split; [assumption|].
      unfold absr, complete. cbn [rs_prefix rs_suffix]. unfold abs_def. cbn [sd_prefix sd_suffix].
      unfold abs_opt_ns.
      destruct (ns_is_none (d_prefix d')) eqn:Ep, (ns_is_none (d_suffix d')) eqn:Es; cbn [dflt];
        rewrite ?(ns_is_none_symbol _ Ep); reflexivity.
  - assert (Er : resolve_counter c n [] = Ok (None, [])) by (unfold resolve_counter; rewrite El; reflexivity).
    rewrite Er. cbn [bind].
    destruct Hwf as [Hdec Hall]. pose proof Hdec as (dec & Hld & Hed & _).
    unfold has. rewrite Hld.
    destruct (Hres s_decimal dec Hld) as (d' & Hrc & Hr & Hw & Hsame). specialize (Hsame Hed). subst d'.
    rewrite (Hrc [] eq_refl). cbn [bind]. unfold render_marker_of.
    destruct (render_value_chain c (conj Hdec Hall) Hres s_decimal v Hv (render_fuel c) O s_decimal dec [])
      as (s & E & Hs); try assumption.
    + constructor.
    + intros j Hj. lia.
    + intros p [].
    + constructor.
    + intros p [].
    + unfold render_fuel. simpl. lia.
    + rewrite E. cbn [bind]. eexists. split; [reflexivity|].
      right. split; [unfold abs_table; rewrite El; reflexivity|].
      exists (absr dec), s. split; [assumption|]. split; [assumption|].
      unfold absr, complete. cbn [rs_prefix rs_suffix]. unfold abs_def. cbn [sd_prefix sd_suffix].
      unfold abs_opt_ns.
      destruct (ns_is_none (d_prefix dec)) eqn:Ep, (ns_is_none (d_suffix dec)) eqn:Es; cbn [dflt];
        rewrite ?(ns_is_none_symbol _ Ep); reflexivity.
Qed.

(* ------------------------------------------------------------------ the specification determines the string *)

Lemma wfr_rs_ok d : wfr d -> rs_ok (absr d).
Proof.
  intros (_ & _ & He & _). unfold rs_ok. rewrite absr_system, absr_symbols, slen_map.
  unfold enough_symbols in He. destruct (abs_system d); auto. lia.
Qed.

Lemma wf_resolved_ok c : wf_table c -> forall m r, resolved (abs_table c) m r -> rs_ok r.
Proof.
  intros Hwf m r Hr.
  assert (Hd : exists d, lookup c m = Some d).
  { destruct (lookup c m) as [d|] eqn:E; [eauto|].
    exfalso. inversion Hr; subst; unfold abs_table in *; rewrite E in *; discriminate. }
  destruct Hd as [d Hl].
  destruct (resolve_counter_spec c Hwf m d Hl) as (d' & _ & Hr' & Hw & _).
  rewrite (resolved_functional _ _ _ Hr _ Hr'). apply wfr_rs_ok. assumption.
Qed.

(* RenderValue returns THE string the specification defines *)
Theorem render_value_unique c n v s :
  wf_table c -> in_i64 v -> counter_repr (abs_table c) n v s -> RenderValue c v n = Ok s.
Proof.
  intros Hwf Hv Hs. destruct (render_value_spec c n v Hwf Hv) as (s' & E & Hs').
  rewrite E. f_equal. apply (counter_repr_functional (abs_table c) (wf_resolved_ok c Hwf) n v); assumption.
Qed.

(* ------------------------------------------------------------------ anonymous styles: symbols() and <string> *)

(* css-counter-styles-3 section 6: "symbols() defines an anonymous counter
   style with no name, a prefix of "" and suffix of " ", a range of auto, a
   fallback of decimal, a negative of "-" (hyphen-minus), a pad of 0 "" ";
   a <string> used as list-style-type is its own marker (one cyclic symbol,
   empty suffix) *)
Definition anon_symbols (s : ssystem) (args : list (list N)) : rstyle :=
  RStyle s args [] ([45]%N, []) [] [32]%N None (0, []) n_decimal.
Definition anon_string (str0 : list N) : rstyle :=
  RStyle SCyclic [str0] [] ([45]%N, []) [] [] None (0, []) n_decimal.

Definition anon_descr (sid : style_id) : option descr :=
  match sid with
  | SidName _ => None
  | SidString s =>
      Some (Descr (ns_string s_minus) (ns_string []) (ns_string []) (ns_string [])
                  s_decimal (Sys false s_cyclic (-1)) 0 ns_zero [ns_string s] [] [] true)
  | SidSymbols sysname args =>
      Some (Descr (ns_string s_minus) (ns_string []) (ns_string []) (ns_string s_space)
                  s_decimal (Sys false sysname (if str_eqb sysname s_fixed then 1 else -1))
                  0 ns_zero (map ns_string args) [] [] true)
  end.

Lemma map_symbol_ns_string l : map symbol (map ns_string l) = l.
Proof. induction l as [|x l IH]; simpl; [reflexivity|rewrite IH; reflexivity]. Qed.

Lemma anon_string_abs s d : anon_descr (SidString s) = Some d -> absr d = anon_string s.
Proof. intros H. injection H as <-. reflexivity. Qed.

Lemma anon_symbols_abs sysname args d :
  anon_descr (SidSymbols sysname args) = Some d -> absr d = anon_symbols (abs_system d) args.
Proof.
  intros H. injection H as <-. unfold absr, complete, anon_symbols, abs_def. simpl.
  rewrite map_symbol_ns_string. reflexivity.
Qed.

(* the representation in an anonymous style: the style's own, else decimal *)
Theorem render_value_style_anon c sid d v :
  wf_table c -> in_i64 v -> anon_descr sid = Some d -> wfr d ->
  exists s, RenderValueStyle c v sid = Ok s /\
            (style_repr (absr d) v (Some s) \/
             (style_repr (absr d) v None /\ decimal_repr (abs_table c) v s)).
Proof.
  intros Hwf Hv Ha Hw.
  pose proof (resolve_counter_spec c Hwf) as Hres.
  assert (Hrs : resolve_counter_style c sid [] = Ok (Some d, [])).
  { destruct sid; simpl in Ha; [discriminate| |]; injection Ha as <-; reflexivity. }
  assert (Hfb : fallback d = s_decimal).
  { destruct sid; simpl in Ha; [discriminate| |]; injection Ha as <-; reflexivity. }
  unfold RenderValueStyle. rewrite Hrs. cbn [bind].
  unfold render_fuel. replace (length c + 4)%nat with (S (length c + 3)) by lia.
  cbn [render_value]. rewrite system_triple_eta, system_triple_ext.
  destruct Hw as (He & Hk & Hen & Hnn). rewrite He. fold (d_kind d).
  assert (Hw : wfr d) by (repeat split; assumption).
  destruct (decimal_record c Hwf Hres) as (dec & Hl & Hrc & Hrd & Hwd & Hsd & Hrr).
  assert (Hdecimal : exists s, (let* (r, prev') := resolve_counter c (fallback d) [] in
                                render_value (length c + 3) c v r prev') = Ok s /\
                               decimal_repr (abs_table c) v s).
  { rewrite Hfb, (Hrc [] eq_refl). cbn [bind].
    replace (length c + 3)%nat with (S (length c + 2)) by lia.
    destruct (render_decimal c (length c + 2) v [s_decimal] Hv dec Hl Hwd Hsd Hrr) as (s & E & Hs).
    exists s. split; [exact E|]. exists (absr dec). split; assumption. }
  destruct (in_ranges (counter_ranges d (d_kind d)) v) eqn:Ein; cbn [negb].
  - apply in_ranges_spec in Ein; [|assumption].
    destruct (render_in_range_spec d v Hw Hv) as (io & Hio & Hrr'). rewrite Hrr'. cbn [bind].
    destruct io as [s0|]; cbn [option_map].
    + eexists. split; [reflexivity|]. left. right. split; [assumption|].
      exists (Some s0). split; [assumption|reflexivity].
    + destruct Hdecimal as (s & E & Hs). exists s. split; [exact E|]. right. split; [|assumption].
      right. split; [assumption|]. exists None. split; [assumption|reflexivity].
  - destruct Hdecimal as (s & E & Hs). exists s. split; [exact E|]. right. split; [|assumption].
    left. split; [|reflexivity]. intros Hin. apply in_ranges_spec in Hin; [|assumption]. congruence.
Qed.
