(* Css/ColorMq.v -- control-flow models of the colour parser and of the media
   query parser (C07): which token shapes are accepted, and every slice index
   on the way.  Numeric colour values are not modelled (C07 is about crashes).

   Ported:
     ParseColor, parseAlpha, parseRgb, parseHsl, parseCommaSeparated
                                       /repo/css/parser/colors.go:299-361, 365-413, 455-472
     hashRegexps + mustParseHexa       colors.go:17-20, 277-283 (explicit panic: site 814)
     parseMediaQuery                   /repo/html/tree/media_query.go:21-40
     SplitOnComma                      /repo/css/parser/tokenizer.go:911-926
     @import prelude                   /repo/html/tree/style.go (case "import": tokens[0], tokens[1:])
   Tokens: `ptok` of Css/PageSel.v.  Panic sites:
     800 filtered[0]  801 filtered[i]  802 filtered[i+1]        (parseCommaSeparated)
     803 args[3:] 804 args[:3] (rgba)   805 args[3:] 806 args[:3] (hsla)
     807-809 args[0..2] (parseRgb)  810-812 args[0..2] (parseHsl)  813 args[0] (parseAlpha)
     814 mustParseHexa panic("unexpected error")
     820 part[0] (parseMediaQuery)   821 tokens[0]  822 tokens[1:] (@import)
   NO PROOFS here (Css/ColorMqProofs.v). *)
From Verif Require Import Base.GoSem Base.GoStrings Css.Urls Css.PageSel.
From Coq Require Import List ZArith NArith Bool.
Import ListNotations.
Open Scope Z_scope.

(* ------------------------------------------------------------------ parseCommaSeparated *)
Definition is_comma (t : ptok) : bool :=
  match t with PLit v => list_eqb v s_comma | _ => false end.

(* for i := 1; i < len(filtered); i += 2 *)
Fixpoint pcs_loop (fuel : nat) (filtered : list ptok) (i : Z) (others : list ptok) : res (option (list ptok)) :=
  match fuel with
  | O => OutOfFuel
  | S f =>
    if i <? len filtered then
      let* token := index 801 filtered i in
      let* nxt := index 802 filtered (i + 1) in
      let others := nxt :: others in
      if negb (is_comma token) then Ok None               (* isAll = false; break *)
      else pcs_loop f filtered (i + 2) others
    else Ok (Some (rev others))
  end.

(* colors.go:455-472; Ok None = nil *)
Definition parse_comma_separated (tokens : list ptok) : res (option (list ptok)) :=
  let filtered := remove_whitespace tokens in
  if Z.rem (len filtered) 2 =? 1 then
    let* first := index 800 filtered 0 in
    pcs_loop (S (length filtered)) filtered 1 [first]
  else Ok None.

(* ------------------------------------------------------------------ colour functions *)
Definition is_number (t : ptok) : bool := match t with PNumber _ _ _ => true | _ => false end.
Definition is_int_number (t : ptok) : bool := match t with PNumber true _ _ => true | _ => false end.
Definition is_percentage (t : ptok) : bool := match t with PPercentage _ => true | _ => false end.

(* colors.go:365-373 *)
Definition parse_alpha (args : list ptok) : res bool :=
  if len args =? 1 then
    let* t := index 813 args 0 in Ok (is_number t)
  else Ok false.

(* colors.go:377-396 *)
Definition parse_rgb (args : list ptok) : res bool :=
  if negb (len args =? 3) then Ok false
  else
    let* r := index 807 args 0 in
    let* g := index 808 args 1 in
    let* b := index 809 args 2 in
    if is_int_number r && is_int_number g && is_int_number b then Ok true
    else Ok (is_percentage r && is_percentage g && is_percentage b).

(* colors.go:400-413 *)
Definition parse_hsl (args : list ptok) : res bool :=
  if negb (len args =? 3) then Ok false
  else
    let* h := index 810 args 0 in
    let* s := index 811 args 1 in
    let* l := index 812 args 2 in
    Ok (is_int_number h && is_percentage s && is_percentage l).

(* hashRegexps: ^([\da-f])([\da-f])([\da-f])$ and ^([\da-f]{2}){3}$, case-insensitive *)
Definition hash_matches (v : list N) : bool :=
  ((length v =? 3)%nat || (length v =? 6)%nat) && forallb is_hex v.
(* mustParseHexa(strings.Repeat(group, multiplier)): strconv.ParseInt(s, 16, 0) of two hex digits *)
Definition must_parse_hexa (s : list N) : res unit :=
  if forallb is_hex s && negb (list_eqb s []) then Ok tt else Panic 814.

Definition hash_groups (v : list N) : list (list N) :=
  match v with
  | [a; b; c] => [[a; a]; [b; b]; [c; c]]
  | [a; b; c; d; e; f] => [[a; b]; [c; d]; [e; f]]
  | _ => []
  end.

Inductive color_kind := ColInvalid | ColKeywordLookup | ColRGBA.

Definition s_rgb : list N := [114; 103; 98]%N.
Definition s_rgba : list N := [114; 103; 98; 97]%N.
Definition s_hsl : list N := [104; 115; 108]%N.
Definition s_hsla : list N := [104; 115; 108; 97]%N.

Definition with_alpha (site_from site_to : N) (args : list ptok) (f : list ptok -> res bool) : res color_kind :=
  if len args <? 3 then Ok ColInvalid
  else
    let* rest := slice_from site_from args 3 in
    let* alpha := parse_alpha rest in
    if alpha then
      let* three := slice_to site_to args 3 in
      let* ok := f three in
      Ok (if ok then ColRGBA else ColInvalid)
    else Ok ColInvalid.

(* colors.go:299-361.  An identifier is looked up in the keyword table (a Go map: no panic). *)
Definition parse_color (t : ptok) : res color_kind :=
  match t with
  | PIdent _ => Ok ColKeywordLookup
  | PHash v =>
      if hash_matches v then
        let* _ := (fix all (gs : list (list N)) : res unit :=
                     match gs with
                     | [] => Ok tt
                     | g :: r => let* _ := must_parse_hexa g in all r
                     end) (hash_groups v) in
        Ok ColRGBA
      else Ok ColInvalid
  | PFunc name arguments =>
      let* args := parse_comma_separated arguments in
      match args with
      | None => Ok ColInvalid
      | Some args =>
        if len args =? 0 then Ok ColInvalid
        else
          let name := ascii_lower name in
          if list_eqb name s_rgb then
            let* ok := parse_rgb args in Ok (if ok then ColRGBA else ColInvalid)
          else if list_eqb name s_rgba then with_alpha 803 804 args parse_rgb
          else if list_eqb name s_hsl then
            let* ok := parse_hsl args in Ok (if ok then ColRGBA else ColInvalid)
          else if list_eqb name s_hsla then with_alpha 805 806 args parse_hsl
          else Ok ColInvalid
      end
  | _ => Ok ColInvalid
  end.

(* ------------------------------------------------------------------ media queries *)
(* tokenizer.go:911-926 *)
Fixpoint split_on_comma_aux (tokens cur : list ptok) : list (list ptok) :=
  match tokens with
  | [] => [rev cur]
  | t :: r => if is_comma t then rev cur :: split_on_comma_aux r []
              else split_on_comma_aux r (t :: cur)
  end.
Definition split_on_comma (tokens : list ptok) : list (list ptok) := split_on_comma_aux tokens [].

Definition s_all : list N := [97; 108; 108]%N.

Fixpoint mq_parts (parts : list (list ptok)) (media : list (list N)) : res (option (list (list N))) :=
  match parts with
  | [] => Ok (Some (rev media))
  | part :: r =>
    if len part =? 1 then
      let* t := index 820 part 0 in
      match t with
      | PIdent v => mq_parts r (ascii_lower v :: media)
      | _ => Ok None
      end
    else Ok None
  end.

(* media_query.go:21-40; Ok None = nil (invalid media query) *)
Definition parse_media_query (tokens : list ptok) : res (option (list (list N))) :=
  let tokens := remove_whitespace tokens in
  if len tokens =? 0 then Ok (Some [s_all])
  else mq_parts (split_on_comma tokens) [].

(* @import prelude, style.go case "import": None = `continue` (no token) or invalid media *)
Definition import_media (prelude : list ptok) : res (option (list (list N))) :=
  let tokens := remove_whitespace prelude in
  if len tokens >? 0 then
    let* _ := index 821 tokens 0 in
    let* rest := slice_from 822 tokens 1 in
    parse_media_query rest
  else Ok None.
