(* Css/VarSubst.v -- model of var() resolution at computed-value time:
   /repo/html/tree/style.go resolveVar and the pending-value path of
   ComputedStyle.cascadeValue.

   Two ports of resolveVar are kept:
   * `resolve_var_old`: the function as it was on the pinned tree (commit
     6439a2e, style.go:1505-1545).  Go recursion = fuel; it runs out of fuel on
     cyclic custom properties and on var() nested two function levels deep
     (Properties/C08.v: `C08_resolve_var_old_refuted`; on Go: fatal stack overflow).
   * `resolve_var`: the repaired function (commit fbf7bcf): `visited` is the
     set of custom properties being resolved; a cyclic reference is reported.

   Model file: definitions only (proofs in Css/DeclProofs.v). *)
From Coq Require Import List NArith ZArith QArith Bool.
From Verif Require Export Base.GoSem Css.Decl.
Import ListNotations.

(* ComputedStyle.variables: map[string]pr.RawTokens (style.go:332); keys unique
   on the Go side, first match here *)
Definition env := list (str * list tok).

(* computed[variableName]: nil when absent *)
Definition lookup (e : env) (n : str) : list tok :=
  match assoc n e with Some l => l | None => [] end.

(* ---------------------------------------------------------------- old *)

(* panic sites *)
Definition site_args0 : N := 1.        (* args[0] with empty args, style.go:1529 (old) *)
Definition site_ident_assert : N := 2. (* varNameToken.(pa.Ident) *)
Definition site_func_assert : N := 3.  (* token.(pa.FunctionBlock) *)

Definition is_var_func (t : tok) : bool :=
  match t with TFunc n _ => str_eqb (ascii_lower n) s_var | _ => false end.

Fixpoint resolve_var_old (fuel : nat) (e : env) (t : tok) : res (option (list tok)) :=
  match fuel with
  | O => OutOfFuel
  | S f =>
    if negb (has_var t) then Ok None
    else match t with
    | TFunc name fargs =>
      if negb (str_eqb (ascii_lower name) s_var) then
        let* arguments :=
          (fix loop (l : list tok) : res (list tok) :=
             match l with
             | [] => Ok []
             | a :: r =>
                 if is_var_func a then
                   let* ra := resolve_var_old f e a in
                   let* rest := loop r in
                   Ok (match ra with Some x => x | None => [] end ++ rest)   (* append(arguments, nil...) *)
                 else
                   let* rest := loop r in Ok (a :: rest)
             end) fargs in
        let token := TFunc name arguments in
        let* resolved := resolve_var_old f e token in
        match resolved with
        | Some (x :: y) => Ok (Some (x :: y))       (* len(resolved) != 0 *)
        | _ => Ok (Some [token])
        end
      else
        match snd (parse_function t) with
        | [] => Panic site_args0
        | TIdent variable_name :: default_ =>
            let l := lookup e variable_name in
            let source := match l with [] => default_ | _ => l end in
            let* computed :=
              (fix loop (l : list tok) : res (list tok) :=
                 match l with
                 | [] => Ok []
                 | v :: r =>
                     let* rv := resolve_var_old f e v in
                     let* rest := loop r in
                     Ok (match rv with Some x => x | None => [v] end ++ rest)
                 end) source in
            Ok (Some computed)
        | _ :: _ => Panic site_ident_assert
        end
    | _ => Panic site_func_assert
    end
  end.

(* ---------------------------------------------------------------- repaired *)

(* varFallback, style.go (after the fallback fix): the tokens following the
   custom property name (the first Ident among the non-trivia arguments) and
   its comma; the fallback keeps its own commas *)
Fixpoint var_fallback (fargs : list tok) : list tok :=
  match fargs with
  | [] => []
  | TIdent _ :: rest =>
      match remove_whitespace rest with
      | c :: rest' => if is_literal c comma then rest' else c :: rest'
      | [] => []
      end
  | _ :: rest => var_fallback rest
  end.

(* the two Go results ([]Token, cyclic bool): RNil = (nil, false) "no var()
   in this token", RToks = (tokens, false), RCyclic = (nil, true) *)
Inductive rv := RNil | RToks (l : list tok) | RCyclic.

(* resolveVar, style.go:1526-1577 (after fbf7bcf) *)
Fixpoint resolve_var (fuel : nat) (e : env) (visited : list str) (t : tok) : res rv :=
  match fuel with
  | O => OutOfFuel
  | S f =>
    if negb (has_var t) then Ok RNil
    else match t with
    | TFunc name fargs =>
      let loop :=
        (fix loop (vis : list str) (l : list tok) : res (option (list tok)) :=   (* None: cyclic *)
           match l with
           | [] => Ok (Some [])
           | a :: r =>
               let* ra := resolve_var f e vis a in
               match ra with
               | RCyclic => Ok None
               | RNil => let* rest := loop vis r in Ok (option_map (cons a) rest)
               | RToks x => let* rest := loop vis r in Ok (option_map (app x) rest)
               end
           end) in
      if negb (str_eqb (ascii_lower name) s_var) then
        let* arguments := loop visited fargs in
        match arguments with
        | None => Ok RCyclic
        | Some args => Ok (RToks [TFunc name args])
        end
      else
        match snd (parse_function t) with
        | [] => Panic site_args0
        | TIdent variable_name :: _ =>
            match lookup e variable_name with
            | [] =>
                let* computed := loop visited (var_fallback fargs) in
                match computed with None => Ok RCyclic | Some c => Ok (RToks c) end
            | l =>
                if in_table visited variable_name then Ok RCyclic
                else
                  let* computed := loop (variable_name :: visited) l in
                  match computed with None => Ok RCyclic | Some c => Ok (RToks c) end
            end
        | _ :: _ => Panic site_ident_assert
        end
    | _ => Panic site_func_assert
    end
  end.

(* the loop of cascadeValue, style.go:422-437: None = a cyclic reference *)
Fixpoint resolve_tokens (fuel : nat) (e : env) (raw : list tok) : res (option (list tok)) :=
  match raw with
  | [] => Ok (Some [])
  | t :: r =>
      let* rt := resolve_var fuel e [] t in
      match rt with
      | RCyclic => Ok None
      | RNil => let* rest := resolve_tokens fuel e r in Ok (option_map (cons t) rest)
      | RToks x => let* rest := resolve_tokens fuel e r in Ok (option_map (app x) rest)
      end
  end.

Section Cascade.
  Variable known : str -> bool.
  Variable validate : str -> list tok -> option value.
  Variable parse_color : tok -> color.
  Variable other_expander : str -> option (list tok -> option (list nprop)).

  (* pr.Inherited.Has, pr.InitialValues, parentStyle.Get: tables / state owned by C04 *)
  Variable inherited : str -> bool.
  Variable initial_value : str -> value.
  Variable parent_value : str -> value.

  (* style.go:421-448: the declared value a pending RawTokens value resolves
     to; None = invalid at computed-value time *)
  Definition pending_value (fuel : nat) (e : env) (key shorthand : str) (raw : list tok)
    : res (option value) :=
    let* solved := resolve_tokens fuel e raw in
    match solved with
    | None => Ok None                                          (* cyclic *)
    | Some [] => Ok None                                       (* "no value" *)
    | Some toks =>
        match shorthand with
        | [] => Ok (option_map np_value (validate_non_shorthand known validate key toks false))
        | _ => Ok (expand_validate_pending known validate parse_color other_expander key shorthand toks)
        end
    end.

  Definition fallback_value (key : str) : value :=
    if inherited key then parent_value key else initial_value key.

  (* cascadeValue, style.go:398-470, for a non-root element: `casc` is the
     cascaded (value, shorthand) of `key`, if any.  The result is the value
     handed to the computer function. *)
  Definition cascade_value (fuel : nat) (e : env) (key : str) (casc : option (value * str)) : res value :=
    let '(v, sh) :=
      match casc with
      | Some c => c
      | None => (if (inherited key || is_custom_name key)%bool then VInherit else VInitial, [])
      end in
    let* v1 :=
      match v with
      | VRaw raw =>
          let* p := pending_value fuel e key sh raw in
          match p with
          | Some d => Ok d
          | None => Ok (fallback_value key)
          end
      | _ => Ok v
      end in
    match v1 with
    | VInitial => Ok (initial_value key)
    | VInherit => Ok (parent_value key)
    | _ => Ok v1
    end.

  (* cascadeValue, style.go:398-487, for ANY element: `parent` is c.parentStyle (its computed
     values), None on the root element (nil).  Reading the parent's value on the root is the
     nil dereference `Panic 2`.  The order of the steps is the order of the code: the pending
     value is substituted and validated first (fallback 451-463: the parent's value for an
     inherited property of a non-root element, else the initial value), THEN "inherit on the
     root element means initial" (466-470), so that an `inherit` produced by the substitution
     (`--v: inherit; color: var(--v)`) is covered as well, then initial / inherit. *)
  Definition cascade_value_at (parent : option (str -> value)) (fuel : nat) (e : env) (key : str)
             (casc : option (value * str)) : res value :=
    let '(v, sh) :=
      match casc with
      | Some c => c
      | None => (if (inherited key || is_custom_name key)%bool then VInherit else VInitial, [])
      end in
    let* v1 :=
      match v with
      | VRaw raw =>
          let* p := pending_value fuel e key sh raw in
          match p with
          | Some d => Ok d
          | None => Ok (match parent with
                        | Some pv => if inherited key then pv key else initial_value key
                        | None => initial_value key
                        end)
          end
      | _ => Ok v
      end in
    let v2 := match v1, parent with VInherit, None => VInitial | _, _ => v1 end in
    match v2 with
    | VInitial => Ok (initial_value key)
    | VInherit => match parent with Some pv => Ok (pv key) | None => Panic 2 end
    | _ => Ok v2
    end.

  (* which declaration of a block wins for `key` (one origin, one selector:
     the order of style.go's cascade restricted to a single rule): the last
     important one, else the last one *)
  Definition winner (ds : list odecl) (key : str) : option (value * str) :=
    let cands := filter (fun d => str_eqb (od_name d) key) ds in
    match filter od_important cands with
    | [] => match rev cands with d :: _ => Some (od_value d, od_short d) | [] => None end
    | imp => match rev imp with d :: _ => Some (od_value d, od_short d) | [] => None end
    end.

  (* the custom properties a block defines for its element, on top of the
     inherited ones (style.go:356-366) *)
  Fixpoint custom_names (ds : list odecl) (seen : list str) : list str :=
    match ds with
    | [] => []
    | d :: r => if (is_custom_name (od_name d) && negb (in_table seen (od_name d)))%bool
                then od_name d :: custom_names r (od_name d :: seen)
                else custom_names r seen
    end.

  Definition block_env (parent : env) (ds : list odecl) : env :=
    let own := flat_map (fun n => match winner ds n with
                                  | Some (VRaw l, _) => [(n, l)]
                                  | _ => []
                                  end) (custom_names ds []) in
    own ++ parent.
End Cascade.
