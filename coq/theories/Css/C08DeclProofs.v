(* Css/C08DeclProofs.v -- lemmas about the declaration pipeline model (Css/Decl.v):
   per-declaration independence, spelling irrelevance, shorthand semantics. *)
From Coq Require Import List NArith ZArith QArith Bool Lia.
From Verif Require Import Css.DeclTok Css.Decl Css.VarSubst Css.C08Spec.
Import ListNotations.

(* ------------------------------------------------------------ strings *)

Lemma str_eqb_refl s : str_eqb s s = true.
Proof. induction s as [|c s IH]; simpl; [reflexivity|]. now rewrite N.eqb_refl, IH. Qed.

Lemma str_eqb_eq a b : str_eqb a b = true <-> a = b.
Proof.
  split.
  - revert b. induction a as [|x a IH]; intros [|y b] H; simpl in H; try discriminate; [reflexivity|].
    apply andb_true_iff in H as [H1 H2]. apply N.eqb_eq in H1. subst. f_equal. now apply IH.
  - intros ->. apply str_eqb_refl.
Qed.

Lemma str_eqb_neq a b : str_eqb a b = false <-> a <> b.
Proof.
  split.
  - intros H E. apply str_eqb_eq in E. congruence.
  - intros H. destruct (str_eqb a b) eqn:E; [|reflexivity]. apply str_eqb_eq in E. contradiction.
Qed.

Lemma in_table_In l n : in_table l n = true <-> In n l.
Proof.
  unfold in_table. rewrite existsb_exists. split.
  - intros [x [Hin Hx]]. apply str_eqb_eq in Hx. now subst.
  - intros H. exists n. split; [assumption|apply str_eqb_refl].
Qed.

Lemma lower_char_idem c : lower_char (lower_char c) = lower_char c.
Proof.
  unfold lower_char.
  destruct (N.leb 65 c && N.leb c 90)%bool eqn:E; [|now rewrite E].
  apply andb_true_iff in E as [E1 E2]. apply N.leb_le in E1, E2.
  destruct (N.leb 65 (c + 32) && N.leb (c + 32) 90)%bool eqn:E'; [|reflexivity].
  apply andb_true_iff in E' as [_ E4]. apply N.leb_le in E4. lia.
Qed.

Lemma ascii_lower_idem s : ascii_lower (ascii_lower s) = ascii_lower s.
Proof. unfold ascii_lower. rewrite map_map. apply map_ext. intros; apply lower_char_idem. Qed.

Lemma lower_char_dash c : N.eqb dash (lower_char c) = N.eqb dash c.
Proof.
  unfold lower_char, dash.
  destruct (N.leb 65 c && N.leb c 90)%bool eqn:E; [|reflexivity].
  apply andb_true_iff in E as [E1 E2]. apply N.leb_le in E1, E2.
  destruct (N.eqb_spec 45 (c + 32)); destruct (N.eqb_spec 45 c); try reflexivity; lia.
Qed.

Lemma is_custom_name_lower s : is_custom_name (ascii_lower s) = is_custom_name s.
Proof.
  unfold is_custom_name, ascii_lower.
  destruct s as [|a [|b r]]; cbn [map has_prefix]; try reflexivity.
  - now rewrite lower_char_dash.
  - now rewrite !lower_char_dash.
Qed.

(* ------------------------------------------------------------ the loop *)

Section Pipeline.
  Variable known : str -> bool.
  Variable validate : str -> list tok -> option value.
  Variable parse_color : tok -> color.
  Variable other_expander : str -> option (list tok -> option (list nprop)).

  Notation pre1 := (preprocess_one known validate parse_color other_expander).
  Notation pre := (preprocess known validate parse_color other_expander).
  Notation ploop := (preprocess_loop known validate parse_color other_expander).
  Notation is_valid := (valid known validate parse_color other_expander).

  Lemma preprocess_loop_spec ds acc : ploop ds acc = acc ++ flat_map pre1 ds.
  Proof.
    revert acc. induction ds as [|d r IH]; intros acc; simpl.
    - now rewrite app_nil_r.
    - rewrite IH. now rewrite app_assoc.
  Qed.

  Lemma preprocess_flat_map ds : pre ds = flat_map pre1 ds.
  Proof. unfold preprocess. now rewrite preprocess_loop_spec. Qed.

  Lemma flat_map_filter_valid ds : flat_map pre1 (filter is_valid ds) = flat_map pre1 ds.
  Proof.
    induction ds as [|d r IH]; simpl; [reflexivity|].
    unfold valid at 1. destruct (pre1 d) eqn:E; simpl.
    - exact IH.
    - rewrite E. simpl. now rewrite IH.
  Qed.

  (* the Go loop keeps, in order, exactly what each declaration yields on its
     own; the declarations it drops can be removed from the block *)
  Theorem bad_declarations_dropped_alone ds :
    pre ds = pre (filter is_valid ds) /\ pre ds = flat_map pre1 ds.
  Proof.
    split; [|apply preprocess_flat_map].
    rewrite !preprocess_flat_map. now rewrite flat_map_filter_valid.
  Qed.

  Theorem preprocess_app l1 l2 : pre (l1 ++ l2) = pre l1 ++ pre l2.
  Proof. rewrite !preprocess_flat_map. apply flat_map_app. Qed.

  (* inserting or deleting an invalid / unknown declaration anywhere changes nothing *)
  Theorem invalid_declaration_irrelevant l1 d l2 :
    is_valid d = false -> pre (l1 ++ d :: l2) = pre (l1 ++ l2).
  Proof.
    intros H. rewrite !preprocess_app. f_equal.
    change (d :: l2) with ([d] ++ l2). rewrite preprocess_app.
    unfold valid in H. rewrite preprocess_flat_map. simpl.
    destruct (pre1 d); [reflexivity|discriminate].
  Qed.

  (* every other declaration keeps exactly the effect it has alone *)
  Theorem declaration_effect_local l1 d l2 :
    pre (l1 ++ d :: l2) = pre l1 ++ pre1 d ++ pre l2.
  Proof.
    rewrite preprocess_app. f_equal.
    change (d :: l2) with ([d] ++ l2). rewrite preprocess_app.
    rewrite (preprocess_flat_map [d]). simpl. now rewrite app_nil_r.
  Qed.

  (* ---------------------------------------------------------- spelling: names *)

  Theorem name_case_insensitive n n' v i :
    is_custom_name n = false -> is_custom_name n' = false -> same_word n n' ->
    pre1 (RDecl n v i) = pre1 (RDecl n' v i).
  Proof.
    intros Hn Hn' Hs. unfold preprocess_one. rewrite Hn, Hn'. unfold same_word in Hs. now rewrite Hs.
  Qed.

  Corollary name_lowercase n v i :
    is_custom_name n = false -> pre1 (RDecl n v i) = pre1 (RDecl (ascii_lower n) v i).
  Proof.
    intros H. apply name_case_insensitive; [assumption|now rewrite is_custom_name_lower|].
    unfold same_word. now rewrite ascii_lower_idem.
  Qed.

  (* ---------------------------------------------------------- spelling: whitespace *)

  Theorem top_level_trivia_irrelevant n v v' i :
    remove_whitespace v = remove_whitespace v' -> pre1 (RDecl n v i) = pre1 (RDecl n v' i).
  Proof. intros H. unfold preprocess_one. now rewrite H. Qed.

End Pipeline.

(* whitespace / comment insertion between top-level component values *)
Inductive ws_variant : list tok -> list tok -> Prop :=
| WvNil : ws_variant [] []
| WvSame t r r' : ws_variant r r' -> ws_variant (t :: r) (t :: r')
| WvL t r r' : is_trivia t = true -> ws_variant r r' -> ws_variant (t :: r) r'
| WvR t r r' : is_trivia t = true -> ws_variant r r' -> ws_variant r (t :: r').

Lemma ws_variant_remove v v' : ws_variant v v' -> remove_whitespace v = remove_whitespace v'.
Proof.
  induction 1 as [|t r r' _ IH|t r r' Ht _ IH|t r r' Ht _ IH]; unfold remove_whitespace in *; simpl.
  - reflexivity.
  - destruct (is_trivia t); simpl; now rewrite IH.
  - now rewrite Ht.
  - now rewrite Ht.
Qed.

Theorem whitespace_comment_irrelevant known validate pc oe n v v' i :
  ws_variant v v' ->
  preprocess_one known validate pc oe (RDecl n v i) = preprocess_one known validate pc oe (RDecl n v' i).
Proof. intros H. apply top_level_trivia_irrelevant. now apply ws_variant_remove. Qed.

(* ------------------------------------------------------------ projection *)

Lemma same_word_custom v w : same_word v w -> is_custom_name v = is_custom_name w.
Proof. unfold same_word. intros H. rewrite <- (is_custom_name_lower v), <- (is_custom_name_lower w). now rewrite H. Qed.

(* the projection's inner loop is proj_toks *)
Lemma proj_tok_func n a : proj_tok (TFunc n a) = TFunc (ascii_lower n) (proj_toks a).
Proof. reflexivity. Qed.

Lemma proj_tok_block k a : proj_tok (TBlock k a) = TBlock k (proj_toks a).
Proof. reflexivity. Qed.

(* A spelling variant (case of keywords, units, function names; comments and
   whitespace anywhere between component values, at any depth) has the same
   projection. *)
Theorem spelling_variant_projection :
  forall ts ts', sv_toks ts ts' -> proj_toks ts = proj_toks ts'.
Proof.
  apply (sv_toks_ind2
           (fun t t' _ => is_trivia t = is_trivia t' /\ proj_tok t = proj_tok t')
           (fun l l' _ => proj_toks l = proj_toks l')).
  - intros t. split; reflexivity.
  - intros v w Hv Hw Hs. split; [reflexivity|]. simpl. rewrite Hv, Hw. now rewrite Hs.
  - intros q i u u' Hs. split; [reflexivity|]. simpl. now rewrite Hs.
  - intros n n' a a' Hs _ IH. split; [reflexivity|]. rewrite !proj_tok_func. now rewrite Hs, IH.
  - intros k a a' _ IH. split; [reflexivity|]. rewrite !proj_tok_block. now rewrite IH.
  - reflexivity.
  - intros t t' r r' _ [Htr Hp] _ IH. simpl. rewrite Htr, Hp, IH. reflexivity.
  - intros t r r' Ht _ IH. simpl. now rewrite Ht.
  - intros t r r' Ht _ IH. simpl. now rewrite Ht.
Qed.

(* ------------------------------------------------------------ shorthands *)

(* a `for` loop of fallible steps, as a specification-side combinator *)
Fixpoint seq_opt {A} (l : list (option A)) : option (list A) :=
  match l with
  | [] => Some []
  | None :: _ => None
  | Some a :: r => match seq_opt r with Some x => Some (a :: x) | None => None end
  end.

Lemma map_opt_seq {A B} (f : A -> option B) l : map_opt f l = seq_opt (map f l).
Proof.
  induction l as [|a r IH]; simpl; [reflexivity|].
  destruct (f a); [|reflexivity]. now rewrite IH.
Qed.

Definition mixed_default (tokens : list tok) : bool :=
  Nat.ltb 1 (length tokens) && existsb (fun t => is_default_kw (get_keyword t)) tokens.

Lemma four_names_shape name : exists a b c d, four_names name = [a; b; c; d].
Proof. unfold four_names, side_suffixes. simpl. eauto. Qed.

Section Shorthands.
  Variable known : str -> bool.
  Variable validate : str -> list tok -> option value.
  Variable parse_color : tok -> color.
  Variable other_expander : str -> option (list tok -> option (list nprop)).

  Notation vns := (validate_non_shorthand known validate).
  Notation four := (expand_four_sides known validate).

  (* 1 to 4 values are assigned to (top, right, bottom, left) as CSS says, each
     validated as the corresponding longhand *)
  Theorem four_sides_spec name tokens t r b l nt nr nb nl :
    existsb has_var tokens = false -> mixed_default tokens = false ->
    four_sides_assign tokens t r b l -> four_names name = [nt; nr; nb; nl] ->
    four name tokens = seq_opt [vns nt [t] true; vns nr [r] true; vns nb [b] true; vns nl [l] true].
  Proof.
    intros Hv Hm Ha Hn. unfold expand_four_sides, find_var. rewrite Hv, Hn.
    unfold mixed_default in Hm.
    destruct Ha; rewrite Hm; rewrite map_opt_seq; reflexivity.
  Qed.

  (* 0 or more than 4 values are rejected *)
  Theorem four_sides_arity name tokens :
    existsb has_var tokens = false -> (length tokens = 0 \/ 4 < length tokens)%nat ->
    four name tokens = None.
  Proof.
    intros Hv Hl. unfold expand_four_sides, find_var. rewrite Hv.
    destruct (_ && _)%bool; [reflexivity|].
    destruct tokens as [|a [|b [|c [|d [|e r]]]]]; simpl in Hl; try lia; reflexivity.
  Qed.

  (* no value is assigned unless the list has 1 to 4 members *)
  Lemma four_sides_assign_length {A} (vals : list A) t r b l :
    four_sides_assign vals t r b l -> (1 <= length vals <= 4)%nat.
  Proof. destruct 1; simpl; lia. Qed.

  (* the CSS-wide keywords are only valid alone *)
  Theorem four_sides_mixed_default name tokens :
    existsb has_var tokens = false -> mixed_default tokens = true -> four name tokens = None.
  Proof.
    intros Hv Hm. unfold expand_four_sides, find_var. rewrite Hv.
    unfold mixed_default in Hm. now rewrite Hm.
  Qed.

  (* a var() anywhere keeps the whole shorthand pending on each longhand *)
  Theorem four_sides_pending name tokens :
    existsb has_var tokens = true ->
    four name tokens = Some (map (fun n => mkNP n (VRaw tokens) name) (four_names name)).
  Proof. intros Hv. unfold expand_four_sides, find_var. now rewrite Hv. Qed.

  (* ---- generic expander ---- *)

  Notation gen := (generic_expander known validate).

  Theorem generic_expander_default names wrapped sh tokens :
    is_default_kw (get_single_keyword tokens) = true ->
    gen names wrapped sh tokens =
    Some (map (fun n => mkNP n (default_value (get_single_keyword tokens)) []) names).
  Proof. intros H. unfold generic_expander. now rewrite H. Qed.

  Theorem generic_expander_pending names wrapped sh tokens :
    is_default_kw (get_single_keyword tokens) = false -> existsb has_var tokens = true ->
    gen names wrapped sh tokens = Some (map (fun n => mkNP n (VRaw tokens) sh) names).
  Proof. intros H Hv. unfold generic_expander, find_var. now rewrite H, Hv. Qed.

  Lemma assoc_cons {A} k (v : A) n l :
    assoc n ((k, v) :: l) = if str_eqb k n then Some v else assoc n l.
  Proof. reflexivity. Qed.

  Lemma collect_results_spec names result : forall acc results,
    collect_results names result acc = Some results ->
    (forall n, assoc n results = match assoc n result with Some x => Some x | None => assoc n acc end)
    /\ (forall n x, assoc n result = Some x -> in_table names n = true /\ assoc n acc = None)
    /\ NoDup (map fst result).
  Proof.
    induction result as [|[k v] r IH]; intros acc results H; simpl in H.
    - inversion H; subst. repeat split; try (intros; discriminate). constructor.
    - destruct (in_table names k) eqn:Hk; simpl in H; [|discriminate].
      destruct (assoc k acc) eqn:Hacc; [discriminate|].
      destruct (IH _ _ H) as [I1 [I2 I3]].
      assert (Hkr : assoc k r = None).
      { destruct (assoc k r) eqn:E; [|reflexivity].
        destruct (I2 _ _ E) as [_ C]. rewrite assoc_cons, str_eqb_refl in C. discriminate. }
      split; [|split].
      + intros n. rewrite (I1 n), !assoc_cons.
        destruct (str_eqb k n) eqn:E.
        * apply str_eqb_eq in E. subst n. now rewrite Hkr.
        * reflexivity.
      + intros n x. rewrite assoc_cons. destruct (str_eqb k n) eqn:E.
        * apply str_eqb_eq in E. subst n. intros _. now split.
        * intros Hn. destruct (I2 _ _ Hn) as [Hin C]. rewrite assoc_cons, E in C. now split.
      + simpl. constructor; [|assumption].
        intros Hin. apply in_map_iff in Hin as [[k' v'] [Hf Hin]]. simpl in Hf. subst k'.
        clear -Hin Hkr. induction r as [|[a b] r IH]; [contradiction|].
        rewrite assoc_cons in Hkr. destruct Hin as [Heq|Hin].
        * inversion Heq; subst. now rewrite str_eqb_refl in Hkr.
        * destruct (str_eqb a k); [discriminate|]. now apply IH.
  Qed.

  (* Missing parts are reset to `initial`, given parts are validated as their
     longhand, and the expander may neither name a longhand twice nor one
     outside the shorthand. *)
  Theorem generic_expander_resets names wrapped sh tokens props :
    is_default_kw (get_single_keyword tokens) = false -> existsb has_var tokens = false ->
    gen names wrapped sh tokens = Some props ->
    exists result,
      wrapped sh tokens = Some result
      /\ NoDup (map fst result)
      /\ (forall n x, assoc n result = Some x -> In n names)
      /\ Forall2 (fun n p => match assoc n result with
                             | Some toks => vns n toks true = Some p
                             | None => p = mkNP n VInitial []
                             end) names props.
  Proof.
    intros Hd Hv H. unfold generic_expander, find_var in H. rewrite Hd, Hv in H.
    destruct (wrapped sh tokens) as [result|] eqn:Hw; [|discriminate].
    destruct (collect_results names result []) as [results|] eqn:Hc; [|discriminate].
    destruct (collect_results_spec _ _ _ _ Hc) as [I1 [I2 I3]].
    exists result. split; [reflexivity|]. split; [assumption|]. split.
    - intros n x Hn. apply in_table_In. now apply (I2 n x).
    - clear Hc Hw. revert props H. generalize names at 1 2 as ns.
      induction ns as [|n ns IH]; intros props H; simpl in H.
      + inversion H. constructor.
      + rewrite (I1 n) in H. simpl in H.
        destruct (assoc n result) as [toks|] eqn:Ea.
        * destruct (vns n toks true) as [p|] eqn:Ev; [|discriminate].
          destruct (map_opt _ ns) as [ps|] eqn:Em; [|discriminate].
          inversion H; subst. constructor; [now rewrite Ea|]. now apply IH.
        * destruct (map_opt _ ns) as [ps|] eqn:Em; [|discriminate].
          inversion H; subst. constructor; [now rewrite Ea|]. now apply IH.
  Qed.

  (* naming a longhand twice (e.g. `border: 1px 2px`) invalidates the shorthand *)
  Theorem generic_expander_duplicate names wrapped sh tokens result :
    is_default_kw (get_single_keyword tokens) = false -> existsb has_var tokens = false ->
    wrapped sh tokens = Some result -> ~ NoDup (map fst result) ->
    gen names wrapped sh tokens = None.
  Proof.
    intros Hd Hv Hw Hnd.
    destruct (gen names wrapped sh tokens) as [props|] eqn:E; [|reflexivity].
    destruct (generic_expander_resets _ _ _ _ _ Hd Hv E) as [r' [Hw' [Hn _]]].
    rewrite Hw in Hw'. inversion Hw'; subst. contradiction.
  Qed.

  (* border-<side> classifies each component as colour, width or style *)
  Theorem border_side_names_spec sh tokens props :
    border_side_expander known validate parse_color sh tokens = Some props ->
    map np_name props = border_side_names sh
    \/ (existsb has_var tokens = false /\ is_default_kw (get_single_keyword tokens) = false).
  Proof.
    intros H. unfold border_side_expander in H.
    destruct (is_default_kw (get_single_keyword tokens)) eqn:Hd.
    - rewrite generic_expander_default in H by assumption. inversion H. left. reflexivity.
    - destruct (existsb has_var tokens) eqn:Hv.
      + rewrite generic_expander_pending in H by assumption. inversion H. left. reflexivity.
      + right. now split.
  Qed.

End Shorthands.

(* ------------------------------------------------------------ the modelled validators read only the projection *)

Lemma get_keyword_proj t : get_keyword (proj_tok t) = get_keyword t.
Proof.
  destruct t; try reflexivity. cbn [proj_tok].
  destruct (is_custom_name v); cbn [get_keyword]; [reflexivity|apply ascii_lower_idem].
Qed.

Lemma get_length_proj t n p : get_length (proj_tok t) n p = get_length t n p.
Proof.
  destruct t; try reflexivity; cbn [proj_tok get_length].
  - now destruct (is_custom_name v).
  - now rewrite ascii_lower_idem.
Qed.

Lemma proj_tok_not_trivia t : is_trivia t = false -> is_trivia (proj_tok t) = false.
Proof. destruct t; try reflexivity; try discriminate. simpl. now destruct (is_custom_name v). Qed.

Section Leaves.
  Variable pc : tok -> color.
  Hypothesis pc_proj : forall t, pc (proj_tok t) = pc t.

  (* Every modelled leaf validator gives the same typed value on a component
     value list and on its projection: case of keywords and units does not
     matter to them. *)
  Theorem modelled_validators_read_projection n ts :
    Forall (fun t => is_trivia t = false) ts ->
    validate_modelled pc n (proj_toks ts) = validate_modelled pc n ts.
  Proof.
    intros Hnt.
    assert (Hmap : proj_toks ts = map proj_tok ts).
    { induction Hnt as [|t r Ht _ IH]; [reflexivity|]. simpl. now rewrite Ht, IH. }
    rewrite Hmap. unfold validate_modelled.
    destruct (leaf_validator pc n) as [f|] eqn:Ef; [|reflexivity].
    unfold leaf_validator in Ef.
    repeat match type of Ef with
           | (if ?c then _ else _) = _ => destruct c
           end; inversion Ef; subst f; clear Ef;
      destruct ts as [|t [|t2 r]]; try reflexivity; cbn [map];
      unfold length_perc_or_auto, length_or_percentage, bleed, border_width, border_style,
             other_colors, color_prop, visibility, get_single_keyword, dim_value;
      rewrite ?get_length_proj, ?get_keyword_proj, ?pc_proj; reflexivity.
  Qed.
End Leaves.

(* The full pipeline-level statement for keyword / unit / function-name case
   and nested whitespace; proved in Css/C08SpellingProofs.v. *)
Definition proj_value (v : value) : value :=
  match v with VRaw ts => VRaw (proj_toks ts) | _ => v end.
Definition proj_odecl (d : odecl) : odecl :=
  mkOD (od_name d) (proj_value (od_value d)) (od_important d) (od_short d).

(* component value lists as the pipeline hands them to the validators:
   whitespace and comments removed *)
Definition clean (l : list tok) : Prop := Forall (fun t => is_trivia t = false) l.

Definition reads_projection (validate : str -> list tok -> option value) : Prop :=
  forall n ts ts', clean ts -> clean ts' -> proj_toks ts = proj_toks ts' -> validate n ts = validate n ts'.

Theorem modelled_validators_reads_projection pc :
  (forall t, pc (proj_tok t) = pc t) -> reads_projection (validate_modelled pc).
Proof.
  intros Hpc n ts ts' Hc Hc' Hp.
  rewrite <- (modelled_validators_read_projection pc Hpc n ts Hc),
          <- (modelled_validators_read_projection pc Hpc n ts' Hc'). now rewrite Hp.
Qed.

Definition spelling_irrelevant_statement : Prop :=
  forall known validate pc oe,
    reads_projection validate -> (forall t, pc (proj_tok t) = pc t) ->
    (forall n e, oe n = Some e -> forall ts ts', clean ts -> clean ts' -> proj_toks ts = proj_toks ts' ->
                                 option_map (map (fun p => mkNP (np_name p) (proj_value (np_value p)) (np_short p))) (e ts)
                                 = option_map (map (fun p => mkNP (np_name p) (proj_value (np_value p)) (np_short p))) (e ts')) ->
    forall n n' v v' i,
      (is_custom_name n = false /\ is_custom_name n' = false /\ same_word n n') \/ n = n' ->
      sv_toks v v' ->
      map proj_odecl (preprocess_one known validate pc oe (RDecl n v i))
      = map proj_odecl (preprocess_one known validate pc oe (RDecl n' v' i)).
