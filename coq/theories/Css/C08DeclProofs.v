(* Css/C08DeclProofs.v -- lemmas about the declaration pipeline model (Css/Decl.v):
   per-declaration independence, spelling irrelevance, shorthand semantics. *)
From Coq Require Import List NArith ZArith QArith Qround Bool Lia.
From Verif Require Import Css.DeclTok Css.Decl Css.VarSubst Css.C08Spec.
Import ListNotations.

(* ------------------------------------------------------------ strings *)

Lemma str_eqb_refl s : str_eqb s s = true.
Proof. induction s as [|c s IH]; simpl; [reflexivity|]. now rewrite N.eqb_refl, IH. Qed.

Lemma str_eqb_eq a b : str_eqb a b = true <-> a = b.
Proof.
  split.
  - revert b. induction a as [|x a IH]; intros [|y b] H; simpl in H; try discriminate; [reflexivity|].
    apply andb_true_iff in H as [H1 H2]. apply N.eqb_eq in H1. subst. f_equal. now apply IH.
  - intros ->. apply str_eqb_refl.
Qed.

Lemma str_eqb_neq a b : str_eqb a b = false <-> a <> b.
Proof.
  split.
  - intros H E. apply str_eqb_eq in E. congruence.
  - intros H. destruct (str_eqb a b) eqn:E; [|reflexivity]. apply str_eqb_eq in E. contradiction.
Qed.

Lemma in_table_In l n : in_table l n = true <-> In n l.
Proof.
  unfold in_table. rewrite existsb_exists. split.
  - intros [x [Hin Hx]]. apply str_eqb_eq in Hx. now subst.
  - intros H. exists n. split; [assumption|apply str_eqb_refl].
Qed.

Lemma lower_char_idem c : lower_char (lower_char c) = lower_char c.
Proof.
  unfold lower_char.
  destruct (N.leb 65 c && N.leb c 90)%bool eqn:E; [|now rewrite E].
  apply andb_true_iff in E as [E1 E2]. apply N.leb_le in E1, E2.
  destruct (N.leb 65 (c + 32) && N.leb (c + 32) 90)%bool eqn:E'; [|reflexivity].
  apply andb_true_iff in E' as [_ E4]. apply N.leb_le in E4. lia.
Qed.

Lemma ascii_lower_idem s : ascii_lower (ascii_lower s) = ascii_lower s.
Proof. unfold ascii_lower. rewrite map_map. apply map_ext. intros; apply lower_char_idem. Qed.

Lemma lower_char_dash c : N.eqb dash (lower_char c) = N.eqb dash c.
Proof.
  unfold lower_char, dash.
  destruct (N.leb 65 c && N.leb c 90)%bool eqn:E; [|reflexivity].
  apply andb_true_iff in E as [E1 E2]. apply N.leb_le in E1, E2.
  destruct (N.eqb_spec 45 (c + 32)); destruct (N.eqb_spec 45 c); try reflexivity; lia.
Qed.

Lemma is_custom_name_lower s : is_custom_name (ascii_lower s) = is_custom_name s.
Proof.
  unfold is_custom_name, ascii_lower.
  destruct s as [|a [|b r]]; cbn [map has_prefix]; try reflexivity.
  - now rewrite lower_char_dash.
  - now rewrite !lower_char_dash.
Qed.

(* ------------------------------------------------------------ the loop *)

Section Pipeline.
  Variable known : str -> bool.
  Variable validate : str -> list tok -> option value.
  Variable parse_color : tok -> color.
  Variable other_expander : str -> option (list tok -> option (list nprop)).

  Notation pre1 := (preprocess_one known validate parse_color other_expander).
  Notation pre := (preprocess known validate parse_color other_expander).
  Notation ploop := (preprocess_loop known validate parse_color other_expander).
  Notation is_valid := (valid known validate parse_color other_expander).

  Lemma preprocess_loop_spec ds acc : ploop ds acc = acc ++ flat_map pre1 ds.
  Proof.
    revert acc. induction ds as [|d r IH]; intros acc; simpl.
    - now rewrite app_nil_r.
    - rewrite IH. now rewrite app_assoc.
  Qed.

  Lemma preprocess_flat_map ds : pre ds = flat_map pre1 ds.
  Proof. unfold preprocess. now rewrite preprocess_loop_spec. Qed.

  Lemma flat_map_filter_valid ds : flat_map pre1 (filter is_valid ds) = flat_map pre1 ds.
  Proof.
    induction ds as [|d r IH]; simpl; [reflexivity|].
    unfold valid at 1. destruct (pre1 d) eqn:E; simpl.
    - exact IH.
    - rewrite E. simpl. now rewrite IH.
  Qed.

  (* the Go loop keeps, in order, exactly what each declaration yields on its
     own; the declarations it drops can be removed from the block *)
  Theorem bad_declarations_dropped_alone ds :
    pre ds = pre (filter is_valid ds) /\ pre ds = flat_map pre1 ds.
  Proof.
    split; [|apply preprocess_flat_map].
    rewrite !preprocess_flat_map. now rewrite flat_map_filter_valid.
  Qed.

  Theorem preprocess_app l1 l2 : pre (l1 ++ l2) = pre l1 ++ pre l2.
  Proof. rewrite !preprocess_flat_map. apply flat_map_app. Qed.

  (* inserting or deleting an invalid / unknown declaration anywhere changes nothing *)
  Theorem invalid_declaration_irrelevant l1 d l2 :
    is_valid d = false -> pre (l1 ++ d :: l2) = pre (l1 ++ l2).
  Proof.
    intros H. rewrite !preprocess_app. f_equal.
    change (d :: l2) with ([d] ++ l2). rewrite preprocess_app.
    unfold valid in H. rewrite preprocess_flat_map. simpl.
    destruct (pre1 d); [reflexivity|discriminate].
  Qed.

  (* every other declaration keeps exactly the effect it has alone *)
  Theorem declaration_effect_local l1 d l2 :
    pre (l1 ++ d :: l2) = pre l1 ++ pre1 d ++ pre l2.
  Proof.
    rewrite preprocess_app. f_equal.
    change (d :: l2) with ([d] ++ l2). rewrite preprocess_app.
    rewrite (preprocess_flat_map [d]). simpl. now rewrite app_nil_r.
  Qed.

  (* ---------------------------------------------------------- spelling: names *)

  Theorem name_case_insensitive n n' v i :
    is_custom_name n = false -> is_custom_name n' = false -> same_word n n' ->
    pre1 (RDecl n v i) = pre1 (RDecl n' v i).
  Proof.
    intros Hn Hn' Hs. unfold preprocess_one. rewrite Hn, Hn'. unfold same_word in Hs. now rewrite Hs.
  Qed.

  Corollary name_lowercase n v i :
    is_custom_name n = false -> pre1 (RDecl n v i) = pre1 (RDecl (ascii_lower n) v i).
  Proof.
    intros H. apply name_case_insensitive; [assumption|now rewrite is_custom_name_lower|].
    unfold same_word. now rewrite ascii_lower_idem.
  Qed.

  (* ---------------------------------------------------------- spelling: whitespace *)

  Theorem top_level_trivia_irrelevant n v v' i :
    remove_whitespace v = remove_whitespace v' -> pre1 (RDecl n v i) = pre1 (RDecl n v' i).
  Proof. intros H. unfold preprocess_one. now rewrite H. Qed.

End Pipeline.

(* whitespace / comment insertion between top-level component values *)
Inductive ws_variant : list tok -> list tok -> Prop :=
| WvNil : ws_variant [] []
| WvSame t r r' : ws_variant r r' -> ws_variant (t :: r) (t :: r')
| WvL t r r' : is_trivia t = true -> ws_variant r r' -> ws_variant (t :: r) r'
| WvR t r r' : is_trivia t = true -> ws_variant r r' -> ws_variant r (t :: r').

Lemma ws_variant_remove v v' : ws_variant v v' -> remove_whitespace v = remove_whitespace v'.
Proof.
  induction 1 as [|t r r' _ IH|t r r' Ht _ IH|t r r' Ht _ IH]; unfold remove_whitespace in *; simpl.
  - reflexivity.
  - destruct (is_trivia t); simpl; now rewrite IH.
  - now rewrite Ht.
  - now rewrite Ht.
Qed.

Theorem whitespace_comment_irrelevant known validate pc oe n v v' i :
  ws_variant v v' ->
  preprocess_one known validate pc oe (RDecl n v i) = preprocess_one known validate pc oe (RDecl n v' i).
Proof. intros H. apply top_level_trivia_irrelevant. now apply ws_variant_remove. Qed.

(* ------------------------------------------------------------ projection *)

Lemma same_word_custom v w : same_word v w -> is_custom_name v = is_custom_name w.
Proof. unfold same_word. intros H. rewrite <- (is_custom_name_lower v), <- (is_custom_name_lower w). now rewrite H. Qed.

(* the projection's inner loop is proj_toks *)
Lemma proj_tok_func n a : proj_tok (TFunc n a) = TFunc (ascii_lower n) (proj_toks a).
Proof. reflexivity. Qed.

Lemma proj_tok_block k a : proj_tok (TBlock k a) = TBlock k (proj_toks a).
Proof. reflexivity. Qed.

(* A spelling variant (case of keywords, units, function names; comments and
   whitespace anywhere between component values, at any depth) has the same
   projection. *)
Theorem spelling_variant_projection :
  forall ts ts', sv_toks ts ts' -> proj_toks ts = proj_toks ts'.
Proof.
  apply (sv_toks_ind2
           (fun t t' _ => is_trivia t = is_trivia t' /\ proj_tok t = proj_tok t')
           (fun l l' _ => proj_toks l = proj_toks l')).
  - intros t. split; reflexivity.
  - intros v w Hv Hw Hs. split; [reflexivity|]. simpl. rewrite Hv, Hw. now rewrite Hs.
  - intros q i u u' Hs. split; [reflexivity|]. simpl. now rewrite Hs.
  - intros n n' a a' Hs _ IH. split; [reflexivity|]. rewrite !proj_tok_func. now rewrite Hs, IH.
  - intros k a a' _ IH. split; [reflexivity|]. rewrite !proj_tok_block. now rewrite IH.
  - reflexivity.
  - intros t t' r r' _ [Htr Hp] _ IH. simpl. rewrite Htr, Hp, IH. reflexivity.
  - intros t r r' Ht _ IH. simpl. now rewrite Ht.
  - intros t r r' Ht _ IH. simpl. now rewrite Ht.
Qed.

(* ------------------------------------------------------------ shorthands *)

(* a `for` loop of fallible steps, as a specification-side combinator *)
Fixpoint seq_opt {A} (l : list (option A)) : option (list A) :=
  match l with
  | [] => Some []
  | None :: _ => None
  | Some a :: r => match seq_opt r with Some x => Some (a :: x) | None => None end
  end.

Lemma map_opt_seq {A B} (f : A -> option B) l : map_opt f l = seq_opt (map f l).
Proof.
  induction l as [|a r IH]; simpl; [reflexivity|].
  destruct (f a); [|reflexivity]. now rewrite IH.
Qed.

Definition mixed_default (tokens : list tok) : bool :=
  Nat.ltb 1 (length tokens) && existsb (fun t => is_default_kw (get_keyword t)) tokens.

Lemma four_names_shape name : exists a b c d, four_names name = [a; b; c; d].
Proof. unfold four_names, side_suffixes. simpl. eauto. Qed.

Section Shorthands.
  Variable known : str -> bool.
  Variable validate : str -> list tok -> option value.
  Variable parse_color : tok -> color.
  Variable other_expander : str -> option (list tok -> option (list nprop)).

  Notation vns := (validate_non_shorthand known validate).
  Notation four := (expand_four_sides known validate).

  (* 1 to 4 values are assigned to (top, right, bottom, left) as CSS says, each
     validated as the corresponding longhand *)
  Theorem four_sides_spec name tokens t r b l nt nr nb nl :
    existsb has_var tokens = false -> mixed_default tokens = false ->
    four_sides_assign tokens t r b l -> four_names name = [nt; nr; nb; nl] ->
    four name tokens = seq_opt [vns nt [t] true; vns nr [r] true; vns nb [b] true; vns nl [l] true].
  Proof.
    intros Hv Hm Ha Hn. unfold expand_four_sides, find_var. rewrite Hv, Hn.
    unfold mixed_default in Hm.
    destruct Ha; rewrite Hm; rewrite map_opt_seq; reflexivity.
  Qed.

  (* 0 or more than 4 values are rejected *)
  Theorem four_sides_arity name tokens :
    existsb has_var tokens = false -> (length tokens = 0 \/ 4 < length tokens)%nat ->
    four name tokens = None.
  Proof.
    intros Hv Hl. unfold expand_four_sides, find_var. rewrite Hv.
    destruct (_ && _)%bool; [reflexivity|].
    destruct tokens as [|a [|b [|c [|d [|e r]]]]]; simpl in Hl; try lia; reflexivity.
  Qed.

  (* no value is assigned unless the list has 1 to 4 members *)
  Lemma four_sides_assign_length {A} (vals : list A) t r b l :
    four_sides_assign vals t r b l -> (1 <= length vals <= 4)%nat.
  Proof. destruct 1; simpl; lia. Qed.

  (* the CSS-wide keywords are only valid alone *)
  Theorem four_sides_mixed_default name tokens :
    existsb has_var tokens = false -> mixed_default tokens = true -> four name tokens = None.
  Proof.
    intros Hv Hm. unfold expand_four_sides, find_var. rewrite Hv.
    unfold mixed_default in Hm. now rewrite Hm.
  Qed.

  (* a var() anywhere keeps the whole shorthand pending on each longhand *)
  Theorem four_sides_pending name tokens :
    existsb has_var tokens = true ->
    four name tokens = Some (map (fun n => mkNP n (VRaw tokens) name) (four_names name)).
  Proof. intros Hv. unfold expand_four_sides, find_var. now rewrite Hv. Qed.

  (* ---- generic expander ---- *)

  Notation gen := (generic_expander known validate).

  Theorem generic_expander_default names wrapped sh tokens :
    is_default_kw (get_single_keyword tokens) = true ->
    gen names wrapped sh tokens =
    Some (map (fun n => mkNP n (default_value (get_single_keyword tokens)) []) names).
  Proof. intros H. unfold generic_expander. now rewrite H. Qed.

  Theorem generic_expander_pending names wrapped sh tokens :
    is_default_kw (get_single_keyword tokens) = false -> existsb has_var tokens = true ->
    gen names wrapped sh tokens = Some (map (fun n => mkNP n (VRaw tokens) sh) names).
  Proof. intros H Hv. unfold generic_expander, find_var. now rewrite H, Hv. Qed.

  Lemma assoc_cons {A} k (v : A) n l :
    assoc n ((k, v) :: l) = if str_eqb k n then Some v else assoc n l.
  Proof. reflexivity. Qed.

  Lemma collect_results_spec names result : forall acc results,
    collect_results names result acc = Some results ->
    (forall n, assoc n results = match assoc n result with Some x => Some x | None => assoc n acc end)
    /\ (forall n x, assoc n result = Some x -> in_table names n = true /\ assoc n acc = None)
    /\ NoDup (map fst result).
  Proof.
    induction result as [|[k v] r IH]; intros acc results H; simpl in H.
    - inversion H; subst. repeat split; try (intros; discriminate). constructor.
    - destruct (in_table names k) eqn:Hk; simpl in H; [|discriminate].
      destruct (assoc k acc) eqn:Hacc; [discriminate|].
      destruct (IH _ _ H) as [I1 [I2 I3]].
      assert (Hkr : assoc k r = None).
      { destruct (assoc k r) eqn:E; [|reflexivity].
        destruct (I2 _ _ E) as [_ C]. rewrite assoc_cons, str_eqb_refl in C. discriminate. }
      split; [|split].
      + intros n. rewrite (I1 n), !assoc_cons.
        destruct (str_eqb k n) eqn:E.
        * apply str_eqb_eq in E. subst n. now rewrite Hkr.
        * reflexivity.
      + intros n x. rewrite assoc_cons. destruct (str_eqb k n) eqn:E.
        * apply str_eqb_eq in E. subst n. intros _. now split.
        * intros Hn. destruct (I2 _ _ Hn) as [Hin C]. rewrite assoc_cons, E in C. now split.
      + simpl. constructor; [|assumption].
        intros Hin. apply in_map_iff in Hin as [[k' v'] [Hf Hin]]. simpl in Hf. subst k'.
        clear -Hin Hkr. induction r as [|[a b] r IH]; [contradiction|].
        rewrite assoc_cons in Hkr. destruct Hin as [Heq|Hin].
        * inversion Heq; subst. now rewrite str_eqb_refl in Hkr.
        * destruct (str_eqb a k); [discriminate|]. now apply IH.
  Qed.

  (* Missing parts are reset to `initial`, given parts are validated as their
     longhand, and the expander may neither name a longhand twice nor one
     outside the shorthand. *)
  Theorem generic_expander_resets names wrapped sh tokens props :
    is_default_kw (get_single_keyword tokens) = false -> existsb has_var tokens = false ->
    gen names wrapped sh tokens = Some props ->
    exists result,
      wrapped sh tokens = Some result
      /\ NoDup (map fst result)
      /\ (forall n x, assoc n result = Some x -> In n names)
      /\ Forall2 (fun n p => match assoc n result with
                             | Some toks => vns n toks true = Some p
                             | None => p = mkNP n VInitial []
                             end) names props.
  Proof.
    intros Hd Hv H. unfold generic_expander, find_var in H. rewrite Hd, Hv in H.
    destruct (wrapped sh tokens) as [result|] eqn:Hw; [|discriminate].
    destruct (collect_results names result []) as [results|] eqn:Hc; [|discriminate].
    destruct (collect_results_spec _ _ _ _ Hc) as [I1 [I2 I3]].
    exists result. split; [reflexivity|]. split; [assumption|]. split.
    - intros n x Hn. apply in_table_In. now apply (I2 n x).
    - clear Hc Hw. revert props H. generalize names at 1 2 as ns.
      induction ns as [|n ns IH]; intros props H; simpl in H.
      + inversion H. constructor.
      + rewrite (I1 n) in H. simpl in H.
        destruct (assoc n result) as [toks|] eqn:Ea.
        * destruct (vns n toks true) as [p|] eqn:Ev; [|discriminate].
          destruct (map_opt _ ns) as [ps|] eqn:Em; [|discriminate].
          inversion H; subst. constructor; [now rewrite Ea|]. now apply IH.
        * destruct (map_opt _ ns) as [ps|] eqn:Em; [|discriminate].
          inversion H; subst. constructor; [now rewrite Ea|]. now apply IH.
  Qed.

  (* naming a longhand twice (e.g. `border: 1px 2px`) invalidates the shorthand *)
  Theorem generic_expander_duplicate names wrapped sh tokens result :
    is_default_kw (get_single_keyword tokens) = false -> existsb has_var tokens = false ->
    wrapped sh tokens = Some result -> ~ NoDup (map fst result) ->
    gen names wrapped sh tokens = None.
  Proof.
    intros Hd Hv Hw Hnd.
    destruct (gen names wrapped sh tokens) as [props|] eqn:E; [|reflexivity].
    destruct (generic_expander_resets _ _ _ _ _ Hd Hv E) as [r' [Hw' [Hn _]]].
    rewrite Hw in Hw'. inversion Hw'; subst. contradiction.
  Qed.

  (* border-<side> classifies each component as colour, width or style *)
  Theorem border_side_names_spec sh tokens props :
    border_side_expander known validate parse_color sh tokens = Some props ->
    map np_name props = border_side_names sh
    \/ (existsb has_var tokens = false /\ is_default_kw (get_single_keyword tokens) = false).
  Proof.
    intros H. unfold border_side_expander in H.
    destruct (is_default_kw (get_single_keyword tokens)) eqn:Hd.
    - rewrite generic_expander_default in H by assumption. inversion H. left. reflexivity.
    - destruct (existsb has_var tokens) eqn:Hv.
      + rewrite generic_expander_pending in H by assumption. inversion H. left. reflexivity.
      + right. now split.
  Qed.

End Shorthands.

(* ------------------------------------------------------------ columns = <'column-width'> || <'column-count'> *)

Close Scope Q_scope.

Lemma kw_auto_eq k : str_eqb k kw_auto = true -> k = kw_auto.
Proof. apply str_eqb_eq. Qed.

Lemma column_width_spec t :
  match column_width [t] with
  | Some v => css_col_width t v
  | None => forall v, ~ css_col_width t v
  end.
Proof.
  unfold column_width.
  destruct t; cbn [get_length get_keyword andb orb];
    try (change (str_eqb [] kw_auto) with false; cbv iota; intros v0 H; inversion H as [t' [v' [E _]]| |]; discriminate E).
  - (* TIdent *)
    destruct (str_eqb (ascii_lower v) kw_auto) eqn:E.
    + constructor. exists v. split; [reflexivity|now apply kw_auto_eq].
    + intros v0 H. inversion H as [t' [v' [E1 E2]]| |]; subst. inversion E1; subst.
      rewrite E2 in E. discriminate.
  - (* TNum *)
    destruct (Qeq_bool v 0) eqn:E.
    + constructor. now apply Qeq_bool_iff.
    + change (str_eqb [] kw_auto) with false. cbv iota.
      intros v0 H. inversion H as [t' [v' [E1 _]]|q i Hq|]; subst; [discriminate E1|].
      apply Qeq_bool_iff in Hq. congruence.
  - (* TDim *)
    destruct (assoc (ascii_lower u) length_units) as [code|] eqn:Ea.
    + destruct (Qle_bool 0 v) eqn:Eq.
      * constructor; [now apply Qle_bool_iff|assumption].
      * change (str_eqb [] kw_auto) with false. cbv iota.
        intros v0 H. inversion H as [t' [v' [E1 _]]| |q i u' code' Hq Hc]; subst; [discriminate E1|].
        apply Qle_bool_iff in Hq. congruence.
    + change (str_eqb [] kw_auto) with false. cbv iota.
      intros v0 H. inversion H as [t' [v' [E1 _]]| |q i u' code' Hq Hc]; subst; [discriminate E1|congruence].
Qed.

Lemma column_count_spec t :
  match column_count [t] with
  | Some v => css_col_count t v
  | None => forall v, ~ css_col_count t v
  end.
Proof.
  unfold column_count.
  destruct t; cbn [get_keyword];
    try (change (str_eqb [] kw_auto) with false; cbv iota; intros v0 H; inversion H as [t' [v' [E _]]|]; discriminate E).
  - (* TIdent *)
    destruct (str_eqb (ascii_lower v) kw_auto) eqn:E.
    + constructor. exists v. split; [reflexivity|now apply kw_auto_eq].
    + intros v0 H. inversion H as [t' [v' [E1 E2]]|]; subst. inversion E1; subst.
      rewrite E2 in E. discriminate.
  - (* TNum *)
    destruct is_int.
    + destruct (Qle_bool 1 v) eqn:E.
      * constructor. now apply Qle_bool_iff.
      * change (str_eqb [] kw_auto) with false. cbv iota.
        intros v0 H. inversion H as [t' [v' [E1 _]]|q Hq]; subst; [discriminate E1|].
        apply Qle_bool_iff in Hq. congruence.
    + change (str_eqb [] kw_auto) with false. cbv iota.
      intros v0 H. inversion H as [t' [v' [E1 _]]|]; subst. discriminate E1.
Qed.

(* what the expander needs to know about one component value *)
Inductive cclass (t : tok) : Type :=
| KAuto : str_eqb (get_keyword t) kw_auto = true ->
          column_width [t] = Some (VKw kw_auto) -> column_count [t] = Some (VKw kw_auto) -> cclass t
| KWidth v : str_eqb (get_keyword t) kw_auto = false ->
             column_width [t] = Some v -> column_count [t] = None -> cclass t
| KCount v : str_eqb (get_keyword t) kw_auto = false ->
             column_width [t] = None -> column_count [t] = Some v -> cclass t
| KBad : str_eqb (get_keyword t) kw_auto = false ->
         column_width [t] = None -> column_count [t] = None -> cclass t.

Lemma Qle_bool_false_1_of_0 q : Qeq_bool q 0 = true -> Qle_bool 1 q = false.
Proof.
  intros H. apply Qeq_bool_iff in H. destruct (Qle_bool 1 q) eqn:E; [|reflexivity].
  apply Qle_bool_iff in E. rewrite H in E. unfold Qle in E. simpl in E. lia.
Qed.

Lemma classify t : cclass t.
Proof.
  destruct t; try (apply KBad; reflexivity).
  - (* TIdent *)
    destruct (str_eqb (ascii_lower v) kw_auto) eqn:E.
    + apply KAuto; unfold column_width, column_count; cbn [get_length get_keyword]; rewrite E; reflexivity.
    + apply KBad; unfold column_width, column_count; cbn [get_length get_keyword]; rewrite ?E; reflexivity.
  - (* TNum *)
    destruct (Qeq_bool v 0) eqn:E0.
    + apply (KWidth _ (VDim 0 u_scalar)); [reflexivity| |].
      * unfold column_width. cbn [get_length]. now rewrite E0.
      * unfold column_count. rewrite (Qle_bool_false_1_of_0 _ E0). now destruct is_int.
    + destruct is_int.
      * destruct (Qle_bool 1 v) eqn:E1.
        -- apply (KCount _ (VInt (Qfloor v))); [reflexivity| |].
           ++ unfold column_width. cbn [get_length]. now rewrite E0.
           ++ unfold column_count. now rewrite E1.
        -- apply KBad; [reflexivity| |].
           ++ unfold column_width. cbn [get_length]. now rewrite E0.
           ++ unfold column_count. now rewrite E1.
      * apply KBad; [reflexivity| |].
        -- unfold column_width. cbn [get_length]. now rewrite E0.
        -- reflexivity.
  - (* TDim *)
    destruct (assoc (ascii_lower u) length_units) as [code|] eqn:Ea.
    + destruct (Qle_bool 0 v) eqn:Eq.
      * apply (KWidth _ (VDim v code)); [reflexivity| |reflexivity].
        unfold column_width. cbn [get_length orb]. now rewrite Ea, Eq.
      * apply KBad; [reflexivity| |reflexivity].
        unfold column_width. cbn [get_length get_keyword orb]. now rewrite Ea, Eq.
    + apply KBad; [reflexivity| |reflexivity].
      unfold column_width. cbn [get_length get_keyword orb]. now rewrite Ea.
Qed.

Lemma column_width_some_facts t v :
  column_width [t] = Some v -> has_var t = false /\ is_default_kw (get_keyword t) = false.
Proof.
  destruct t; try discriminate; intros H; (split; [reflexivity|]); try reflexivity.
  unfold column_width in H. cbn [get_length get_keyword] in *.
  destruct (str_eqb (ascii_lower v0) kw_auto) eqn:E; [|discriminate].
  apply kw_auto_eq in E. rewrite E. reflexivity.
Qed.

Lemma column_count_some_facts t v :
  column_count [t] = Some v -> has_var t = false /\ is_default_kw (get_keyword t) = false.
Proof.
  destruct t; try discriminate; intros H; (split; [reflexivity|]); try reflexivity.
  unfold column_count in H. cbn [get_keyword] in *.
  destruct (str_eqb (ascii_lower v0) kw_auto) eqn:E; [|discriminate].
  apply kw_auto_eq in E. rewrite E. reflexivity.
Qed.

Section Columns.
  Variable known : str -> bool.
  Variable validate : str -> list tok -> option value.
  (* the validators of the two longhands are the real ones *)
  Hypothesis validate_width : forall t, validate n_column_width [t] = column_width [t].
  Hypothesis validate_count : forall t, validate n_column_count [t] = column_count [t].

  Notation vns := (validate_non_shorthand known validate).
  Notation cols := (columns_expander known validate).

  Lemma vns_width t v :
    column_width [t] = Some v -> vns n_column_width [t] true = Some (mkNP n_column_width v []).
  Proof.
    intros H. destruct (column_width_some_facts _ _ H) as [Hv Hd].
    unfold validate_non_shorthand. change (is_custom_name n_column_width) with false. cbv iota.
    cbn [negb andb existsb get_single_keyword orb]. rewrite Hv, Hd. cbn [orb]. cbv iota.
    now rewrite validate_width, H.
  Qed.

  Lemma vns_count t v :
    column_count [t] = Some v -> vns n_column_count [t] true = Some (mkNP n_column_count v []).
  Proof.
    intros H. destruct (column_count_some_facts _ _ H) as [Hv Hd].
    unfold validate_non_shorthand. change (is_custom_name n_column_count) with false. cbv iota.
    cbn [negb andb existsb get_single_keyword orb]. rewrite Hv, Hd. cbn [orb]. cbv iota.
    now rewrite validate_count, H.
  Qed.

  Lemma column_count_tok_auto : column_count [tok_auto] = Some (VKw kw_auto).
  Proof. reflexivity. Qed.
  Lemma column_width_tok_auto : column_width [tok_auto] = Some (VKw kw_auto).
  Proof. reflexivity. Qed.

  (* what the expander returns, by the classes of the component values *)
  Definition columns_both (vw vc : value) : option (list nprop) :=
    Some [mkNP n_column_width vw []; mkNP n_column_count vc []].

  Ltac run :=
    unfold columns_expander, generic_expander, find_var, expand_columns;
    cbn [get_single_keyword existsb orb];
    repeat match goal with
           | H : has_var _ = false |- _ => rewrite H
           | H : is_default_kw (get_keyword _) = false |- _ => rewrite H
           | H : str_eqb (get_keyword _) kw_auto = _ |- _ => rewrite H
           end;
    cbn [orb]; cbv iota;
    cbn [columns_loop];
    repeat match goal with
           | H : column_width [_] = _ |- _ => rewrite H
           | H : column_count [_] = _ |- _ => rewrite H
           end;
    cbn [is_some andb negb]; cbv iota;
    cbn -[validate_non_shorthand column_width column_count tok_auto];
    repeat match goal with
           | H : column_width [?t] = Some _ |- context [validate_non_shorthand _ _ n_column_width [?t] true] =>
               rewrite (vns_width t _ H)
           | H : column_count [?t] = Some _ |- context [validate_non_shorthand _ _ n_column_count [?t] true] =>
               rewrite (vns_count t _ H)
           | |- context [validate_non_shorthand _ _ n_column_count [tok_auto] true] =>
               rewrite (vns_count tok_auto _ column_count_tok_auto)
           | |- context [validate_non_shorthand _ _ n_column_width [tok_auto] true] =>
               rewrite (vns_width tok_auto _ column_width_tok_auto)
           end;
    try reflexivity.

  Lemma cols_one a :
    has_var a = false -> is_default_kw (get_keyword a) = false ->
    cols [a] = match column_width [a], column_count [a] with
               | Some vw, _ => columns_both vw (VKw kw_auto)
               | None, Some vc => columns_both (VKw kw_auto) vc
               | None, None => None
               end.
  Proof.
    intros Hv Hd. destruct (classify a) as [Hk Hw Hc|v Hk Hw Hc|v Hk Hw Hc|Hk Hw Hc]; run.
  Qed.

  (* two values: the one that is a width goes to column-width and the one that is a
     count to column-count, whatever the order; `auto` fits both *)
  Lemma cols_two a b :
    has_var a = false -> has_var b = false ->
    cols [a; b] = match column_width [a], column_count [b], column_width [b], column_count [a] with
                  | Some vw, Some vc, _, _ => columns_both vw vc
                  | _, _, Some vw, Some vc => columns_both vw vc
                  | _, _, _, _ => None
                  end.
  Proof.
    intros Ha Hb.
    destruct (classify a) as [Hk Hw Hc|v Hk Hw Hc|v Hk Hw Hc|Hk Hw Hc];
      destruct (classify b) as [Hk' Hw' Hc'|v' Hk' Hw' Hc'|v' Hk' Hw' Hc'|Hk' Hw' Hc']; run.
  Qed.

  (* ---- columns = <'column-width'> || <'column-count'> ---- *)

  Lemma css_width_sound t v : css_col_width t v -> column_width [t] = Some v.
  Proof.
    intros H. pose proof (column_width_spec t) as S.
    destruct (column_width [t]) as [v'|]; [|now destruct (S v)].
    f_equal. destruct H as [t [x [-> Hx]]|q i Hq|q i u code Hq Hc]; inversion S as [t' [x' [E1 E2]]|q' i' Hq'|q' i' u' code' Hq' Hc']; subst;
      try reflexivity; try discriminate E1; try congruence.
  Qed.

  Lemma css_count_sound t v : css_col_count t v -> column_count [t] = Some v.
  Proof.
    intros H. pose proof (column_count_spec t) as S.
    destruct (column_count [t]) as [v'|]; [|now destruct (S v)].
    f_equal. destruct H as [t [x [-> Hx]]|q Hq]; inversion S as [t' [x' [E1 E2]]|q' Hq']; subst;
      try reflexivity; try discriminate E1; try congruence.
  Qed.

  Lemma width_count_auto t vw vc :
    column_width [t] = Some vw -> column_count [t] = Some vc -> vw = VKw kw_auto /\ vc = VKw kw_auto.
  Proof.
    intros Hw Hc. destruct (classify t) as [_ Hw' Hc'|v _ Hw' Hc'|v _ Hw' Hc'|_ Hw' Hc']; try congruence.
    split; congruence.
  Qed.

  (* Soundness: a value of the `columns` grammar sets exactly the two longhand
     values CSS assigns, in whichever order the components are written. *)
  Theorem columns_spec tokens vw vc :
    columns_means tokens vw vc -> cols tokens = columns_both vw vc.
  Proof.
    intros H. destruct H as [w vw Hw|c vc Hc|w c vw vc Hw Hc|w c vw vc Hw Hc].
    - apply css_width_sound in Hw. destruct (column_width_some_facts _ _ Hw) as [Hv Hd].
      rewrite (cols_one w Hv Hd), Hw. reflexivity.
    - apply css_count_sound in Hc. destruct (column_count_some_facts _ _ Hc) as [Hv Hd].
      rewrite (cols_one c Hv Hd), Hc.
      destruct (column_width [c]) as [vw|] eqn:Ew; [|reflexivity].
      destruct (width_count_auto _ _ _ Ew Hc) as [-> ->]. reflexivity.
    - apply css_width_sound in Hw. apply css_count_sound in Hc.
      destruct (column_width_some_facts _ _ Hw) as [Hv _]. destruct (column_count_some_facts _ _ Hc) as [Hv' _].
      rewrite (cols_two w c Hv Hv'), Hw, Hc. reflexivity.
    - apply css_width_sound in Hw. apply css_count_sound in Hc.
      destruct (column_width_some_facts _ _ Hw) as [Hv _]. destruct (column_count_some_facts _ _ Hc) as [Hv' _].
      rewrite (cols_two c w Hv' Hv), Hw, Hc.
      destruct (column_width [c]) as [vw'|] eqn:Ew; [|reflexivity].
      destruct (column_count [w]) as [vc'|] eqn:Ec; [|reflexivity].
      destruct (width_count_auto _ _ _ Ew Hc) as [-> ->]. destruct (width_count_auto _ _ _ Hw Ec) as [-> ->].
      reflexivity.
  Qed.

  (* the order of the two components never matters (valid or not) *)
  Theorem columns_order_insensitive a b :
    has_var a = false -> has_var b = false -> cols [a; b] = cols [b; a].
  Proof.
    intros Ha Hb. rewrite (cols_two a b Ha Hb), (cols_two b a Hb Ha).
    destruct (column_width [a]) as [wa|] eqn:Ewa, (column_count [b]) as [cb|] eqn:Ecb,
             (column_width [b]) as [wb|] eqn:Ewb, (column_count [a]) as [ca|] eqn:Eca; try reflexivity.
    destruct (width_count_auto _ _ _ Ewa Eca) as [-> ->]. destruct (width_count_auto _ _ _ Ewb Ecb) as [-> ->].
    reflexivity.
  Qed.

  (* three or more components: always invalid (one of the two longhands is named twice) *)
  Lemma cols_three a b c r :
    existsb has_var (a :: b :: c :: r) = false -> cols (a :: b :: c :: r) = None.
  Proof.
    intros Hv. unfold columns_expander, generic_expander, find_var. rewrite Hv.
    cbn [get_single_keyword]. change (is_default_kw []) with false. cbv iota.
    unfold expand_columns. cbn [columns_loop].
    destruct (is_some (column_width [a]) && negb (str_eqb [] n_column_width))%bool;
      [|destruct (is_some (column_count [a])); [|reflexivity]];
      (destruct (is_some (column_width [b]) && _)%bool; [|destruct (is_some (column_count [b])); [|reflexivity]]);
      (destruct (is_some (column_width [c]) && _)%bool; [|destruct (is_some (column_count [c])); [|reflexivity]]);
      (destruct (columns_loop r _) as [[out last]|]; [|reflexivity]); reflexivity.
  Qed.

  (* Completeness: a value outside the grammar is dropped *)
  Theorem columns_reject tokens :
    tokens <> [] -> existsb has_var tokens = false -> is_default_kw (get_single_keyword tokens) = false ->
    (forall vw vc, ~ columns_means tokens vw vc) -> cols tokens = None.
  Proof.
    intros Hne Hv Hd Hno.
    destruct tokens as [|a [|b [|c r]]]; [contradiction| | |now apply cols_three].
    - cbn [existsb] in Hv. rewrite orb_false_r in Hv. cbn [get_single_keyword] in Hd.
      rewrite (cols_one a Hv Hd).
      pose proof (column_width_spec a) as Sw. pose proof (column_count_spec a) as Sc.
      destruct (column_width [a]) as [vw|]; [exfalso; apply (Hno vw (VKw kw_auto)); now constructor|].
      destruct (column_count [a]) as [vc|]; [exfalso; apply (Hno (VKw kw_auto) vc); now constructor|reflexivity].
    - cbn [existsb] in Hv. rewrite orb_false_r in Hv. apply orb_false_iff in Hv as [Ha Hb].
      rewrite (cols_two a b Ha Hb).
      pose proof (column_width_spec a) as Swa. pose proof (column_count_spec a) as Sca.
      pose proof (column_width_spec b) as Swb. pose proof (column_count_spec b) as Scb.
      destruct (column_width [a]) as [wa|], (column_count [b]) as [cb|];
        try (exfalso; apply (Hno wa cb); now apply CmWC);
        destruct (column_width [b]) as [wb|], (column_count [a]) as [ca|];
        try reflexivity; exfalso; apply (Hno wb ca); now apply CmCW.
  Qed.
End Columns.

Open Scope Q_scope.

(* ------------------------------------------------------------ the modelled validators read only the projection *)

Lemma get_keyword_proj t : get_keyword (proj_tok t) = get_keyword t.
Proof.
  destruct t; try reflexivity. cbn [proj_tok].
  destruct (is_custom_name v); cbn [get_keyword]; [reflexivity|apply ascii_lower_idem].
Qed.

Lemma get_length_proj t n p : get_length (proj_tok t) n p = get_length t n p.
Proof.
  destruct t; try reflexivity; cbn [proj_tok get_length].
  - now destruct (is_custom_name v).
  - now rewrite ascii_lower_idem.
Qed.

Lemma proj_tok_not_trivia t : is_trivia t = false -> is_trivia (proj_tok t) = false.
Proof. destruct t; try reflexivity; try discriminate. simpl. now destruct (is_custom_name v). Qed.

Section Leaves.
  Variable pc : tok -> color.
  Hypothesis pc_proj : forall t, pc (proj_tok t) = pc t.

  (* Every modelled leaf validator gives the same typed value on a component
     value list and on its projection: case of keywords and units does not
     matter to them. *)
  Theorem modelled_validators_read_projection n ts :
    Forall (fun t => is_trivia t = false) ts ->
    validate_modelled pc n (proj_toks ts) = validate_modelled pc n ts.
  Proof.
    intros Hnt.
    assert (Hmap : proj_toks ts = map proj_tok ts).
    { induction Hnt as [|t r Ht _ IH]; [reflexivity|]. simpl. now rewrite Ht, IH. }
    rewrite Hmap. unfold validate_modelled.
    destruct (leaf_validator pc n) as [f|] eqn:Ef; [|reflexivity].
    unfold leaf_validator in Ef.
    repeat match type of Ef with
           | (if ?c then _ else _) = _ => destruct c
           end; inversion Ef; subst f; clear Ef;
      destruct ts as [|t [|t2 r]]; try reflexivity; cbn [map];
      unfold length_perc_or_auto, length_or_percentage, bleed, border_width, border_style,
             other_colors, color_prop, visibility, column_width, column_count, outline_style, outline_color,
             get_single_keyword, dim_value;
      rewrite ?get_length_proj, ?get_keyword_proj, ?pc_proj; try reflexivity;
      (* column-count looks at the number token itself, which the projection leaves alone *)
      destruct t; try reflexivity; cbn [proj_tok]; now destruct (is_custom_name v).
  Qed.
End Leaves.

(* The full pipeline-level statement for keyword / unit / function-name case
   and nested whitespace; proved in Css/C08SpellingProofs.v. *)
Definition proj_value (v : value) : value :=
  match v with VRaw ts => VRaw (proj_toks ts) | _ => v end.
Definition proj_odecl (d : odecl) : odecl :=
  mkOD (od_name d) (proj_value (od_value d)) (od_important d) (od_short d).

(* component value lists as the pipeline hands them to the validators:
   whitespace and comments removed *)
Definition clean (l : list tok) : Prop := Forall (fun t => is_trivia t = false) l.

Definition reads_projection (validate : str -> list tok -> option value) : Prop :=
  forall n ts ts', clean ts -> clean ts' -> proj_toks ts = proj_toks ts' -> validate n ts = validate n ts'.

Theorem modelled_validators_reads_projection pc :
  (forall t, pc (proj_tok t) = pc t) -> reads_projection (validate_modelled pc).
Proof.
  intros Hpc n ts ts' Hc Hc' Hp.
  rewrite <- (modelled_validators_read_projection pc Hpc n ts Hc),
          <- (modelled_validators_read_projection pc Hpc n ts' Hc'). now rewrite Hp.
Qed.

Definition spelling_irrelevant_statement : Prop :=
  forall known validate pc oe,
    reads_projection validate -> (forall t, pc (proj_tok t) = pc t) ->
    (forall n e, oe n = Some e -> forall ts ts', clean ts -> clean ts' -> proj_toks ts = proj_toks ts' ->
                                 option_map (map (fun p => mkNP (np_name p) (proj_value (np_value p)) (np_short p))) (e ts)
                                 = option_map (map (fun p => mkNP (np_name p) (proj_value (np_value p)) (np_short p))) (e ts')) ->
    forall n n' v v' i,
      (is_custom_name n = false /\ is_custom_name n' = false /\ same_word n n') \/ n = n' ->
      sv_toks v v' ->
      map proj_odecl (preprocess_one known validate pc oe (RDecl n v i))
      = map proj_odecl (preprocess_one known validate pc oe (RDecl n' v' i)).
