(* Css/C08SpellingProofs.v -- the pipeline-level spelling theorem: for every leaf
   validator that reads only the projection, two spellings of a declaration
   (ASCII case of the property name, keywords, units and function names;
   comments and whitespace between component values at any depth) yield the
   same declarations, up to the spelling of the pending (var()-carrying)
   token lists. *)
From Coq Require Import List NArith ZArith QArith Bool Lia Arith.
From Verif Require Import Base.GoSem Css.DeclTok Css.Decl Css.VarSubst Css.C08Spec Css.C08DeclProofs Css.C08VarSubstProofs.
Import ListNotations.
Open Scope nat_scope.

(* ------------------------------------------------------------ projection basics *)

Lemma is_trivia_proj t : is_trivia (proj_tok t) = is_trivia t.
Proof. destruct t; try reflexivity. simpl. now destruct (is_custom_name v). Qed.

Lemma is_literal_proj t x : is_literal (proj_tok t) x = is_literal t x.
Proof. destruct t; try reflexivity. simpl. now destruct (is_custom_name v). Qed.

Lemma proj_toks_cons a r :
  proj_toks (a :: r) = if is_trivia a then proj_toks r else proj_tok a :: proj_toks r.
Proof. reflexivity. Qed.

Lemma is_func_proj t :
  (exists n a, t = TFunc n a) -> exists n a, proj_tok t = TFunc n a.
Proof. intros [n [a ->]]. rewrite proj_tok_func. eauto. Qed.

Lemma keep_arg_proj t : keep_arg (proj_tok t) = keep_arg t.
Proof. unfold keep_arg. now rewrite is_trivia_proj, is_literal_proj. Qed.

Lemma filter_keep_proj l : filter keep_arg (proj_toks l) = map proj_tok (filter keep_arg l).
Proof.
  induction l as [|a r IH]; [reflexivity|].
  rewrite proj_toks_cons. cbn [filter]. unfold keep_arg at 2.
  destruct (is_trivia a) eqn:Et; cbn [orb negb]; [exact IH|].
  cbn [filter]. rewrite keep_arg_proj. unfold keep_arg at 1. rewrite Et. cbn [orb].
  destruct (is_literal a comma); cbn [negb map]; now rewrite IH.
Qed.

(* ------------------------------------------------------------ ParseFunction / HasVar commute with the projection *)

Definition inner_ok (t : tok) : bool :=
  match t with
  | TFunc _ _ => match fst (parse_function t) with [] => false | _ => true end
  | _ => true
  end.

Lemma pf_loop_inner content l acc :
  pf_loop content l acc =
  match content with
  | [] => if l then None else Some (rev acc)
  | token :: rest =>
      if is_trivia token then pf_loop rest l acc
      else if (l && is_literal token comma)%bool then None
      else if is_literal token comma then pf_loop rest true acc
      else if inner_ok token then pf_loop rest false (token :: acc) else None
  end.
Proof. destruct content; reflexivity. Qed.

Lemma pf_loop_proj fargs :
  (forall a, In a fargs -> inner_ok (proj_tok a) = inner_ok a) ->
  forall l acc, pf_loop (proj_toks fargs) l (map proj_tok acc) = option_map (map proj_tok) (pf_loop fargs l acc).
Proof.
  induction fargs as [|a r IH]; intros Hin l acc.
  - simpl. destruct l; [reflexivity|]. simpl. now rewrite map_rev.
  - assert (Hr : forall b, In b r -> inner_ok (proj_tok b) = inner_ok b) by (intros b Hb; apply Hin; now right).
    rewrite proj_toks_cons. rewrite (pf_loop_inner (a :: r)).
    destruct (is_trivia a) eqn:Et; [now apply IH|].
    rewrite pf_loop_inner. rewrite is_trivia_proj, Et, is_literal_proj.
    destruct (l && is_literal a comma)%bool; [reflexivity|].
    destruct (is_literal a comma); [now apply IH|].
    rewrite (Hin a (or_introl eq_refl)).
    destruct (inner_ok a); [|reflexivity].
    change (proj_tok a :: map proj_tok acc) with (map proj_tok (a :: acc)). now apply IH.
Qed.

Lemma existsb_map_ext {A B} (f : B -> bool) (g : A -> bool) (h : A -> B) l :
  (forall a, In a l -> f (h a) = g a) -> existsb f (map h l) = existsb g l.
Proof.
  induction l as [|a r IH]; intros H; [reflexivity|]. simpl.
  rewrite (H a (or_introl eq_refl)), IH; [reflexivity|]. intros b Hb. apply H. now right.
Qed.

Lemma filter_in_depth a l : In a (filter keep_arg l) -> depth a <= max_depth l.
Proof. intros H. apply filter_In in H as [H _]. now apply max_depth_in. Qed.

Theorem parse_has_var_proj : forall d t, depth t <= d ->
  fst (parse_function (proj_tok t)) = fst (parse_function t)
  /\ snd (parse_function (proj_tok t)) = map proj_tok (snd (parse_function t))
  /\ has_var (proj_tok t) = has_var t.
Proof.
  induction d as [|d IH]; intros t Hd; [pose proof (depth_pos t); lia|].
  destruct t; try (repeat split; reflexivity).
  - (* TIdent *) simpl. destruct (is_custom_name v); repeat split; reflexivity.
  - (* TFunc *)
    rewrite depth_func in Hd.
    assert (Hsub : forall a, In a args -> depth a <= d) by (intros a Ha; apply max_depth_in in Ha; lia).
    assert (Hinner : forall a, In a args -> inner_ok (proj_tok a) = inner_ok a).
    { intros a Ha. destruct (IH a (Hsub a Ha)) as [Hf _].
      destruct a; try reflexivity.
      - simpl. now destruct (is_custom_name v).
      - rewrite proj_tok_func in *. unfold inner_ok. now rewrite Hf. }
    rewrite proj_tok_func.
    assert (Hpf : pf_loop (proj_toks args) false [] = option_map (map proj_tok) (pf_loop args false []))
      by (apply (pf_loop_proj args Hinner false [])).
    assert (H12 : fst (parse_function (TFunc (ascii_lower name) (proj_toks args))) = fst (parse_function (TFunc name args))
                  /\ snd (parse_function (TFunc (ascii_lower name) (proj_toks args)))
                     = map proj_tok (snd (parse_function (TFunc name args)))).
    { rewrite !parse_function_unfold, Hpf.
      destruct (pf_loop args false []) as [res|]; simpl; [|split; reflexivity].
      now rewrite ascii_lower_idem. }
    destruct H12 as [H1 H2]. split; [exact H1|]. split; [exact H2|].
    rewrite !has_var_unfold.
    destruct (parse_function (TFunc (ascii_lower name) (proj_toks args))) as [n1 a1].
    destruct (parse_function (TFunc name args)) as [n2 a2].
    simpl in H1, H2. subst n1 a1.
    destruct n2 as [|c n2]; [reflexivity|].
    assert (Hne : match map proj_tok a2 with [] => false | _ => true end = match a2 with [] => false | _ => true end)
      by (destruct a2; reflexivity).
    rewrite Hne.
    destruct (str_eqb (c :: n2) s_var && match a2 with [] => false | _ => true end)%bool.
    + destruct a2 as [|h r]; [reflexivity|]. cbn [map].
      destruct h; try reflexivity. simpl.
      destruct (is_custom_name v) eqn:Ec; [now rewrite Ec|]. now rewrite is_custom_name_lower, Ec.
    + rewrite filter_keep_proj. apply existsb_map_ext.
      intros a Ha. apply filter_In in Ha as [Ha _]. now destruct (IH a (Hsub a Ha)) as [_ [_ H3]].
Qed.

Corollary has_var_proj t : has_var (proj_tok t) = has_var t.
Proof. now destruct (parse_has_var_proj (depth t) t (le_n _)) as [_ [_ H]]. Qed.

(* ------------------------------------------------------------ equivalent tokens *)

(* two component values with the same projection *)
Definition peq (a b : tok) : Prop := proj_tok a = proj_tok b.

Lemma peq_has_var a b : peq a b -> has_var a = has_var b.
Proof. unfold peq. intros H. now rewrite <- (has_var_proj a), <- (has_var_proj b), H. Qed.

Lemma peq_keyword a b : peq a b -> get_keyword a = get_keyword b.
Proof. unfold peq. intros H. now rewrite <- (get_keyword_proj a), <- (get_keyword_proj b), H. Qed.

Lemma peq_length a b n p : peq a b -> get_length a n p = get_length b n p.
Proof. unfold peq. intros H. now rewrite <- (get_length_proj a), <- (get_length_proj b), H. Qed.

Lemma peq_trivia a b : peq a b -> is_trivia a = is_trivia b.
Proof. unfold peq. intros H. now rewrite <- (is_trivia_proj a), <- (is_trivia_proj b), H. Qed.

Lemma proj_toks_clean l : clean l -> proj_toks l = map proj_tok l.
Proof. induction 1 as [|t r Ht _ IH]; [reflexivity|]. rewrite proj_toks_cons, Ht. now rewrite IH. Qed.

Lemma peq_list_proj l l' : clean l -> clean l' -> Forall2 peq l l' -> proj_toks l = proj_toks l'.
Proof.
  intros Hc Hc' H. rewrite !proj_toks_clean by assumption.
  induction H as [|a b r r' Hab _ IH]; [reflexivity|].
  inversion Hc; inversion Hc'; subst. cbn [map]. rewrite Hab. f_equal. now apply IH.
Qed.

Lemma peq_existsb (f : tok -> bool) l l' :
  (forall a b, peq a b -> f a = f b) -> Forall2 peq l l' -> existsb f l = existsb f l'.
Proof. intros Hf H. induction H as [|a b r r' Hab _ IH]; [reflexivity|]. simpl. now rewrite (Hf a b Hab), IH. Qed.

Lemma remove_whitespace_clean l : clean (remove_whitespace l).
Proof.
  unfold clean, remove_whitespace. apply Forall_forall. intros t Ht. apply filter_In in Ht as [_ H].
  now destruct (is_trivia t).
Qed.

(* equivalent, and not whitespace / comment *)
Definition ceq (a b : tok) : Prop := peq a b /\ is_trivia a = false.

Lemma ceq_clean l l' : Forall2 ceq l l' -> clean l /\ clean l' /\ Forall2 peq l l'.
Proof.
  induction 1 as [|a b r r' [Hab Ha] _ [I1 [I2 I3]]]; [repeat split; constructor|].
  repeat split; constructor; try assumption. now rewrite <- (peq_trivia _ _ Hab).
Qed.

(* spelling variants have pointwise-equivalent component values once the trivia is removed *)
Lemma sv_tok_peq t t' : sv_tok t t' -> peq t t'.
Proof.
  intros H. unfold peq.
  assert (Hl : sv_toks [t] [t']) by (constructor; [assumption|constructor]).
  apply spelling_variant_projection in Hl.
  destruct H as [t|v w Hv Hw Hs|q i u u' Hs|n n' a a' Hs Ha|k a a' Ha]; try reflexivity.
  - simpl. rewrite Hv, Hw. now rewrite Hs.
  - simpl. now rewrite Hs.
  - cbn [proj_toks is_trivia] in Hl. apply (f_equal (hd TWs)) in Hl. exact Hl.
  - cbn [proj_toks is_trivia] in Hl. apply (f_equal (hd TWs)) in Hl. exact Hl.
Qed.

Lemma sv_toks_remove v v' : sv_toks v v' -> Forall2 ceq (remove_whitespace v) (remove_whitespace v').
Proof.
  induction 1 as [|t t' r r' Ht _ IH|t r r' Ht _ IH|t r r' Ht _ IH]; unfold remove_whitespace in *; cbn [filter].
  - constructor.
  - apply sv_tok_peq in Ht. rewrite <- (peq_trivia _ _ Ht).
    destruct (is_trivia t) eqn:Et; cbn [negb]; [exact IH|]. constructor; [now split|exact IH].
  - now rewrite Ht.
  - now rewrite Ht.
Qed.

(* ------------------------------------------------------------ relational lifting *)

Definition orel {B} (R : B -> B -> Prop) (x y : option B) : Prop :=
  match x, y with None, None => True | Some a, Some b => R a b | _, _ => False end.

Definition pnp (p : nprop) : nprop := mkNP (np_name p) (proj_value (np_value p)) (np_short p).
Definition nrel (p q : nprop) : Prop := pnp p = pnp q.
Definition lrel : list nprop -> list nprop -> Prop := Forall2 nrel.

Lemma lrel_map l l' : lrel l l' <-> map pnp l = map pnp l'.
Proof.
  split.
  - induction 1 as [|a b r r' Hab _ IH]; [reflexivity|]. simpl. now rewrite Hab, IH.
  - revert l'. induction l as [|a r IH]; intros [|b r'] H; simpl in H; try discriminate; [constructor|].
    constructor.
    + apply (f_equal (hd (pnp a))) in H. exact H.
    + apply IH. apply (f_equal (@tl _)) in H. exact H.
Qed.

Lemma orel_lrel_eq x y : orel lrel x y <-> option_map (map pnp) x = option_map (map pnp) y.
Proof.
  destruct x as [l|], y as [l'|]; simpl.
  - split; intros H; [f_equal; now apply lrel_map|inversion H; now apply lrel_map].
  - split; [intros []|discriminate].
  - split; [intros []|discriminate].
  - split; auto.
Qed.

Lemma map_opt_orel {A B} (P : A -> A -> Prop) (R : B -> B -> Prop) (f g : A -> option B) l l' :
  (forall a b, P a b -> orel R (f a) (g b)) -> Forall2 P l l' ->
  orel (Forall2 R) (map_opt f l) (map_opt g l').
Proof.
  intros Hf H. induction H as [|a b r r' Hab _ IH]; simpl; [constructor|].
  specialize (Hf a b Hab). destruct (f a) as [x|], (g b) as [y|]; simpl in Hf; try contradiction; [|exact I].
  destruct (map_opt f r) as [xs|], (map_opt g r') as [ys|]; simpl in IH; try contradiction; [|exact I].
  simpl. now constructor.
Qed.

Lemma Forall2_len {A B} (R : A -> B -> Prop) l l' : Forall2 R l l' -> length l = length l'.
Proof. induction 1; simpl; congruence. Qed.

Lemma orel_lrel_refl x : orel lrel x x.
Proof. apply orel_lrel_eq. reflexivity. Qed.

(* ------------------------------------------------------------ the pipeline respects equivalence *)

Section Pipeline.
  Variable known : str -> bool.
  Variable validate : str -> list tok -> option value.
  Variable pc : tok -> color.
  Variable oe : str -> option (list tok -> option (list nprop)).

  Hypothesis validate_proj : reads_projection validate.
  Hypothesis pc_proj : forall t, pc (proj_tok t) = pc t.
  Hypothesis oe_proj : forall n e, oe n = Some e -> forall ts ts', clean ts -> clean ts' -> proj_toks ts = proj_toks ts' ->
                                   option_map (map pnp) (e ts) = option_map (map pnp) (e ts').

  Notation vns := (validate_non_shorthand known validate).

  Lemma peq_pc a b : peq a b -> pc a = pc b.
  Proof. unfold peq. intros H. now rewrite <- (pc_proj a), <- (pc_proj b), H. Qed.

  Lemma ceq_proj l l' : Forall2 ceq l l' -> proj_toks l = proj_toks l'.
  Proof. intros H. destruct (ceq_clean _ _ H) as [H1 [H2 H3]]. now apply peq_list_proj. Qed.

  Lemma ceq_existsb (f : tok -> bool) l l' :
    (forall a b, peq a b -> f a = f b) -> Forall2 ceq l l' -> existsb f l = existsb f l'.
  Proof. intros Hf H. apply peq_existsb; [assumption|]. now destruct (ceq_clean _ _ H) as [_ [_ H3]]. Qed.

  Lemma ceq_single_keyword l l' : Forall2 ceq l l' -> get_single_keyword l = get_single_keyword l'.
  Proof.
    intros H. destruct H as [|a b r r' [Hab _] Hr]; [reflexivity|].
    destruct Hr; [|reflexivity]. simpl. now apply peq_keyword.
  Qed.

  Lemma vns_ceq name l l' required :
    Forall2 ceq l l' -> orel nrel (vns name l required) (vns name l' required).
  Proof.
    intros H. unfold validate_non_shorthand. pose proof (ceq_proj _ _ H) as Hp.
    destruct (is_custom_name name); [simpl; unfold nrel, pnp; simpl; now rewrite Hp|].
    destruct (negb required && negb (known name))%bool; [exact I|].
    rewrite (ceq_existsb has_var l l' peq_has_var H).
    destruct (existsb has_var l'); [simpl; unfold nrel, pnp; simpl; now rewrite Hp|].
    rewrite (ceq_single_keyword _ _ H).
    destruct (is_default_kw (get_single_keyword l')); [reflexivity|].
    destruct (ceq_clean _ _ H) as [Hc [Hc' _]].
    rewrite (validate_proj name l l' Hc Hc' Hp). destruct (validate name l'); simpl; [reflexivity|exact I].
  Qed.

  Lemma find_var_ceq sh l l' names :
    Forall2 ceq l l' -> orel lrel (find_var sh l names) (find_var sh l' names).
  Proof.
    intros H. unfold find_var. rewrite (ceq_existsb has_var l l' peq_has_var H).
    destruct (existsb has_var l'); [|exact I]. simpl. apply lrel_map.
    rewrite !map_map. apply map_ext. intros n. unfold pnp. simpl. now rewrite (ceq_proj _ _ H).
  Qed.

  Lemma four_sides_ceq name l l' :
    Forall2 ceq l l' ->
    orel lrel (expand_four_sides known validate name l) (expand_four_sides known validate name l').
  Proof.
    intros H. unfold expand_four_sides.
    pose proof (find_var_ceq name l l' (four_names name) H) as Hfv.
    destruct (find_var name l (four_names name)) as [x|], (find_var name l' (four_names name)) as [y|];
      simpl in Hfv; try contradiction; [exact Hfv|].
    rewrite (Forall2_len _ _ _ H).
    rewrite (ceq_existsb (fun t => is_default_kw (get_keyword t)) l l'
                         (fun a b Hab => f_equal is_default_kw (peq_keyword a b Hab)) H).
    destruct (_ && _)%bool; [exact I|].
    destruct (four_names_shape name) as [n1 [n2 [n3 [n4 Hn]]]]. rewrite Hn.
    assert (Hone : forall p q, fst p = fst q /\ ceq (snd p) (snd q) ->
                               orel nrel (vns (fst p) [snd p] true) (vns (fst q) [snd q] true)).
    { intros p q [Hpq Hc]. rewrite Hpq. apply vns_ceq. constructor; [exact Hc|constructor]. }
    assert (Hgo : forall names toks toks', Forall2 ceq toks toks' ->
              orel (Forall2 nrel)
                   (map_opt (fun nt => vns (fst nt) [snd nt] true) (combine names toks))
                   (map_opt (fun nt => vns (fst nt) [snd nt] true) (combine names toks'))).
    { intros names toks toks' Ht. apply (map_opt_orel _ _ _ _ _ _ Hone).
      revert names. induction Ht as [|a b r r' Hab _ IH]; intros [|nm names]; simpl; try constructor.
      - now split.
      - apply IH. }
    inversion H as [|a1 b1 r1 r1' H1 Ht1]; subst; [exact I|].
    inversion Ht1 as [|a2 b2 r2 r2' H2 Ht2]; subst; [apply Hgo; repeat (constructor; try assumption)|].
    inversion Ht2 as [|a3 b3 r3 r3' H3 Ht3]; subst; [apply Hgo; repeat (constructor; try assumption)|].
    inversion Ht3 as [|a4 b4 r4 r4' H4 Ht4]; subst; [apply Hgo; repeat (constructor; try assumption)|].
    inversion Ht4 as [|a5 b5 r5 r5' H5 Ht5]; subst; [apply Hgo; repeat (constructor; try assumption)|exact I].
  Qed.

  (* ---- generic expander ---- *)

  Definition prel (p q : str * list tok) : Prop := fst p = fst q /\ Forall2 ceq (snd p) (snd q).

  Lemma assoc_prel n l l' :
    Forall2 prel l l' -> orel (Forall2 ceq) (assoc n l) (assoc n l').
  Proof.
    induction 1 as [|[k v] [k' v'] r r' [Hk Hv] _ IH]; [exact I|]. simpl in Hk, Hv. subst k'. simpl.
    destruct (str_eqb k n); [exact Hv|exact IH].
  Qed.

  Lemma collect_results_prel names r r' :
    Forall2 prel r r' -> forall acc acc', Forall2 prel acc acc' ->
    orel (Forall2 prel) (collect_results names r acc) (collect_results names r' acc').
  Proof.
    induction 1 as [|[k v] [k' v'] r r' [Hk Hv] _ IH]; intros acc acc' Hacc; [exact Hacc|].
    simpl in Hk, Hv. subst k'. simpl.
    destruct (negb (in_table names k)); [exact I|].
    pose proof (assoc_prel k _ _ Hacc) as Ha.
    destruct (assoc k acc), (assoc k acc'); simpl in Ha; try contradiction; [exact I|].
    apply IH. constructor; [now split|assumption].
  Qed.

  Lemma generic_expander_ceq names wrapped sh l l' :
    (orel (Forall2 prel) (wrapped sh l) (wrapped sh l')) ->
    Forall2 ceq l l' ->
    orel lrel (generic_expander known validate names wrapped sh l)
              (generic_expander known validate names wrapped sh l').
  Proof.
    intros Hw H. unfold generic_expander.
    rewrite (ceq_single_keyword _ _ H).
    destruct (is_default_kw (get_single_keyword l')); [apply orel_lrel_refl|].
    pose proof (find_var_ceq sh l l' names H) as Hfv.
    destruct (find_var sh l names) as [x|], (find_var sh l' names) as [y|]; simpl in Hfv; try contradiction; [exact Hfv|].
    destruct (wrapped sh l) as [res|], (wrapped sh l') as [res'|]; simpl in Hw; try contradiction; [|exact I].
    pose proof (collect_results_prel names res res' Hw [] [] (Forall2_nil _)) as Hc.
    destruct (collect_results names res []) as [rs|], (collect_results names res' []) as [rs'|];
      simpl in Hc; try contradiction; [|exact I].
    apply (map_opt_orel eq nrel); [|clear; induction names; constructor; auto].
    intros n ? <-. pose proof (assoc_prel n _ _ Hc) as Ha.
    destruct (assoc n rs) as [t|], (assoc n rs') as [t'|]; simpl in Ha; try contradiction.
    - now apply vns_ceq.
    - reflexivity.
  Qed.

  Lemma border_width_peq a b : peq a b -> border_width [a] = border_width [b].
  Proof.
    intros H. unfold border_width. rewrite (peq_length a b false false H), (peq_keyword a b H). reflexivity.
  Qed.

  Lemma border_style_peq a b : peq a b -> border_style [a] = border_style [b].
  Proof. intros H. unfold border_style, get_single_keyword. now rewrite (peq_keyword a b H). Qed.

  Lemma expand_border_side_ceq sh l l' :
    Forall2 ceq l l' -> orel (Forall2 prel) (expand_border_side pc sh l) (expand_border_side pc sh l').
  Proof.
    intros H. unfold expand_border_side. apply (map_opt_orel ceq prel); [|assumption].
    intros a b [Hab Ha]. rewrite (peq_pc a b Hab), (border_width_peq a b Hab), (border_style_peq a b Hab).
    assert (Hc : Forall2 ceq [a] [b]) by (repeat constructor; assumption).
    destruct (pc b); try (simpl; split; [reflexivity|exact Hc]).
    destruct (border_width [b]); [simpl; split; [reflexivity|exact Hc]|].
    destruct (border_style [b]); [simpl; split; [reflexivity|exact Hc]|exact I].
  Qed.

  Lemma border_side_ceq sh l l' :
    Forall2 ceq l l' ->
    orel lrel (border_side_expander known validate pc sh l) (border_side_expander known validate pc sh l').
  Proof.
    intros H. unfold border_side_expander. apply generic_expander_ceq; [|assumption].
    now apply expand_border_side_ceq.
  Qed.

  Lemma expand_border_ceq l l' :
    Forall2 ceq l l' -> orel lrel (expand_border known validate pc l) (expand_border known validate pc l').
  Proof.
    intros H. unfold expand_border. induction border_sides as [|sd r IH]; simpl; [constructor|].
    pose proof (border_side_ceq sd l l' H) as Hs.
    destruct (border_side_expander known validate pc sd l) as [x|],
             (border_side_expander known validate pc sd l') as [y|]; simpl in Hs; try contradiction; [|exact I].
    destruct (expand_border_loop known validate pc r l) as [xs|],
             (expand_border_loop known validate pc r l') as [ys|]; simpl in IH; try contradiction; [|exact I].
    simpl. now apply Forall2_app.
  Qed.

  (* ---- columns ---- *)

  Lemma column_width_peq a b : peq a b -> column_width [a] = column_width [b].
  Proof.
    intros H. unfold column_width. rewrite (peq_length a b false false H), (peq_keyword a b H). reflexivity.
  Qed.

  Lemma column_count_proj t : column_count [proj_tok t] = column_count [t].
  Proof.
    unfold column_count. rewrite get_keyword_proj.
    destruct t; try reflexivity. cbn [proj_tok]. now destruct (is_custom_name v).
  Qed.

  Lemma column_count_peq a b : peq a b -> column_count [a] = column_count [b].
  Proof. unfold peq. intros H. now rewrite <- (column_count_proj a), <- (column_count_proj b), H. Qed.

  Lemma columns_loop_ceq l l' :
    Forall2 ceq l l' -> forall name,
    orel (fun x y => Forall2 prel (fst x) (fst y) /\ snd x = snd y) (columns_loop l name) (columns_loop l' name).
  Proof.
    induction 1 as [|a b r r' [Hab Ha] _ IH]; intros name; cbn [columns_loop].
    - simpl. split; [constructor|reflexivity].
    - rewrite (column_width_peq a b Hab), (column_count_peq a b Hab).
      assert (Hc : Forall2 ceq [a] [b]) by (repeat constructor; assumption).
      match goal with |- context [match ?x with Some _ => _ | None => None end] => destruct x as [nm|] end; [|exact I].
      specialize (IH nm).
      destruct (columns_loop r nm) as [[out last]|], (columns_loop r' nm) as [[out' last']|];
        simpl in IH; try contradiction; [|exact I].
      destruct IH as [Ho Hl]. simpl. split; [|exact Hl]. constructor; [|exact Ho]. split; [reflexivity|exact Hc].
  Qed.

  Lemma expand_columns_ceq sh l l' :
    Forall2 ceq l l' -> orel (Forall2 prel) (expand_columns sh l) (expand_columns sh l').
  Proof.
    intros H. unfold expand_columns.
    assert (Hrev : Forall2 ceq
                     match l with [a; b] => if str_eqb (get_keyword a) kw_auto then [b; a] else l | _ => l end
                     match l' with [a; b] => if str_eqb (get_keyword a) kw_auto then [b; a] else l' | _ => l' end).
    { inversion H as [|a1 b1 r1 r1' H1 Ht1]; subst; [constructor|].
      inversion Ht1 as [|a2 b2 r2 r2' H2 Ht2]; subst; [exact H|].
      inversion Ht2 as [|a3 b3 r3 r3' H3 Ht3]; subst; [|exact H].
      destruct H1 as [P1 T1]. rewrite (peq_keyword a1 b1 P1).
      destruct (str_eqb (get_keyword b1) kw_auto); [|exact H].
      repeat constructor; try assumption; now destruct H2. }
    set (t := match l with [a; b] => if str_eqb (get_keyword a) kw_auto then [b; a] else l | _ => l end) in *.
    set (t' := match l' with [a; b] => if str_eqb (get_keyword a) kw_auto then [b; a] else l' | _ => l' end) in *.
    clearbody t t'. clear H l l'.
    pose proof (columns_loop_ceq t t' Hrev []) as Hl.
    destruct (columns_loop t []) as [[out name]|], (columns_loop t' []) as [[out' name']|];
      simpl in Hl; try contradiction; [|exact I].
    destruct Hl as [Ho Hn]. subst name'.
    inversion Hrev as [|a1 b1 r1 r1' H1 Ht1]; subst; [exact Ho|].
    inversion Ht1; subst; [|exact Ho].
    simpl. apply Forall2_app; [exact Ho|]. constructor; [|constructor].
    split; [reflexivity|]. constructor; [|constructor]. split; reflexivity.
  Qed.

  Lemma columns_expander_ceq l l' :
    Forall2 ceq l l' ->
    orel lrel (columns_expander known validate l) (columns_expander known validate l').
  Proof.
    intros H. unfold columns_expander. apply generic_expander_ceq; [|assumption].
    now apply expand_columns_ceq.
  Qed.

  Lemma expander_of_ceq name l l' :
    Forall2 ceq l l' ->
    match expander_of known validate pc oe name with
    | Some e => orel lrel (e l) (e l')
    | None => True
    end.
  Proof.
    intros H. unfold expander_of.
    destruct (in_table four_sides_shorthands name); [now apply four_sides_ceq|].
    destruct (str_eqb name n_border); [now apply expand_border_ceq|].
    destruct (in_table border_sides name); [now apply border_side_ceq|].
    destruct (in_table side_like_shorthands name); [now apply border_side_ceq|].
    destruct (str_eqb name n_columns); [now apply columns_expander_ceq|].
    destruct (oe name) as [e|] eqn:E; [|exact I].
    apply orel_lrel_eq. destruct (ceq_clean _ _ H) as [Hc [Hc' _]].
    apply (oe_proj name e E); [assumption|assumption|now apply ceq_proj].
  Qed.

  Definition pod (d : odecl) : odecl := proj_odecl d.

  (* the declarations a declaration yields depend only on the projection of its value *)
  Theorem preprocess_one_values n v v' i :
    sv_toks v v' ->
    map proj_odecl (preprocess_one known validate pc oe (RDecl n v i))
    = map proj_odecl (preprocess_one known validate pc oe (RDecl n v' i)).
  Proof.
    intros Hsv. pose proof (sv_toks_remove _ _ Hsv) as H.
    unfold preprocess_one.
    destruct (in_table not_print_media_l _); [reflexivity|].
    match goal with |- context [match ?x with Some _ => _ | None => [] end] => destruct x as [name|] end; [|reflexivity].
    destruct (_ && _)%bool; [reflexivity|].
    assert (Hres : forall (x y : option (list nprop)), orel lrel x y ->
              map proj_odecl (match x with None => [] | Some nps => map (fun np => mkOD (np_name np) (np_value np) i (np_short np)) nps end)
              = map proj_odecl (match y with None => [] | Some nps => map (fun np => mkOD (np_name np) (np_value np) i (np_short np)) nps end)).
    { intros x y Hxy. destruct x as [xs|], y as [ys|]; simpl in Hxy; try contradiction; [|reflexivity].
      induction Hxy as [|p q r r' Hpq _ IH]; [reflexivity|]. simpl. rewrite IH. f_equal.
      unfold nrel, pnp in Hpq. inversion Hpq. unfold proj_odecl. simpl. congruence. }
    destruct H as [|a b r r' Hab Hr]; [reflexivity|].
    assert (Hl : Forall2 ceq (a :: r) (b :: r')) by (constructor; assumption).
    apply Hres.
    pose proof (expander_of_ceq name _ _ Hl) as He.
    destruct (expander_of known validate pc oe name) as [e|]; [exact He|].
    pose proof (vns_ceq name _ _ false Hl) as Hv.
    destruct (vns name (a :: r) false) as [x|], (vns name (b :: r') false) as [y|]; simpl in Hv; try contradiction; [|exact I].
    simpl. now repeat constructor.
  Qed.

  (* ... and property names are case-insensitive: the full spelling theorem *)
  Theorem spelling_irrelevant n n' v v' i :
    (is_custom_name n = false /\ is_custom_name n' = false /\ same_word n n') \/ n = n' ->
    sv_toks v v' ->
    map proj_odecl (preprocess_one known validate pc oe (RDecl n v i))
    = map proj_odecl (preprocess_one known validate pc oe (RDecl n' v' i)).
  Proof.
    intros Hn Hsv. rewrite (preprocess_one_values n v v' i Hsv).
    destruct Hn as [[H1 [H2 H3]]| ->]; [|reflexivity].
    now rewrite (name_case_insensitive known validate pc oe n n' v' i H1 H2 H3).
  Qed.
End Pipeline.

Theorem spelling_irrelevant_holds : spelling_irrelevant_statement.
Proof.
  unfold spelling_irrelevant_statement. intros known validate pc oe Hv Hpc Hoe n n' v v' i Hn Hsv.
  apply spelling_irrelevant; assumption.
Qed.
