(* Css/Cascade.v -- model of /repo's cascade (property C03), after the repairs
   5fe51d0 (style attribute rank), 44a9070 (nested rules in source order) and
   5f1d923 (every member of a nested selector list is relative to the parent).

   Ported code (line numbers as of /repo commit bb7a416):
     html/tree/style.go      newStyleFor 50-116 (the two insertion loops),
                             findStyleAttributes 751-1049 (style attribute and
                             width/height presentational hints),
                             declarationPrecedence 1053-1069,
                             weight / isNone / weight.Less 1096-1119,
                             preprocessStylesheet 1301-1465 (style rules,
                             @import, @media, "other" at-rules),
                             GetAllComputedStyles 1492-1524 (sheet order),
                             findStylesheets 671-732 (media attribute)
     html/tree/tree.go       matcher.match 224-233
     html/tree/media_query.go evaluateMediaQuery 11-19, parseMediaQuery 21-25
     css/validation/validation.go PreprocessDeclarationsPrelude 548-711
                             (nested-rule flattening)
     css/selector/specificity.go Specificity.Less 9-19,
     css/selector/pseudo_classes.go 70-81 (:is() specificity = max of arguments)

   Model only, no proofs (see CascadeProofs.v).  Nothing in this code indexes,
   dereferences or divides, so the model is in plain Gallina (no res monad).

   A declaration is {property code; unique value id; !important}: values are
   opaque for the cascade, the harness gives every declaration a distinct
   integer value so that the winner can be read back from the computed style. *)
From Coq Require Export List NArith Bool.
Export ListNotations.
Open Scope N_scope.

(* ------------------------------------------------------------------ weights *)

Inductive origin := UA | User | Author.

Definition origin_eqb (a b : origin) : bool :=
  match a, b with UA, UA | User, User | Author, Author => true | _, _ => false end.

(* style.go:1053-1069 declarationPrecedence (origin strings "user agent",
   "user", "author"; importance) *)
Definition declaration_precedence (o : origin) (importance : bool) : N :=
  if origin_eqb o UA then 1
  else if origin_eqb o User && negb importance then 2
  else if origin_eqb o Author && negb importance then 3
  else if origin_eqb o Author then 4
  else 5.

Definition spec3 := (N * N * N)%type.

(* specificity.go:9-19  s < other, strictly (lexicographic over the 3 entries) *)
Definition spec_less (s o : spec3) : bool :=
  let '(a1, b1, c1) := s in
  let '(a2, b2, c2) := o in
  if a1 <? a2 then true else if a2 <? a1 then false
  else if b1 <? b2 then true else if b2 <? b1 then false
  else if c1 <? c2 then true else false.

Definition spec_eqb (s o : spec3) : bool :=
  let '(a1, b1, c1) := s in
  let '(a2, b2, c2) := o in
  (a1 =? a2) && (b1 =? b2) && (c1 =? c2).

Definition spec_add (s o : spec3) : spec3 :=
  let '(a1, b1, c1) := s in
  let '(a2, b2, c2) := o in (a1 + a2, b1 + b2, c1 + c2).

(* pseudo_classes.go:72-80  if max.Less(newSpe) { max = newSpe } *)
Definition spec_max (m n : spec3) : spec3 := if spec_less m n then n else m.

(* style.go:1096-1103 *)
Record weight := mkW { w_prec : N; w_attr : bool; w_spec : spec3 }.

Definition zero_weight := mkW 0 false (0, 0, 0).

Definition weight_eqb (a b : weight) : bool :=
  (w_prec a =? w_prec b) && Bool.eqb (w_attr a) (w_attr b) && spec_eqb (w_spec a) (w_spec b).

(* style.go:1105-1107 isNone: w == weight{} *)
Definition is_none (w : weight) : bool := weight_eqb w zero_weight.

(* style.go:1109-1119 weight.Less: "w <= other" *)
Definition w_less (w o : weight) : bool :=
  if negb (w_prec w =? w_prec o) then w_prec w <? w_prec o
  else if negb (Bool.eqb (w_attr w) (w_attr o)) then w_attr o
  else spec_less (w_spec w) (w_spec o) || spec_eqb (w_spec w) (w_spec o).

(* ------------------------------------------------------------------ declarations, selectors, elements *)

Record decl := mkDecl { d_prop : N; d_vid : N; d_imp : bool }.

(* The fragment of selectors the nesting code manipulates.  SOr only occurs as
   the argument list of :is(); SAmp is the nesting selector `&`. *)
Inductive sel :=
| STag (n : N) | SClass (n : N) | SId (n : N) | SUniv | SRoot | SAmp
| SAnd (a b : sel)       (* compound selector ab *)
| SDesc (a b : sel)      (* a b *)
| SChild (a b : sel)     (* a > b *)
| SIs (a : sel)          (* :is(a) *)
| SOr (a b : sel)        (* a, b  (inside :is()) *)
| SPseudo (k : N) (a : sel).   (* a::k  k = 1 before, 2 after, 3 marker, ...; only outermost *)

Record node := mkNode {
  n_tag : N; n_id : option N; n_classes : list N;
  n_style : list decl;        (* declarations of the style attribute, in order *)
  n_hints : list decl }.      (* declarations findStyleAttributes synthesises from
                                 presentational attributes, in its order *)

(* an element = itself followed by its ancestors up to the root element *)
Definition path := list node.

Fixpoint any_suffix (f : path -> bool) (p : path) : bool :=
  match p with
  | [] => false
  | _ :: r => f p || any_suffix f r
  end.

Definition opt_eqb (o : option N) (n : N) : bool :=
  match o with Some m => m =? n | None => false end.

(* selector.Sel.Match on the fragment *)
Fixpoint matches (s : sel) (p : path) {struct s} : bool :=
  match p with
  | [] => false
  | e :: anc =>
    match s with
    | STag n => n_tag e =? n
    | SClass n => existsb (N.eqb n) (n_classes e)
    | SId n => opt_eqb (n_id e) n
    | SUniv => true
    | SRoot => match anc with [] => true | _ => false end
    | SAmp => false
    | SAnd a b => matches a p && matches b p
    | SDesc a b => matches b p && any_suffix (matches a) anc
    | SChild a b => matches b p && matches a anc
    | SIs a => matches a p
    | SOr a b => matches a p || matches b p
    | SPseudo _ _ => false       (* a pseudo-element is not an element *)
    end
  end.

(* tree.go:224-233 with style.go:99: the selector feeds the cascaded style of
   key (element, sel.PseudoElement()); pseudo = 0 is the element itself *)
Definition applies (s : sel) (pseudo : N) (p : path) : bool :=
  match s with
  | SPseudo k a => (k =? pseudo) && (0 <? pseudo) && matches a p
  | _ => (pseudo =? 0) && matches s p
  end.

(* selector.Sel.Specificity on the fragment *)
Fixpoint specificity (s : sel) : spec3 :=
  match s with
  | STag _ => (0, 0, 1)
  | SClass _ => (0, 1, 0)
  | SId _ => (1, 0, 0)
  | SUniv => (0, 0, 0)
  | SRoot => (0, 1, 0)
  | SAmp => (0, 0, 0)
  | SAnd a b => spec_add (specificity a) (specificity b)
  | SDesc a b => spec_add (specificity a) (specificity b)
  | SChild a b => spec_add (specificity a) (specificity b)
  | SIs a => specificity a
  | SOr a b => spec_max (specificity a) (specificity b)
  | SPseudo _ a => spec_add (specificity a) (0, 0, 1)
  end.

(* ------------------------------------------------------------------ style sheets *)

(* content of a style rule: declarations and nested style rules, in order *)
Inductive body :=
| BNil
| BDecl (d : decl) (rest : body)
| BNest (g : list sel) (inner : body) (rest : body).

(* media types: 0 = all, others = some type (1 print, 2 screen, ...);
   an empty list = no media query written *)
Inductive rules :=
| RNil
| RStyle (g : list sel) (b : body) (rest : rules)
| RMedia (q : list N) (inner : rules) (rest : rules)
| RImport (q : list N) (fetched : bool) (sheet : rules) (rest : rules)
    (* @import url(..) q;  `sheet` is what the URL serves, fetched = false when
       the fetch fails *)
| ROther (rest : rules).   (* an at-rule without declarations for elements that
                              ends the @import prologue: @page, @font-face *)

(* a rule of the flattened list given to the matcher (tree.go:201-204) *)
Definition frule := (list sel * list decl)%type.

(* media_query.go:11-19 with parseMediaQuery 22-25 (empty -> ["all"]) *)
Definition evaluate_media (q : list N) (device : N) : bool :=
  match q with
  | [] => true
  | _ => existsb (fun m => (m =? 0) || (m =? device)) q
  end.

Fixpoint has_amp (s : sel) : bool :=
  match s with
  | SAmp => true
  | SAnd a b | SDesc a b | SChild a b | SOr a b => has_amp a || has_amp b
  | SIs a | SPseudo _ a => has_amp a
  | _ => false
  end.

Fixpoint subst_amp (r s : sel) : sel :=
  match s with
  | SAmp => r
  | SAnd a b => SAnd (subst_amp r a) (subst_amp r b)
  | SDesc a b => SDesc (subst_amp r a) (subst_amp r b)
  | SChild a b => SChild (subst_amp r a) (subst_amp r b)
  | SOr a b => SOr (subst_amp r a) (subst_amp r b)
  | SIs a => SIs (subst_amp r a)
  | SPseudo k a => SPseudo k (subst_amp r a)
  | _ => s
  end.

Fixpoint or_list (g : list sel) : sel :=
  match g with
  | [] => SOr SAmp SAmp          (* never built: selector lists are not empty *)
  | [a] => a
  | a :: r => SOr a (or_list r)
  end.

(* validation.go:572 `is := :is(<prelude>)` *)
Definition parent_is (g : list sel) : sel := SIs (or_list g).

(* validation.go:600-603 prepends the tokens ":is(parent) " to the member: the
   parent becomes the leftmost compound of the complex selector *)
Fixpoint prepend_desc (r s : sel) : sel :=
  match s with
  | SDesc a b => SDesc (prepend_desc r a) b
  | SChild a b => SChild (prepend_desc r a) b
  | SPseudo k a => SPseudo k (prepend_desc r a)
  | _ => SDesc r s
  end.

(* validation.go:587-612: every member of the nested selector list either has its
   `&` replaced by :is(parent) or gets ":is(parent) " prepended *)
Definition resolve (g pre : list sel) : list sel :=
  map (fun s => if has_amp s then subst_amp (parent_is g) s else prepend_desc (parent_is g) s) pre.

(* validation.go:551-562: `&` in a top-level rule is :root *)
Definition resolve_top (g : list sel) : list sel := map (subst_amp SRoot) g.

Definition nonempty {A} (l : list A) : bool := match l with [] => false | _ => true end.

(* validation.go:572-711 PreprocessDeclarationsPrelude, g = the (resolved)
   prelude, own/out = the two local slices *)
Fixpoint flatten_body (g : list sel) (b : body) (own : list decl) (out : list frule) : list frule :=
  match b with
  | BNil =>                                   (* 705-707 *)
      if nonempty own || negb (nonempty out) then out ++ [(g, own)] else out
  | BDecl d rest => flatten_body g rest (own ++ [d]) out     (* 693-700 *)
  | BNest pre inner rest =>
      let contents := flatten_body (resolve g pre) inner [] [] in      (* 613-617 *)
      if nonempty own                                                  (* 620-624 *)
      then flatten_body g rest [] ((out ++ [(g, own)]) ++ contents)
      else flatten_body g rest own (out ++ contents)
  end.

(* style.go:1301-1465 preprocessStylesheet; the shared *matcher is the
   concatenation of the results.  (Rules whose every flattened part is kept:
   pseudo-elements and invalid selectors are not in the modelled fragment.) *)
Fixpoint flatten_rules (device : N) (rs : rules) (ignore_imports : bool) : list frule :=
  match rs with
  | RNil => []
  | RStyle g b rest =>                                        (* 1312-1337 *)
      flatten_body (resolve_top g) b [] [] ++ flatten_rules device rest true
  | RImport q fetched sh rest =>                              (* 1340-1375 *)
      if ignore_imports then flatten_rules device rest ignore_imports
      else if negb (evaluate_media q device) then flatten_rules device rest ignore_imports
      else if fetched then flatten_rules device sh false ++ flatten_rules device rest ignore_imports
      else flatten_rules device rest ignore_imports
  | RMedia q inner rest =>                                    (* 1376-1390 *)
      if evaluate_media q device
      then flatten_rules device inner true ++ flatten_rules device rest true
      else flatten_rules device rest true
  | ROther rest => flatten_rules device rest true             (* 1391-1462: @page, @font-face, @counter-style *)
  end.

(* ------------------------------------------------------------------ the cascade *)

Definition entry := (weight * N)%type.          (* weight, value id *)
Definition cmap := N -> option entry.           (* cascadedStyle: property -> weighted value *)
Definition empty_map : cmap := fun _ => None.

Definition lookup_w (m : cmap) (p : N) : weight :=
  match m p with Some (w, _) => w | None => zero_weight end.

Definition set_entry (m : cmap) (p : N) (e : entry) : cmap :=
  fun q => if q =? p then Some e else m q.

(* style.go:71-76 and 108-113 *)
Definition insert (o : origin) (attr : bool) (sp : spec3) (m : cmap) (d : decl) : cmap :=
  let we := mkW (declaration_precedence o (d_imp d)) attr sp in
  let old := lookup_w m (d_prop d) in
  if is_none old || w_less old we then set_entry m (d_prop d) (we, d_vid d) else m.

(* a sheet as newStyleFor sees it (style.go:1468-1472) *)
Record sheet := mkSheet { sh_origin : origin; sh_forced : option spec3; sh_rules : list frule }.

(* tree.go:224-233 + style.go:93-115 for one element *)
Definition apply_rule (o : origin) (forced : option spec3) (pseudo : N) (p : path) (m : cmap) (r : frule) : cmap :=
  fold_left (fun m s =>
     if applies s pseudo p
     then let sp := match forced with Some f => f | None => specificity s end in
          fold_left (insert o false sp) (snd r) m
     else m) (fst r) m.

Definition apply_sheet (pseudo : N) (p : path) (m : cmap) (sh : sheet) : cmap :=
  fold_left (apply_rule (sh_origin sh) (sh_forced sh) pseudo p) (sh_rules sh) m.

(* a <style>/<link> element: media attribute + content *)
Record author_sheet := mkAuthor { a_media : list N; a_rules : rules }.

Record document := mkDoc {
  doc_device : N;                      (* html.mediaType *)
  doc_hints : bool;                    (* presentationalHints *)
  doc_ua : rules;       doc_ua_device : N;
  doc_ph : rules;       doc_ph_device : N;
  doc_authors : list author_sheet;     (* in document order *)
  doc_users : list (N * rules) }.      (* device the sheet was compiled for, rules *)

(* style.go:686-696: the media attribute filters <style>/<link> *)
Definition find_stylesheets (d : document) : list rules :=
  map a_rules (filter (fun a => evaluate_media (a_media a) (doc_device d)) (doc_authors d)).

(* style.go:1506-1523 *)
Definition all_sheets (d : document) : list sheet :=
  [mkSheet UA None (flatten_rules (doc_ua_device d) (doc_ua d) false)]
  ++ (if doc_hints d then [mkSheet Author (Some (0, 0, 0)) (flatten_rules (doc_ph_device d) (doc_ph d) false)] else [])
  ++ map (fun r => mkSheet Author None (flatten_rules (doc_device d) r false)) (find_stylesheets d)
  ++ map (fun u => mkSheet User None (flatten_rules (fst u) (snd u) false)) (doc_users d).

(* style.go:62-78 with findStyleAttributes 757-768: for one element, first the
   style attribute (specificity (1,0,0), flagged), then its hints (0,0,0)
   (they go to the key (element, "")) *)
Definition attr_pass (d : document) (pseudo : N) (p : path) : cmap :=
  match p with
  | [] => empty_map
  | e :: _ =>
      if pseudo =? 0 then
        let m1 := fold_left (insert Author true (1, 0, 0)) (n_style e) empty_map in
        if doc_hints d then fold_left (insert Author false (0, 0, 0)) (n_hints e) m1 else m1
      else empty_map
  end.

Definition cascade_impl (d : document) (pseudo : N) (p : path) : cmap :=
  fold_left (apply_sheet pseudo p) (all_sheets d) (attr_pass d pseudo p).

(* the observable: id of the cascaded value of property `prop` on element p
   (pseudo = 0) or on its pseudo-element `pseudo` *)
Definition used (d : document) (pseudo : N) (p : path) (prop : N) : option N :=
  match p with
  | [] => None
  | _ => option_map snd (cascade_impl d pseudo p prop)
  end.

(* ------------------------------------------------------------------ presentational attributes *)

(* style.go:845-1020 restricted to the width / height / size attributes (digits
   only) of table, td/th, tr, col, hr and img.  Property codes: 6 width, 7 height.
   Tag codes as in Check/C03.v.  Attribute values are what isDigit accepts. *)
Definition tag_table := 4.  Definition tag_td := 5.  Definition tag_hr := 6.
Definition tag_img := 7.    Definition tag_tr := 10. Definition tag_col := 12.
Definition tag_th := 13.

Definition hint (prop : N) (v : option N) : list decl :=
  match v with Some n => [mkDecl prop n false] | None => [] end.

Definition hints_of (tag : N) (width height size : option N) : list decl :=
  if tag =? tag_table then hint 6 width ++ hint 7 height                    (* 879-892 *)
  else if (tag =? tag_td) || (tag =? tag_th) then hint 7 height ++ hint 6 width   (* 924-941 *)
  else if tag =? tag_tr then hint 7 height                                  (* 924-931 *)
  else if tag =? tag_col then hint 6 width                                  (* 949-956 *)
  else if tag =? tag_hr then                                                (* 957-982; no color/noshade *)
    (match size with
     | Some s => if 1 <? s then [mkDecl 7 (s - 2) false] else []
     | None => [] end) ++ hint 6 width
  else if tag =? tag_img then hint 6 width ++ hint 7 height                 (* 1011-1026 *)
  else [].
