(* Css/CounterAbs.v -- abstraction from the Go-shaped descriptor records of
   Css/Counters.v to the @counter-style rules of Css/CounterSpec.v, and the
   well-formedness conditions (what css/validation and Validate() guarantee)
   under which the specification theorems are stated.  Definitions only. *)
From Verif Require Import Base.GoSem Css.Counters Css.CounterSpec.
From Coq Require Import List ZArith NArith Bool.
Import ListNotations.
Open Scope Z_scope.

Definition abs_tuples (ts : list addsym) : list (Z * sstr) :=
  map (fun a => (ad_w a, symbol (ad_s a))) ts.

Definition abs_sysk (k : sysk) (number : Z) : ssystem :=
  match k with
  | KCyclic | KOther => SCyclic
  | KFixed => SFixed number
  | KSymbolic => SSymbolic
  | KAlphabetic => SAlphabetic
  | KNumeric => SNumeric
  | KAdditive => SAdditive
  end.

(* the system of a descriptor record that does not extend *)
Definition abs_system (d : descr) : ssystem :=
  let '(_, name, number) := system_triple d in abs_sysk (sysk_of name) number.

Definition abs_bound_lo (z : Z) : bound := if z <=? min_int then NegInf else Fin z.
Definition abs_bound_hi (z : Z) : bound := if max_int <=? z then PosInf else Fin z.
Definition abs_rng (r : rng) : bound * bound := let 'Rg lo hi := r in (abs_bound_lo lo, abs_bound_hi hi).

Definition abs_opt_ns (n : nstr) : option sstr := if ns_is_none n then None else Some (symbol n).

Definition abs_def (d : descr) : sdef :=
  SDef (if sy_extends (d_system d) then RExtends (sy_name (d_system d)) else RSys (abs_system d))
       (map symbol (d_symbols d))
       (abs_tuples (d_additive d))
       (if neg_is_zero d then None else Some (symbol (d_neg0 d), symbol (d_neg1 d)))
       (abs_opt_ns (d_prefix d))
       (abs_opt_ns (d_suffix d))
       (if range_is_none d then None
        else if d_range_auto d then Some None else Some (Some (map abs_rng (d_ranges d))))
       (if pad_is_none d then None else Some (d_pad_int d, symbol (d_pad_sym d)))
       (match d_fallback d with [] => None | f => Some f end).

Definition abs_table (c : table) : stable := fun n => option_map abs_def (lookup c n).

(* a resolved record (Extends = "") as a fully specified style *)
Definition absr (d : descr) : rstyle := complete (abs_system d) (abs_def d).

(* ---------------------------------------------------------------- well-formedness *)

Definition is_extends (d : descr) : bool := sy_extends (d_system d).

(* enough symbols for the system: Validate(), counters.go:408-434 *)
Definition enough_symbols (d : descr) : Prop :=
  match abs_system d with
  | SCyclic | SFixed _ | SSymbolic => 1 <= zlen (d_symbols d)
  | SAlphabetic | SNumeric => 2 <= zlen (d_symbols d)
  | SAdditive => 1 <= zlen (d_additive d)
  end.

Definition known_system (d : descr) : Prop :=
  let '(_, name, _) := system_triple d in sysk_of name <> KOther.

Definition nonneg_weights (d : descr) : Prop := Forall (fun a => 0 <= ad_w a) (d_additive d).

(* a record as css/validation + Validate() produce it *)
Definition wf_descr (d : descr) : Prop :=
  nonneg_weights d /\
  if is_extends d then d_symbols d = [] /\ d_additive d = []
  else known_system d /\ enough_symbols d.

(* a resolved record the spec theorems talk about *)
Definition wfr (d : descr) : Prop :=
  is_extends d = false /\ known_system d /\ enough_symbols d /\ nonneg_weights d.

(* decimal is the predefined numeric style over all integers (html5_ua.css;
   ParseCounterStyleName refuses to redefine it) *)
Definition decimal_ok (c : table) : Prop :=
  exists d, lookup c s_decimal = Some d /\
            is_extends d = false /\ abs_system d = SNumeric /\ 2 <= zlen (d_symbols d) /\
            (d_range_auto d || range_is_none d) = true.

Definition wf_table (c : table) : Prop :=
  decimal_ok c /\ forall n d, lookup c n = Some d -> wf_descr d.

(* weaker condition for "never panics, always terminates" *)
Definition total_table (c : table) : Prop :=
  decimal_ok c /\ forall n d, lookup c n = Some d -> nonneg_weights d.

Definition in_i64 (v : Z) : Prop := min_int < v < max_int.
