(* Css/CascadeProofs.v -- the model of Cascade.v meets CascadeSpec.v.

   Structure:
   1. orders: specificity, weights (weight.Less is a total preorder: "<=");
   2. the insertion guard `old.isNone || old.Less(new)` makes every cascaded
      entry the sum of the inserted entries in the monoid "right-biased max"
      (pick), so loops become list concatenations (acts);
   3. a flattened rule with a selector list inserts like its declarations at
      the specificity of the most specific matching selector;
   4. flattening emits declarations in source order (flatten_preserves_order)
      and resolved nested selectors mean what css-nesting says;
   5. blocks of different origin/importance commute, so the implementation's
      sheet order agrees with the specification's order of appearance;
   6. the specification's arg-max over numbered occurrences is that sum. *)
From Verif Require Import Css.Cascade Css.CascadeSpec.
From Coq Require Import List NArith Bool Lia ZifyBool ZifyN.
Import ListNotations.
Open Scope N_scope.

(* ------------------------------------------------------------------ 1. orders *)

Definition spec_leb (s o : spec3) : bool := spec_less s o || spec_eqb s o.

Lemma spec_eqb_eq s o : spec_eqb s o = true <-> s = o.
Proof.
  destruct s as [[a1 b1] c1], o as [[a2 b2] c2]; unfold spec_eqb.
  rewrite !andb_true_iff, !N.eqb_eq. split.
  - intros [[-> ->] ->]; reflexivity.
  - intros H; inversion H; auto.
Qed.

Lemma spec_less_form s o :
  spec_less s o = let '(a1, b1, c1) := s in let '(a2, b2, c2) := o in
                  (a1 <? a2) || ((a1 =? a2) && ((b1 <? b2) || ((b1 =? b2) && (c1 <? c2)))).
Proof.
  destruct s as [[a1 b1] c1], o as [[a2 b2] c2]; unfold spec_less.
  destruct (a1 <? a2) eqn:E1; [reflexivity|]. destruct (a2 <? a1) eqn:E2; [lia|].
  destruct (b1 <? b2) eqn:E3; [lia|]. destruct (b2 <? b1) eqn:E4; [lia|].
  destruct (c1 <? c2) eqn:E5; lia.
Qed.

Lemma spec_leb_lex s o : spec_leb s o = lex_le s o.
Proof.
  unfold spec_leb. rewrite spec_less_form.
  destruct s as [[a1 b1] c1], o as [[a2 b2] c2]; unfold spec_eqb, lex_le. lia.
Qed.

Lemma lex_le_refl s : lex_le s s = true.
Proof. destruct s as [[a b] c]; unfold lex_le. lia. Qed.

Lemma lex_le_total s o : lex_le s o = true \/ lex_le o s = true.
Proof. destruct s as [[a1 b1] c1], o as [[a2 b2] c2]; unfold lex_le. lia. Qed.

Lemma lex_le_trans s o t : lex_le s o = true -> lex_le o t = true -> lex_le s t = true.
Proof. destruct s as [[a1 b1] c1], o as [[a2 b2] c2], t as [[a3 b3] c3]; unfold lex_le. lia. Qed.

Lemma lex_le_antisym s o : lex_le s o = true -> lex_le o s = true -> s = o.
Proof.
  destruct s as [[a1 b1] c1], o as [[a2 b2] c2]; unfold lex_le. intros H1 H2.
  assert (a1 = a2) by lia. assert (b1 = b2) by lia. assert (c1 = c2) by lia. subst. reflexivity.
Qed.

Lemma lex_le_zero s : lex_le (0, 0, 0) s = true.
Proof. destruct s as [[a b] c]; unfold lex_le. lia. Qed.

Lemma lex_max_zero_r s : lex_max s (0, 0, 0) = s.
Proof.
  unfold lex_max. destruct (lex_le s (0,0,0)) eqn:E; auto.
  symmetry. apply lex_le_antisym; auto using lex_le_zero.
Qed.

Lemma spec_max_lex m n : spec_max m n = lex_max m n.
Proof.
  unfold spec_max, lex_max. rewrite <- spec_leb_lex. unfold spec_leb.
  destruct (spec_less m n) eqn:L; simpl; auto.
  destruct (spec_eqb m n) eqn:E; auto. apply spec_eqb_eq in E. congruence.
Qed.

(* weight.Less as a mathematical relation: lexicographic "<=" on
   (precedence, style attribute flag, specificity) *)
Definition weight_le (a b : weight) : Prop :=
  w_prec a < w_prec b \/
  (w_prec a = w_prec b /\
   ((w_attr a = false /\ w_attr b = true) \/
    (w_attr a = w_attr b /\ lex_le (w_spec a) (w_spec b) = true))).

Lemma weight_less_is_le a b : w_less a b = true <-> weight_le a b.
Proof.
  unfold w_less, weight_le. fold (spec_leb (w_spec a) (w_spec b)). rewrite spec_leb_lex.
  destruct (N.eqb_spec (w_prec a) (w_prec b)) as [E|E]; simpl.
  - destruct (w_attr a), (w_attr b); simpl; split; intros H; auto; try lia; try discriminate;
      try (destruct H as [H|[_ [[H1 H2]|[H1 H2]]]]; try lia; try discriminate; auto).
  - rewrite N.ltb_lt. split; [auto|]. intros [H|[H _]]; [auto|contradiction].
Qed.

Lemma w_less_refl a : w_less a a = true.
Proof. apply weight_less_is_le. right. split; auto. right. split; auto. apply lex_le_refl. Qed.

Lemma w_less_total a b : w_less a b = true \/ w_less b a = true.
Proof.
  rewrite !weight_less_is_le. unfold weight_le.
  destruct (N.lt_trichotomy (w_prec a) (w_prec b)) as [H|[H|H]]; auto.
  destruct (w_attr a) eqn:Ea, (w_attr b) eqn:Eb.
  - destruct (lex_le_total (w_spec a) (w_spec b)); [left|right]; right; split; auto.
  - right. right. split; auto.
  - left. right. split; auto.
  - destruct (lex_le_total (w_spec a) (w_spec b)); [left|right]; right; split; auto.
Qed.

Lemma w_less_trans a b c : w_less a b = true -> w_less b c = true -> w_less a c = true.
Proof.
  rewrite !weight_less_is_le. unfold weight_le.
  intros [H1|[H1 H1']] [H2|[H2 H2']]; try (left; lia).
  right. split; [lia|].
  destruct H1' as [[A1 A2]|[A1 A2]], H2' as [[B1 B2]|[B1 B2]]; try congruence.
  - left. split; congruence.
  - left. split; congruence.
  - right. split; [congruence|]. eapply lex_le_trans; eauto.
Qed.

(* ------------------------------------------------------------------ 2. the pick monoid *)

Definition pick (x y : entry) : entry := if w_less (fst x) (fst y) then y else x.

Definition omerge (a b : option entry) : option entry :=
  match a, b with
  | None, _ => b
  | _, None => a
  | Some x, Some y => Some (pick x y)
  end.

Lemma pick_assoc x y z : pick (pick x y) z = pick x (pick y z).
Proof.
  unfold pick.
  destruct (w_less (fst x) (fst y)) eqn:XY, (w_less (fst y) (fst z)) eqn:YZ; simpl; rewrite ?XY, ?YZ; auto.
  - rewrite (w_less_trans _ _ _ XY YZ). reflexivity.
  - destruct (w_less (fst x) (fst z)) eqn:XZ; auto.
    (* x > y, y > z, but x <= z: impossible *)
    destruct (w_less_total (fst x) (fst y)) as [H|H]; [congruence|].
    destruct (w_less_total (fst y) (fst z)) as [H'|H']; [congruence|].
    pose proof (w_less_trans _ _ _ XZ H'). congruence.
Qed.

Lemma omerge_assoc a b c : omerge (omerge a b) c = omerge a (omerge b c).
Proof. destruct a, b, c; simpl; auto. rewrite pick_assoc. reflexivity. Qed.

Lemma omerge_None_r a : omerge a None = a.
Proof. destruct a; reflexivity. Qed.

Definition opick (a : option entry) (e : entry) : option entry := omerge a (Some e).
Definition sumE (l : list entry) : option entry := fold_left opick l None.

Lemma fold_opick l a : fold_left opick l a = omerge a (sumE l).
Proof.
  unfold sumE. revert a. induction l as [|e l IH]; intros a; cbn [fold_left].
  - rewrite omerge_None_r. reflexivity.
  - rewrite IH. rewrite (IH (opick None e)). unfold opick. rewrite omerge_assoc. reflexivity.
Qed.

Lemma sumE_app l1 l2 : sumE (l1 ++ l2) = omerge (sumE l1) (sumE l2).
Proof. unfold sumE at 1. rewrite fold_left_app. fold (sumE l1). apply fold_opick. Qed.

Lemma sumE_nil : sumE [] = None.
Proof. reflexivity. Qed.

Lemma sumE_one e : sumE [e] = Some e.
Proof. reflexivity. Qed.

Lemma sumE_cons e l : sumE (e :: l) = omerge (Some e) (sumE l).
Proof. change (e :: l) with ([e] ++ l). rewrite sumE_app. reflexivity. Qed.

Lemma sumE_in l e : sumE l = Some e -> In e l.
Proof.
  revert e. induction l as [|x l IH] using rev_ind; intros e; [discriminate|].
  rewrite sumE_app, sumE_one. destruct (sumE l) as [y|] eqn:S; simpl.
  - unfold pick. destruct (w_less (fst y) (fst x)); intros [= <-]; apply in_or_app; simpl; auto.
  - intros [= <-]. apply in_or_app; simpl; auto.
Qed.

Lemma sumE_flat_map {A} (f g : A -> list entry) l :
  (forall a, In a l -> sumE (f a) = sumE (g a)) -> sumE (flat_map f l) = sumE (flat_map g l).
Proof.
  induction l as [|a l IH]; intros H; simpl; auto.
  rewrite !sumE_app, (H a) by (simpl; auto). rewrite IH; auto. intros; apply H; simpl; auto.
Qed.

Lemma sumE_app_congr a a' b b' : sumE a = sumE a' -> sumE b = sumE b' -> sumE (a ++ b) = sumE (a' ++ b').
Proof. intros; rewrite !sumE_app; congruence. Qed.

(* ------------------------------------------------------------------ 2b. loops as concatenations *)

(* f inserts, for every property p, the entries E p (in order) *)
Definition acts (f : cmap -> cmap) (E : N -> list entry) : Prop :=
  forall m p, f m p = omerge (m p) (sumE (E p)).

Lemma acts_id : acts (fun m => m) (fun _ => []).
Proof. intros m p. rewrite sumE_nil, omerge_None_r. reflexivity. Qed.

Lemma acts_comp f g E F : acts f E -> acts g F -> acts (fun m => g (f m)) (fun p => E p ++ F p).
Proof. intros Hf Hg m p. rewrite Hg, Hf, sumE_app, omerge_assoc. reflexivity. Qed.

Lemma acts_ext f E E' : acts f E -> (forall p, E p = E' p) -> acts f E'.
Proof. intros H HE m p. rewrite <- HE. apply H. Qed.

Lemma acts_fold {A} (step : cmap -> A -> cmap) (Ev : A -> N -> list entry) l :
  (forall a, acts (fun m => step m a) (Ev a)) ->
  acts (fun m => fold_left step l m) (fun p => flat_map (fun a => Ev a p) l).
Proof.
  intros H. induction l as [|a l IH]; simpl.
  - apply acts_id.
  - apply (acts_comp (fun m => step m a) (fun m => fold_left step l m)); auto.
Qed.

Lemma precedence_pos o i : 1 <= declaration_precedence o i.
Proof. destruct o, i; cbv; discriminate. Qed.

Definition decl_ev (o : origin) (attr : bool) (sp : spec3) (d : decl) (p : N) : list entry :=
  if d_prop d =? p then [(mkW (declaration_precedence o (d_imp d)) attr sp, d_vid d)] else [].

Lemma is_none_less w we : is_none w = true -> 1 <= w_prec we -> w_less w we = true.
Proof.
  unfold is_none, weight_eqb, w_less. simpl. intros H Hp.
  assert (w_prec w = 0) by lia.
  destruct (N.eqb_spec (w_prec w) (w_prec we)); simpl; lia.
Qed.

Lemma acts_insert o attr sp d : acts (fun m => insert o attr sp m d) (decl_ev o attr sp d).
Proof.
  intros m p. unfold insert, decl_ev, lookup_w.
  set (we := mkW (declaration_precedence o (d_imp d)) attr sp).
  assert (Hwe : 1 <= w_prec we) by apply precedence_pos.
  destruct (N.eqb_spec (d_prop d) p) as [->|Hne].
  - rewrite sumE_one. destruct (m p) as [[w0 v0]|] eqn:Em.
    + simpl. unfold pick; simpl.
      destruct (is_none w0) eqn:Hn; simpl.
      * rewrite (is_none_less _ _ Hn Hwe). unfold set_entry. rewrite N.eqb_refl. reflexivity.
      * destruct (w_less w0 we); [unfold set_entry; rewrite N.eqb_refl; reflexivity|auto].
    + simpl. unfold set_entry. rewrite N.eqb_refl. reflexivity.
  - rewrite sumE_nil, omerge_None_r.
    destruct (is_none _ || w_less _ _); auto.
    unfold set_entry. destruct (N.eqb_spec p (d_prop d)); [congruence|reflexivity].
Qed.

(* ------------------------------------------------------------------ 3. the entries the model inserts *)

Definition forced_spec (forced : option spec3) (s : sel) : spec3 :=
  match forced with Some f => f | None => specificity s end.

Definition rule_ev (o : origin) (forced : option spec3) (path : path) (r : frule) (p : N) : list entry :=
  flat_map (fun s => if matches s path
                     then flat_map (fun d => decl_ev o false (forced_spec forced s) d p) (snd r)
                     else []) (fst r).

Lemma acts_apply_rule o forced path r :
  acts (fun m => apply_rule o forced path m r) (rule_ev o forced path r).
Proof.
  unfold apply_rule, rule_ev.
  apply (acts_fold (fun m s => if matches s path then fold_left (insert o false (forced_spec forced s)) (snd r) m else m)
                   (fun s p => if matches s path then flat_map (fun d => decl_ev o false (forced_spec forced s) d p) (snd r) else [])).
  intros s. destruct (matches s path).
  - apply (acts_fold (insert o false (forced_spec forced s)) (fun d p => decl_ev o false (forced_spec forced s) d p)).
    intros d. apply acts_insert.
  - apply acts_id.
Qed.

Definition sheet_ev (path : path) (sh : sheet) (p : N) : list entry :=
  flat_map (fun r => rule_ev (sh_origin sh) (sh_forced sh) path r p) (sh_rules sh).

Lemma acts_apply_sheet path sh : acts (fun m => apply_sheet path m sh) (sheet_ev path sh).
Proof.
  unfold apply_sheet, sheet_ev.
  apply (acts_fold (apply_rule (sh_origin sh) (sh_forced sh) path)
                   (fun r p => rule_ev (sh_origin sh) (sh_forced sh) path r p)).
  intros r. apply acts_apply_rule.
Qed.

Definition attr_ev (d : document) (path : path) (p : N) : list entry :=
  match path with
  | [] => []
  | e :: _ =>
      flat_map (fun dc => decl_ev Author true (1, 0, 0) dc p) (n_style e)
      ++ (if doc_hints d then flat_map (fun dc => decl_ev Author false (0, 0, 0) dc p) (n_hints e) else [])
  end.

Definition impl_ev (d : document) (path : path) (p : N) : list entry :=
  attr_ev d path p ++ flat_map (fun sh => sheet_ev path sh p) (all_sheets d).

Lemma attr_pass_ev d path p : attr_pass d path p = sumE (attr_ev d path p).
Proof.
  unfold attr_pass, attr_ev. destruct path as [|e anc]; [reflexivity|].
  pose proof (acts_fold (insert Author true (1,0,0)) (fun dc p => decl_ev Author true (1,0,0) dc p) (n_style e)
                (fun dc => acts_insert Author true (1,0,0) dc)) as H1.
  pose proof (acts_fold (insert Author false (0,0,0)) (fun dc p => decl_ev Author false (0,0,0) dc p) (n_hints e)
                (fun dc => acts_insert Author false (0,0,0) dc)) as H2.
  destruct (doc_hints d).
  - rewrite H2, H1, sumE_app. reflexivity.
  - rewrite H1, app_nil_r. reflexivity.
Qed.

Lemma cascade_impl_ev d path p : cascade_impl d path p = sumE (impl_ev d path p).
Proof.
  unfold cascade_impl, impl_ev.
  pose proof (acts_fold (apply_sheet path) (fun sh p => sheet_ev path sh p) (all_sheets d)
                (fun sh => acts_apply_sheet path sh)) as H.
  rewrite H, attr_pass_ev, sumE_app. reflexivity.
Qed.

(* ------------------------------------------------------------------ 4. a selector list inserts at its best matching specificity *)

Definition lift (sp : spec3) (attr : bool) (b : option (N * N)) : option entry :=
  option_map (fun pv => (mkW (fst pv) attr sp, snd pv)) b.

Definition ppick (a : option (N * N)) (x : N * N) : option (N * N) :=
  match a with
  | None => Some x
  | Some y => if fst y <=? fst x then Some x else Some y
  end.

Definition bstep (o : origin) (p : N) (acc : option (N * N)) (d : decl) : option (N * N) :=
  if d_prop d =? p then ppick acc (declaration_precedence o (d_imp d), d_vid d) else acc.

(* the declaration of ds for p with the greatest precedence, the last one on ties *)
Definition bestd (o : origin) (ds : list decl) (p : N) : option (N * N) := fold_left (bstep o p) ds None.

Definition block (o : origin) (attr : bool) (sp : spec3) (ds : list decl) (p : N) : list entry :=
  flat_map (fun d => decl_ev o attr sp d p) ds.

Lemma w_less_same_spec p1 p2 attr sp : w_less (mkW p1 attr sp) (mkW p2 attr sp) = (p1 <=? p2).
Proof.
  unfold w_less; simpl. rewrite eqb_reflx; simpl.
  fold (spec_leb sp sp). rewrite spec_leb_lex, lex_le_refl.
  destruct (N.eqb_spec p1 p2); simpl; lia.
Qed.

Lemma block_sum_gen o attr sp p ds acc :
  fold_left opick (block o attr sp ds p) (lift sp attr acc) = lift sp attr (fold_left (bstep o p) ds acc).
Proof.
  revert acc. induction ds as [|d ds IH]; intros acc; [reflexivity|].
  unfold block in *. cbn [flat_map fold_left]. rewrite fold_left_app.
  assert (H : fold_left opick (decl_ev o attr sp d p) (lift sp attr acc) = lift sp attr (bstep o p acc d)).
  { unfold decl_ev, bstep. destruct (d_prop d =? p); [|reflexivity].
    cbn [fold_left]. destruct acc as [[p0 v0]|]; [|reflexivity].
    unfold opick, lift, ppick. cbn [option_map omerge fst snd]. unfold pick. cbn [fst snd].
    rewrite w_less_same_spec.
    destruct (p0 <=? _); reflexivity. }
  rewrite H. apply IH.
Qed.

Lemma block_sum o attr sp ds p : sumE (block o attr sp ds p) = lift sp attr (bestd o ds p).
Proof. apply (block_sum_gen o attr sp p ds None). Qed.

Lemma lift_merge s1 s2 b : omerge (lift s1 false b) (lift s2 false b) = lift (lex_max s1 s2) false b.
Proof.
  destruct b as [[p v]|]; [|reflexivity]. unfold lift, lex_max; simpl. unfold pick; simpl.
  unfold w_less; simpl. rewrite N.eqb_refl; simpl.
  fold (spec_leb s1 s2). rewrite spec_leb_lex. destruct (lex_le s1 s2); reflexivity.
Qed.

(* specificity the rule has for the element *)
Definition rule_rank (forced : option spec3) (g : list sel) (path : path) : spec3 :=
  match forced with
  | Some f => f
  | None => fold_right (fun s acc => if matches s path then lex_max (specificity s) acc else acc) (0, 0, 0) g
  end.

Definition group_matches (g : list sel) (path : path) : bool := existsb (fun s => matches s path) g.

Lemma rank_no_match g path :
  group_matches g path = false ->
  fold_right (fun s acc => if matches s path then lex_max (specificity s) acc else acc) (0, 0, 0) g = (0, 0, 0).
Proof.
  induction g as [|s g IH]; simpl; auto.
  destruct (matches s path); simpl; [discriminate|auto].
Qed.

Lemma lex_max_idem s : lex_max s s = s.
Proof. unfold lex_max. destruct (lex_le s s); reflexivity. Qed.

Lemma rule_ev_sum o forced path g ds p :
  sumE (rule_ev o forced path (g, ds) p) =
  if group_matches g path then sumE (block o false (rule_rank forced g path) ds p) else None.
Proof.
  unfold rule_ev; cbn [fst snd]. fold (block o false).
  induction g as [|s g IH]; [reflexivity|].
  cbn [flat_map]. rewrite sumE_app, IH. unfold group_matches in *. cbn [existsb].
  destruct (matches s path) eqn:Ms; cbn [orb].
  - fold (block o false (forced_spec forced s) ds p). rewrite block_sum.
    destruct (existsb (fun s0 => matches s0 path) g) eqn:Eg.
    + rewrite block_sum, lift_merge, block_sum. f_equal.
      unfold rule_rank, forced_spec. destruct forced; [apply lex_max_idem|].
      cbn [fold_right]. rewrite Ms. reflexivity.
    + rewrite omerge_None_r, block_sum. f_equal.
      unfold rule_rank, forced_spec. destruct forced; [reflexivity|].
      cbn [fold_right]. rewrite Ms, (rank_no_match g path Eg), lex_max_zero_r. reflexivity.
  - rewrite sumE_nil. cbn [omerge].
    destruct (existsb (fun s0 => matches s0 path) g); [|reflexivity].
    f_equal. unfold rule_rank. destruct forced; [reflexivity|]. cbn [fold_right]. rewrite Ms. reflexivity.
Qed.

(* one (selector list, declaration) pair *)
Definition pair_ev (o : origin) (forced : option spec3) (path : path) (p : N) (gd : list sel * decl) : list entry :=
  if group_matches (fst gd) path then decl_ev o false (rule_rank forced (fst gd) path) (snd gd) p else [].

Definition pairs (l : list frule) : list (list sel * decl) :=
  flat_map (fun r => map (pair (fst r)) (snd r)) l.

Lemma flat_map_nil {A B} (l : list A) : flat_map (fun _ => @nil B) l = [].
Proof. induction l; simpl; auto. Qed.

Lemma flat_map_flat_map {A B C} (f : B -> list C) (h : A -> list B) l :
  flat_map f (flat_map h l) = flat_map (fun x => flat_map f (h x)) l.
Proof. induction l; simpl; auto. rewrite flat_map_app. congruence. Qed.

Lemma flat_map_map {A B C} (f : B -> list C) (h : A -> B) l :
  flat_map f (map h l) = flat_map (fun x => f (h x)) l.
Proof. induction l; simpl; congruence. Qed.

Lemma rule_ev_pairs o forced path r p :
  sumE (rule_ev o forced path r p) = sumE (flat_map (pair_ev o forced path p) (map (pair (fst r)) (snd r))).
Proof.
  destruct r as [g ds]. rewrite rule_ev_sum. cbn [fst snd]. rewrite flat_map_map.
  unfold pair_ev; cbn [fst snd]. destruct (group_matches g path).
  - reflexivity.
  - rewrite flat_map_nil. reflexivity.
Qed.

Lemma sheet_ev_pairs path sh p :
  sumE (sheet_ev path sh p) = sumE (flat_map (pair_ev (sh_origin sh) (sh_forced sh) path p) (pairs (sh_rules sh))).
Proof.
  unfold sheet_ev, pairs. rewrite flat_map_flat_map.
  apply sumE_flat_map. intros r _. apply rule_ev_pairs.
Qed.
